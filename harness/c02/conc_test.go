package c02

// Ramp scenarios (sequential) and concurrent bursts on the public API.
//
// Concurrent bursts run with the virtual clock frozen, on shedders whose threshold is far
// below 0 (every CPU reading is "overloaded", factor pinned at 0.1) or above 1000 (never
// overloaded): the capacity estimate ignores the current bucket and is therefore constant
// during a burst. Each Allow is judged with happens-before bounds from logical stamps.

import (
	"fmt"
	"math"
	"sort"
	"sync"
	"time"

	"github.com/zeromicro/go-zero/core/load"

	"verifharness/kit"
)

func runRamp(c *kit.Case, vc *kit.VClock) {
	r := c.R
	vc.Advance(time.Duration(r.Intn(777)) * time.Millisecond)
	cf := cfg{Window: kit.Choose(r, []time.Duration{time.Second, 5 * time.Second}), Buckets: kit.Choose(r, []int{1, 5, 50}),
		Th: kit.Choose(r, []int64{-99000, -99000, 100, 900}), Group: r.Chance(0.1)}
	s := newSeq(c, vc, cf)
	if r.Chance(0.6) { // warm-up shaping the capacity estimate
		for b := r.Range(1, 3); b > 0; b-- {
			for k := r.Range(1, 6); k > 0; k-- {
				if !s.allow(0) {
					s.resolve(time.Duration(r.Range(1, 40))*time.Millisecond, len(s.held)-1, true)
				}
			}
			s.allow(s.gap(r, 3))
		}
	}
	_, capv := s.m.capacity(vc.Now())
	level := int64(capv*kit.Choose(r, []float64{0.05, 0.1, 0.5, 1, 1.2, 2})) + int64(r.Intn(4)) - 1
	if level > 100 {
		level = int64(r.Range(1, 100))
	}
	s.note = ""
	for n := 0; int64(len(s.held)) < level && n < 300 && !c.Violated(); n++ {
		s.allow(time.Duration(r.Intn(2)) * time.Microsecond)
	}
	passP := kit.Choose(r, []float64{0, 0, 0.5})
	for i, n := 0, r.Range(0, 45); i < n && !c.Violated(); i++ { // churn: the average follows the level
		if !s.allow(time.Duration(r.Intn(3))*time.Microsecond) && len(s.held) > 0 {
			s.resolve(0, 0, r.Chance(passP))
		} else if len(s.held) > 0 && r.Chance(0.3) {
			s.resolve(0, 0, r.Chance(passP))
		}
	}
	for k := r.Range(2, 8); k > 0 && !c.Violated(); k-- {
		s.allow(s.gap(r, kit.Choose(r, []int{1, 4, 4, 7})))
	}
	if r.Bool() { // nothing in flight while the average is still high
		s.note = ""
		for len(s.held) > 0 && !c.Violated() {
			s.resolve(0, 0, r.Chance(0.3))
		}
		for k := 3; k > 0 && !c.Violated(); k-- {
			if !s.allow(time.Duration(r.Intn(3)) * time.Millisecond) {
				s.resolve(0, len(s.held)-1, false)
			}
		}
	}
	s.finish(r)
	if s.nontrivial {
		c.Sample("bb-ramp-nontrivial", 1, s.witness("ramp scenario"))
	}
}

type cev struct {
	allow, shed, pass bool
	inv, ret          uint64
	g                 int
}

type done struct {
	start time.Duration
	pass  bool
}

type worker struct {
	g    int
	held []held
	ev   []cev
	ops  []byte
	done []done
	bad  string
}

func (w *worker) run(sh load.Shedder, now time.Duration) {
	for _, op := range w.ops {
		if op != 'A' && len(w.held) == 0 {
			op = 'A'
		}
		if op == 'A' {
			e := cev{allow: true, g: w.g, inv: kit.Stamp()}
			p, err := sh.Allow()
			e.ret = kit.Stamp()
			e.shed = err != nil
			if err != nil && err != load.ErrServiceOverloaded {
				w.bad = "Allow returned " + err.Error()
			}
			if err == nil && p == nil {
				w.bad, e.shed = "Allow returned neither promise nor error", true
			}
			if !e.shed {
				w.held = append(w.held, held{p, now, -1})
			}
			w.ev = append(w.ev, e)
			continue
		}
		h := w.held[0]
		w.held = w.held[1:]
		e := cev{pass: op == 'P', g: w.g, inv: kit.Stamp()}
		if e.pass {
			h.p.Pass()
		} else {
			h.p.Fail()
		}
		e.ret = kit.Stamp()
		w.ev = append(w.ev, e)
		w.done = append(w.done, done{h.start, e.pass})
	}
}

func countLess(sorted []uint64, x uint64) int64 {
	return int64(sort.Search(len(sorted), func(i int) bool { return sorted[i] >= x }))
}

// burst runs G goroutines x ops on s (clock frozen after the initial gap) and judges every Allow.
func (s *seq) burst(r *kit.Rand, G, ops int, allowP, passP float64, gap time.Duration, no int) bool {
	t := s.vc.Advance(gap)
	over := s.cfg.Th < 0
	trigger := over || s.m.hotMay(t)
	capLo, capHi := s.m.capacity(t)
	F0 := s.m.flying
	ws := make([]*worker, G)
	for g := range ws {
		w := &worker{g: g, ops: make([]byte, ops)}
		for i := range w.ops {
			switch {
			case r.Chance(allowP):
				w.ops[i] = 'A'
			case r.Chance(passP):
				w.ops[i] = 'P'
			default:
				w.ops[i] = 'F'
			}
		}
		ws[g] = w
	}
	for i, h := range s.held {
		ws[i%G].held = append(ws[i%G].held, h)
	}
	s.held = nil
	start := make(chan struct{})
	var wg sync.WaitGroup
	for _, w := range ws {
		wg.Add(1)
		go func(w *worker) { defer wg.Done(); <-start; w.run(s.sh, t) }(w)
	}
	close(start)
	fin := make(chan struct{})
	go func() { wg.Wait(); close(fin) }()
	select {
	case <-fin:
	case <-time.After(120 * time.Second):
		s.c.Inconclusive("concurrent burst did not finish within the 120 s watchdog")
		return false
	}
	var evs []cev
	var admInv, admRet, resInv, resRet []uint64
	for _, w := range ws {
		if w.bad != "" {
			s.c.Viol("C02/api/unexpected-result", w.bad, s.witness("concurrent burst"))
		}
		for _, h := range w.held {
			if h.id < 0 {
				h.id = s.next
				s.next++
			}
			s.held = append(s.held, h)
		}
		for _, e := range w.ev {
			evs = append(evs, e)
			if e.allow && !e.shed {
				admInv, admRet = append(admInv, e.inv), append(admRet, e.ret)
			} else if !e.allow {
				resInv, resRet = append(resInv, e.inv), append(resRet, e.ret)
			}
		}
	}
	for _, xs := range [][]uint64{admInv, admRet, resInv, resRet} {
		sort.Slice(xs, func(i, j int) bool { return xs[i] < xs[j] })
	}
	A, R := int64(len(admInv)), int64(len(resInv))
	// moving average: after k resolutions avg_k >= 0.9^k*avg_0 + (1-0.9^k)*min(in flight after a resolution)
	d := math.Pow(0.9, float64(R))
	endLo := s.m.avgLo*d + math.Max(0, float64(F0-R))*(1-d)
	endHi := s.m.avgHi*d + float64(F0+A-1)*(1-d)
	lo := math.Min(s.m.avgLo, endLo)
	sort.Slice(evs, func(i, j int) bool { return evs[i].inv < evs[j].inv })
	desc := fmt.Sprintf("burst %d: +%v (over=%v hot=%v) %d goroutines x %d ops, capacity [%.4g,%.4g], in flight at start %d, avg in [%.4g,%.4g]",
		no, gap, over, s.m.hot(t), G, ops, capLo, capHi, F0, s.m.avgLo, s.m.avgHi)
	s.log = append(s.log, desc)
	var sheds, legal, must, allows int64
	for i := range evs {
		e := &evs[i]
		if !e.allow {
			continue
		}
		allows++
		self := int64(0)
		if !e.shed {
			self = 1
		}
		fmax := F0 + countLess(admInv, e.ret) - self - countLess(resRet, e.inv)
		fmin := F0 + countLess(admRet, e.inv) - countLess(resInv, e.ret)
		if trigger && float64(fmax) > lowBound*capLo {
			legal++
		}
		mustShed := over && float64(fmin) > capHi*(1+eps) && lo > capHi*(1+eps)
		if mustShed {
			must++
		}
		wit := func() map[string]any {
			w := s.witness(desc)
			w["allow"] = map[string]any{"goroutine": e.g, "inv": e.inv, "ret": e.ret, "shed": e.shed, "in_flight_min": fmin, "in_flight_max": fmax}
			w["events"] = evDump(evs)
			return w
		}
		if e.shed {
			sheds++
			if !trigger {
				s.c.Viol("C02/shed-without-overload/concurrent", "Allow shed in a burst during which the CPU cannot have been at/above the threshold and the shedder was not hot", wit())
			}
			if float64(fmax) <= lowBound*capLo*(1-eps) {
				k := "some-in-flight"
				if fmax <= 0 {
					k = "nothing-in-flight"
				}
				s.c.Viol("C02/shed-below-10pct-capacity/concurrent-"+k, fmt.Sprintf("Allow shed although at most %d requests can have been in flight (10%% of capacity %.4g not exceeded)", fmax, capLo), wit())
			}
		} else if mustShed {
			s.c.Viol("C02/no-shed-above-full-capacity/concurrent", fmt.Sprintf("Allow admitted although CPU overloaded, at least %d in flight and average >= %.4g, capacity %.4g", fmin, lo, capHi), wit())
		}
	}
	if allows > 0 {
		if over {
			s.m.lastOver, s.m.everOver = t, true
		} else {
			s.m.noteBelow(t)
		}
	}
	if sheds > 0 {
		s.m.dropped, s.m.dropMay = true, true
	}
	s.m.drops += sheds
	s.m.admitted += A
	s.m.flying += A - R
	s.m.resolved += R
	for _, w := range ws {
		for _, dn := range w.done {
			if dn.pass {
				s.m.recordPass(t, dn.start)
			}
		}
	}
	s.m.avgLo, s.m.avgHi = endLo, endHi
	kit.Obs("bb_conc_bursts", 1)
	kit.Obs("bb_conc_allows", allows)
	kit.Obs("bb_conc_sheds", sheds)
	kit.Obs("bb_conc_resolutions", R)
	kit.Obs("bb_conc_allow_where_shedding_legal", legal)
	kit.Obs("bb_conc_allow_where_shedding_required", must)
	if legal > 0 {
		s.nontrivial = true
	}
	fmt.Fprintf(&s.sig, "B%s;", kit.InterleavingSig(toEvents(evs), func(e kit.Event) string { return e.Op }))
	return !s.c.Violated()
}

func toEvents(evs []cev) []kit.Event {
	var out []kit.Event
	for _, e := range evs {
		k := "R"
		if e.allow {
			k = "A"
			if e.shed {
				k = "S"
			}
		}
		out = append(out, kit.Event{S: e.inv, Op: k + "i"}, kit.Event{S: e.ret, Op: k + "r"})
	}
	sort.Slice(out, func(i, j int) bool { return out[i].S < out[j].S })
	return out
}

func evDump(evs []cev) []string {
	out := make([]string, 0, len(evs))
	for _, e := range evs {
		k := "Fail"
		switch {
		case e.allow && e.shed:
			k = "Allow->SHED"
		case e.allow:
			k = "Allow->admitted"
		case e.pass:
			k = "Pass"
		}
		out = append(out, fmt.Sprintf("g%d [%d,%d] %s", e.g, e.inv, e.ret, k))
		if len(out) >= 400 {
			return append(out, "... (truncated)")
		}
	}
	return out
}
