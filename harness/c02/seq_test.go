package c02

// Sequential histories on the public API, judged step by step against the model.

import (
	"fmt"
	"strings"
	"time"

	"github.com/zeromicro/go-zero/core/load"

	"verifharness/kit"
)

type held struct {
	p     load.Promise
	start time.Duration
	id    int
}

type seq struct {
	c    *kit.Case
	vc   *kit.VClock
	cfg  cfg
	sh   load.Shedder
	m    *model
	held []held
	next int
	log  []string
	sig  strings.Builder

	nontrivial bool
	note       string
}

func build(c cfg) load.Shedder {
	var opts []load.ShedderOption
	if !c.Default {
		opts = []load.ShedderOption{load.WithWindow(c.Window), load.WithBuckets(c.Buckets), load.WithCpuThreshold(c.Th)}
	}
	if c.Group {
		g := load.NewShedderGroup(opts...)
		s := g.GetShedder("k")
		g.GetShedder("other")
		return s
	}
	return load.NewAdaptiveShedder(opts...)
}

func newSeq(c *kit.Case, vc *kit.VClock, cf cfg) *seq {
	if cf.Default {
		cf.Window, cf.Buckets, cf.Th = 5*time.Second, 50, 900
	}
	s := &seq{c: c, vc: vc, cfg: cf}
	t0 := vc.Now()
	s.sh = build(cf)
	s.m = newModel(cf, t0)
	fmt.Fprintf(&s.sig, "%v|", cf)
	return s
}

func (s *seq) witness(extra string) map[string]any {
	return map[string]any{"config": s.cfg.String(), "t0": s.m.t0.String(), "bucket": s.m.bd.String(),
		"history": append([]string(nil), s.log...), "detail": extra,
		"how_to_read": "+gap = virtual time advanced before the step; cpu = stat.CpuUsage() read after the Allow (over?=verdict inferred from the readings before/after, '?' = unknown); #n = promise of the n-th admitted Allow"}
}

func (s *seq) gapStr(gap time.Duration) string {
	g := "+" + gap.String()
	if s.note != "" {
		g += "(" + s.note + ")"
	}
	return g
}

func (s *seq) allow(gap time.Duration) (shed bool) {
	t := s.vc.Advance(gap)
	p := s.m.preOf(t)
	pn := pinStart()
	pr, err := s.sh.Allow()
	pn.end(s.cfg.Th, &p)
	shed = err != nil
	ov := "?"
	if p.OverKnown {
		ov = fmt.Sprint(p.Over)
	}
	res := "SHED"
	if !shed {
		res = fmt.Sprintf("admitted #%d", s.next)
	}
	s.log = append(s.log, fmt.Sprintf("%s cpu=%d over=%s Allow -> %s", s.gapStr(gap), p.Cpu, ov, res))
	if shed && err != load.ErrServiceOverloaded {
		s.c.Viol("C02/api/unexpected-error", "Allow returned an error other than ErrServiceOverloaded: "+err.Error(), s.witness(""))
	}
	if !shed && pr == nil {
		s.c.Viol("C02/api/nil-promise", "Allow returned neither a promise nor an error", s.witness(""))
		shed = true
	}
	for _, f := range judge(p, shed) {
		s.c.Viol(f.key, f.what, s.witness(fmt.Sprintf("pre-state of the last Allow: %+v", p)))
	}
	legal := (!p.OverKnown || p.Over || p.HotMay) && float64(p.Flying) > lowBound*p.CapLo
	must := p.OverKnown && p.Over && float64(p.Flying) > p.CapHi && p.AvgLo > p.CapHi
	if legal {
		s.nontrivial = true
		kit.Obs("bb_allow_in_state_where_shedding_is_legal", 1)
	}
	if must {
		kit.Obs("bb_allow_in_state_where_shedding_is_required", 1)
	}
	if !p.OverKnown {
		kit.Obs("bb_allow_cpu_verdict_unknown", 1)
	} else if p.Over {
		kit.Obs("bb_allow_cpu_overloaded", 1)
	} else {
		kit.Obs("bb_allow_cpu_below", 1)
		if p.Hot {
			kit.Obs("bb_allow_while_hot_cpu_below", 1)
		}
	}
	if p.Pinned && p.OverKnown && !p.Uncertain && (p.Over || p.Hot) {
		kit.Obs("bb_exact_decision_checked", 1)
	}
	if shed {
		kit.Obs("bb_sheds", 1)
	} else {
		kit.Obs("bb_admits", 1)
	}
	s.m.applyAllow(p, shed)
	if !shed {
		s.held = append(s.held, held{pr, t, s.next})
		s.next++
	}
	cls := 0
	if legal {
		cls = 1
	}
	if must {
		cls = 2
	}
	fmt.Fprintf(&s.sig, "A%d%v%s%v%s;", cls, shed, ov, p.Hot, s.note)
	return shed
}

func (s *seq) resolve(gap time.Duration, i int, pass bool) {
	t := s.vc.Advance(gap)
	h := s.held[i]
	s.held = append(s.held[:i], s.held[i+1:]...)
	op := "Fail"
	if pass {
		op = "Pass"
		h.p.Pass()
		kit.Obs("bb_passes", 1)
	} else {
		h.p.Fail()
		kit.Obs("bb_fails", 1)
	}
	s.log = append(s.log, fmt.Sprintf("%s %s #%d (latency %v)", s.gapStr(gap), op, h.id, t-h.start))
	s.m.applyResolve(t, h.start, pass)
	fmt.Fprintf(&s.sig, "%c%s;", op[0], s.note)
}

// finish resolves everything and probes: with nothing in flight no request may be shed.
func (s *seq) finish(r *kit.Rand) {
	s.note = ""
	for len(s.held) > 0 {
		s.resolve(time.Duration(r.Intn(3))*time.Millisecond, r.Intn(len(s.held)), r.Chance(0.6))
	}
	for i := 0; i < 4 && !s.c.Violated(); i++ {
		if !s.allow(time.Duration(r.Intn(2)) * time.Millisecond) {
			s.resolve(0, len(s.held)-1, r.Bool())
		}
	}
	kit.Obs("bb_histories", 1)
	kit.Obs("bb_steps", int64(len(s.log)))
	s.c.Sig(s.nontrivial, s.sig.String())
}

var (
	windows    = []time.Duration{time.Second, 5 * time.Second, time.Second, 5 * time.Second, 200 * time.Millisecond, 3 * time.Second, 10 * time.Second}
	bucketSets = []int{1, 5, 50, 2, 3, 10, 50, 5}
	thresholds = []int64{-99000, -99000, -99000, 100, 500, 900, 2000, 0, 999}
)

func randCfg(r *kit.Rand) cfg {
	if r.Chance(0.06) {
		return cfg{Default: true, Group: r.Chance(0.3)}
	}
	return cfg{Window: kit.Choose(r, windows), Buckets: kit.Choose(r, bucketSets), Th: kit.Choose(r, thresholds), Group: r.Chance(0.15)}
}

func (s *seq) gap(r *kit.Rand, mode int) time.Duration {
	now := s.vc.Now()
	bd := s.m.bd
	s.note = ""
	jit := time.Duration(r.Intn(3) - 1)
	switch mode {
	case 0:
		return 0
	case 1:
		return time.Duration(r.Intn(1000)) * time.Microsecond
	case 2:
		return time.Duration(r.Int63n(int64(bd)))
	case 3:
		e := s.m.t0 + time.Duration(s.m.idx(now)+1)*bd
		if g := e - now + jit; g >= 0 {
			s.note = "bucket-edge"
			kit.Obs("bb_steps_aimed_at_bucket_edge", 1)
			return g
		}
		return 0
	case 4:
		if s.m.everOver {
			if g := s.m.lastOver + coolOff - now + jit; g >= 0 {
				s.note = "cooloff-edge"
				return g
			}
		}
		return time.Duration(r.Intn(300)) * time.Millisecond
	case 5:
		k := int64(s.cfg.Buckets) - int64(r.Intn(3))
		if k < 1 {
			k = 1
		}
		e := s.m.t0 + time.Duration(s.m.idx(now)+k)*bd
		if g := e - now + jit; g >= 0 {
			s.note = "window-edge"
			return g
		}
		return 0
	case 6:
		return time.Duration(r.Intn(2000)) * time.Millisecond
	}
	return kit.Choose(r, []time.Duration{time.Nanosecond, time.Millisecond, 10 * time.Millisecond, 100 * time.Millisecond,
		250 * time.Millisecond, 999 * time.Millisecond, time.Second, 1001 * time.Millisecond, 2 * time.Second, 7 * time.Second})
}

// phase steers the in-flight count to a level relative to the capacity estimate.
func (s *seq) phase(r *kit.Rand) {
	_, capv := s.m.capacity(s.vc.Now())
	tgt := int64(capv*kit.Choose(r, []float64{0, 0.05, 0.1, 0.1, 0.3, 1, 1, 1.5, 3})) + int64(r.Intn(4)) - 1
	if tgt > 120 {
		tgt = int64(r.Intn(120))
	}
	gm, passP, pick := r.Pick(3, 4, 3, 3, 2, 1, 2, 2), kit.Choose(r, []float64{0, 0.5, 0.9, 1}), r.Intn(3)
	for i, n := 0, r.Range(4, 60); i < n && !s.c.Violated(); i++ {
		gap := s.gap(r, gm)
		if r.Chance(0.15) {
			gap = s.gap(r, r.Intn(8))
		}
		fl := int64(len(s.held))
		allow := fl == 0 || (fl < tgt && r.Chance(0.75)) || (fl > tgt && r.Chance(0.25)) || (fl == tgt && r.Bool())
		if allow {
			s.allow(gap)
			continue
		}
		k := []int{0, len(s.held) - 1, r.Intn(len(s.held))}[pick]
		s.resolve(gap, k, r.Chance(passP))
	}
}

func runRandom(c *kit.Case, vc *kit.VClock) {
	r := c.R
	vc.Advance(time.Duration(r.Intn(1000)) * time.Millisecond)
	s := newSeq(c, vc, randCfg(r))
	for n := r.Range(2, 7); n > 0 && !c.Violated(); n-- {
		s.phase(r)
	}
	s.finish(r)
	if s.nontrivial {
		c.Sample("bb-seq-nontrivial", 1, s.witness("a history that reached a state in which shedding was legal"))
	} else {
		c.Sample("bb-seq-trivial", 1, s.witness(""))
	}
}
