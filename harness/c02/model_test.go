// Package c02: adaptive load shedder, black-box part (DESIGN.md §4 C02).
//
// Only the public API is used: load.NewAdaptiveShedder / ShedderGroup with options,
// Allow / Promise.Pass / Promise.Fail, rest/handler.SheddingHandler, stat.CpuUsage. Time is the
// virtual clock behind core/timex. The CPU verdict cannot be injected from outside the
// package, so it is INFERRED: stat.CpuUsage() is read before and after every Allow; when both
// readings give the same verdict (>= threshold or not) and less than one refresh interval of
// wall time passed, the verdict the shedder saw is known, otherwise it is "unknown" and only
// the clauses that do not need it are judged. Thresholds far below 0 make every reading
// "overloaded" with the overload factor at its lower bound 0.1 whatever the real load;
// thresholds above 1000 make every reading "not overloaded".
//
// This file: the reference model mirroring the statement (same as the white-box one, plus
// interval arithmetic for the moving average after concurrent bursts).
package c02

import (
	"fmt"
	"math"
	"time"

	"github.com/zeromicro/go-zero/core/stat"
)

const (
	eps      = 1e-9
	coolOff  = time.Second
	lowBound = 0.1
)

type cfg struct {
	Window  time.Duration
	Buckets int
	Th      int64
	Group   bool
	Default bool
}

func (c cfg) String() string {
	s := fmt.Sprintf("window=%v buckets=%d threshold=%d", c.Window, c.Buckets, c.Th)
	if c.Default {
		s += " (defaults)"
	}
	if c.Group {
		s += " via ShedderGroup"
	}
	return s
}

type bucket struct{ pass, rtLo, rtHi, rtCnt int64 }

type model struct {
	cfg   cfg
	t0    time.Duration
	bd    time.Duration
	scale float64
	b     map[int64]*bucket

	flying       int64
	avgLo, avgHi float64
	dropped      bool          // a shedding episode is in progress (ends at an Allow with the CPU below the threshold >= 1 s after the last overload)
	dropMay      bool          // same, ending only > 1 s after (at exactly 1 s the statement leaves both answers open)
	everOver     bool          // some Allow saw (or may have seen) the CPU at/above the threshold
	lastOver     time.Duration // time of the last such Allow
	uncertain    bool          // some CPU verdict was unknown: only statement-level clauses from here on

	admitted, resolved, drops int64
}

func newModel(c cfg, t0 time.Duration) *model {
	bd := c.Window / time.Duration(c.Buckets)
	return &model{cfg: c, t0: t0, bd: bd, b: map[int64]*bucket{}, scale: float64(time.Second) / float64(bd) / 1000}
}

func (m *model) idx(t time.Duration) int64 { return int64((t - m.t0) / m.bd) }

// capacity returns the lower and upper capacity estimate at time t (they differ only when
// some latency was not a whole number of milliseconds).
func (m *model) capacity(t time.Duration) (capLo, capHi float64) {
	cur := m.idx(t)
	var maxPass int64 = 1
	rtLo, rtHi := 1000.0, 1000.0
	for i := cur - int64(m.cfg.Buckets) + 1; i < cur; i++ {
		bk := m.b[i]
		if bk == nil {
			continue
		}
		if bk.pass > maxPass {
			maxPass = bk.pass
		}
		if bk.rtCnt > 0 {
			lo := float64(bk.rtLo) / float64(bk.rtCnt)
			hi := float64(bk.rtHi) / float64(bk.rtCnt)
			lo, hi = math.Min(lo, math.Round(lo)), math.Max(hi, math.Round(hi))
			rtLo, rtHi = math.Min(rtLo, lo), math.Min(rtHi, hi)
		}
	}
	return math.Max(1, float64(maxPass)*rtLo*m.scale), math.Max(1, float64(maxPass)*rtHi*m.scale)
}

func (m *model) hot(t time.Duration) bool {
	return m.dropped && m.everOver && t-m.lastOver < coolOff
}

func (m *model) hotMay(t time.Duration) bool {
	return m.dropMay && m.everOver && t-m.lastOver <= coolOff
}

func (m *model) noteBelow(t time.Duration) {
	if m.dropped && m.everOver && !m.hot(t) {
		m.dropped = false
	}
	if m.dropMay && m.everOver && !m.hotMay(t) {
		m.dropMay = false
	}
}

func factor(th, cpu int64) float64 {
	f := (1000 - float64(cpu)) / (1000 - float64(th))
	return math.Min(1, math.Max(lowBound, f))
}

type pre struct {
	T            time.Duration
	OverKnown    bool
	Over         bool // meaningful if OverKnown
	Hot          bool // surely hot (exact when !Uncertain)
	HotMay       bool // possibly hot
	Uncertain    bool
	Flying       int64
	AvgLo, AvgHi float64
	CapLo, CapHi float64
	Pinned       bool
	Cpu          int64
	Factor       float64
}

func (m *model) preOf(t time.Duration) pre {
	lo, hi := m.capacity(t)
	return pre{T: t, Hot: m.hot(t), HotMay: m.hotMay(t), Uncertain: m.uncertain, Flying: m.flying, AvgLo: m.avgLo, AvgHi: m.avgHi, CapLo: lo, CapHi: hi}
}

type finding struct{ key, what string }

func judge(p pre, shed bool) []finding {
	var out []finding
	fl := float64(p.Flying)
	if shed {
		if p.OverKnown && !p.Over && !p.HotMay {
			out = append(out, finding{"C02/shed-without-overload/cpu-below-threshold-and-not-hot",
				fmt.Sprintf("Allow shed although stat.CpuUsage()=%d was below the threshold before and after the call and no possibly-overloaded Allow of a shedding episode lies within the preceding second", p.Cpu)})
		}
		if fl <= lowBound*p.CapLo*(1-eps) {
			k := "some-in-flight"
			if p.Flying <= 0 {
				k = "nothing-in-flight"
			}
			out = append(out, finding{"C02/shed-below-10pct-capacity/" + k,
				fmt.Sprintf("Allow shed with %d in flight <= 10%% of the capacity estimate %.4g", p.Flying, p.CapLo)})
		}
	} else if p.OverKnown && p.Over && fl > p.CapHi*(1+eps) && p.AvgLo > p.CapHi*(1+eps) {
		out = append(out, finding{"C02/no-shed-above-full-capacity/cpu-overloaded",
			fmt.Sprintf("Allow admitted although the CPU is overloaded (cpu %d), %d in flight and average >= %.4g both exceed the capacity estimate %.4g", p.Cpu, p.Flying, p.AvgLo, p.CapHi)})
	}
	if p.Pinned && p.OverKnown && !p.Uncertain && len(out) == 0 {
		limLo, limHi := p.CapLo*p.Factor, p.CapHi*p.Factor
		near := func(x, lim float64) bool { return math.Abs(x-lim) <= eps*(1+lim) }
		if !near(fl, limLo) && !near(fl, limHi) && !near(p.AvgLo, limHi) && !near(p.AvgHi, limLo) {
			trig := "overloaded"
			if !p.Over {
				trig = "hot"
			}
			may := (p.Over || p.HotMay) && p.AvgHi > limLo && fl > limLo
			must := (p.Over || p.Hot) && p.AvgLo > limHi && fl > limHi
			if shed && !may {
				out = append(out, finding{"C02/mechanism/shed-below-factor-capacity/" + trig,
					fmt.Sprintf("Allow shed although in flight %d / average <= %.4g do not both exceed capacity %.4g x factor %.4g (cpu %d pinned)", p.Flying, p.AvgHi, p.CapLo, p.Factor, p.Cpu)})
			}
			if !shed && must {
				out = append(out, finding{"C02/mechanism/no-shed-above-factor-capacity/" + trig,
					fmt.Sprintf("Allow admitted although %s, in flight %d and average >= %.4g both exceed capacity %.4g x factor %.4g (cpu %d pinned)", trig, p.Flying, p.AvgLo, p.CapHi, p.Factor, p.Cpu)})
			}
		}
	}
	return out
}

func (m *model) applyAllow(p pre, shed bool) {
	switch {
	case !p.OverKnown:
		m.uncertain = true
		m.lastOver, m.everOver = p.T, true
	case p.Over:
		m.lastOver, m.everOver = p.T, true
	default:
		m.noteBelow(p.T)
	}
	if shed {
		m.dropped, m.dropMay = true, true
		m.drops++
		return
	}
	m.flying++
	m.admitted++
}

func (m *model) applyResolve(t, start time.Duration, pass bool) {
	m.flying--
	m.resolved++
	m.avgLo = m.avgLo*0.9 + float64(m.flying)*0.1
	m.avgHi = m.avgHi*0.9 + float64(m.flying)*0.1
	if pass {
		m.recordPass(t, start)
	}
}

func (m *model) recordPass(t, start time.Duration) {
	ms := float64(t-start) / float64(time.Millisecond)
	i := m.idx(t)
	bk := m.b[i]
	if bk == nil {
		bk = &bucket{}
		m.b[i] = bk
	}
	bk.pass++
	bk.rtLo += int64(math.Floor(ms))
	bk.rtHi += int64(math.Ceil(ms))
	bk.rtCnt++
	if len(m.b) > 4*m.cfg.Buckets+8 {
		lo := i - int64(m.cfg.Buckets)
		for k := range m.b {
			if k < lo {
				delete(m.b, k)
			}
		}
	}
}

// pinner brackets an Allow with two readings of the real CPU usage.
type pinner struct {
	v0 int64
	w0 time.Time
}

func pinStart() pinner { return pinner{stat.CpuUsage(), time.Now()} }

func (pn pinner) end(th int64, p *pre) {
	v1 := stat.CpuUsage()
	quick := time.Since(pn.w0) < 50*time.Millisecond
	p.Cpu = v1
	if quick && (pn.v0 >= th) == (v1 >= th) {
		p.OverKnown, p.Over = true, v1 >= th
	}
	if f0, f1 := factor(th, pn.v0), factor(th, v1); quick && f0 == f1 {
		p.Pinned, p.Factor = true, f0
	}
	// stat.CpuUsage() is a moving average of samples in [0,1000] millicpu: thresholds outside that
	// range fix the verdict, and a threshold <= -9000 fixes the factor at its lower bound
	switch {
	case th < 0:
		p.OverKnown, p.Over = true, true
		if factor(th, 0) == lowBound {
			p.Pinned, p.Factor = true, lowBound
		}
	case th > 1000:
		p.OverKnown, p.Over = true, false
	}
}
