package c02

import (
	"context"
	"fmt"
	"net/http"
	"net/http/httptest"
	"testing"
	"time"

	"github.com/zeromicro/go-zero/core/load"
	"github.com/zeromicro/go-zero/core/logx"
	"github.com/zeromicro/go-zero/rest/handler"

	"verifharness/kit"
)

// runConc: bursts of concurrent Allow/Pass/Fail separated by clock advances and exactly judged
// sequential steps (which also narrow the interval known for the moving average).
func runConc(c *kit.Case, vc *kit.VClock) {
	r := c.R
	vc.Advance(time.Duration(r.Intn(500)) * time.Millisecond)
	th := int64(-99000)
	if r.Chance(0.12) {
		th = 2000
	}
	s := newSeq(c, vc, cfg{Window: kit.Choose(r, []time.Duration{time.Second, 5 * time.Second}), Buckets: kit.Choose(r, []int{1, 5, 50}), Th: th, Group: r.Chance(0.15)})
	if r.Chance(0.5) {
		for k := r.Range(1, 8); k > 0; k-- {
			if !s.allow(0) {
				s.resolve(time.Duration(r.Range(1, 30))*time.Millisecond, len(s.held)-1, true)
			}
		}
		s.allow(s.gap(r, 3))
	}
	for b, n := 0, r.Range(2, 5); b < n; b++ {
		G, ops := kit.Choose(r, []int{2, 3, 4, 8, 16, 32}), r.Range(3, 24)
		if G*ops > 480 {
			ops = 480 / G
		}
		gap := s.gap(r, kit.Choose(r, []int{0, 1, 2, 3, 4, 7}))
		s.note = ""
		if !s.burst(r, G, ops, kit.Choose(r, []float64{1, 0.8, 0.6, 0.4}), kit.Choose(r, []float64{0, 0.5, 1}), gap, b) {
			return
		}
		for k := r.Intn(6); k > 0 && !c.Violated(); k-- { // sequential churn
			if !s.allow(s.gap(r, kit.Choose(r, []int{0, 1, 3}))) && len(s.held) > 0 && r.Bool() {
				s.resolve(0, 0, r.Bool())
			}
		}
	}
	s.finish(r)
	if s.nontrivial {
		c.Sample("bb-conc-nontrivial", 1, s.witness("concurrent bursts (per-burst summaries in the history)"))
	}
}

// ---- SheddingHandler in front of a real adaptive shedder, driven like the plain API: "Allow" starts a
// request whose wrapped handler blocks, Pass/Fail let it answer (non-503 / 503 / panic) and return.

type stuck struct{}

type ctxKey struct{}

type ctxVal struct {
	entered chan struct{}
	release chan string
}

type hShedder struct {
	h http.Handler
	r *kit.Rand
}

type hPromise struct {
	release  chan string
	finished chan struct{}
	r        *kit.Rand
}

func wait(ch <-chan struct{}) {
	select {
	case <-ch:
	case <-time.After(120 * time.Second):
		panic(stuck{})
	}
}

func (hs *hShedder) Allow() (load.Promise, error) {
	p := &hPromise{release: make(chan string, 1), finished: make(chan struct{}), r: hs.r}
	entered := make(chan struct{})
	req := httptest.NewRequest(http.MethodPost, "/verif", nil)
	req = req.WithContext(context.WithValue(req.Context(), ctxKey{}, ctxVal{entered, p.release}))
	go func() {
		defer close(p.finished)
		defer func() { recover() }()
		hs.h.ServeHTTP(httptest.NewRecorder(), req)
	}()
	select {
	case <-entered:
		return p, nil
	case <-p.finished:
		return nil, load.ErrServiceOverloaded
	case <-time.After(120 * time.Second):
		panic(stuck{})
	}
}

func (p *hPromise) Pass() {
	p.release <- kit.Choose(p.r, []string{"return-without-writing", "write-200", "write-404", "write-500", "panic-before-writing", "panic-after-200", "write-body-only"})
	wait(p.finished)
}

func (p *hPromise) Fail() {
	p.release <- kit.Choose(p.r, []string{"write-503", "write-503-with-body", "panic-after-503"})
	wait(p.finished)
}

func runHandlerReal(c *kit.Case, vc *kit.VClock) {
	defer func() {
		if v := recover(); v != nil {
			if _, ok := v.(stuck); ok {
				c.Inconclusive("a request through SheddingHandler did not finish within the 120 s watchdog")
				return
			}
			panic(v)
		}
	}()
	r := c.R
	// one bucket: the capacity estimate is the constant 1 whatever is recorded, so the verdicts do not
	// depend on which answers the handler reports as Pass and which as Fail
	s := newSeq(c, vc, cfg{Window: time.Second, Buckets: 1, Th: -99000})
	next := http.HandlerFunc(func(w http.ResponseWriter, rq *http.Request) {
		v := rq.Context().Value(ctxKey{}).(ctxVal)
		close(v.entered)
		behave(<-v.release, w)
	})
	s.sh = &hShedder{h: handler.SheddingHandler(s.sh, metrics)(next), r: r.Split("kinds")}
	for n := r.Range(1, 4); n > 0 && !c.Violated(); n-- {
		s.phase(r)
	}
	s.finish(r)
	kit.Obs("bb_handler_real_histories", 1)
	if s.nontrivial {
		c.Sample("bb-handler-real", 1, s.witness("requests through SheddingHandler in front of a real adaptive shedder"))
	}
}

// runDisabled runs LAST in the process: load.Disable() cannot be undone through the public API.
func runDisabled(c *kit.Case) {
	r := c.R
	load.Disable()
	cf := randCfg(r)
	cf.Th = -99000 // the CPU is "overloaded" whatever the real load
	cf.Default = false
	sh := build(cf)
	var hs []load.Promise
	n := r.Range(20, 200)
	for i := 0; i < n; i++ {
		p, err := sh.Allow()
		if err != nil || p == nil {
			c.Viol("C02/disabled/shed", fmt.Sprintf("a shedder built after load.Disable() refused the %d-th Allow (%d unresolved): %v", i+1, len(hs), err),
				map[string]any{"config": cf.String(), "allows": i + 1, "unresolved": len(hs)})
			return
		}
		hs = append(hs, p)
		if r.Chance(0.2) {
			k := r.Intn(len(hs))
			if r.Bool() {
				hs[k].Pass()
			} else {
				hs[k].Fail()
			}
			hs = append(hs[:k], hs[k+1:]...)
		}
	}
	kit.Obs("bb_disabled_allows", int64(n))
	c.Sig(false, "disabled", cf.String(), n)
}

func TestVerifC02(t *testing.T) {
	logx.Disable()
	vc := kit.InstallVClock()
	defer kit.UninstallVClock()

	kit.Run(t, "C02", "bb-random", kit.N(3000, 90000), func(c *kit.Case) { runRandom(c, vc) })
	kit.Run(t, "C02", "bb-ramp", kit.N(3000, 90000), func(c *kit.Case) { runRamp(c, vc) })
	kit.Run(t, "C02", "bb-conc", kit.N(900, 25000), func(c *kit.Case) { runConc(c, vc) })
	kit.Run(t, "C02", "bb-handler-stub", kit.N(200, 4000), runHandlerStub)
	kit.Run(t, "C02", "bb-handler-conc", kit.N(100, 2000), runHandlerConc)
	kit.Run(t, "C02", "bb-handler-real", kit.N(600, 15000), func(c *kit.Case) { runHandlerReal(c, vc) })
	kit.Run(t, "C02", "bb-disabled", kit.N(24, 200), runDisabled) // must stay the last family

	kit.End()
}
