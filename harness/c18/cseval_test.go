package c18

// cseval_test.go: one request through the strict content-security gate,
// compared with the reference verdict.

import (
	"bytes"
	"crypto/rsa"
	"fmt"
	"net/http"
	"strings"
	"time"

	"github.com/zeromicro/go-zero/core/codec"
	"github.com/zeromicro/go-zero/rest/handler"

	"verifharness/kit"
)

var allMethods = []string{"GET", "POST", "PUT", "DELETE", "PATCH", "HEAD", "OPTIONS", "CONNECT", "TRACE"}

// csSpec is one request aimed at the gate.
type csSpec struct {
	Kind   string `json:"kind"`
	Detail string `json:"detail"`
	Req    csReq  `json:"request"`
	Must   bool   `json:"must_accept"`
}

type csEnv struct {
	c          *kit.Case
	configured map[string]*rsa.PrivateKey // reference side
	confIdx    []int
	tol        time.Duration
	gate       func(http.Handler) http.Handler
	shape      string
	t          tally
	keyPrefix  string // "C18/cs" or "C18/e2e/cs"
}

func newCSEnv(c *kit.Case, confIdx []int, tol time.Duration) *csEnv {
	e := &csEnv{c: c, configured: map[string]*rsa.PrivateKey{}, confIdx: confIdx, tol: tol, t: tally{}, keyPrefix: "C18/cs"}
	decs := map[string]codec.RsaDecrypter{}
	for _, i := range confIdx {
		e.configured[rsaKeys[i].Fingerprint] = rsaKeys[i].priv
		decs[rsaKeys[i].Fingerprint] = rsaKeys[i].dec
	}
	if c.R.Bool() {
		e.gate = handler.ContentSecurityHandler(decs, tol, true)
	} else {
		e.gate = handler.LimitContentSecurityHandler(int64(kit.Choose(c.R, []int{0, 1 << 16, 1 << 20})), decs, tol, true)
	}
	return e
}

func (q csReq) httpRequest() *http.Request {
	target := "http://verif.local" + q.Path
	if q.Query != "" {
		target += "?" + q.Query
	}
	req := newReq("POST", target, q.Body)
	req.Method = q.Method
	if !q.NoHdr {
		req.Header.Set("X-Content-Security", q.Header)
	}
	return req
}

func verifiedMethod(m string) bool { return m == "GET" || m == "POST" || m == "PUT" || m == "DELETE" }

// violKey: requests whose own method is outside {GET,POST,PUT,DELETE} are one
// input class per method; all others are keyed by the mutation class.
func csViolKey(prefix, what string, s csSpec) string {
	if !verifiedMethod(s.Req.Method) {
		return prefix + "/" + what + "/method-" + s.Req.Method
	}
	return prefix + "/" + what + "/" + s.Kind
}

func csWitness(e *csEnv, s csSpec, v csVerdict, status int, ran bool, extra string) map[string]any {
	fps := []string{}
	for _, i := range e.confIdx {
		fps = append(fps, rsaKeys[i].Fingerprint)
	}
	return map[string]any{"configured_fingerprints": fps, "tolerance": e.tol.String(), "strict": true, "spec": s,
		"body_text": clip(string(s.Req.Body), 300), "unix_now": time.Now().Unix(),
		"reference": map[string]any{"valid": v.valid, "reason": v.reason, "type": v.ctype, "client_key_hex": fmt.Sprintf("%x", v.key)},
		"observed":  map[string]any{"handler_ran": ran, "status": status}, "detail": extra}
}

// run serves one request in-process and applies the oracle; plaintext is what the
// client encrypted into the body (nil when the body is not encrypted by us).
func (e *csEnv) run(s csSpec, resp []byte) (ran bool, rec status) {
	c := e.c
	req := s.Req.httpRequest()
	s.Req.Path, s.Req.Query = req.URL.Path, req.URL.RawQuery // THIS request's path and query
	p := &probe{resp: resp, writes: c.R.Range(1, 3)}
	t0 := time.Now()
	v := refVerifyCS(s.Req, e.configured, t0.Unix(), int64(e.tol.Seconds()))
	rr, pan := serve(e.gate(protected(p)), req)
	if time.Since(t0) > 60*time.Second {
		c.Inconclusive("content-security request took more than 60 s of wall time; the timestamp margin is void")
		return false, status{}
	}
	ran = p.ran()
	st := status{code: rr.Code, body: rr.Body.Bytes()}
	e.judge(s, v, p, ran, st, pan)
	return ran, st
}

type status struct {
	code int
	body []byte
}

// judge is shared by the in-process and the end-to-end families.
func (e *csEnv) judge(s csSpec, v csVerdict, p *probe, ran bool, st status, pan string) {
	c := e.c
	c.Evals(1)
	e.t["cs_requests"]++
	e.t["cs_kind_"+strings.SplitN(s.Kind, "/", 2)[0]]++
	c.Sig(s.Kind != "base", e.keyPrefix, s.Kind, s.Detail, s.Req.Method, e.shape, ran)
	if pan != "" {
		c.Viol(csViolKey("C18/panic/cs", "panic", s), "content security handler panicked", csWitness(e, s, v, st.code, ran, pan))
		return
	}
	switch {
	case ran && !v.valid:
		c.Viol(csViolKey(e.keyPrefix, "ran-without-valid-signature", s),
			"the protected handler ran although the request's signature does not verify (reference: "+v.reason+")", csWitness(e, s, v, st.code, ran, ""))
	case !ran && v.valid && s.Must:
		c.Viol(csViolKey(e.keyPrefix, "valid-rejected", s), fmt.Sprintf("a correctly signed request was rejected with status %d", st.code),
			csWitness(e, s, v, st.code, ran, ""))
	}
	if !ran {
		e.t[fmt.Sprintf("cs_rejected_status_%d", st.code)]++
		if v.valid {
			e.t["cs_rejected_although_reference_valid"]++
		}
		return
	}
	e.t["cs_handler_ran"]++
	if !v.valid {
		return
	}
	if p.runs != 1 {
		c.Viol(csViolKey(e.keyPrefix, "handler-ran-twice", s), fmt.Sprintf("handler ran %d times", p.runs), csWitness(e, s, v, st.code, ran, ""))
	}
	// what the handler saw / what came back
	if v.ctype == "1" && len(s.Req.Body) > 0 {
		ct, err := b64s.DecodeString(string(s.Req.Body))
		if err != nil {
			e.t["cs_ran_with_undecodable_encrypted_body"]++
			return
		}
		plain, err := refEcbDecrypt(v.key, ct)
		if err != nil {
			e.t["cs_ran_with_undecryptable_encrypted_body"]++
			return
		}
		e.t["cs_encrypted_bodies_checked"]++
		if !bytes.Equal(p.body, plain) {
			c.Viol(e.keyPrefix+"/encrypted-body-not-decrypted/"+sizeClass(len(plain)), fmt.Sprintf("handler saw %d bytes %q, the client encrypted %d bytes %q",
				len(p.body), clip(string(p.body), 80), len(plain), clip(string(plain), 80)), csWitness(e, s, v, st.code, ran, ""))
		}
		if s.Req.Method != "HEAD" {
			checkEncryptedResponse(c, e.keyPrefix, v.key, p.resp, st.body, csWitness(e, s, v, st.code, ran, ""))
		}
	} else {
		e.t["cs_plain_bodies_checked"]++
		if !bytes.Equal(p.body, s.Req.Body) {
			c.Viol(e.keyPrefix+"/plain-body-altered", fmt.Sprintf("handler saw %q, the client sent %q", clip(string(p.body), 80), clip(string(s.Req.Body), 80)),
				csWitness(e, s, v, st.code, ran, ""))
		}
	}
}

func sizeClass(n int) string {
	switch {
	case n == 0:
		return "empty"
	case n%16 == 0:
		return "block-multiple"
	default:
		return "other-size"
	}
}

// checkEncryptedResponse: wire = base64(AES-ECB(PKCS7(plain))) under key. An
// empty plaintext response may also travel as an empty body.
func checkEncryptedResponse(c *kit.Case, prefix string, key, plain, wire []byte, w map[string]any) {
	if len(plain) == 0 && len(wire) == 0 {
		kit.Obs("responses_empty_plain_empty_wire", 1)
		return
	}
	kit.Obs("responses_decrypted_and_compared", 1)
	fail := func(why string) {
		w["response_wire"] = clip(string(wire), 200)
		w["response_plain_len"] = len(plain)
		c.Viol(prefix+"/response-not-encrypted/"+sizeClass(len(plain)), "response of "+fmt.Sprint(len(plain))+" plaintext bytes: "+why, w)
	}
	ct, err := b64s.DecodeString(string(wire))
	if err != nil {
		fail("body is not base64: " + err.Error())
		return
	}
	got, err := refEcbDecrypt(key, ct)
	if err != nil {
		fail("body does not decrypt under the client's key: " + err.Error())
		return
	}
	if !bytes.Equal(got, plain) {
		fail(fmt.Sprintf("decrypts to %q, handler wrote %q", clip(string(got), 80), clip(string(plain), 80)))
	}
}
