package c18

// cseval_test.go: one request through the content-security gate (strict unless
// stated otherwise), compared with the reference verdict.

import (
	"bytes"
	"crypto/rsa"
	"fmt"
	"io"
	"math/big"
	"net/http"
	"strings"
	"time"

	"github.com/zeromicro/go-zero/core/codec"
	"github.com/zeromicro/go-zero/rest/handler"

	"verifharness/kit"
)

var allMethods = []string{"GET", "POST", "PUT", "DELETE", "PATCH", "HEAD", "OPTIONS", "CONNECT", "TRACE"}

// csSpec is one request aimed at the gate.
type csSpec struct {
	Kind   string `json:"kind"`
	Detail string `json:"detail"`
	Req    csReq  `json:"request"`
	Must   bool   `json:"must_accept"`
	// ObsOnly: this request differs from a valid one in MORE than one field (outside the
	// property's quantifier); "ran without a valid signature" is then counted under this
	// observation name instead of being reported.
	ObsOnly string `json:"observation_only,omitempty"`
	// lenient (time families): the timestamp is no decimal integer but has a numeric meaning
	// under a more generous reading (blanks trimmed, float / exponent / hex / underscores); when
	// that meaning is certainly inside the tolerance the statement is silent about the request
	// (observed under lenientObs), otherwise "ran" is judged like for any other invalid request
	lenient    *big.Rat
	lenientObs string
	// style of the protected handler's answer ("" = the family's default; see crywrite_test.go)
	style *wstyle
	wopt  wopts
}

type csEnv struct {
	c          *kit.Case
	configured map[string]*rsa.PrivateKey // reference side
	confIdx    []int
	tol        time.Duration
	strict     bool
	gate       func(http.Handler) http.Handler
	shape      string
	t          tally
	keyPrefix  string // "C18/cs" or "C18/e2e/cs"
	// exec != nil: the request travels to a real rest.Server instead of through gate
	exec func(q csReq, p *probe) (st status, panicked string, err error)
	born time.Time // when the case's timestamps were chosen
	dead bool      // wall-clock margin used up: nothing more is judged in this case
	// exactTime (time families): no distance is kept from the tolerance edges; instead the
	// reference decides with the interval [unix second before the request, unix second after it]
	// in which the gate read its clock and with tolLo <= tolerance <= tolHi (whole seconds);
	// requests whose timestamp is neither certainly inside nor certainly outside are not judged
	exactTime    bool
	tolLo, tolHi int64
	// noJudge != "": the statement is silent about this gate's configuration (a tolerance that
	// overflowed time.Duration): only "no panic" is asserted, outcomes are counted under this name
	noJudge string
	// wr picks the writing style of the protected handler's answer (derived, does not advance c.R)
	wr *kit.Rand
	we *wenv
}

func newCSEnv(c *kit.Case, confIdx []int, tol time.Duration, strict bool) *csEnv {
	e := &csEnv{c: c, configured: map[string]*rsa.PrivateKey{}, confIdx: confIdx, tol: tol, strict: strict, t: tally{}, keyPrefix: "C18/cs", born: time.Now()}
	e.tolLo, e.tolHi = tolBounds(tol)
	// every content-security family decides the time exactly (no verdict depends on how fast the case runs)
	e.exactTime = true
	e.wr = c.R.Split("handler-writing-style")
	decs := map[string]codec.RsaDecrypter{}
	for _, i := range confIdx {
		e.configured[rsaKeys[i].Fingerprint] = rsaKeys[i].priv
		decs[rsaKeys[i].Fingerprint] = rsaKeys[i].dec
	}
	if c.R.Bool() {
		e.gate = handler.ContentSecurityHandler(decs, tol, strict)
	} else {
		e.gate = handler.LimitContentSecurityHandler(int64(kit.Choose(c.R, []int{0, 1 << 16, 1 << 20})), decs, tol, strict)
	}
	return e
}

// plainReader hides the concrete reader type so that net/http cannot learn the length.
type plainReader struct{ r io.Reader }

func (p plainReader) Read(b []byte) (int, error) { return p.r.Read(b) }

func (q csReq) httpRequest() *http.Request {
	target := "http://verif.local" + q.Path
	if q.Query != "" {
		target += "?" + q.Query
	}
	req := newReq("POST", target, q.Body)
	req.Method = q.Method
	if q.UnknownLength && q.Body != nil {
		req.Body = io.NopCloser(plainReader{bytes.NewReader(q.Body)})
		req.ContentLength = -1
		req.TransferEncoding = []string{"chunked"}
	}
	if !q.NoHdr {
		req.Header.Set("X-Content-Security", q.Header)
	}
	if q.ReqURI != "" {
		req.Header.Set("X-Request-Uri", q.ReqURI)
	}
	return req
}

// tolBounds: whole seconds below and above a tolerance (equal for whole-second tolerances).
func tolBounds(tol time.Duration) (lo, hi int64) {
	lo = int64(tol / time.Second)
	hi = lo
	if tol%time.Second != 0 {
		if tol > 0 {
			hi++
		} else {
			lo--
		}
	}
	return
}

func verifiedMethod(m string) bool { return m == "GET" || m == "POST" || m == "PUT" || m == "DELETE" }

const unverifiedMethodClass = "method-not-in-GET-POST-PUT-DELETE"

// csViolKey: requests whose own method is outside {GET,POST,PUT,DELETE} form ONE
// input class (whatever else was mutated); all others are keyed by the mutation class.
func csViolKey(prefix, what string, s csSpec) string {
	if !verifiedMethod(s.Req.Method) {
		return prefix + "/" + what + "/" + unverifiedMethodClass
	}
	return prefix + "/" + what + "/" + s.Kind
}

func csWitness(e *csEnv, s csSpec, v csVerdict, status int, ran bool, extra string) map[string]any {
	fps := []string{}
	for _, i := range e.confIdx {
		fps = append(fps, rsaKeys[i].Fingerprint)
	}
	bodyLen := len(s.Req.Body)
	if bodyLen > 4200 {
		s.Req.Body = nil // reproducible from the case seed; keeps the evidence line short
	}
	return map[string]any{"configured_fingerprints": fps, "tolerance": e.tol.String(), "strict": e.strict, "spec": s, "request_body_len": bodyLen,
		"body_text": clip(string(s.Req.Body), 300), "unix_now": time.Now().Unix(),
		"reference": map[string]any{"valid": v.valid, "reason": v.reason, "type": v.ctype, "client_key_hex": fmt.Sprintf("%x", v.key)},
		"observed":  map[string]any{"handler_ran": ran, "status": status}, "detail": extra}
}

// run serves one request (in-process, or over the wire when e.exec is set) and
// applies the oracle; resp is what the protected handler answers.
func (e *csEnv) run(s csSpec, resp []byte) (ran bool, st status) {
	c := e.c
	if e.dead {
		return false, status{}
	}
	req := s.Req.httpRequest()
	s.Req.Path, s.Req.Query = req.URL.Path, req.URL.RawQuery // THIS request's path and query
	p := &probe{resp: resp, writes: c.R.Range(1, 3)}
	e.chooseStyle(&s, p)
	t0 := time.Now()
	var v csVerdict
	if !e.exactTime {
		v = refVerifyCS(s.Req, e.configured, t0.Unix(), int64(e.tol.Seconds()))
	}
	var pan string
	if e.exec != nil {
		var err error
		st, pan, err = e.exec(s.Req, p)
		if bad, why := p.sourceFailed(); bad {
			c.Inconclusive("the handler's writing style could not obtain its payload (" + p.styleName() + "): " + why)
			return p.ran(), st
		}
		if err != nil {
			if p.ran() {
				e.undelivered(s, p, err)
				return true, status{}
			}
			e.t["e2e_cs_requests_not_deliverable"]++
			c.Sample("e2e-request-not-deliverable", 2, map[string]any{"kind": s.Kind, "detail": s.Detail, "method": s.Req.Method, "client_error": err.Error()})
			return false, status{}
		}
		if !p.ran() && st.code >= 500 {
			c.Inconclusive(fmt.Sprintf("e2e signed request answered %d by the server infrastructure", st.code))
			return false, st
		}
	} else {
		rr, pn := serve(e.gate(protected(p)), req)
		pan = pn
		st = status{code: rr.Code, body: rr.Body.Bytes()}
		if bad, why := p.sourceFailed(); bad {
			c.Inconclusive("the handler's writing style could not obtain its payload (" + p.styleName() + "): " + why)
			return p.ran(), st
		}
	}
	if e.exactTime {
		v = refVerifyCSWin(s.Req, e.configured, t0.Unix(), time.Now().Unix(), e.tolLo, e.tolHi)
		if s.lenient != nil && !v.valid && v.reason == "timestamp-not-a-decimal-integer" && ratInside(s.lenient, t0.Unix(), time.Now().Unix(), e.tolLo) {
			s.ObsOnly = s.lenientObs
		}
	} else if time.Since(e.born) > 45*time.Second || time.Since(t0) > 30*time.Second {
		// every generated timestamp keeps >= 60 s distance from the tolerance edges as seen at e.born
		c.Inconclusive("content-security case used up its wall-clock margin (45 s); remaining requests of the case are not judged")
		e.dead = true
		return false, status{}
	}
	if e.noJudge != "" {
		// configuration about which the statement is silent: no panic, everything else observed
		c.Evals(1)
		e.t[e.noJudge+"_requests"]++
		if p.ran() {
			e.t[e.noJudge+"_handler_ran"]++
		}
		c.Sig(false, e.keyPrefix, "nojudge", e.noJudge, s.Kind, s.Detail, p.ran())
		if pan != "" {
			viol(c, "C18/panic/"+e.keyPrefix[4:]+"/tolerance-outside-the-range-of-time.Duration", "the content security gate panicked", csWitness(e, s, v, st.code, p.ran(), pan))
		}
		return p.ran(), st
	}
	ran = p.ran()
	if !e.strict {
		// the statement speaks about strict mode only: observe, never judge
		c.Evals(1)
		e.t["cs_nonstrict_requests"]++
		if ran {
			e.t["cs_nonstrict_handler_ran"]++
			if !v.valid {
				e.t["cs_nonstrict_ran_with_invalid_signature"]++
			}
		} else {
			e.t[fmt.Sprintf("cs_nonstrict_rejected_status_%d", st.code)]++
		}
		c.Sig(false, e.keyPrefix, "nonstrict", s.Kind, s.Detail, s.Req.Method, ran)
		return ran, st
	}
	e.judge(s, v, p, ran, st, pan)
	return ran, st
}

type status struct {
	code int
	body []byte
}

// judge is shared by the in-process and the end-to-end families (strict mode).
func (e *csEnv) judge(s csSpec, v csVerdict, p *probe, ran bool, st status, pan string) {
	c := e.c
	c.Evals(1)
	e.t["cs_requests"]++
	e.t["cs_kind_"+strings.SplitN(s.Kind, "/", 2)[0]]++
	if s.style != nil {
		c.Sig(true, e.keyPrefix, s.Kind, s.Detail, s.Req.Method, e.shape, ran, p.styleName())
	} else {
		c.Sig(s.Kind != "base", e.keyPrefix, s.Kind, s.Detail, s.Req.Method, e.shape, ran)
	}
	if v.undecided {
		// the timestamp sat at the edge of the tolerance while the gate read its clock
		e.t["cs_time_requests_at_the_tolerance_edge_not_judged"]++
		if pan != "" {
			e.t["cs_panics_on_requests_not_required_to_pass"]++
		}
		return
	}
	if pan != "" {
		if v.valid && s.Must {
			viol(c, csViolKey("C18/panic/"+e.keyPrefix[4:], "valid-request", s), "content security handler panicked on a correctly signed request", csWitness(e, s, v, st.code, ran, pan))
		} else {
			// the handler did not run; the statement does not say how a malformed request is refused
			e.t["cs_panics_on_requests_not_required_to_pass"]++
			e.t["cs_panic_kind_"+s.Kind]++
		}
		return
	}
	switch {
	case ran && !v.valid && s.ObsOnly != "":
		e.t[s.ObsOnly]++
	case ran && !v.valid:
		viol(c, csViolKey(e.keyPrefix, "ran-without-valid-signature", s),
			"the protected handler ran although the request's signature does not verify (reference: "+v.reason+")", csWitness(e, s, v, st.code, ran, ""))
	case !ran && v.valid && s.Must:
		cls := csViolKey(e.keyPrefix, "valid-rejected", s)
		if v.ctype == "1" && len(s.Req.Body) > 0 {
			if ct, err := b64s.DecodeString(string(s.Req.Body)); err == nil {
				if plain, err := refEcbDecrypt(v.key, ct); err == nil && len(plain) == 0 {
					cls = e.keyPrefix + "/valid-rejected/encrypted-empty-payload"
				}
			}
		}
		viol(c, cls, fmt.Sprintf("a correctly signed request was rejected with status %d", st.code), csWitness(e, s, v, st.code, ran, ""))
	}
	if !ran {
		e.t[fmt.Sprintf("cs_rejected_status_%d", st.code)]++
		if v.valid {
			e.t["cs_rejected_although_reference_valid"]++
		}
		return
	}
	e.t["cs_handler_ran"]++
	if !v.valid {
		return
	}
	if p.runs != 1 {
		viol(c, csViolKey(e.keyPrefix, "handler-ran-twice", s), fmt.Sprintf("handler ran %d times", p.runs), csWitness(e, s, v, st.code, ran, ""))
	}
	// what the handler saw / what came back
	switch {
	case v.ctype == "1" && len(s.Req.Body) > 0:
		ct, err := b64s.DecodeString(string(s.Req.Body))
		if err != nil {
			e.t["cs_ran_with_undecodable_encrypted_body"]++
			return
		}
		plain, err := refEcbDecrypt(v.key, ct)
		if err != nil {
			e.t["cs_ran_with_undecryptable_encrypted_body"]++
			return
		}
		e.t["cs_encrypted_bodies_checked"]++
		cls := ""
		switch {
		case !verifiedMethod(s.Req.Method):
			cls = unverifiedMethodClass
		case s.Req.UnknownLength:
			cls = "unknown-content-length"
		}
		// class of the response check: the special request classes first, then how the handler wrote
		rcls := cls
		if p.style != nil && rcls == "" {
			switch {
			case p.style.DeclaresLength && len(p.resp) > 0:
				rcls = "handler-declared-content-length"
			case p.style.Class != "write":
				rcls = "written-via-" + p.style.Class
			}
		}
		if p.style != nil && s.Req.Method != "HEAD" {
			e.t["cs_responses_compared_style_class_"+p.style.Class]++
			if e.exec != nil {
				e.t["cs_responses_compared_on_a_real_server_style_class_"+p.style.Class]++
			}
		}
		bypassed := false
		if !bytes.Equal(p.body, plain) {
			k := cls
			if k == "" {
				k = sizeClass(len(plain))
			}
			// for the two special classes the whole encryption layer was skipped: the plaintext
			// response is the same failure, not reported under a second key
			bypassed = (cls == unverifiedMethodClass || cls == "unknown-content-length") && bytes.Equal(p.body, s.Req.Body)
			viol(c, e.keyPrefix+"/encrypted-body-not-decrypted/"+k, fmt.Sprintf("handler saw %d bytes %q, the client encrypted %d bytes %q",
				len(p.body), clip(string(p.body), 80), len(plain), clip(string(plain), 80)), csWitness(e, s, v, st.code, ran, ""))
		}
		if bypassed {
			e.t["cs_encryption_layer_bypassed_response_check_folded_into_body_violation"]++
		} else if s.Req.Method != "HEAD" {
			checkEncryptedResponse(c, e.keyPrefix, rcls, v.key, p.expected(), st.body, csWitness(e, s, v, st.code, ran, p.styleName()))
		}
	case v.ctype == "1":
		// declared encrypted but no body: the statement's subject ("an encrypted body") is absent
		if len(p.resp) > 0 && bytes.Equal(st.body, p.resp) {
			e.t["cs_type1_without_body_response_returned_in_plaintext"]++
		} else if len(p.resp) > 0 {
			e.t["cs_type1_without_body_response_not_plaintext"]++
		}
	case v.ctype == "0":
		e.t["cs_plain_bodies_checked"]++
		if !bytes.Equal(p.body, s.Req.Body) {
			viol(c, csViolKey(e.keyPrefix, "plain-body-altered", s), fmt.Sprintf("handler saw %q, the client sent (and signed) %q", clip(string(p.body), 80), clip(string(s.Req.Body), 80)),
				csWitness(e, s, v, st.code, ran, ""))
		}
	default:
		e.t["cs_ran_with_unusual_type_field"]++
	}
}

func sizeClass(n int) string {
	switch {
	case n == 0:
		return "empty"
	case n%16 == 0:
		return "block-multiple"
	default:
		return "other-size"
	}
}

// checkEncryptedResponse: wire = base64(AES-ECB(PKCS7(plain))) under key. An
// empty plaintext response may also travel as an empty body. class overrides the
// size class in the key ("" = by size).
func checkEncryptedResponse(c *kit.Case, prefix, class string, key, plain, wire []byte, w map[string]any) {
	if len(plain) == 0 && len(wire) == 0 {
		kit.Obs("responses_empty_plain_empty_wire", 1)
		return
	}
	kit.Obs("responses_decrypted_and_compared", 1)
	if class == "" {
		class = sizeClass(len(plain))
		if len(plain) > 0 && len(plain) < 16 {
			class = "shorter-than-one-block"
		}
	}
	fail := func(why string) {
		w["response_wire"] = clip(string(wire), 200)
		w["response_plain_len"] = len(plain)
		viol(c, prefix+"/response-not-encrypted/"+class, "response of "+fmt.Sprint(len(plain))+" plaintext bytes: "+why, w)
	}
	ct, err := b64s.DecodeString(string(wire))
	if err != nil {
		fail("body is not base64: " + err.Error())
		return
	}
	got, err := refEcbDecrypt(key, ct)
	if err != nil {
		fail("body does not decrypt under the client's key: " + err.Error())
		return
	}
	if !bytes.Equal(got, plain) {
		fail(fmt.Sprintf("decrypts to %q, handler wrote %q", clip(string(got), 80), clip(string(plain), 80)))
	}
}
