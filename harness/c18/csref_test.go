package c18

// csref_test.go: client side (signing, secret encryption) and the independent
// reference verifier of the content-security gate. Uses crypto/* only.

import (
	"crypto/aes"
	"crypto/hmac"
	"crypto/rand"
	"crypto/rsa"
	"crypto/sha256"
	"crypto/x509"
	"encoding/base64"
	"encoding/hex"
	"encoding/pem"
	"errors"
	"fmt"
	"math/big"
	"os"
	"path/filepath"
	"strings"
	"sync"

	"github.com/zeromicro/go-zero/core/codec"
)

var b64s = base64.StdEncoding

// ------------------------------------------------------------------ RSA keys (generated at run time)

type rsaKey struct {
	Fingerprint string
	File        string
	priv        *rsa.PrivateKey
	dec         codec.RsaDecrypter
}

var (
	keysOnce sync.Once
	keysErr  error
	// [0],[1] are configured in the gates of every family; [2] is never configured
	// anywhere; [3] is configured only by the families with several gates / route
	// groups (groups_test.go), never by the single-gate families
	rsaKeys []*rsaKey
)

func scratchDir() string {
	d := os.Getenv("VERIF_SCRATCH_DIR")
	if d == "" {
		d = "/var/tmp"
	}
	return d
}

func setupKeys() error {
	keysOnce.Do(func() {
		dir, err := os.MkdirTemp(scratchDir(), "c18-keys-")
		if err != nil {
			keysErr = err
			return
		}
		for i, fp := range []string{"fp-alpha", "FP-Beta/2", "fp-unconfigured", "fp.gamma-3"} {
			priv, err := rsa.GenerateKey(rand.Reader, 1024)
			if err != nil {
				keysErr = err
				return
			}
			file := filepath.Join(dir, fmt.Sprintf("key%d.pem", i))
			blk := pem.EncodeToMemory(&pem.Block{Type: "RSA PRIVATE KEY", Bytes: x509.MarshalPKCS1PrivateKey(priv)})
			if err := os.WriteFile(file, blk, 0o600); err != nil {
				keysErr = err
				return
			}
			k := &rsaKey{Fingerprint: fp, File: file, priv: priv}
			if i != 2 {
				if k.dec, err = codec.NewRsaDecrypter(file); err != nil {
					keysErr = err
					return
				}
			}
			rsaKeys = append(rsaKeys, k)
		}
	})
	return keysErr
}

// rsaEncryptB64 encrypts msg to pub (PKCS#1 v1.5, chunked by k-11) and base64-encodes it.
func rsaEncryptB64(pub *rsa.PublicKey, msg []byte) string {
	limit := pub.Size() - 11
	var out []byte
	for i := 0; i < len(msg); i += limit {
		j := i + limit
		if j > len(msg) {
			j = len(msg)
		}
		ct, err := rsa.EncryptPKCS1v15(rand.Reader, pub, msg[i:j])
		if err != nil {
			panic(err)
		}
		out = append(out, ct...)
	}
	return b64s.EncodeToString(out)
}

func rsaDecryptRef(priv *rsa.PrivateKey, ct []byte) ([]byte, error) {
	k := priv.Size()
	if len(ct) == 0 || len(ct)%k != 0 {
		return nil, errors.New("ciphertext length")
	}
	var out []byte
	for i := 0; i < len(ct); i += k {
		pt, err := rsa.DecryptPKCS1v15(nil, priv, ct[i:i+k])
		if err != nil {
			return nil, err
		}
		out = append(out, pt...)
	}
	return out, nil
}

// rsaDecryptRefCached: most mutations of a signed request keep the secret; the
// reference decrypts each distinct (fingerprint, secret) once per case.
type refDec struct {
	pt  []byte
	err error
}

var refDecCache = map[string]refDec{}

func rsaDecryptRefCached(fp, secret string, priv *rsa.PrivateKey, ct []byte) ([]byte, error) {
	k := fp + "\x00" + secret
	if d, ok := refDecCache[k]; ok {
		return d.pt, d.err
	}
	pt, err := rsaDecryptRef(priv, ct)
	if len(refDecCache) > 4096 {
		refDecCache = map[string]refDec{}
	}
	refDecCache[k] = refDec{pt, err}
	return pt, err
}

// ------------------------------------------------------------------ AES-ECB / PKCS#7 reference

func refEcbEncrypt(key, plain []byte) []byte {
	blk, err := aes.NewCipher(key)
	if err != nil {
		panic(err)
	}
	pad := 16 - len(plain)%16
	buf := append(append([]byte{}, plain...), make([]byte, pad)...)
	for i := len(plain); i < len(buf); i++ {
		buf[i] = byte(pad)
	}
	out := make([]byte, len(buf))
	for i := 0; i < len(buf); i += 16 {
		blk.Encrypt(out[i:i+16], buf[i:i+16])
	}
	return out
}

func refEcbDecrypt(key, ct []byte) ([]byte, error) {
	blk, err := aes.NewCipher(key)
	if err != nil {
		return nil, err
	}
	if len(ct) == 0 || len(ct)%16 != 0 {
		return nil, errors.New("ciphertext is not a positive multiple of the block size")
	}
	out := make([]byte, len(ct))
	for i := 0; i < len(ct); i += 16 {
		blk.Decrypt(out[i:i+16], ct[i:i+16])
	}
	pad := int(out[len(out)-1])
	if pad < 1 || pad > 16 {
		return nil, errors.New("bad padding")
	}
	for _, b := range out[len(out)-pad:] {
		if int(b) != pad {
			return nil, errors.New("bad padding")
		}
	}
	return out[:len(out)-pad], nil
}

// ------------------------------------------------------------------ signed request (client side)

// csParams is everything a client chooses when it signs a request.
type csParams struct {
	Method, Path, Query string
	Body                []byte // bytes as sent (already encrypted when Type == "1")
	KeyIdx              int    // index into rsaKeys: whose public key encrypts the secret
	Fingerprint         string
	HmacKey             []byte
	Ts                  string
	Type                string // "0" plain, "1" encrypted body
}

func bodyDigest(b []byte) string {
	s := sha256.Sum256(b)
	return hex.EncodeToString(s[:])
}

func signContent(key []byte, parts ...string) string {
	m := hmac.New(sha256.New, key)
	m.Write([]byte(strings.Join(parts, "\n")))
	return b64s.EncodeToString(m.Sum(nil))
}

func (p csParams) signature() string {
	return signContent(p.HmacKey, p.Ts, p.Method, p.Path, p.Query, bodyDigest(p.Body))
}

func (p csParams) secret() string {
	inner := strings.Join([]string{"version=v1", "type=" + p.Type, "key=" + b64s.EncodeToString(p.HmacKey), "time=" + p.Ts}, "; ")
	return rsaEncryptB64(&rsaKeys[p.KeyIdx].priv.PublicKey, []byte(inner))
}

// buildSeeded renders the request like request() and tells the reference what the fresh
// secret decrypts to (the client made it; the reference's own RSA decryption of an honest
// encryption yields exactly that), which halves the RSA work of families that need a new
// secret per request. Only when the secret is encrypted to the key its fingerprint names.
func (p csParams) buildSeeded() csReq {
	inner := strings.Join([]string{"version=v1", "type=" + p.Type, "key=" + b64s.EncodeToString(p.HmacKey), "time=" + p.Ts}, "; ")
	sec := rsaEncryptB64(&rsaKeys[p.KeyIdx].priv.PublicKey, []byte(inner))
	if rsaKeys[p.KeyIdx].Fingerprint == p.Fingerprint {
		if len(refDecCache) > 4096 {
			refDecCache = map[string]refDec{}
		}
		refDecCache[p.Fingerprint+"\x00"+sec] = refDec{pt: []byte(inner)}
	}
	return p.build(sec)
}

func csHeader(fingerprint, secret, signature string) string {
	return "key=" + fingerprint + "; secret=" + secret + "; signature=" + signature
}

// csReq is one request as it goes on the wire.
type csReq struct {
	Method string `json:"method"`
	Path   string `json:"path"`
	Query  string `json:"query"`
	Body   []byte `json:"body"`
	Header string `json:"x_content_security"` // "" with NoHdr => header absent
	NoHdr  bool   `json:"header_absent,omitempty"`
	// UnknownLength: the body is sent without a Content-Length (chunked on the wire, ContentLength -1 in-process)
	UnknownLength bool `json:"unknown_content_length,omitempty"`
	// ReqURI: value of an X-Request-Uri header ("" = header absent)
	ReqURI string `json:"x_request_uri,omitempty"`
}

func (p csParams) request() csReq { return p.build("") }

// build renders the request; sec is a previously computed p.secret() ("" = encrypt now).
func (p csParams) build(sec string) csReq {
	if sec == "" {
		sec = p.secret()
	}
	return csReq{Method: p.Method, Path: p.Path, Query: p.Query, Body: p.Body, Header: csHeader(p.Fingerprint, sec, p.signature())}
}

// ------------------------------------------------------------------ reference verifier

type csVerdict struct {
	valid  bool
	reason string
	key    []byte // the client's key (when the secret decrypted)
	ctype  string
	ts     *big.Int
	tsText string // the timestamp as spelled in the secret (when the secret decrypted)
	// undecided: everything but the time verifies, and the timestamp is neither certainly
	// inside nor certainly outside the tolerance during the interval in which the gate read
	// its clock (only with refVerifyCSWin and t0 < t1 or tolLo < tolHi): nothing is judged
	undecided bool
}

func parseAttrs(s string) map[string]string {
	m := map[string]string{}
	for _, f := range strings.Split(s, ";") {
		f = strings.TrimSpace(f)
		if i := strings.IndexByte(f, '='); i > 0 {
			m[f[:i]] = f[i+1:]
		}
	}
	return m
}

// decimalInteger: the decimal meaning of a timestamp spelling: an optional sign
// followed by at least one ASCII digit, nothing else (any number of digits: the value
// is exact, not an int64).
func decimalInteger(s string) (*big.Int, bool) {
	t := s
	if len(t) > 0 && (t[0] == '+' || t[0] == '-') {
		t = t[1:]
	}
	if len(t) == 0 {
		return nil, false
	}
	for i := 0; i < len(t); i++ {
		if t[i] < '0' || t[i] > '9' {
			return nil, false
		}
	}
	v, ok := new(big.Int).SetString(strings.TrimPrefix(s, "+"), 10)
	return v, ok
}

// refVerifyCS decides one request on its own: configured = fingerprint -> private key.
func refVerifyCS(q csReq, configured map[string]*rsa.PrivateKey, now, tolSec int64) csVerdict {
	return refVerifyCSWin(q, configured, now, now, tolSec, tolSec)
}

// refVerifyCSWin is refVerifyCS for a gate that read its clock (whole unix seconds)
// at some instant of [t0,t1] and whose tolerance is somewhere in [tolLo,tolHi] seconds
// (a tolerance that is not a whole number of seconds): the timestamp is certainly
// outside iff it is outside tolHi for every instant of the interval, certainly inside
// iff it is inside tolLo for every instant; otherwise the verdict is undecided.
func refVerifyCSWin(q csReq, configured map[string]*rsa.PrivateKey, t0, t1, tolLo, tolHi int64) csVerdict {
	if q.NoHdr {
		return csVerdict{reason: "no-header"}
	}
	at := parseAttrs(q.Header)
	fp, secret, sig := at["key"], at["secret"], at["signature"]
	if fp == "" || secret == "" || sig == "" {
		return csVerdict{reason: "header-field-missing"}
	}
	priv, ok := configured[fp]
	if !ok {
		return csVerdict{reason: "fingerprint-not-configured"}
	}
	ct, err := b64s.DecodeString(secret)
	if err != nil {
		return csVerdict{reason: "secret-not-base64"}
	}
	inner, err := rsaDecryptRefCached(fp, secret, priv, ct)
	if err != nil {
		return csVerdict{reason: "secret-does-not-decrypt"}
	}
	in := parseAttrs(string(inner))
	key, err := b64s.DecodeString(in["key"])
	if err != nil {
		return csVerdict{reason: "client-key-not-base64"}
	}
	v := csVerdict{key: key, ctype: in["type"]}
	tsStr := in["time"]
	v.tsText = tsStr
	ts, ok := decimalInteger(tsStr)
	if !ok {
		v.reason = "timestamp-not-a-decimal-integer"
		return v
	}
	v.ts = ts
	// certainly outside: outside [ts-tolHi, ts+tolHi] for every instant of [t0,t1]
	if big.NewInt(t1).Cmp(new(big.Int).Sub(ts, big.NewInt(tolHi))) < 0 || big.NewInt(t0).Cmp(new(big.Int).Add(ts, big.NewInt(tolHi))) > 0 {
		v.reason = "timestamp-outside-tolerance"
		return v
	}
	want := hmac.New(sha256.New, key)
	want.Write([]byte(strings.Join([]string{tsStr, q.Method, q.Path, q.Query, bodyDigest(q.Body)}, "\n")))
	got, err := b64s.DecodeString(sig)
	if err != nil {
		v.reason = "signature-not-base64"
		return v
	}
	if !hmac.Equal(want.Sum(nil), got) {
		v.reason = "signature-mismatch"
		return v
	}
	// certainly inside: inside [ts-tolLo, ts+tolLo] for every instant of [t0,t1]
	if big.NewInt(t0).Cmp(new(big.Int).Sub(ts, big.NewInt(tolLo))) < 0 || big.NewInt(t1).Cmp(new(big.Int).Add(ts, big.NewInt(tolLo))) > 0 {
		v.undecided, v.reason = true, "timestamp-at-the-edge-of-the-tolerance-while-the-gate-read-its-clock"
		return v
	}
	v.valid, v.reason = true, "valid"
	return v
}
