package c18

// crywrite_test.go: HOW the protected handler produces its answer, and WHAT sits
// directly underneath the encrypting writer.
//
// The statement says "the response is returned encrypted, round-tripping any
// payload". The other cryption families answer with plain Write calls and run on
// an httptest.ResponseRecorder or behind a rest.Server; here the handler hands
// its payload to the ResponseWriter through every ordinary writing style of a Go
// handler (Write in one piece / many pieces, io.WriteString, fmt.Fprintf, io.Copy
// from readers with and without WriteTo, an io.Pipe, an *os.File, the chunked
// body of an upstream response, io.CopyN, io.CopyBuffer, bufio.Writer,
// http.ServeContent, http.ServeFile, json.NewEncoder; with and without an
// explicit WriteHeader, with Flush() before / in between / after), and the
// encrypting middleware runs
//
//	recorder        in-process on an httptest.ResponseRecorder
//	bare-cryption   httptest.NewServer(CryptionHandler(key)(h)): net/http's own *response underneath
//	bare-cs         httptest.NewServer(ContentSecurityHandler(...)(h)), signed requests with encrypted bodies
//	engine-default  rest.Server, every native middleware on
//	engine-off      rest.Server, every native middleware off
//	engine-chain    rest.Server with rest.WithChain(custom chain)
//
// Oracle (from the statement only): the handler saw the plaintext the client
// encrypted; the bytes on the wire, base64-decoded and AES-ECB-decrypted with the
// key, equal exactly what the handler handed to its writer (an empty payload may
// travel as an empty body).

import (
	"bufio"
	"bytes"
	"encoding/json"
	"errors"
	"fmt"
	"io"
	"net"
	"net/http"
	"net/http/httptest"
	"os"
	"path/filepath"
	"runtime/debug"
	"strconv"
	"strings"
	"sync"
	"sync/atomic"
	"time"

	"github.com/zeromicro/go-zero/core/codec"
	"github.com/zeromicro/go-zero/rest"
	"github.com/zeromicro/go-zero/rest/chain"
	"github.com/zeromicro/go-zero/rest/handler"

	"verifharness/kit"
)

// ------------------------------------------------------------------ writing styles

type wopts struct {
	Status      int   `json:"explicit_write_header,omitempty"` // 0 = none
	FlushBefore bool  `json:"flush_before,omitempty"`
	FlushMid    bool  `json:"flush_in_between,omitempty"`
	FlushAfter  bool  `json:"flush_after,omitempty"`
	Cuts        []int `json:"piece_lengths,omitempty"` // lengths of the pieces (piecewise styles)
}

func (o wopts) tag() string {
	s := ""
	if o.Status != 0 {
		s += "+WriteHeader"
	}
	if o.FlushBefore {
		s += "+FlushBefore"
	}
	if o.FlushMid {
		s += "+FlushMid"
	}
	if o.FlushAfter {
		s += "+FlushAfter"
	}
	return s
}

// wstyle is one way of handing a payload to an http.ResponseWriter.
type wstyle struct {
	Name string
	// Class (part of violation keys): "write" (ends in Write calls on the writer),
	// "reader-without-WriteTo" (io.Copy and friends from a reader that has no WriteTo: the
	// copy looks for io.ReaderFrom on the writer), "ServeContent" (net/http's file serving)
	Class string
	// Split: may be applied to the first half, then Flush(), then the second half
	Split bool
	// DeclaresLength: the style announces the PLAIN length in a Content-Length header itself
	DeclaresLength bool
	// NoStatus: an explicit WriteHeader before it makes no sense (the style sends its own)
	NoStatus bool
	fn       func(w http.ResponseWriter, r *http.Request, data []byte, o wopts, we *wenv) error
	expect   func(data []byte) []byte
}

// sourceErr: the style could not obtain its payload source (temp file, upstream response):
// an infrastructure failure of the harness, nothing is judged about that request.
type sourceErr struct{ error }

// plain hides every method of a reader but Read (no WriteTo, no Len, no Seek).
type plain struct{ io.Reader }

// watchedReader remembers a read error of the source (so that it is not taken for a failure of the writer).
type watchedReader struct {
	r   io.Reader
	err error
}

func (w *watchedReader) Read(p []byte) (int, error) {
	n, err := w.r.Read(p)
	if err != nil && err != io.EOF {
		w.err = err
	}
	return n, err
}

func pieces(data []byte, cuts []int) [][]byte {
	var out [][]byte
	rest := data
	for _, n := range cuts {
		if n <= 0 || n >= len(rest) {
			continue
		}
		out = append(out, rest[:n])
		rest = rest[n:]
	}
	return append(out, rest)
}

type jsonDoc struct {
	N    int    `json:"n"`
	Data string `json:"data"`
}

func jsonOf(data []byte) jsonDoc { return jsonDoc{N: len(data), Data: string(data)} }

var wstyles = []*wstyle{
	{Name: "Write", Class: "write", Split: true, fn: func(w http.ResponseWriter, _ *http.Request, d []byte, _ wopts, _ *wenv) error {
		_, err := w.Write(d)
		return err
	}},
	{Name: "Write-in-pieces", Class: "write", Split: true, fn: func(w http.ResponseWriter, _ *http.Request, d []byte, o wopts, _ *wenv) error {
		for _, p := range pieces(d, o.Cuts) {
			if _, err := w.Write(p); err != nil {
				return err
			}
		}
		return nil
	}},
	{Name: "io.WriteString", Class: "write", Split: true, fn: func(w http.ResponseWriter, _ *http.Request, d []byte, _ wopts, _ *wenv) error {
		_, err := io.WriteString(w, string(d))
		return err
	}},
	{Name: "fmt.Fprintf", Class: "write", Split: true, fn: func(w http.ResponseWriter, _ *http.Request, d []byte, _ wopts, _ *wenv) error {
		_, err := fmt.Fprintf(w, "%s", d)
		return err
	}},
	{Name: "io.Copy(bytes.Reader)", Class: "write", Split: true, fn: func(w http.ResponseWriter, _ *http.Request, d []byte, _ wopts, _ *wenv) error {
		_, err := io.Copy(w, bytes.NewReader(d))
		return err
	}},
	{Name: "io.Copy(strings.Reader)", Class: "write", Split: true, fn: func(w http.ResponseWriter, _ *http.Request, d []byte, _ wopts, _ *wenv) error {
		_, err := io.Copy(w, strings.NewReader(string(d)))
		return err
	}},
	{Name: "io.Copy(bytes.Buffer)", Class: "write", Split: true, fn: func(w http.ResponseWriter, _ *http.Request, d []byte, _ wopts, _ *wenv) error {
		_, err := io.Copy(w, bytes.NewBuffer(append([]byte{}, d...)))
		return err
	}},
	{Name: "io.Copy(struct{io.Reader})", Class: "reader-without-WriteTo", Split: true, fn: func(w http.ResponseWriter, _ *http.Request, d []byte, _ wopts, _ *wenv) error {
		_, err := io.Copy(w, plain{bytes.NewReader(d)})
		return err
	}},
	{Name: "io.Copy(io.Pipe)", Class: "reader-without-WriteTo", Split: true, fn: func(w http.ResponseWriter, _ *http.Request, d []byte, o wopts, _ *wenv) error {
		pr, pw := io.Pipe()
		go func() {
			for _, p := range pieces(d, o.Cuts) {
				if _, err := pw.Write(p); err != nil {
					break
				}
			}
			pw.Close()
		}()
		_, err := io.Copy(w, pr)
		pr.Close()
		return err
	}},
	{Name: "io.Copy(os.File)", Class: "reader-without-WriteTo", Split: true, fn: func(w http.ResponseWriter, _ *http.Request, d []byte, _ wopts, we *wenv) error {
		name, err := we.tempFile(d)
		if err != nil {
			return sourceErr{err}
		}
		defer os.Remove(name)
		f, err := os.Open(name)
		if err != nil {
			return sourceErr{err}
		}
		defer f.Close()
		_, err = io.Copy(w, f)
		return err
	}},
	{Name: "io.Copy(chunked-upstream-response-body)", Class: "reader-without-WriteTo", Split: true, fn: func(w http.ResponseWriter, _ *http.Request, d []byte, o wopts, we *wenv) error {
		body, err := we.upstream(d, o.Cuts)
		if err != nil {
			return sourceErr{err}
		}
		defer body.Close()
		src := &watchedReader{r: body}
		_, err = io.Copy(w, src)
		if src.err != nil {
			return sourceErr{src.err}
		}
		return err
	}},
	{Name: "io.CopyN", Class: "reader-without-WriteTo", Split: true, fn: func(w http.ResponseWriter, _ *http.Request, d []byte, _ wopts, _ *wenv) error {
		_, err := io.CopyN(w, bytes.NewReader(append(append([]byte{}, d...), "-not-to-be-copied"...)), int64(len(d)))
		return err
	}},
	{Name: "io.CopyBuffer", Class: "reader-without-WriteTo", Split: true, fn: func(w http.ResponseWriter, _ *http.Request, d []byte, _ wopts, _ *wenv) error {
		_, err := io.CopyBuffer(w, plain{bytes.NewReader(d)}, make([]byte, 1000))
		return err
	}},
	{Name: "bufio.Writer+Flush", Class: "write", Split: true, fn: func(w http.ResponseWriter, _ *http.Request, d []byte, o wopts, _ *wenv) error {
		bw := bufio.NewWriterSize(w, 512)
		for _, p := range pieces(d, o.Cuts) {
			if _, err := bw.Write(p); err != nil {
				return err
			}
		}
		return bw.Flush()
	}},
	{Name: "io.Copy(bufio.Writer,struct{io.Reader})+Flush", Class: "reader-without-WriteTo", Split: true, fn: func(w http.ResponseWriter, _ *http.Request, d []byte, _ wopts, _ *wenv) error {
		bw := bufio.NewWriter(w)
		if _, err := io.Copy(bw, plain{bytes.NewReader(d)}); err != nil {
			return err
		}
		return bw.Flush()
	}},
	{Name: "json.NewEncoder", Class: "write", fn: func(w http.ResponseWriter, _ *http.Request, d []byte, _ wopts, _ *wenv) error {
		return json.NewEncoder(w).Encode(jsonOf(d))
	}, expect: func(d []byte) []byte {
		b, err := json.Marshal(jsonOf(d))
		if err != nil {
			panic(err)
		}
		return append(b, '\n')
	}},
	// net/http's file serving; "identity": the handler sets Content-Encoding, which keeps
	// ServeContent from announcing the plain length
	{Name: "http.ServeContent(Content-Encoding:identity)", Class: "ServeContent", NoStatus: true, fn: func(w http.ResponseWriter, r *http.Request, d []byte, _ wopts, _ *wenv) error {
		w.Header().Set("Content-Type", "application/octet-stream")
		w.Header().Set("Content-Encoding", "identity")
		http.ServeContent(w, r, "", time.Time{}, bytes.NewReader(d))
		return nil
	}},
	{Name: "http.ServeFile(Content-Encoding:identity)", Class: "ServeContent", NoStatus: true, fn: func(w http.ResponseWriter, r *http.Request, d []byte, _ wopts, we *wenv) error {
		name, err := we.tempFile(d)
		if err != nil {
			return sourceErr{err}
		}
		defer os.Remove(name)
		w.Header().Set("Content-Encoding", "identity")
		http.ServeFile(w, r, name)
		return nil
	}},
	{Name: "http.ServeContent", Class: "ServeContent", NoStatus: true, DeclaresLength: true, fn: func(w http.ResponseWriter, r *http.Request, d []byte, _ wopts, _ *wenv) error {
		http.ServeContent(w, r, "payload.bin", time.Time{}, bytes.NewReader(d))
		return nil
	}},
	{Name: "http.ServeFile", Class: "ServeContent", NoStatus: true, DeclaresLength: true, fn: func(w http.ResponseWriter, r *http.Request, d []byte, _ wopts, we *wenv) error {
		name, err := we.tempFile(d)
		if err != nil {
			return sourceErr{err}
		}
		defer os.Remove(name)
		http.ServeFile(w, r, name)
		return nil
	}},
	{Name: "Content-Length-header+Write", Class: "write", DeclaresLength: true, fn: func(w http.ResponseWriter, _ *http.Request, d []byte, _ wopts, _ *wenv) error {
		w.Header().Set("Content-Length", strconv.Itoa(len(d)))
		_, err := w.Write(d)
		return err
	}},
}

// wstylesUndeclared: the styles that do not announce a length themselves (used by the
// content-security families, which pick a style per request).
var wstylesUndeclared = func() []*wstyle {
	var out []*wstyle
	for _, s := range wstyles {
		if !s.DeclaresLength {
			out = append(out, s)
		}
	}
	return out
}()

func runStyle(w http.ResponseWriter, r *http.Request, st *wstyle, o wopts, data []byte, we *wenv) error {
	flush := func() {
		if f, ok := w.(http.Flusher); ok {
			f.Flush()
		}
	}
	if o.Status != 0 && !st.NoStatus {
		w.WriteHeader(o.Status)
	}
	if o.FlushBefore {
		flush()
	}
	var err error
	if o.FlushMid && st.Split && len(data) >= 2 {
		h := len(data) / 2
		if len(o.Cuts) > 0 && o.Cuts[0] > 0 && o.Cuts[0] < len(data) {
			h = o.Cuts[0]
		}
		err = st.fn(w, r, data[:h], o, we)
		flush()
		if err == nil {
			err = st.fn(w, r, data[h:], o, we)
		}
	} else {
		err = st.fn(w, r, data, o, we)
	}
	if o.FlushAfter {
		flush()
	}
	return err
}

func genWopts(r *kit.Rand, n int) wopts {
	o := wopts{Status: kit.Choose(r, []int{0, 0, 200, 201}), FlushBefore: r.Chance(0.15), FlushMid: r.Chance(0.3), FlushAfter: r.Chance(0.2)}
	for k := r.Range(1, 4); k > 0 && n > 1; k-- {
		o.Cuts = append(o.Cuts, kit.Choose(r, []int{1, 15, 16, 17, 511, 512, 513, 1 + r.Intn(n), 1 + r.Intn(n)}))
	}
	return o
}

// ------------------------------------------------------------------ what the styles need: scratch files, an upstream server

type wenv struct {
	dir    string
	seq    atomic.Int64
	up     *httptest.Server
	upData sync.Map // id -> upPayload
	client *http.Client
}

type upPayload struct {
	data []byte
	cuts []int
}

var (
	wenvOnce sync.Once
	wenvVal  *wenv
	wenvErr  error
)

func getWenv() (*wenv, error) {
	wenvOnce.Do(func() {
		dir, err := os.MkdirTemp(scratchDir(), "c18-writers-")
		if err != nil {
			wenvErr = err
			return
		}
		we := &wenv{dir: dir}
		we.up = httptest.NewServer(http.HandlerFunc(func(w http.ResponseWriter, r *http.Request) {
			v, ok := we.upData.LoadAndDelete(r.URL.Query().Get("id"))
			if !ok {
				w.WriteHeader(http.StatusNotFound)
				return
			}
			p := v.(upPayload)
			w.Header().Set("Content-Type", "application/octet-stream")
			w.WriteHeader(http.StatusOK)
			for _, piece := range pieces(p.data, p.cuts) {
				w.Write(piece)
				w.(http.Flusher).Flush() // no Content-Length: chunked transfer encoding
			}
		}))
		we.client = &http.Client{Timeout: 300 * time.Second, Transport: &http.Transport{DisableCompression: true, MaxIdleConnsPerHost: 2}}
		wenvVal = we
	})
	return wenvVal, wenvErr
}

func closeWenv() {
	if wenvVal == nil {
		return
	}
	wenvVal.up.Close()
	wenvVal.client.CloseIdleConnections()
	os.RemoveAll(wenvVal.dir)
}

func (we *wenv) tempFile(d []byte) (string, error) {
	name := filepath.Join(we.dir, fmt.Sprintf("payload-%d.bin", we.seq.Add(1)))
	return name, os.WriteFile(name, d, 0o600)
}

// upstream registers d with the upstream server and returns the body of its (chunked) response.
func (we *wenv) upstream(d []byte, cuts []int) (io.ReadCloser, error) {
	id := strconv.FormatInt(we.seq.Add(1), 10)
	we.upData.Store(id, upPayload{data: d, cuts: cuts})
	resp, err := we.client.Get(we.up.URL + "/?id=" + id)
	if err != nil {
		return nil, err
	}
	if resp.StatusCode != http.StatusOK {
		resp.Body.Close()
		return nil, fmt.Errorf("upstream answered %d", resp.StatusCode)
	}
	if resp.ContentLength >= 0 && len(d) > 0 {
		resp.Body.Close()
		return nil, errors.New("upstream response is not chunked")
	}
	return resp.Body, nil
}

// ------------------------------------------------------------------ style choice in the content-security families

// chooseStyle: a spec that names a style keeps it; otherwise about half of the requests
// of every content-security family answer through a random (undeclared-length) style.
// Uses e.wr only (the case's own random stream is left as it was).
func (e *csEnv) chooseStyle(s *csSpec, p *probe) {
	if s.style != nil {
		p.style, p.wopt = s.style, s.wopt
	} else if e.wr != nil && e.wr.Bool() {
		p.style = kit.Choose(e.wr, wstylesUndeclared)
		p.wopt = genWopts(e.wr, len(p.resp))
	}
	if p.style == nil {
		return
	}
	we, err := getWenv()
	if err != nil { // no scratch directory: fall back to plain Write calls
		p.style = nil
		return
	}
	p.we = we
}

// sourceFailed: the writing style could not obtain its payload (harness infrastructure).
func (p *probe) sourceFailed() (bool, string) {
	p.mu.Lock()
	defer p.mu.Unlock()
	var se sourceErr
	if p.werr != nil && errors.As(p.werr, &se) {
		return true, se.Error()
	}
	return false, ""
}

func timeoutErr(err error) bool {
	var ne net.Error
	return errors.As(err, &ne) && ne.Timeout()
}

// deliveryClass names the input class of a response that did not arrive (or arrived
// damaged) although the handler ran.
func deliveryClass(p *probe) string {
	switch {
	case p.style != nil && p.style.DeclaresLength && len(p.resp) > 0:
		return "handler-declared-content-length"
	case p.style != nil:
		return "written-via-" + p.style.Class
	}
	return "plain-write"
}

// undelivered: the handler ran, the client could not read the response.
func (e *csEnv) undelivered(s csSpec, p *probe, err error) {
	c := e.c
	c.Evals(1)
	if timeoutErr(err) {
		c.Inconclusive("client watchdog fired while reading the response of a signed request: " + err.Error())
		return
	}
	e.t["cs_responses_not_delivered_although_the_handler_ran"]++
	if !e.strict || e.noJudge != "" {
		return
	}
	w := csWitness(e, s, csVerdict{reason: "not evaluated: the response could not be read"}, 0, true, p.styleName())
	w["client_error"] = err.Error()
	w["handler_payload_len"] = len(p.resp)
	viol(c, e.keyPrefix+"/response-not-delivered/"+deliveryClass(p), "the protected handler ran and answered "+fmt.Sprint(len(p.expected()))+
		" bytes through "+p.styleName()+", the client could not read the response: "+err.Error(), w)
}

// ------------------------------------------------------------------ a bare net/http server

// bareServer: httptest.NewServer whose handler is replaced per request; whatever it is
// given gets net/http's own http.ResponseWriter (*http.response).
type bareServer struct {
	ts     *httptest.Server
	cur    atomic.Pointer[http.Handler]
	pan    atomic.Pointer[string]
	client *http.Client
}

func newBareServer() *bareServer {
	b := &bareServer{}
	b.ts = httptest.NewServer(http.HandlerFunc(func(w http.ResponseWriter, r *http.Request) {
		h := b.cur.Load()
		if h == nil {
			w.WriteHeader(599)
			return
		}
		defer func() {
			if rec := recover(); rec != nil {
				st := string(debug.Stack())
				if len(st) > 2500 {
					st = st[:2500]
				}
				msg := fmt.Sprint(rec) + "\n" + st
				b.pan.Store(&msg)
				panic(http.ErrAbortHandler)
			}
		}()
		(*h).ServeHTTP(w, r)
	}))
	b.client = &http.Client{Timeout: 300 * time.Second, Transport: &http.Transport{DisableCompression: true, MaxIdleConnsPerHost: 2},
		CheckRedirect: func(*http.Request, []*http.Request) error { return http.ErrUseLastResponse }}
	return b
}

func (b *bareServer) close() {
	b.ts.Close()
	b.client.CloseIdleConnections()
}

func (b *bareServer) do(h http.Handler, req *http.Request) (st status, panicked string, err error) {
	b.cur.Store(&h)
	b.pan.Store(nil)
	defer b.cur.Store(nil)
	resp, err := b.client.Do(req)
	if err == nil {
		var body []byte
		body, err = io.ReadAll(resp.Body)
		resp.Body.Close()
		st = status{code: resp.StatusCode, body: body}
	}
	if p := b.pan.Load(); p != nil {
		return st, *p, nil
	}
	if err != nil {
		b.client.CloseIdleConnections()
	}
	return st, "", err
}

// bareCSServer: a bare net/http server whose only handler is one strict content-security
// gate in front of the probe handler; spoken to like a rest.Server (csExec).
func bareCSServer(gate func(http.Handler) http.Handler) *e2eServer {
	s := &e2eServer{}
	ts := httptest.NewServer(gate(http.HandlerFunc(func(w http.ResponseWriter, r *http.Request) {
		p := s.cur.Load()
		if p == nil {
			w.WriteHeader(599)
			return
		}
		protected(p).ServeHTTP(w, r)
	})))
	s.base, s.closer = ts.URL, ts.Close
	s.client = &http.Client{Timeout: 300 * time.Second, Transport: &http.Transport{DisableCompression: true, MaxIdleConnsPerHost: 2},
		CheckRedirect: func(*http.Request, []*http.Request) error { return http.ErrUseLastResponse }}
	return s
}

// ------------------------------------------------------------------ the family

var (
	cwKinds = []string{"recorder", "bare-cryption", "bare-cs", "engine-default", "engine-off", "engine-chain"}
	cwSizes = []int{0, 1, 15, 16, 17, 4095, 4096, 4097, 65536, 1 << 20}
)

// onlyWriter hides everything but the three http.ResponseWriter methods (as a user's own
// wrapping middleware does).
type onlyWriter struct{ http.ResponseWriter }

func passThrough(next http.Handler) http.Handler {
	return http.HandlerFunc(func(w http.ResponseWriter, r *http.Request) {
		w.Header().Set("X-Verif-Chain", "1")
		next.ServeHTTP(w, r)
	})
}

func wrapping(next http.Handler) http.Handler {
	return http.HandlerFunc(func(w http.ResponseWriter, r *http.Request) { next.ServeHTTP(onlyWriter{w}, r) })
}

// cwJob is one (style, payload size) of a case.
type cwJob struct {
	st   *wstyle
	size int
}

func cwJobs(c *kit.Case, pass int) []cwJob {
	var jobs []cwJob
	for si, st := range wstyles {
		for _, n := range cwSizes {
			if n == 1<<20 && !kit.Thorough() && (si+pass+c.Index)%5 != 0 {
				continue // 1 MiB: every style gets it on some server kind in some pass
			}
			jobs = append(jobs, cwJob{st, n})
		}
	}
	out := make([]cwJob, len(jobs))
	for i, j := range c.R.Perm(len(jobs)) {
		out[i] = jobs[j]
	}
	return out
}

func cwRequestPayload(r *kit.Rand, big bool) []byte {
	n := kit.Choose(r, []int{0, 1, 15, 16, 17, 100, 4095, 4096, 4097, r.Range(0, 3000)})
	if big {
		n = kit.Choose(r, []int{65536, 1 << 20})
	}
	return payloadBytes(r, n)
}

// cryptionWritersCase: case index -> server kind (index mod 6), pass (index div 6).
func cryptionWritersCase(c *kit.Case) {
	r := c.R
	kind := cwKinds[c.Index%len(cwKinds)]
	pass := c.Index / len(cwKinds)
	we, err := getWenv()
	if err != nil {
		c.Inconclusive("scratch directory / upstream server: " + err.Error())
		return
	}
	t := tally{}
	defer t.flush(c)
	jobs := cwJobs(c, pass)
	t["cw_cases_"+kind]++

	switch kind {
	case "recorder", "bare-cryption":
		var srv *bareServer
		if kind == "bare-cryption" {
			srv = newBareServer()
			defer srv.close()
		}
		for i, j := range jobs {
			s := newCrySpec(r, 0)
			s.Payload = cwRequestPayload(r, i%40 == 7)
			s.Method = kit.Choose(r, []string{"POST", "POST", "PUT", "DELETE", "PATCH"})
			s.Limit = kit.Choose(r, []int64{-1, 0, 4 << 20})
			if len(s.Payload) > 700000 {
				s.Limit = kit.Choose(r, []int64{0, 4 << 20})
			}
			s.Wire = []byte(b64s.EncodeToString(refEcbEncrypt(s.key, s.Payload)))
			s.Resp = payloadBytes(r, j.size)
			s.style, s.wopt, s.we, s.srv, s.StyleName = j.st, genWopts(r, j.size), we, srv, j.st.Name
			s.Status = 0
			runCryption(c, t, s)
			cwCount(t, kind, j, s.wopt)
		}
	default:
		confIdx := genConfIdx(r)
		tol := kit.Choose(r, csTolerances)
		e := newCSEnv(c, confIdx, tol, true)
		e.t, e.we = t, we
		decs := map[string]codec.RsaDecrypter{}
		for _, i := range confIdx {
			decs[rsaKeys[i].Fingerprint] = rsaKeys[i].dec
		}
		e.gate = handler.LimitContentSecurityHandler(kit.Choose(r, []int64{0, 4 << 20}), decs, tol, true)
		e.exactTime = true
		var srv *e2eServer
		layout := kind
		switch kind {
		case "bare-cs":
			srv = bareCSServer(e.gate)
			e.keyPrefix = "C18/cs"
		default:
			var keys []rest.PrivateKeyConf
			for _, i := range confIdx {
				keys = append(keys, rest.PrivateKeyConf{Fingerprint: rsaKeys[i].Fingerprint, KeyFile: rsaKeys[i].File})
			}
			var confMod func(conf *rest.RestConf)
			var opts []rest.RunOption
			switch kind {
			case "engine-default":
				verbose := r.Bool()
				layout += fmt.Sprintf("/verbose=%v", verbose)
				confMod = func(conf *rest.RestConf) {
					m := &conf.Middlewares
					m.Trace, m.Log, m.Prometheus, m.MaxConns, m.Breaker, m.Shedding, m.Timeout, m.Recover, m.Metrics, m.MaxBytes, m.Gunzip =
						true, true, true, true, true, true, true, true, true, true, true
					conf.MaxConns = 10000
					conf.CpuThreshold = 0      // no shedder: no 503 under the CPU load of the other checks
					conf.Timeout = 30 * 60_000 // the timeout middleware is on (it wraps the writer); its deadline is a watchdog
					conf.MaxBytes = 4 << 20
					conf.Verbose = verbose
				}
			case "engine-off":
				confMod = func(conf *rest.RestConf) {
					conf.Middlewares = rest.MiddlewaresConf{}
					conf.MaxBytes = 4 << 20
				}
			case "engine-chain":
				var mws []chain.Middleware
				which := r.Intn(3)
				switch which {
				case 0:
					mws, layout = []chain.Middleware{passThrough}, layout+"/pass-through"
				case 1:
					mws, layout = []chain.Middleware{handler.RecoverHandler, passThrough, passThrough}, layout+"/recover+pass-through"
				default:
					mws, layout = []chain.Middleware{passThrough, wrapping}, layout+"/own-wrapping-writer"
				}
				opts = []rest.RunOption{rest.WithChain(chain.New(mws...))}
				confMod = func(conf *rest.RestConf) { conf.MaxBytes = 4 << 20 }
			}
			srv, err = startServerWith(confMod, opts, func(s *rest.Server, mk func(path string) []rest.Route) {
				s.AddRoutes(mk("/cw/:a/:b"), rest.WithSignature(rest.SignatureConf{Strict: true, Expiry: tol, PrivateKeys: keys}))
			})
			if err != nil {
				c.Inconclusive("end-to-end server: " + err.Error())
				return
			}
			e.keyPrefix = "C18/e2e/cs"
		}
		defer srv.stop()
		e.exec, e.gate = srv.csExec, nil
		e.shape = "writers/" + layout
		for i, j := range jobs {
			p := csParams{Method: kit.Choose(r, []string{"POST", "POST", "PUT", "DELETE"}), Path: "/cw/a/b", Query: kit.Choose(r, csQueries),
				KeyIdx: kit.Choose(r, confIdx), Ts: strconv.FormatInt(time.Now().Unix(), 10), Type: "1",
				HmacKey: randBytes(r, kit.Choose(r, []int{16, 24, 32}))}
			p.Fingerprint = rsaKeys[p.KeyIdx].Fingerprint
			plainReq := cwRequestPayload(r, i%40 == 7)
			p.Body = []byte(b64s.EncodeToString(refEcbEncrypt(p.HmacKey, plainReq)))
			spec := csSpec{Kind: "writers", Detail: fmt.Sprintf("%s/%d", j.st.Name, j.size), Req: p.buildSeeded(), Must: true, style: j.st, wopt: genWopts(r, j.size)}
			e.run(spec, payloadBytes(r, j.size))
			cwCount(t, kind, j, spec.wopt)
		}
	}
	c.Sig(true, "cryption-writers", kind, pass)
	if c.Index < len(cwKinds) {
		var names []string
		for _, s := range wstyles {
			names = append(names, s.Name)
		}
		c.Sample("cryption-writers/"+kind, 1, map[string]any{"server": kind, "writing_styles": names, "payload_sizes": cwSizes,
			"options": "explicit WriteHeader(200|201) or none; Flush() before / in between / after; 1-4 piece lengths", "requests": len(jobs)})
	}
}

func cwCount(t tally, kind string, j cwJob, o wopts) {
	t["cw_requests"]++
	t["cw_requests_"+kind]++
	t["cw_style_"+j.st.Name]++
	t["cw_class_"+j.st.Class+"_on_"+kind]++
	t["cw_payload_size_"+strconv.Itoa(j.size)]++
	if o.Status != 0 && !j.st.NoStatus {
		t["cw_with_explicit_WriteHeader"]++
	}
	if o.FlushBefore || o.FlushMid || o.FlushAfter {
		t["cw_with_Flush"]++
	}
}
