package c18

// csfam_test.go: the content-security families: one correctly signed request and
// every single-field mutation of it (strict gate, judged), plus the same requests
// against a non-strict gate (observed only: the statement is about strict mode).

import (
	"encoding/base64"
	"encoding/hex"
	"fmt"
	"math"
	"strconv"
	"strings"
	"time"

	"verifharness/kit"
)

// csBase is the valid signed request the mutations start from.
type csBase struct {
	p      csParams
	plain  []byte // what the client encrypted into the body (Type "1"), else nil
	secret string // cached p.secret()
}

var (
	csPaths   = []string{"/", "/a", "/a/b", "/api/v1/users/42", "/A/b", "/x-y_z.~", "/a//b", "/a/./b", "/a/b/", "/sig/a/b"}
	csQueries = []string{"", "", "a=1", "a=1&b=2", "b=2&a=1", "q=hello%20world", "a=1&a=2", "x", "a=&b", "%41=1", "c=d&e=f"}
)

func genBody(r *kit.Rand) []byte {
	n := kit.Choose(r, []int{0, 0, 1, 5, 15, 16, 17, 32, 100, 1000, r.Range(0, 3000)})
	if n == 0 {
		if r.Bool() {
			return nil
		}
		return []byte{}
	}
	if r.Bool() {
		return randBytes(r, n)
	}
	return []byte(strings.Repeat(`{"k":"v","n":12345} `, n/20+1)[:n])
}

func genCSBase(r *kit.Rand, confIdx []int, now int64, path string) csBase {
	p := csParams{Method: kit.Choose(r, []string{"GET", "POST", "POST", "PUT", "DELETE"}), Path: kit.Choose(r, csPaths), Query: kit.Choose(r, csQueries),
		KeyIdx: kit.Choose(r, confIdx), Ts: strconv.FormatInt(now, 10), Type: "0"}
	if path != "" {
		p.Path = path
	}
	p.Fingerprint = rsaKeys[p.KeyIdx].Fingerprint
	b := csBase{}
	body := genBody(r)
	if r.Chance(0.4) {
		p.Type = "1"
		p.HmacKey = randBytes(r, kit.Choose(r, []int{16, 24, 32}))
		if body == nil {
			body = []byte{}
		}
		b.plain = body
		p.Body = []byte(b64s.EncodeToString(refEcbEncrypt(p.HmacKey, body)))
	} else {
		p.HmacKey = randBytes(r, kit.Choose(r, []int{1, 16, 24, 32, 33, 64, r.Range(1, 100)}))
		p.Body = body
	}
	b.p = p
	b.secret = p.secret()
	return b
}

func flipChar(r *kit.Rand, s string, i int, alphabet string) string {
	return s[:i] + string(otherChar(r, alphabet, s[i])) + s[i+1:]
}

const b64stdAlphabet = "ABCDEFGHIJKLMNOPQRSTUVWXYZabcdefghijklmnopqrstuvwxyz0123456789+/"

// csMutations lists the base request and its mutations. now = the unix time the
// base timestamp was taken from; tol in seconds (>= 300).
func csMutations(r *kit.Rand, b csBase, confIdx []int, tol, now int64) []csSpec {
	var out []csSpec
	base := b.p.build(b.secret)
	add := func(kind, detail string, q csReq, must bool) {
		out = append(out, csSpec{Kind: kind, Detail: detail, Req: q, Must: must})
	}
	fp, sec, sig := b.p.Fingerprint, b.secret, b.p.signature()
	add("base", b.p.Method+"/type="+b.p.Type, base, true)
	itoa := func(v int64) string { return strconv.FormatInt(v, 10) }

	// 1. timestamp (secret and signature made by the client for that timestamp: only the time is off)
	type tsv struct {
		name, ts string
		inside   bool
	}
	ns := itoa(now)
	for _, t := range []tsv{
		{"future-tol+60s", itoa(now + tol + 60), false}, {"past-tol+60s", itoa(now - tol - 60), false},
		{"future-tol+1h", itoa(now + tol + 3600), false}, {"past-tol+1h", itoa(now - tol - 3600), false},
		{"future-10tol", itoa(now + 10*tol), false}, {"past-10tol", itoa(now - 10*tol), false},
		{"zero", "0", false}, {"negative", "-1", false}, {"maxint64", itoa(math.MaxInt64), false}, {"minint64", itoa(math.MinInt64), false},
		{"maxint64-tol", itoa(math.MaxInt64 - tol), false}, {"overflow", "9223372036854775808", false}, {"millis", itoa(now * 1000), false},
		{"future-inside-tol-120s", itoa(now + tol - 120), true}, {"past-inside-tol-120s", itoa(now - tol + 120), true},
		{"plus-sign", "+" + ns, true}, {"leading-zeros", "000" + ns, true},
		{"float", ns + ".0", false}, {"exponent", "1.7e9", false}, {"empty", "", false}, {"text", "now", false}, {"hex", "0x" + strconv.FormatInt(now, 16), false},
		{"inner-space", ns[:5] + " " + ns[5:], false}, {"underscore", ns[:4] + "_" + ns[4:], false},
	} {
		m := b.p
		m.Ts = t.ts
		add("timestamp-resigned", t.name, m.build(""), t.inside)
	}
	// only the secret's time field differs (signature still the one made for the old timestamp)
	for _, d := range []int64{1, -1, 60, tol + 60, -tol - 60} {
		m := b.p
		m.Ts = itoa(now + d)
		q := base
		q.Header = csHeader(fp, m.secret(), sig)
		add("timestamp-secret-only", fmt.Sprintf("%+ds", d), q, false)
	}

	// 2. method
	for _, m := range append(append([]string{}, allMethods...), "get", "Patch", "PROPFIND") {
		if m == b.p.Method {
			continue
		}
		q := base
		q.Method = m
		add("method-signature-kept", m, q, false)
		mm := b.p
		mm.Method = m
		add("method-resigned", m, mm.build(sec), verifiedMethod(m))
		add("method-no-header", m, csReq{Method: m, Path: b.p.Path, Query: b.p.Query, Body: b.p.Body, NoHdr: true}, false)
		add("method-garbage-header", m, csReq{Method: m, Path: b.p.Path, Query: b.p.Query, Body: b.p.Body, Header: "key=x; secret=y; signature=z"}, false)
	}

	// 3. path
	pp := b.p.Path
	for i, np := range []string{pp + "/", pp + "x", "/other", strings.ToUpper(pp) + "Q", "/" + pp, pp + "/..", strings.TrimSuffix(pp, "/") + "//", "/a/../" + strings.TrimPrefix(pp, "/"), pp + "%2F", pp + ";v=1"} {
		if np == pp {
			continue
		}
		q := base
		q.Path = np
		add("path-signature-kept", strconv.Itoa(i), q, false)
	}
	{
		m := b.p
		m.Path = pp + "/more"
		add("path-resigned", "longer", m.build(sec), true)
		// a path that needs escaping on the wire: the request's path is the decoded one
		esc, dec := strings.TrimSuffix(pp, "/")+"/a%20b%2Bc", strings.TrimSuffix(pp, "/")+"/a b+c"
		m.Path = dec // signed text
		q := m.build(sec)
		q.Path = esc // request line
		add("path-escaped", "signed-decoded-form", q, false)
		m.Path = esc
		q = m.build(sec)
		add("path-escaped", "signed-escaped-form", q, false)
	}

	// 4. query
	qq := b.p.Query
	qs := []string{qq + "&z=9", "z=9&" + qq, strings.ToUpper(qq) + "x", "a=2", "", qq + "&", "&" + qq, strings.Replace(qq, "=", "=%31", 1)}
	if i := strings.IndexByte(qq, '&'); i > 0 {
		qs = append(qs, qq[i+1:]+"&"+qq[:i], qq[:i], qq[i+1:]) // order swapped, a parameter removed
	}
	if strings.Contains(qq, "1") {
		qs = append(qs, strings.Replace(qq, "1", "2", 1))
	}
	for i, nq := range qs {
		if nq == qq {
			continue
		}
		q := base
		q.Query = nq
		add("query-signature-kept", strconv.Itoa(i), q, false)
	}
	{
		m := b.p
		m.Query = strings.Trim(qq+"&z=9", "&")
		add("query-resigned", "added", m.build(sec), true)
	}

	// 5. body
	bb := b.p.Body
	var bodies [][]byte
	var names []string
	addBody := func(n string, v []byte) { names = append(names, n); bodies = append(bodies, v) }
	if len(bb) > 0 {
		pos := []int{0, len(bb) - 1, len(bb) / 2}
		for k := 0; k < kit.N(4, 16); k++ {
			pos = append(pos, r.Intn(len(bb)))
		}
		for _, i := range pos {
			nb := append([]byte{}, bb...)
			if b.p.Type == "1" {
				nb[i] = otherChar(r, b64stdAlphabet, nb[i]) // stays base64 text
			} else {
				nb[i] ^= 1 << uint(r.Intn(8))
			}
			addBody(fmt.Sprintf("byte@%d", i), nb)
		}
		addBody("truncated", append([]byte{}, bb[:len(bb)-1]...))
		addBody("emptied", []byte{})
		addBody("absent", nil)
	} else {
		addBody("added-1-byte", []byte("x"))
		addBody("added-json", []byte(`{"admin":true}`))
		addBody("added-newline", []byte("\n"))
	}
	addBody("appended", append(append([]byte{}, bb...), 'A'))
	addBody("appended-newline", append(append([]byte{}, bb...), '\n'))
	addBody("doubled", append(append([]byte{}, bb...), bb...))
	for i, nb := range bodies {
		if string(nb) == string(bb) {
			continue
		}
		q := base
		q.Body = nb
		add("body-signature-kept", names[i], q, false)
	}
	if b.p.Type == "0" {
		m := b.p
		m.Body = append(append([]byte{}, bb...), []byte("-more")...)
		add("body-resigned", "appended", m.build(sec), true)
	} else {
		m := b.p
		np := append(append([]byte{}, b.plain...), []byte("-more")...)
		m.Body = []byte(b64s.EncodeToString(refEcbEncrypt(m.HmacKey, np)))
		add("body-resigned", "other-plaintext", m.build(sec), true)
	}
	// body sent without a Content-Length
	if len(bb) > 0 {
		q := base
		q.UnknownLength = true
		add("body-unknown-length", "signature-over-this-body", q, b.p.Type == "0")
		m := b.p
		m.Body = nil
		q = m.build(sec) // signed for an empty body ...
		q.Body, q.UnknownLength = bb, true
		add("body-unknown-length", "signature-over-empty-body", q, false)
	}

	// 6. key fingerprint
	other, unconf := -1, 2
	for _, i := range confIdx {
		if i != b.p.KeyIdx {
			other = i
		}
	}
	fps := []string{rsaKeys[unconf].Fingerprint, "", strings.ToUpper(fp) + "x", strings.ToLower(fp) + "x", fp + "0", "unknown"}
	if other >= 0 {
		fps = append(fps, rsaKeys[other].Fingerprint) // configured, but the secret was encrypted to the other key
	} else {
		fps = append(fps, rsaKeys[1-b.p.KeyIdx].Fingerprint) // exists, not configured in this gate
	}
	for i, f := range fps {
		q := base
		q.Header = csHeader(f, sec, sig)
		add("fingerprint", strconv.Itoa(i), q, false)
	}
	{
		m := b.p
		m.KeyIdx, m.Fingerprint = unconf, rsaKeys[unconf].Fingerprint
		add("fingerprint-unconfigured-key", "secret-encrypted-to-it", m.build(""), false)
		m.Fingerprint = fp // claims the configured fingerprint, secret encrypted to the unconfigured key
		add("fingerprint-unconfigured-key", "under-configured-name", m.build(""), false)
		if other >= 0 {
			m = b.p
			m.KeyIdx, m.Fingerprint = other, rsaKeys[other].Fingerprint
			add("fingerprint-other-configured-key", "secret-re-encrypted", m.build(""), true)
		}
	}

	// 7. secret ciphertext
	spos := []int{0, len(sec) / 2, len(sec) - 3, len(sec) - 2}
	for k := 0; k < kit.N(5, 20); k++ {
		spos = append(spos, r.Intn(len(sec)-2))
	}
	for _, i := range spos {
		q := base
		q.Header = csHeader(fp, flipChar(r, sec, i, b64stdAlphabet), sig)
		add("secret-byte", "flip", q, false)
	}
	{
		m := b.p
		m.HmacKey = append([]byte{}, b.p.HmacKey...)
		m.HmacKey[0] ^= 1
		variants := []string{sec[:len(sec)-4], sec + "AAAA", "", "AAAA", sec + sec, m.secret(), strings.TrimRight(sec, "="), hex.EncodeToString([]byte(sec[:20]))}
		for i, v := range variants {
			q := base
			q.Header = csHeader(fp, v, sig)
			add("secret-replaced", strconv.Itoa(i), q, false)
		}
	}

	// 8. signature
	for i := 0; i < len(sig); i++ {
		if sig[i] == '=' {
			continue
		}
		alts := []byte{otherChar(r, b64stdAlphabet, sig[i])}
		if i+1 < len(sig) && sig[i+1] == '=' {
			alts = []byte(b64stdAlphabet) // the character carrying ignored pad bits: try all of them
		}
		for _, ch := range alts {
			if ch == sig[i] {
				continue
			}
			q := base
			q.Header = csHeader(fp, sec, sig[:i]+string(ch)+sig[i+1:])
			add("signature-byte", fmt.Sprintf("pos=%d", i), q, false)
		}
	}
	if raw, err := b64s.DecodeString(sig); err == nil {
		wrongKey := signContent(append([]byte{0}, b.p.HmacKey...), b.p.Ts, b.p.Method, b.p.Path, b.p.Query, bodyDigest(b.p.Body))
		for i, v := range []string{"", sig[:len(sig)-4], strings.TrimRight(sig, "="), hex.EncodeToString(raw), base64.URLEncoding.EncodeToString(raw) + "x", sig + "=",
			b64s.EncodeToString(make([]byte, len(raw))), b64s.EncodeToString(raw[:16]), wrongKey,
			signContent(b.p.HmacKey, b.p.Ts, b.p.Method, b.p.Path, b.p.Query),                                  // body digest left out
			signContent(b.p.HmacKey, b.p.Ts, b.p.Method, b.p.Path, b.p.Query, bodyDigest(nil)),                 // digest of an empty body
			signContent(b.p.HmacKey, b.p.Method, b.p.Path, b.p.Query, bodyDigest(b.p.Body)),                    // timestamp left out
			signContent(b.p.HmacKey, b.p.Ts, b.p.Method, b.p.Path, bodyDigest(b.p.Body)),                       // query left out
			signContent(b.p.HmacKey, b.p.Ts, b.p.Path, b.p.Query, bodyDigest(b.p.Body)),                        // method left out
			signContent(b.p.HmacKey, b.p.Ts, b.p.Method, b.p.Query, bodyDigest(b.p.Body)),                      // path left out
			signContent(b.p.HmacKey, b.p.Ts, b.p.Method, b.p.Path+"?"+b.p.Query, "", bodyDigest(b.p.Body)),     // path?query joined
			signContent(b.p.HmacKey, b.p.Ts, strings.ToLower(b.p.Method), b.p.Path, b.p.Query, bodyDigest(b.p.Body)),
			signContent(b.p.HmacKey, b.p.Ts, b.p.Method, b.p.Path, b.p.Query, strings.ToUpper(bodyDigest(b.p.Body)))} {
			if v == sig {
				continue
			}
			q := base
			q.Header = csHeader(fp, sec, v)
			add("signature-replaced", strconv.Itoa(i), q, false)
		}
	}

	// 9. content-type field of the secret (not covered by the signature: the reference still decides)
	for _, t := range []string{"0", "1", "2", "-1", "", "x", "01", "1.0"} {
		if t == b.p.Type {
			continue
		}
		m := b.p
		m.Type = t
		q := base
		q.Header = csHeader(fp, m.secret(), sig)
		add("content-type-field", "type="+t, q, false)
	}

	// 10. header shape
	shapes := []string{
		"signature=" + sig + "; secret=" + sec + "; key=" + fp,                       // 0 order (still all three fields)
		"key=" + fp + ";secret=" + sec + ";signature=" + sig,                         // 1 no blanks
		"key=" + fp + " ;  secret=" + sec + " ;  signature=" + sig + " ; ",           // 2 more blanks
		csHeader(fp, sec, sig) + "; extra=1",                                         // 3 extra field
		"key=" + fp + "; secret=" + sec,                                              // 4 no signature
		"key=" + fp + "; signature=" + sig,                                           // 5 no secret
		"secret=" + sec + "; signature=" + sig,                                       // 6 no key
		"key=" + fp + ", secret=" + sec + ", signature=" + sig,                       // 7 commas
		"", "key", ";;;", "key=; secret=; signature=",                                // 8..11
		"Key=" + fp + "; Secret=" + sec + "; Signature=" + sig,                       // 12 capitalised names
		csHeader(fp, sec, "AAAA") + "; signature=" + sig,                             // 13 duplicate, right one last
		csHeader(fp, sec, sig) + "; signature=AAAA",                                  // 14 duplicate, wrong one last
		csHeader(fp, sec, sig) + "; key=" + rsaKeys[unconf].Fingerprint,              // 15 duplicate key, wrong last
		"key=" + fp + "; secret=" + sec + "; signature=\"" + sig + "\"",              // 16 quoted
	}
	for i, h := range shapes {
		q := base
		q.Header = h
		add("header-shape", strconv.Itoa(i), q, false)
	}
	{
		q := base
		q.NoHdr, q.Header = true, ""
		add("header-shape", "absent", q, false)
	}
	// the secret's inner text
	inner := func(parts ...string) string {
		return rsaEncryptB64(&rsaKeys[b.p.KeyIdx].priv.PublicKey, []byte(strings.Join(parts, "; ")))
	}
	k64 := "key=" + b64s.EncodeToString(b.p.HmacKey)
	for i, s := range []string{
		inner("time="+b.p.Ts, k64, "type="+b.p.Type, "version=v1"),            // 0 order
		inner("version=v2", "type="+b.p.Type, k64, "time="+b.p.Ts),            // 1 other version
		inner("type="+b.p.Type, k64, "time="+b.p.Ts),                          // 2 no version
		inner("version=v1", "type="+b.p.Type, "time="+b.p.Ts),                 // 3 no key
		inner("version=v1", "type="+b.p.Type, k64),                            // 4 no time
		inner("version=v1", k64, "time="+b.p.Ts),                              // 5 no type
		inner("version=v1", "type="+b.p.Type, "key=!!!", "time="+b.p.Ts),      // 6 key not base64
		inner("version=v1", "type="+b.p.Type, k64, "time="+b.p.Ts, "time=0"),  // 7 duplicate time, stale last
		inner("version=v1", "type="+b.p.Type, k64, "time=0", "time="+b.p.Ts),  // 8 duplicate time, right one last
		inner(""), inner("garbage"),                                           // 9, 10
	} {
		q := base
		q.Header = csHeader(fp, s, sig)
		add("secret-inner-shape", strconv.Itoa(i), q, false)
	}

	// 11. X-Request-Uri (the reference always judges THIS request's path and query)
	uri := pp
	if qq != "" {
		uri += "?" + qq
	}
	{
		q := base
		q.ReqURI = "http://elsewhere.example" + uri
		add("x-request-uri", "same-uri-as-request", q, false)
		q = base
		q.ReqURI = "/other/place?x=1"
		add("x-request-uri", "other-uri-signature-kept", q, false)
		q = base
		q.ReqURI = "%zz"
		add("x-request-uri", "unparsable", q, false)
		// two fields changed at once (outside the quantifier): request line moved, header names the signed uri
		q = base
		q.Path, q.Query, q.ReqURI = "/admin/delete-everything", "force=1", uri
		out = append(out, csSpec{Kind: "x-request-uri", Detail: "two-field-change/request-line-moved+header-names-signed-uri", Req: q,
			ObsOnly: "cs_obs_two_field_change_x_request_uri_accepted_for_another_path"})
	}
	return out
}

var csTolerances = []time.Duration{5 * time.Minute, time.Hour, 24 * time.Hour}

func genConfIdx(r *kit.Rand) []int {
	switch r.Intn(3) {
	case 0:
		return []int{0}
	case 1:
		return []int{1}
	}
	return []int{0, 1}
}

func respBytes(r *kit.Rand) []byte {
	n := kit.Choose(r, []int{0, 1, 7, 15, 16, 17, 32, 100, r.Range(0, 2000)})
	return randBytes(r, n)
}

// csMutationCase: strict gate, judged.
func csMutationCase(c *kit.Case) {
	r := c.R
	confIdx := genConfIdx(r)
	tol := kit.Choose(r, csTolerances)
	e := newCSEnv(c, confIdx, tol, true)
	defer e.t.flush(c)
	now := e.born.Unix()
	b := genCSBase(r, confIdx, now, "")
	e.shape = fmt.Sprintf("%s/type=%s/keys=%d/tol=%s", b.p.Method, b.p.Type, len(confIdx), tol)
	specs := csMutations(r, b, confIdx, int64(tol.Seconds()), now)
	ran, mutRan := 0, 0
	for _, s := range specs {
		if e.dead {
			break
		}
		if ok, _ := e.run(s, respBytes(r)); ok {
			ran++
			if s.Kind != "base" {
				mutRan++
			}
		}
	}
	e.t["cs_mutation_cases"]++
	e.t["cs_mutants_that_ran_the_handler"] += int64(mutRan)
	// the base once more at the end
	e.run(csSpec{Kind: "base", Detail: "again", Req: b.p.build(b.secret), Must: true}, respBytes(r))
	if c.Index < 3 {
		c.Sample("cs-mutations", 1, map[string]any{"method": b.p.Method, "path": b.p.Path, "query": b.p.Query, "body_len": len(b.p.Body), "type": b.p.Type,
			"fingerprint": b.p.Fingerprint, "configured_keys": len(confIdx), "tolerance": tol.String(), "x_content_security": clip(b.p.build(b.secret).Header, 120),
			"requests": len(specs) + 1, "handler_ran": ran, "mutations_that_ran": mutRan})
	}
}

// csNonStrictCase: the same requests against a non-strict gate; nothing is judged.
func csNonStrictCase(c *kit.Case) {
	r := c.R
	confIdx := genConfIdx(r)
	tol := kit.Choose(r, csTolerances)
	e := newCSEnv(c, confIdx, tol, false)
	defer e.t.flush(c)
	now := e.born.Unix()
	b := genCSBase(r, confIdx, now, "")
	specs := csMutations(r, b, confIdx, int64(tol.Seconds()), now)
	for i, s := range specs {
		if i%4 != c.Index%4 && s.Kind != "base" {
			continue
		}
		e.run(s, respBytes(r))
	}
	e.t["cs_nonstrict_cases"]++
}
