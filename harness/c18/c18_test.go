package c18

// c18_test.go: the test entry of property C18 (see common_test.go for the oracles).

import (
	"os"
	"path/filepath"
	"testing"
	"time"

	"github.com/golang-jwt/jwt/v4"
	"github.com/zeromicro/go-zero/core/logx"

	"verifharness/kit"
)

func TestVerifC18(t *testing.T) {
	logx.Disable()
	// the clock the jwt library validates exp/nbf/iat against is the harness's
	// (set once, before any goroutine that reads it exists; never reset)
	jwt.TimeFunc = func() time.Time { return time.Unix(jwtNow.Load(), 0) }
	if err := setupKeys(); err != nil {
		t.Fatalf("cannot generate RSA keys: %v", err)
	}
	defer closeWenv()
	defer func() {
		if len(rsaKeys) > 0 {
			os.RemoveAll(filepath.Dir(rsaKeys[0].File))
		}
	}()

	// ---- JWT gate: one valid token and every single-field mutation of it
	kit.Run(t, "C18", "jwt-mutations", kit.N(240, 5000), jwtMutationCase)
	// ---- JWT gate: two secrets, long request sequences against one gate (history counters, both orders)
	kit.Run(t, "C18", "jwt-rotation", kit.N(600, 10000), jwtRotationCase)
	// ---- JWT gate: the SAME tokens presented to ONE gate while the jwt clock moves (before nbf, inside, after exp)
	kit.Run(t, "C18", "jwt-timetravel", kit.N(300, 6000), jwtTimeTravelCase)
	// ---- strict content security: one signed request and every single-field mutation of it
	kit.Run(t, "C18", "cs-mutations", kit.N(100, 2000), csMutationCase)
	// ---- strict content security: several gates with different key sets in one process, every key to every gate
	kit.Run(t, "C18", "cs-gates", kit.N(12, 240), csGatesCase)
	// ---- strict content security: correctly signed requests whose TIMESTAMP is unusual (powers of two, offsets whose
	// product with 1e9 / 1e6 / 1e3 wraps, integer limits, tolerance edges, spellings) against tolerances 0 .. 292 years
	kit.Run(t, "C18", "cs-time", kit.N(1, 8)*csTimeCasesPerRound(), csTimeCase)
	// ---- non-strict content security: observed only
	kit.Run(t, "C18", "cs-nonstrict", kit.N(12, 200), csNonStrictCase)
	// ---- encryption handler: every payload size 0..4096 (exhaustive in both tiers)
	const per = 64
	rounds := kit.N(1, 12)
	kit.Run(t, "C18", "cryption-sizes", rounds*((4096+per)/per), func(c *kit.Case) {
		i := c.Index % ((4096 + per) / per)
		lo, hi := i*per, (i+1)*per
		if hi > 4097 {
			hi = 4097
		}
		cryptionSizesCase(c, lo, hi)
	})
	kit.Run(t, "C18", "cryption-misc", kit.N(150, 2500), cryptionMiscCase)
	// ---- encryption: every writing style of the handler x what sits underneath the encrypting writer (recorder,
	// bare net/http server, rest.Server with default / no / custom middlewares) x payload sizes 0 .. 1 MiB
	kit.Run(t, "C18", "cryption-writers", kit.N(1, 12)*len(cwKinds), cryptionWritersCase)
	// ---- end to end through rest.Server
	kit.Run(t, "C18", "e2e", kit.N(4, 24), e2eCase)
	// ---- end to end: several signature / JWT route groups with different keys / secrets on one server, time travel
	kit.Run(t, "C18", "e2e-groups", kit.N(8, 48), e2eGroupsCase)
	kit.End()
}
