// Package c18: authentication gates (DESIGN.md §4 C18).
//
// Every generated request (a valid credential or one single-field mutation of
// it) is decided twice: by the real go-zero middleware (did the protected
// handler run, status, context values, body seen, raw response) and by an
// INDEPENDENT reference verifier written here on top of crypto/hmac,
// crypto/rsa, crypto/aes and encoding/base64 only. The oracle is never
// "mutated => rejected": a mutated base64 character may decode to the same
// bytes, a re-signed token under another HS* algorithm is a valid token, etc.
//
//	jwt     : handler ran  => some token carried by the request verifies under
//	          secret/prevSecret with HS256/384/512 and its exp/nbf/iat are valid
//	          at jwt.TimeFunc; not ran => 401; canonical valid => ran; on
//	          success ctx.Value(k) is the claim for every non-standard k and
//	          nil for the standard ones.
//	cs      : handler ran  => header signature == HMAC(key, ts\nmethod\npath\n
//	          query\nsha256hex(body)) of THIS request, |ts-now| <= tolerance,
//	          secret decrypts under a configured fingerprint.
//	cryption: handler sees the plaintext, response = base64(AES-ECB(PKCS7)).
//
// The oracles are per request, the WORKLOAD is not only request-at-a-time:
// timetravel_test.go presents the same tokens to one gate instance while the jwt
// clock moves across their validity window (the reference decides each step at
// that step's time), groups_test.go puts several gates / route groups with
// different keys, secrets and tolerances side by side and sends every credential
// to every gate (the reference decides with what is configured for THAT gate).
//
// A panic of go-zero is recovered: on a request that must pass (or on any JWT
// request, which must be answered 401 or run the handler) it is a violation
// (C18/panic/...); on a malformed signed/encrypted request, about which the
// statement says nothing beyond "the handler does not run", it is counted as an
// observation (findings/C18-side-observations.md).
//
// Where the statement is silent (non-strict mode, bodies that are no valid
// encryption under the key, requests without a body, two-field changes such as
// X-Request-Uri rewriting, status codes of refused signed requests) outcomes are
// counted in observation counters and never judged.
package c18

import (
	"bytes"
	"encoding/json"
	"fmt"
	"io"
	"math/big"
	"net/http"
	"net/http/httptest"
	"reflect"
	"runtime/debug"
	"sort"
	"strings"
	"sync"
	"sync/atomic"

	"verifharness/kit"
)

// ------------------------------------------------------------------ fixed clock for jwt

var jwtNow atomic.Int64 // unix seconds returned by jwt.TimeFunc

// ------------------------------------------------------------------ the protected handler

// probe records what the protected handler observed for ONE request.
type probe struct {
	mu      sync.Mutex
	runs    int
	ctxVals func(k string) any
	body    []byte
	bodyErr error
	method  string
	resp    []byte // what the handler wrote (plaintext)
	status  int    // status the handler asked for (0 = implicit 200)
	writes  int    // number of Write calls to use
	// style != nil: the answer is produced through that writing style (crywrite_test.go)
	// instead of plain Write calls; status is then ignored in favour of wopt.Status
	style *wstyle
	wopt  wopts
	we    *wenv
	werr  error // what the writing style returned
}

func (p *probe) styleName() string {
	if p.style == nil {
		return ""
	}
	o := p.wopt
	if p.style.NoStatus {
		o.Status = 0
	}
	return p.style.Name + o.tag()
}

// expected: the plaintext the handler handed to its ResponseWriter.
func (p *probe) expected() []byte {
	if p.style != nil && p.style.expect != nil {
		return p.style.expect(p.resp)
	}
	return p.resp
}

// protected builds the handler put behind the gate. It reads the whole body,
// keeps the request context, and answers with p.resp.
func protected(p *probe) http.Handler {
	return http.HandlerFunc(func(w http.ResponseWriter, r *http.Request) {
		var b []byte
		var err error
		if r.Body != nil {
			b, err = io.ReadAll(r.Body)
		}
		ctx := r.Context()
		p.mu.Lock()
		p.runs++
		p.ctxVals = func(k string) any { return ctx.Value(k) }
		p.body, p.bodyErr = b, err
		p.method = r.Method
		resp, st, writes := p.resp, p.status, p.writes
		style, wopt, we := p.style, p.wopt, p.we
		p.mu.Unlock()
		if style != nil {
			err := runStyle(w, r, style, wopt, resp, we)
			p.mu.Lock()
			p.werr = err
			p.mu.Unlock()
			return
		}
		if st != 0 {
			w.WriteHeader(st)
		}
		if writes <= 1 || len(resp) < writes {
			if len(resp) > 0 {
				w.Write(resp)
			}
			return
		}
		step := len(resp) / writes
		for i := 0; i < writes; i++ {
			lo, hi := i*step, (i+1)*step
			if i == writes-1 {
				hi = len(resp)
			}
			w.Write(resp[lo:hi])
		}
	})
}

func (p *probe) ran() bool {
	p.mu.Lock()
	defer p.mu.Unlock()
	return p.runs > 0
}

// serve runs one request through h in-process; a panic of the code under test
// is recovered and returned.
func serve(h http.Handler, req *http.Request) (rec *httptest.ResponseRecorder, panicked string) {
	rec = httptest.NewRecorder()
	defer func() {
		if r := recover(); r != nil {
			st := string(debug.Stack())
			if len(st) > 2500 {
				st = st[:2500]
			}
			panicked = fmt.Sprint(r) + "\n" + st
		}
	}()
	h.ServeHTTP(rec, req)
	return
}

// newReq builds an in-process request with an exact body and Content-Length.
func newReq(method, target string, body []byte) *http.Request {
	var rd io.Reader
	if body != nil {
		rd = bytes.NewReader(body)
	}
	req := httptest.NewRequest(method, target, rd)
	return req
}

// ------------------------------------------------------------------ violations

var (
	violMu   sync.Mutex
	violSeen = map[string]int{}
)

// viol reports a violation, at most twice per (case, key): the kit keeps only the
// first 20 violations of a case, and one defect (hundreds of witnesses in one
// case) must not crowd out a different failure found later in the same case.
func viol(c *kit.Case, key, what string, witness any) {
	violMu.Lock()
	k := c.ID + "\x00" + key
	violSeen[k]++
	n := violSeen[k]
	violMu.Unlock()
	if n > 2 {
		kit.Obs("further_witnesses_of_an_already_reported_violation_key", 1)
		return
	}
	c.Viol(key, what, witness)
}

// ------------------------------------------------------------------ JSON value equality

// jsonEqual compares two decoded JSON values; numbers are compared by value
// (exact rational arithmetic), so 1.50 == 1.5 but 2^63 != 2^63+1.
func jsonEqual(a, b any) bool {
	switch x := a.(type) {
	case json.Number:
		y, ok := b.(json.Number)
		if !ok {
			return false
		}
		rx, ok1 := new(big.Rat).SetString(string(x))
		ry, ok2 := new(big.Rat).SetString(string(y))
		if !ok1 || !ok2 {
			return string(x) == string(y)
		}
		return rx.Cmp(ry) == 0
	case map[string]any:
		y, ok := b.(map[string]any)
		if !ok || len(x) != len(y) {
			return false
		}
		for k, v := range x {
			w, ok := y[k]
			if !ok || !jsonEqual(v, w) {
				return false
			}
		}
		return true
	case []any:
		y, ok := b.([]any)
		if !ok || len(x) != len(y) {
			return false
		}
		for i := range x {
			if !jsonEqual(x[i], y[i]) {
				return false
			}
		}
		return true
	default:
		return reflect.DeepEqual(a, b)
	}
}

// normJSON turns any Go value the handler saw into a decoded-JSON value
// (numbers as json.Number) so that it can be compared with the claim.
func normJSON(v any) (any, error) {
	b, err := json.Marshal(v)
	if err != nil {
		return nil, err
	}
	return decodeJSON(b)
}

func decodeJSON(b []byte) (any, error) {
	dec := json.NewDecoder(bytes.NewReader(b))
	dec.UseNumber()
	var out any
	if err := dec.Decode(&out); err != nil {
		return nil, err
	}
	return out, nil
}

// ------------------------------------------------------------------ misc

func sortedKeys[V any](m map[string]V) []string {
	ks := make([]string, 0, len(m))
	for k := range m {
		ks = append(ks, k)
	}
	sort.Strings(ks)
	return ks
}

func clip(s string, n int) string {
	if len(s) > n {
		return s[:n] + "…"
	}
	return s
}

func randBytes(r *kit.Rand, n int) []byte {
	b := make([]byte, n)
	for i := 0; i < n; i += 8 {
		v := r.Uint64()
		for j := 0; j < 8 && i+j < n; j++ {
			b[i+j] = byte(v >> (8 * j))
		}
	}
	return b
}

const alnum = "abcdefghijklmnopqrstuvwxyzABCDEFGHIJKLMNOPQRSTUVWXYZ0123456789"

func randAlnum(r *kit.Rand, n int) string {
	var sb strings.Builder
	for i := 0; i < n; i++ {
		sb.WriteByte(alnum[r.Intn(len(alnum))])
	}
	return sb.String()
}

// otherChar returns a character of alphabet different from c.
func otherChar(r *kit.Rand, alphabet string, c byte) byte {
	for {
		d := alphabet[r.Intn(len(alphabet))]
		if d != c {
			return d
		}
	}
}
