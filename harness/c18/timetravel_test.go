package c18

// timetravel_test.go: HISTORY on one JWT gate. The single-request families build
// a fresh token per request and keep the clock fixed; here the SAME token string
// is presented again and again to the SAME gate instance (one handler.Authorize,
// i.e. one token.TokenParser; end to end: one route of one rest.Server) while the
// clock the jwt library reads (jwt.TimeFunc) moves forward: before nbf/iat
// (refused), inside the validity window (accepted), after exp (refused again) by
// seconds, a minute, hours, weeks. Every step is decided by the reference verifier
// at that step's time, so anything the gate remembers about a token (a cache of
// verified tokens, a negative cache, a per-secret history) must not outlive the
// token's own time claims. A second gate with other secrets sees the same tokens
// in between: state must not be shared between gate instances either.
//
// All offsets keep >= 2 s distance from the edges (the library truncates
// fractional time claims to whole seconds, the reference does not).

import (
	"encoding/json"
	"fmt"
	"sort"
	"strconv"
	"time"

	"verifharness/kit"
)

type ttToken struct {
	tok       string
	desc      string // alg/signer/start-kind/life, for signatures and samples
	hasStart  bool
	start     int64 // first valid second (nbf and/or iat), when hasStart
	exp       int64
	accepted  bool // the gate under test has run the handler for this token string
	refusedNY bool // the gate under test has refused it while it was not yet valid
}

type ttStep struct {
	at    int64
	tok   int
	phase string // before-nbf | inside | after-exp
	label string // "start-5s", "mid", "exp+61s" ...
	other bool   // also present it to the second gate (other secrets) at this time
	twice bool   // present it twice at this time
}

var ttLives = []int64{7, 20, 45, 59, 61, 90, 300, 3600, 86400, 86400 * 30}

func secs(d int64) string {
	switch {
	case d%86400 == 0 && d != 0:
		return strconv.FormatInt(d/86400, 10) + "d"
	case d%3600 == 0 && d != 0:
		return strconv.FormatInt(d/3600, 10) + "h"
	}
	return strconv.FormatInt(d, 10) + "s"
}

// genTimeTravel: 1..3 tokens valid under cfg, each with its own window on a
// common timeline that starts around t0, and the (time-ordered) presentations.
func genTimeTravel(r *kit.Rand, cfg jwtCfg, t0 int64) ([]ttToken, []ttStep) {
	var toks []ttToken
	var steps []ttStep
	frac := func(v int64, p float64) any {
		if r.Chance(p) {
			return json.Number(strconv.FormatInt(v, 10) + kit.Choose(r, []string{".5", ".25", ".0"}))
		}
		return num(v)
	}
	for i, n := 0, r.Range(1, 3); i < n; i++ {
		alg := kit.Choose(r, []string{"HS256", "HS256", "HS384", "HS512"})
		key, signer := cfg.Secret, "secret"
		if cfg.Prev != "" && r.Chance(0.4) {
			key, signer = cfg.Prev, "prev"
		}
		cl := genClaims(r, t0, false)
		delete(cl, "exp")
		delete(cl, "nbf")
		delete(cl, "iat")
		start := t0 + int64(r.Range(0, 7200))
		life := kit.Choose(r, ttLives)
		t := ttToken{start: start, exp: start + life, hasStart: true}
		startKind := []string{"nbf", "iat", "iat+nbf", "no-start"}[r.Pick(4, 2, 2, 2)]
		switch startKind {
		case "nbf":
			cl["nbf"] = frac(start, 0.1)
		case "iat":
			cl["iat"] = frac(start, 0.1)
		case "iat+nbf":
			cl["iat"] = num(start - int64(r.Range(0, 600)))
			cl["nbf"] = num(start)
		default:
			t.hasStart = false
		}
		cl["exp"] = frac(t.exp, 0.15)
		t.tok = signTok(hdrJSON(alg, "JWT"), mustJSON(cl), alg, []byte(key))
		t.desc = fmt.Sprintf("%s/%s/%s/life=%s", alg, signer, startKind, secs(life))
		toks = append(toks, t)

		add := func(at int64, phase, label string) {
			steps = append(steps, ttStep{at: at, tok: i, phase: phase, label: label, other: r.Chance(0.3), twice: r.Chance(0.15)})
		}
		if t.hasStart {
			offs := []int64{86400, 3600, 61, 30, 5, 2}
			for _, k := range r.Perm(len(offs))[:r.Range(1, 3)] {
				add(start-offs[k], "before-nbf", "start-"+secs(offs[k]))
			}
		}
		seen := map[int64]bool{}
		for _, c := range []struct {
			at    int64
			label string
		}{{start + 2, "start+2s"}, {start + 5, "start+5s"}, {start + life/2, "mid"}, {t.exp - 5, "exp-5s"}, {t.exp - 2, "exp-2s"}} {
			if c.at < start+2 || c.at > t.exp-2 || seen[c.at] || r.Chance(0.2) {
				continue
			}
			seen[c.at] = true
			add(c.at, "inside", c.label)
		}
		if len(seen) == 0 {
			add(start+life/2, "inside", "mid")
		}
		after := []int64{kit.Choose(r, []int64{2, 5}), kit.Choose(r, []int64{30, 59, 61, 120})}
		rest := []int64{2, 5, 30, 59, 61, 120, 600, 3600, 86400, 86400 * 40}
		for _, k := range r.Perm(len(rest))[:r.Range(1, 3)] {
			after = append(after, rest[k])
		}
		seen = map[int64]bool{}
		for _, d := range after {
			if !seen[d] {
				seen[d] = true
				add(t.exp+d, "after-exp", "exp+"+secs(d))
			}
		}
	}
	sort.SliceStable(steps, func(a, b int) bool { return steps[a].at < steps[b].at })
	return toks, steps
}

// runTimeTravel presents the steps to e (the gate under test) and, where asked,
// to other (a different gate instance with other secrets). vc != nil: go-zero's
// own clock (timex) moves along with the jwt clock.
func runTimeTravel(e, other *jwtEnv, toks []ttToken, steps []ttStep, vc *kit.VClock, pfx string) {
	if len(steps) == 0 {
		return
	}
	prev := steps[0].at
	for _, st := range steps {
		if vc != nil && st.at > prev {
			vc.Advance(time.Duration(st.at-prev) * time.Second)
		}
		prev = st.at
		jwtNow.Store(st.at)
		e.now = st.at
		tk := &toks[st.tok]
		valid := refVerifyToken(tk.tok, e.cfg, st.at).valid
		for k := 0; k < 1 || (k < 2 && st.twice); k++ {
			if !valid && tk.accepted {
				e.t[pfx+"jwt_timetravel_replays_of_an_accepted_token_after_exp"]++
			}
			if valid && tk.refusedNY {
				e.t[pfx+"jwt_timetravel_presented_valid_after_refused_before_nbf"]++
			}
			ran := e.run(jwtSpec{Kind: "timetravel/" + st.phase, Detail: st.label + "/" + tk.desc, Auth: bearer(tk.tok), Must: st.phase == "inside"})
			e.t[pfx+"jwt_timetravel_steps"]++
			if ran {
				tk.accepted = true
			} else if st.phase == "before-nbf" {
				tk.refusedNY = true
			}
		}
		if other != nil && st.other {
			other.now = st.at
			other.run(jwtSpec{Kind: "timetravel/other-gate", Detail: st.phase + "/" + tk.desc, Auth: bearer(tk.tok)})
			e.t[pfx+"jwt_timetravel_presented_to_a_gate_with_other_secrets"]++
		}
	}
	e.t[pfx+"jwt_timetravel_sequences"]++
}

// jwtTimeTravelCase: in-process, handler.Authorize.
func jwtTimeTravelCase(c *kit.Case) {
	r := c.R
	t0 := int64(1_500_000_000) + r.Int63n(600_000_000)
	jwtNow.Store(t0)
	cfg, mode := genJWTCfg(r)
	var vc *kit.VClock
	if r.Bool() {
		vc = kit.InstallVClock()
		defer kit.UninstallVClock()
	}
	e := newJWTEnv(c, cfg, t0, "timetravel/"+mode)
	defer e.t.flush(c)
	// a different gate instance: other secrets (the rotated ones), same process
	cfgB := jwtCfg{Secret: genSecret(r)}
	if r.Bool() {
		cfgB.Prev = genSecret(r)
	}
	other := newJWTEnv(c, cfgB, t0, "timetravel/other-gate")
	other.t = e.t
	toks, steps := genTimeTravel(r, cfg, t0)
	runTimeTravel(e, other, toks, steps, vc, "")
	c.Sig(true, "jwt-timetravel", mode, len(toks), len(steps), vc != nil)
	if c.Index < 2 {
		var tl []string
		for _, st := range steps {
			tl = append(tl, fmt.Sprintf("t0%+ds token#%d %s (%s)", st.at-t0, st.tok, st.phase, st.label))
		}
		var ds []string
		for _, t := range toks {
			ds = append(ds, t.desc)
		}
		c.Sample("jwt-timetravel", 1, map[string]any{"config": cfg, "tokens": ds, "timeline": tl, "go_zero_clock_moves_too": vc != nil})
	}
}
