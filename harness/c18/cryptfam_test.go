package c18

// cryptfam_test.go: the encryption handler on its own (handler.CryptionHandler /
// LimitCryptionHandler): an encrypted body reaches the handler decrypted, the
// response comes back as base64(AES-ECB(PKCS7(plaintext))), for every payload
// size 0..4096 (exhaustive) and for responses written in several chunks.
//
// The statement is silent about bodies that are NOT a valid encryption under the
// configured key (not base64, wrong key, not a whole number of blocks) and about
// requests without a body: those are observed, never judged.

import (
	"bytes"
	"fmt"
	"io"
	"net/http"
	"net/http/httptest"

	"github.com/zeromicro/go-zero/rest/handler"

	"verifharness/kit"
)

type crySpec struct {
	Kind          string `json:"kind"` // valid | bodyless | invalid/<class>
	KeyHex        string `json:"key_hex"`
	key           []byte
	Method        string `json:"method"`
	Payload       []byte `json:"payload_plaintext"`
	Wire          []byte `json:"body_on_the_wire"`
	UnknownLength bool   `json:"unknown_content_length,omitempty"`
	Limit         int64  `json:"limit_bytes"` // -1: CryptionHandler (default limit)
	Resp          []byte `json:"handler_response_plaintext"`
	Writes        int    `json:"handler_write_calls"`
	Status        int    `json:"handler_status"`
	// writing style of the handler's answer ("" = plain Write calls) and where the middleware
	// runs (nil = in-process on an httptest.ResponseRecorder); see crywrite_test.go
	StyleName string `json:"handler_writing_style,omitempty"`
	Wopt      *wopts `json:"handler_writing_options,omitempty"`
	style     *wstyle
	wopt      wopts
	we        *wenv
	srv       *bareServer
}

var respSizes = []int{0, 1, 2, 7, 15, 16, 17, 31, 32, 33, 100, 255, 256, 1000, 4095, 4096}

func genCryKey(r *kit.Rand) []byte { return randBytes(r, kit.Choose(r, []int{16, 24, 32})) }

func payloadBytes(r *kit.Rand, n int) []byte {
	switch r.Intn(4) {
	case 0:
		return bytes.Repeat([]byte{byte(r.Intn(17))}, n) // looks like padding
	case 1:
		return []byte(string(bytes.Repeat([]byte(`{"user":"u","n":1}`), n/18+1))[:n])
	}
	return randBytes(r, n)
}

func newCrySpec(r *kit.Rand, n int) crySpec {
	s := crySpec{Kind: "valid", key: genCryKey(r), Method: kit.Choose(r, []string{"POST", "POST", "PUT", "DELETE", "PATCH", "GET"}),
		Payload: payloadBytes(r, n), Limit: kit.Choose(r, []int64{-1, 0, 1 << 20, 1 << 14}),
		Resp: randBytes(r, kit.Choose(r, respSizes)), Writes: r.Range(1, 5), Status: kit.Choose(r, []int{0, 0, 200, 201, 404})}
	if r.Chance(0.3) {
		s.Resp = randBytes(r, r.Range(0, 4096))
	}
	s.Wire = []byte(b64s.EncodeToString(refEcbEncrypt(s.key, s.Payload)))
	return s
}

func runCryption(c *kit.Case, t tally, s crySpec) {
	s.KeyHex = fmt.Sprintf("%x", s.key)
	var mw func(http.Handler) http.Handler
	if s.Limit < 0 {
		mw = handler.CryptionHandler(s.key)
	} else {
		mw = handler.LimitCryptionHandler(s.Limit, s.key)
	}
	req := newReq(s.Method, "http://verif.local/cryption", s.Wire)
	if s.UnknownLength && s.Wire != nil {
		req.Body = io.NopCloser(plainReader{bytes.NewReader(s.Wire)})
		req.ContentLength = -1
		req.TransferEncoding = []string{"chunked"}
	}
	p := &probe{resp: s.Resp, writes: s.Writes, status: s.Status, style: s.style, wopt: s.wopt, we: s.we}
	if s.style != nil {
		o := s.wopt
		s.Wopt = &o
	}
	var rec *httptest.ResponseRecorder
	var pan string
	where := "httptest.ResponseRecorder"
	if s.srv != nil {
		where = "httptest.NewServer(CryptionHandler(key)(handler))"
		wreq, err := http.NewRequest(s.Method, s.srv.ts.URL+"/cryption", bytes.NewReader(s.Wire))
		if err != nil {
			c.Inconclusive("cannot build the request: " + err.Error())
			return
		}
		st, pn, err := s.srv.do(mw(protected(p)), wreq)
		if bad, why := p.sourceFailed(); bad {
			c.Inconclusive("the handler's writing style could not obtain its payload (" + p.styleName() + "): " + why)
			return
		}
		if err != nil {
			c.Evals(1)
			switch {
			case timeoutErr(err):
				c.Inconclusive("client watchdog fired while reading the response: " + err.Error())
			case p.ran() && s.Kind == "valid":
				t["cryption_responses_not_delivered_although_the_handler_ran"]++
				viol(c, "C18/cryption/response-not-delivered/"+deliveryClass(p), fmt.Sprintf("the handler ran and answered %d bytes through %s, the client could not read the response: %v",
					len(p.expected()), p.styleName(), err), map[string]any{"spec": specForWitness(s), "server": where, "client_error": err.Error(), "handler_saw_len": len(p.body)})
			default:
				t["cryption_requests_not_deliverable"]++
			}
			return
		}
		rec = httptest.NewRecorder()
		rec.Code = st.code
		rec.Body.Write(st.body)
		pan = pn
	} else {
		rec, pan = serve(mw(protected(p)), req)
		if bad, why := p.sourceFailed(); bad {
			c.Inconclusive("the handler's writing style could not obtain its payload (" + p.styleName() + "): " + why)
			return
		}
	}
	ran := p.ran()
	c.Evals(1)
	t["cryption_requests"]++
	t["cryption_kind_"+s.Kind]++
	wit := func(extra string) map[string]any {
		return map[string]any{"spec": specForWitness(s), "server": where, "payload_len": len(s.Payload), "wire_len": len(s.Wire), "response_plain_len": len(s.Resp),
			"observed": map[string]any{"handler_ran": ran, "status": rec.Code, "handler_saw_len": len(p.body), "handler_saw": clip(string(p.body), 120),
				"response_wire": clip(rec.Body.String(), 160)}, "detail": extra}
	}
	cls := sizeClass(len(s.Payload))
	if s.UnknownLength {
		cls = "unknown-content-length"
	}
	switch s.Kind {
	case "valid":
		c.Sig(true, "cryption", len(s.Payload), len(s.key), sizeClass(len(s.Resp)), s.Writes > 1, s.UnknownLength, ran, p.styleName(), s.srv != nil)
		if pan != "" {
			viol(c, "C18/panic/cryption/valid-body/"+cls, "the encryption handler panicked on a correctly encrypted body", wit(pan))
			return
		}
		if !ran {
			viol(c, "C18/cryption/valid-body-rejected/"+sizeClass(len(s.Payload)), fmt.Sprintf("a correctly encrypted body of %d plaintext bytes was refused with status %d; the handler was not called",
				len(s.Payload), rec.Code), wit(""))
			return
		}
		t["cryption_handler_ran"]++
		if p.runs != 1 {
			viol(c, "C18/cryption/handler-ran-twice", fmt.Sprintf("handler ran %d times", p.runs), wit(""))
		}
		if !bytes.Equal(p.body, s.Payload) {
			viol(c, "C18/cryption/body-not-decrypted/"+cls, fmt.Sprintf("the handler saw %d bytes %q, the client encrypted %d bytes %q", len(p.body), clip(string(p.body), 60),
				len(s.Payload), clip(string(s.Payload), 60)), wit(""))
		} else {
			t["cryption_bodies_seen_decrypted"]++
		}
		rcls := ""
		switch {
		case s.UnknownLength:
			rcls = cls
		case s.style != nil && s.style.DeclaresLength && len(s.Resp) > 0:
			rcls = "handler-declared-content-length"
		case s.style != nil && s.style.Class != "write":
			rcls = "written-via-" + s.style.Class
		}
		if s.style != nil {
			t["cryption_responses_compared_style_class_"+s.style.Class]++
			if s.srv != nil {
				t["cryption_responses_compared_on_a_real_server_style_class_"+s.style.Class]++
			}
		}
		checkEncryptedResponse(c, "C18/cryption", rcls, s.key, p.expected(), rec.Body.Bytes(), wit(p.styleName()))
		if s.Status != 0 && rec.Code != s.Status {
			t["cryption_obs_handler_status_not_passed_through"]++
		}
	case "bodyless":
		c.Sig(false, "cryption-bodyless", s.Method, sizeClass(len(s.Resp)), ran)
		if pan != "" {
			t["cryption_obs_panic_bodyless"]++
			return
		}
		if !ran {
			t["cryption_obs_bodyless_request_refused"]++
			return
		}
		switch {
		case len(s.Resp) == 0:
			t["cryption_obs_bodyless_empty_response"]++
		case bytes.Equal(rec.Body.Bytes(), s.Resp):
			t["cryption_obs_bodyless_response_in_plaintext"]++
		default:
			if ct, err := b64s.DecodeString(rec.Body.String()); err == nil {
				if got, err := refEcbDecrypt(s.key, ct); err == nil && bytes.Equal(got, s.Resp) {
					t["cryption_obs_bodyless_response_encrypted"]++
					return
				}
			}
			t["cryption_obs_bodyless_response_other"]++
		}
	default: // invalid/<class>: nothing is demanded
		c.Sig(false, "cryption-invalid", s.Kind, ran, pan != "", rec.Code)
		switch {
		case pan != "":
			t["cryption_obs_panic_on_"+s.Kind]++
			c.Sample("cryption-panic-on-invalid-input", 1, map[string]any{"kind": s.Kind, "wire": clip(fmt.Sprintf("%q", s.Wire), 80), "panic": clip(pan, 60)})
		case ran:
			t["cryption_obs_handler_ran_on_"+s.Kind]++
			// if the reference CAN decrypt it, the handler must have seen exactly that
			if ct, err := b64s.DecodeString(string(s.Wire)); err == nil {
				if plain, err := refEcbDecrypt(s.key, ct); err == nil {
					if !bytes.Equal(plain, p.body) {
						viol(c, "C18/cryption/body-not-decrypted/"+sizeClass(len(plain)), fmt.Sprintf("body decrypts (reference) to %d bytes, the handler saw %d bytes %q",
							len(plain), len(p.body), clip(string(p.body), 60)), wit(""))
					}
					return
				}
			}
			t["cryption_obs_handler_saw_bytes_that_are_no_decryption_on_"+s.Kind]++
		default:
			t[fmt.Sprintf("cryption_obs_refused_%d_on_%s", rec.Code, s.Kind)]++
		}
	}
}

// specForWitness: the spec without its long byte strings (reproducible from the case seed).
func specForWitness(s crySpec) crySpec {
	w := s
	if len(w.Payload) > 256 {
		w.Payload = nil
		w.Wire = nil
	}
	if len(w.Resp) > 256 {
		w.Resp = nil
	}
	return w
}

// cryptionSizesCase: payload sizes [lo,hi), one request each (exhaustive over 0..4096 in both tiers).
func cryptionSizesCase(c *kit.Case, lo, hi int) {
	t := tally{}
	defer t.flush(c)
	for n := lo; n < hi; n++ {
		runCryption(c, t, newCrySpec(c.R, n))
	}
	if lo == 0 {
		c.Sample("cryption-sizes", 1, map[string]any{"payload_sizes": "0..4096 exhaustive", "key_sizes": []int{16, 24, 32}, "response_sizes": respSizes,
			"handler_write_calls": "1..5", "wire": "base64(AES-ECB(PKCS7(payload)))"})
	}
}

// cryptionMiscCase: random sizes with unknown content length, body-less requests, invalid inputs.
func cryptionMiscCase(c *kit.Case) {
	r := c.R
	t := tally{}
	defer t.flush(c)
	for i := 0; i < 40; i++ {
		n := kit.Choose(r, []int{0, 1, 15, 16, 17, 32, 48, 100, 1024, 4096, r.Range(0, 4096)})
		s := newCrySpec(r, n)
		if i == 0 && c.Index%3 == 0 {
			// a large payload now and then (still below the default 1 MiB limit on the wire)
			s = newCrySpec(r, kit.Choose(r, []int{4097, 8191, 8192, 65536, 100000, 262144, 700000}))
			s.Limit = kit.Choose(r, []int64{-1, 0, 1 << 20})
			runCryption(c, t, s)
			continue
		}
		switch r.Pick(3, 2, 2, 8) {
		case 0: // valid, but sent without a Content-Length
			s.UnknownLength = true
		case 1: // valid, small responses (shorter than one block) in several writes
			s.Resp = randBytes(r, r.Range(1, 15))
		case 2:
			s.Kind, s.Wire, s.Payload = "bodyless", nil, nil
			s.Method = kit.Choose(r, []string{"GET", "POST", "HEAD", "DELETE"})
			if r.Bool() {
				s.Wire = []byte{}
			}
		default:
			enc := refEcbEncrypt(s.key, s.Payload)
			w := b64s.EncodeToString(enc)
			switch r.Intn(12) {
			case 0:
				s.Kind, s.Wire = "invalid/not-base64", []byte("!"+w[1:])
			case 1:
				s.Kind, s.Wire = "invalid/raw-ciphertext-not-base64", enc
			case 2:
				other := genCryKey(r)
				s.Kind, s.Wire = "invalid/encrypted-under-another-key", []byte(b64s.EncodeToString(refEcbEncrypt(other, s.Payload)))
			case 3:
				s.Kind, s.Wire = "invalid/not-a-whole-number-of-blocks", []byte(b64s.EncodeToString(enc[:len(enc)-r.Range(1, 15)]))
			case 4:
				s.Kind, s.Wire = "invalid/plaintext-sent-as-is", s.Payload
				if len(s.Payload) == 0 {
					s.Wire = []byte("x")
				}
			case 5:
				s.Kind, s.Wire = "invalid/base64-of-nothing", []byte(kit.Choose(r, []string{"\n", "\r\n", "\n\n\n"}))
			case 6:
				cut := append([]byte{}, enc[:len(enc)-16]...)
				s.Kind, s.Wire = "invalid/last-block-removed", []byte(b64s.EncodeToString(cut))
				if len(cut) == 0 {
					s.Kind = "invalid/base64-of-nothing-after-cut"
					s.Wire = []byte("=")
				}
			case 7:
				e2 := append([]byte{}, enc...)
				e2[len(e2)-1-r.Intn(16)] ^= 1 << uint(r.Intn(8))
				s.Kind, s.Wire = "invalid/last-block-bit-flipped", []byte(b64s.EncodeToString(e2))
			case 8:
				s.Kind, s.Wire = "invalid/base64url-alphabet", []byte(b64u.EncodeToString(enc))
			case 9:
				s.Kind, s.Wire = "invalid/plaintext-padding-byte-zero", []byte(b64s.EncodeToString(rawEcb(s.key, append(bytes.Repeat([]byte{7}, 15), 0))))
			case 10:
				s.Kind, s.Wire = "invalid/plaintext-padding-longer-than-block", []byte(b64s.EncodeToString(rawEcb(s.key, bytes.Repeat([]byte{17}, 32))))
			default:
				s.Kind, s.Wire = "invalid/double-encrypted", []byte(b64s.EncodeToString(refEcbEncrypt(s.key, []byte(w))))
				s.Kind = "valid" // this IS a valid encryption (of the base64 text): the handler must see that text
				s.Payload = []byte(w)
			}
		}
		runCryption(c, t, s)
	}
}

// rawEcb encrypts whole blocks without adding padding.
func rawEcb(key, blocks []byte) []byte {
	full := refEcbEncrypt(key, blocks)
	return full[:len(blocks)]
}
