package c18

// jwteval_test.go: running one JWT probe through handler.Authorize and
// comparing with the reference verdict.

import (
	"fmt"
	"net/http"
	"net/http/httptest"
	"strings"

	"verifharness/kit"
)

// jwtSpec is one request aimed at the JWT gate.
type jwtSpec struct {
	Kind   string            `json:"kind"`   // mutation class (part of the violation key)
	Detail string            `json:"detail"` // position / variant
	Auth   []string          `json:"authorization"`
	Query  string            `json:"query,omitempty"`
	Cookie string            `json:"cookie,omitempty"`
	Hdrs   map[string]string `json:"headers,omitempty"`
	Form   string            `json:"form,omitempty"`
	Must   bool              `json:"must_accept"` // boring canonical valid credential: must reach the handler
}

type tally map[string]int64

func (t tally) flush(c *kit.Case) {
	for k, v := range t {
		c.Obs(k, v)
	}
}

// jwtEnv is what stays fixed during one case.
type jwtEnv struct {
	c     *kit.Case
	cfg   jwtCfg
	now   int64
	mw    func(http.Handler) http.Handler
	shape string // alg/signer/prev configuration, for signatures
	t     tally
	cbHit *int // unauthorized-callback counter (nil if none installed)
	// end-to-end mode: exec sends the request to a real rest.Server (nil = in-process through mw)
	exec func(req *http.Request, p *probe) (status int, panicked string, err error)
	kp   string // key prefix: "C18/jwt" or "C18/e2e/jwt"
	path string // request path ("/protected" when empty)
}

func (e *jwtEnv) buildReq(s jwtSpec) *http.Request {
	path := e.path
	if path == "" {
		path = "/protected"
	}
	target := "http://verif.local" + path
	if s.Query != "" {
		target += "?" + s.Query
	}
	var req *http.Request
	if s.Form != "" {
		req = newReq("POST", target, []byte(s.Form))
		req.Header.Set("Content-Type", "application/x-www-form-urlencoded")
	} else {
		req = newReq("GET", target, nil)
	}
	if s.Auth != nil {
		req.Header["Authorization"] = append([]string(nil), s.Auth...)
	}
	if s.Cookie != "" {
		req.Header.Set("Cookie", s.Cookie)
	}
	for k, v := range s.Hdrs {
		req.Header.Set(k, v)
	}
	return req
}

func (e *jwtEnv) witness(s jwtSpec, rv reqVerdict, status int, ran bool, extra string) map[string]any {
	return map[string]any{
		"config": map[string]any{"secret": e.cfg.Secret, "secret_hex": fmt.Sprintf("%x", e.cfg.Secret),
			"prev": e.cfg.Prev, "prev_hex": fmt.Sprintf("%x", e.cfg.Prev)},
		"jwt_time_unix": e.now, "request": s, "reference": map[string]any{"allowed_to_run": rv.allowedRun,
			"canonical_valid": rv.canonical, "reasons": rv.reasons},
		"observed": map[string]any{"handler_ran": ran, "status": status}, "detail": extra,
	}
}

// run serves one probe and applies the oracle. Returns whether the handler ran.
func (e *jwtEnv) run(s jwtSpec) bool {
	c := e.c
	req := e.buildReq(s)
	if e.exec != nil {
		// on the wire net/http trims leading/trailing blanks of header values: judge what arrives
		for k, vs := range req.Header {
			for i, v := range vs {
				req.Header[k][i] = strings.Trim(v, " \t")
			}
		}
	}
	rv := refVerifyJWTRequest(req, e.cfg, e.now)
	if s.Form != "" {
		for _, kv := range strings.Split(s.Form, "&") {
			if i := strings.IndexByte(kv, '='); i >= 0 {
				tok, _ := stripBearer(kv[i+1:])
				if refVerifyToken(tok, e.cfg, e.now).valid {
					rv.allowedRun = true
				}
			}
		}
	}
	p := &probe{resp: []byte("handler-output")}
	kp := e.kp
	if kp == "" {
		kp = "C18/jwt"
	}
	var code int
	var pan string
	if e.exec != nil {
		var err error
		code, pan, err = e.exec(req, p)
		if err != nil {
			// the client could not deliver this request (e.g. a header value net/http refuses to send)
			e.t["e2e_jwt_requests_not_deliverable"]++
			return false
		}
		if !p.ran() && code >= 500 {
			c.Inconclusive(fmt.Sprintf("e2e jwt request answered %d by the server infrastructure: %s", code, clip(pan, 200)))
			return false
		}
	} else {
		var rr *httptest.ResponseRecorder
		rr, pan = serve(e.mw(protected(p)), req)
		code = rr.Code
	}
	rec := struct{ Code int }{code}
	ran := p.ran()
	c.Evals(1)
	e.t["jwt_requests"]++
	e.t["jwt_kind_"+strings.SplitN(s.Kind, "/", 2)[0]]++
	c.Sig(s.Kind != "base", kp, s.Kind, s.Detail, e.shape, ran)
	if pan != "" {
		viol(c, "C18/panic/"+kp[4:]+"/"+s.Kind, "handler.Authorize panicked", e.witness(s, rv, rec.Code, ran, pan))
		return ran
	}
	switch {
	case ran && !rv.allowedRun:
		viol(c, kp+"/ran-without-valid-token/"+s.Kind,
			"the protected handler ran although no token carried by the request verifies (reference: "+strings.Join(rv.reasons, ",")+")",
			e.witness(s, rv, rec.Code, ran, ""))
	case !ran && rec.Code != http.StatusUnauthorized:
		viol(c, kp+"/rejected-not-401/"+s.Kind, fmt.Sprintf("request rejected with status %d instead of 401", rec.Code),
			e.witness(s, rv, rec.Code, ran, ""))
	case !ran && s.Must && rv.canonical:
		viol(c, kp+"/valid-rejected/"+s.Kind, fmt.Sprintf("a valid token in canonical form was rejected (status %d)", rec.Code),
			e.witness(s, rv, rec.Code, ran, ""))
	}
	if ran {
		e.t["jwt_handler_ran"]++
		if rv.allowedRun && !rv.canonical {
			e.t["jwt_ran_noncanonical_valid"]++
		}
		if p.runs != 1 {
			viol(c, kp+"/handler-ran-twice/"+s.Kind, fmt.Sprintf("handler ran %d times for one request", p.runs), e.witness(s, rv, rec.Code, ran, ""))
		}
	} else {
		e.t["jwt_rejected_401"]++
		if rv.allowedRun {
			e.t["jwt_rejected_although_valid_token_elsewhere_or_noncanonical"]++
		}
	}
	if ran && rv.canonical && rv.tok.valid {
		e.checkClaims(s, rv, p, rec.Code)
	}
	return ran
}

func (e *jwtEnv) kpfx() string {
	if e.kp == "" {
		return "C18/jwt"
	}
	return e.kp
}

func valueClass(v any) string {
	switch x := v.(type) {
	case nil:
		return "null"
	case string:
		return "string"
	case bool:
		return "bool"
	case map[string]any:
		return "object"
	case []any:
		return "array"
	default:
		_ = x
		return "number"
	}
}

// checkClaims: every non-standard claim is what ctx.Value(k) yields; the
// standard ones are not exposed.
func (e *jwtEnv) checkClaims(s jwtSpec, rv reqVerdict, p *probe, status int) {
	c := e.c
	for _, k := range sortedKeys(rv.tok.claims) {
		want := rv.tok.claims[k]
		got := p.ctxVals(k)
		if stdClaims[k] {
			e.t["jwt_standard_claims_checked"]++
			if got != nil {
				viol(c, e.kpfx()+"/standard-claim-visible/"+k, fmt.Sprintf("standard claim %q is visible to the handler as %#v", k, got),
					e.witness(s, rv, status, true, ""))
			}
			continue
		}
		e.t["jwt_claims_compared"]++
		gn, err := normJSON(got)
		if err != nil || !jsonEqual(want, gn) {
			viol(c, e.kpfx()+"/claim-mismatch/"+valueClass(want), fmt.Sprintf("claim %q: token carries %s, handler sees %#v", k, mustJSON(want), got),
				e.witness(s, rv, status, true, ""))
		}
	}
	// a key that is not in the token must not appear
	for _, k := range []string{"verif-absent", "admin", "uid2"} {
		if _, in := rv.tok.claims[k]; !in && p.ctxVals(k) != nil {
			viol(c, e.kpfx()+"/phantom-claim", fmt.Sprintf("ctx.Value(%q) = %#v although the token has no such claim", k, p.ctxVals(k)),
				e.witness(s, rv, status, true, ""))
		}
	}
}
