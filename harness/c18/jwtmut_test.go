package c18

// jwtmut_test.go: every single-field mutation of one valid token.

import (
	"encoding/base64"
	"encoding/hex"
	"encoding/json"
	"fmt"
	"strconv"
	"strings"

	"verifharness/kit"
)

// jwtBase is the valid credential the mutations start from.
type jwtBase struct {
	alg    string
	typ    string
	key    []byte // the signing key (secret or prevSecret)
	claims map[string]any
	hJSON  string
	pJSON  string
	tok    string
	boring bool // HS*, typ JWT, exp present: acceptance is demanded
}

func bearer(tok string) []string { return []string{"Bearer " + tok} }

func segs(tok string) (string, string, string) {
	p := strings.SplitN(tok, ".", 3)
	return p[0], p[1], p[2]
}

func withClaim(m map[string]any, k string, v any, del bool) string {
	n := make(map[string]any, len(m)+1)
	for a, b := range m {
		n[a] = b
	}
	if del {
		delete(n, k)
	} else {
		n[k] = v
	}
	return mustJSON(n)
}

func num(v int64) json.Number { return json.Number(strconv.FormatInt(v, 10)) }

func jwtMutations(r *kit.Rand, b jwtBase, cfg jwtCfg, now int64) []jwtSpec {
	var out []jwtSpec
	add := func(kind, detail string, auth []string) { out = append(out, jwtSpec{Kind: kind, Detail: detail, Auth: auth}) }
	h64, p64, s64 := segs(b.tok)
	out = append(out, jwtSpec{Kind: "base", Detail: b.alg, Auth: bearer(b.tok), Must: b.boring})

	// 1. every character of every segment replaced
	alts := kit.N(1, 3)
	for si, seg := range []string{h64, p64, s64} {
		name := []string{"header", "payload", "signature"}[si]
		for i := 0; i < len(seg); i++ {
			n := alts
			if i == len(seg)-1 {
				n = len(b64urlAlphabet) // all of them: some decode to the same bytes (ignored pad bits)
			}
			seen := map[byte]bool{seg[i]: true}
			for k := 0; k < n; k++ {
				var ch byte
				if n == len(b64urlAlphabet) {
					ch = b64urlAlphabet[k]
				} else {
					ch = otherChar(r, b64urlAlphabet, seg[i])
				}
				if seen[ch] {
					continue
				}
				seen[ch] = true
				m := seg[:i] + string(ch) + seg[i+1:]
				parts := []string{h64, p64, s64}
				parts[si] = m
				add("flip-"+name, fmt.Sprintf("pos=%d", i), bearer(strings.Join(parts, ".")))
			}
		}
		// a few non-alphabet characters, insertions and deletions
		for k := 0; k < 6 && len(seg) > 0; k++ {
			i := r.Intn(len(seg))
			ch := kit.Choose(r, []string{"=", "+", "/", " ", ".", "%", "~"})
			parts := []string{h64, p64, s64}
			switch k % 3 {
			case 0:
				parts[si] = seg[:i] + ch + seg[i+1:]
			case 1:
				parts[si] = seg[:i] + string(otherChar(r, b64urlAlphabet, 0)) + seg[i:]
			default:
				parts[si] = seg[:i] + seg[i+1:]
			}
			add("edit-"+name, []string{"special-char", "insert", "delete"}[k%3], bearer(strings.Join(parts, ".")))
		}
	}

	// 2. algorithm field
	algs := []any{"none", "None", "NONE", "nOnE", "HS256", "HS384", "HS512", "RS256", "RS384", "RS512", "ES256", "ES384", "ES512",
		"PS256", "EdDSA", "hs256", "", "HS257", "HS256 ", json.Number("256"), nil, []any{"HS256"}, true}
	for _, a := range algs {
		hj := hdrJSON(a, b.typ)
		name := strings.TrimSpace(mustJSON(a))
		h2 := b64u.EncodeToString([]byte(hj))
		add("alg-keep-signature", name, bearer(h2+"."+p64+"."+s64))
		macAlg := "HS256"
		if s, ok := a.(string); ok && hmacFor(s) != nil {
			macAlg = s
		}
		for _, ma := range []string{macAlg, b.alg} {
			add("alg-resigned-hmac", name+"/mac="+ma, bearer(signTok(hj, b.pJSON, ma, b.key)))
		}
		add("alg-empty-signature", name, bearer(h2+"."+p64+"."))
		add("alg-no-signature-segment", name, bearer(h2+"."+p64))
	}
	// header without alg, with a duplicate alg, with extra fields
	for i, hj := range []string{`{"typ":"JWT"}`, `{}`, `{"alg":"none","alg":"` + b.alg + `","typ":"JWT"}`, `{"alg":"` + b.alg + `","alg":"none","typ":"JWT"}`,
		`{"alg":"` + b.alg + `","typ":"JWT","kid":"k1"}`, `{"alg":"` + b.alg + `","typ":"JWT","jwk":{"kty":"oct","k":"AAAA"}}`,
		`{"alg":"` + b.alg + `","typ":"JWT","crit":["exp"]}`, `["` + b.alg + `"]`, `"` + b.alg + `"`, `null`, `{"alg":"` + b.alg + `"`, ``} {
		add("header-shape-resigned", strconv.Itoa(i), bearer(signTok(hj, b.pJSON, b.alg, b.key)))
		add("header-shape-keep-signature", strconv.Itoa(i), bearer(b64u.EncodeToString([]byte(hj))+"."+p64+"."+s64))
	}

	// 3. typ
	for _, t := range []string{"", "jwt", "JWS", "at+jwt", "x"} {
		add("typ-resigned", "typ="+t, bearer(signTok(hdrJSON(b.alg, t), b.pJSON, b.alg, b.key)))
		add("typ-keep-signature", "typ="+t, bearer(b64u.EncodeToString([]byte(hdrJSON(b.alg, t)))+"."+p64+"."+s64))
	}

	// 4. segments
	for i, t := range []string{h64 + "." + p64 + ".", h64 + "." + p64, h64 + "." + p64 + "." + s64 + ".", h64 + "." + p64 + "." + s64 + ".x",
		"." + b.tok, h64 + ".." + p64 + "." + s64, h64, h64 + ".", "", ".", "..", "...", p64 + "." + h64 + "." + s64, h64 + "." + s64 + "." + p64,
		s64 + "." + p64 + "." + h64, h64 + "." + p64 + "." + s64 + "." + s64, b.tok + b.tok, h64 + "." + p64 + "." + s64 + s64, h64 + "." + p64 + p64 + "." + s64} {
		add("segments", strconv.Itoa(i), bearer(t))
	}

	// 5. wrong secret
	k := string(b.key)
	wrong := []string{randAlnum(r, len(k)), k + "x", k[:len(k)-1], k[1:], strings.ToUpper(k), strings.ToLower(k), "", " " + k, k + "\x00",
		hex.EncodeToString(b.key), base64.StdEncoding.EncodeToString(b.key), cfg.Secret + cfg.Prev, "secret", "null"}
	if len(k) > 1 {
		bb := []byte(k)
		i := r.Intn(len(bb))
		bb[i] ^= 1 << uint(r.Intn(8))
		wrong = append(wrong, string(bb))
	}
	for i, w := range wrong {
		add("wrong-secret", strconv.Itoa(i), bearer(signTok(b.hJSON, b.pJSON, b.alg, []byte(w))))
	}

	// 6. time claims (all properly signed)
	type tc struct {
		name string
		k    string
		v    any
		del  bool
	}
	tcs := []tc{
		{"exp-past-2m", "exp", num(now - 120), false}, {"exp-past-1h", "exp", num(now - 3600), false}, {"exp-past-1y", "exp", num(now - 86400*365), false},
		{"exp-zero", "exp", num(0), false}, {"exp-negative", "exp", num(-1), false}, {"exp-past-float", "exp", json.Number(strconv.FormatInt(now-300, 10) + ".75"), false},
		{"exp-past-exponent", "exp", json.Number("1e3"), false},
		{"exp-string-future", "exp", strconv.FormatInt(now+3600, 10), false}, {"exp-null", "exp", nil, false}, {"exp-true", "exp", true, false},
		{"exp-array", "exp", []any{num(now + 3600)}, false}, {"exp-object", "exp", map[string]any{"t": num(now + 3600)}, false},
		{"nbf-future-2m", "nbf", num(now + 120), false}, {"nbf-future-1d", "nbf", num(now + 86400), false}, {"nbf-string-past", "nbf", strconv.FormatInt(now-3600, 10), false},
		{"iat-future-2m", "iat", num(now + 120), false}, {"iat-future-1d", "iat", num(now + 86400), false}, {"iat-null", "iat", nil, false},
		{"exp-removed", "exp", nil, true}, {"exp-future-2m", "exp", num(now + 120), false}, {"exp-far-future", "exp", json.Number("1000000000000"), false},
		{"nbf-past-2m", "nbf", num(now - 120), false}, {"iat-past-2m", "iat", num(now - 120), false}, {"nbf-negative", "nbf", num(-5), false},
		{"exp-future-float", "exp", json.Number(strconv.FormatInt(now+600, 10) + ".5"), false},
		// whole seconds close to (never on) the edge: jwt.TimeFunc is the harness's fixed clock, so
		// these are exact; they catch a leeway / unit slip of a few seconds
		{"exp-past-5s", "exp", num(now - 5), false}, {"exp-past-30s", "exp", num(now - 30), false}, {"exp-future-5s", "exp", num(now + 5), false},
		{"nbf-future-5s", "nbf", num(now + 5), false}, {"nbf-future-30s", "nbf", num(now + 30), false}, {"nbf-past-5s", "nbf", num(now - 5), false},
		{"iat-future-5s", "iat", num(now + 5), false}, {"iat-past-5s", "iat", num(now - 5), false},
		{"exp-millis-future", "exp", num((now + 600) * 1000), false}, {"nbf-millis-past", "nbf", num((now - 600) * 1000), false},
	}
	for _, t := range tcs {
		pj := withClaim(b.claims, t.k, t.v, t.del)
		s := jwtSpec{Kind: "time/" + t.name, Detail: b.alg, Auth: bearer(signTok(b.hJSON, pj, b.alg, b.key))}
		switch t.name {
		case "exp-future-2m", "nbf-past-2m", "iat-past-2m", "exp-future-5s", "nbf-past-5s", "iat-past-5s":
			s.Must = b.boring
		}
		out = append(out, s)
	}

	// 7. payload changed, signature kept; splice with another token of the same key
	for i, pj := range []string{withClaim(b.claims, "role", "admin", false), withClaim(b.claims, "exp", num(now+86400*3650), false),
		withClaim(b.claims, "uid", num(0), false), `{}`, b.pJSON + " ", strings.Replace(b.pJSON, "{", "{ ", 1)} {
		add("payload-keep-signature", strconv.Itoa(i), bearer(h64+"."+b64u.EncodeToString([]byte(pj))+"."+s64))
	}
	// 7b. payload shapes, properly signed (the reference decides; none is demanded to pass)
	past, fut := strconv.FormatInt(now-600, 10), strconv.FormatInt(now+600, 10)
	for i, pj := range []string{`null`, `[]`, `"x"`, `1`, `{}`, `{`, ``, b.pJSON + ` trailing`, `{"exp":` + past + `,"exp":` + fut + `}`,
		`{"exp":` + fut + `,"exp":` + past + `}`, `{"EXP":` + past + `}`, `{"exp ":` + past + `}`, ` ` + b.pJSON, `{"nbf":` + fut + `,"exp":` + fut + `}`} {
		add("payload-shape-resigned", strconv.Itoa(i), bearer(signTok(b.hJSON, pj, b.alg, b.key)))
	}
	other := signTok(b.hJSON, withClaim(b.claims, "role", "root", false), b.alg, b.key)
	oh, op, os := segs(other)
	add("splice", "other-payload", bearer(h64+"."+op+"."+s64))
	add("splice", "other-signature", bearer(h64+"."+p64+"."+os))
	add("splice", "other-header-payload", bearer(oh+"."+op+"."+s64))

	// 8. signature encoding
	if raw, err := b64u.DecodeString(s64); err == nil {
		add("signature-encoding", "std-padded", bearer(h64+"."+p64+"."+base64.StdEncoding.EncodeToString(raw)))
		add("signature-encoding", "url-padded", bearer(h64+"."+p64+"."+base64.URLEncoding.EncodeToString(raw)))
		add("signature-encoding", "std-raw", bearer(h64+"."+p64+"."+base64.RawStdEncoding.EncodeToString(raw)))
		add("signature-encoding", "hex", bearer(h64+"."+p64+"."+hex.EncodeToString(raw)))
		add("signature-encoding", "truncated", bearer(h64+"."+p64+"."+b64u.EncodeToString(raw[:len(raw)-1])))
		add("signature-encoding", "extended", bearer(h64+"."+p64+"."+b64u.EncodeToString(append(append([]byte{}, raw...), 0))))
		add("signature-encoding", "zero", bearer(h64+"."+p64+"."+b64u.EncodeToString(make([]byte, len(raw)))))
	}
	return append(out, jwtCarrierMutations(b)...)
}

// jwtCarrierMutations: how and where the (valid) token is carried.
func jwtCarrierMutations(b jwtBase) []jwtSpec {
	var out []jwtSpec
	t := b.tok
	for i, v := range []string{"bearer " + t, "BEARER " + t, "BeArEr " + t, "Bearer" + t, "Bearer  " + t, "Bearer\t" + t, " Bearer " + t, "Bearer " + t + " ",
		t, "Basic " + t, "Token " + t, "JWT " + t, "Bearer: " + t, "Bearer " + t + ",x", "Bearer Bearer " + t, "Bearer ", "Bearer", "", " ", "Bearer null",
		"Bearer undefined", "Basic " + base64.StdEncoding.EncodeToString([]byte("user:"+t))} {
		out = append(out, jwtSpec{Kind: "bearer-prefix", Detail: strconv.Itoa(i), Auth: []string{v}})
	}
	bad := t[:len(t)-4] + "AAAA"
	for _, tv := range []struct{ n, v string }{{"valid", t}, {"tampered", bad}} {
		out = append(out,
			jwtSpec{Kind: "location/" + tv.n, Detail: "none+query-access_token", Query: "access_token=" + tv.v},
			jwtSpec{Kind: "location/" + tv.n, Detail: "none+query-token", Query: "token=" + tv.v + "&jwt=" + tv.v + "&Authorization=Bearer%20" + tv.v},
			jwtSpec{Kind: "location/" + tv.n, Detail: "none+cookie", Cookie: "token=" + tv.v + "; Authorization=" + tv.v + "; access_token=" + tv.v},
			jwtSpec{Kind: "location/" + tv.n, Detail: "none+other-headers", Hdrs: map[string]string{"X-Authorization": "Bearer " + tv.v,
				"Proxy-Authorization": "Bearer " + tv.v, "X-Access-Token": tv.v, "X-Token": tv.v, "Authentication": "Bearer " + tv.v}},
			jwtSpec{Kind: "location/" + tv.n, Detail: "none+form", Form: "access_token=" + tv.v + "&token=" + tv.v},
		)
	}
	out = append(out,
		jwtSpec{Kind: "location/none", Detail: "no-credential-at-all"},
		jwtSpec{Kind: "location/tampered", Detail: "tampered-header+valid-query", Auth: bearer(bad), Query: "access_token=" + t},
		jwtSpec{Kind: "multi-header", Detail: "garbage,valid", Auth: []string{"Bearer x.y.z", "Bearer " + t}},
		jwtSpec{Kind: "multi-header", Detail: "valid,garbage", Auth: []string{"Bearer " + t, "Bearer x.y.z"}},
		jwtSpec{Kind: "multi-header", Detail: "tampered,valid", Auth: []string{"Bearer " + bad, "Bearer " + t}},
		jwtSpec{Kind: "multi-header", Detail: "tampered,tampered", Auth: []string{"Bearer " + bad, "Bearer " + bad}},
		jwtSpec{Kind: "multi-header", Detail: "empty,valid", Auth: []string{"", "Bearer " + t}},
	)
	return out
}
