package c18

// jwtref_test.go: hand-made token builder and the independent reference
// verifier for the JWT gate (no use of the jwt library).

import (
	"crypto/hmac"
	"crypto/sha256"
	"crypto/sha512"
	"encoding/base64"
	"encoding/json"
	"hash"
	"math/big"
	"net/http"
	"net/url"
	"strconv"
	"strings"

	"verifharness/kit"
)

var b64u = base64.RawURLEncoding

const b64urlAlphabet = "ABCDEFGHIJKLMNOPQRSTUVWXYZabcdefghijklmnopqrstuvwxyz0123456789-_"

func hmacFor(alg string) func() hash.Hash {
	switch alg {
	case "HS256":
		return sha256.New
	case "HS384":
		return sha512.New384
	case "HS512":
		return sha512.New
	}
	return nil
}

func macB64(h func() hash.Hash, key []byte, msg string) string {
	m := hmac.New(h, key)
	m.Write([]byte(msg))
	return b64u.EncodeToString(m.Sum(nil))
}

// hdrJSON renders a JOSE header with a fixed field order; typ == "" omits it.
func hdrJSON(alg any, typ string) string {
	a, _ := json.Marshal(alg)
	s := `{"alg":` + string(a)
	if typ != "" {
		t, _ := json.Marshal(typ)
		s += `,"typ":` + string(t)
	}
	return s + "}"
}

// signTok = b64(header).b64(payload).b64(HMAC_alg(key, header.payload)).
func signTok(headerJSON, payloadJSON, macAlg string, key []byte) string {
	ss := b64u.EncodeToString([]byte(headerJSON)) + "." + b64u.EncodeToString([]byte(payloadJSON))
	return ss + "." + macB64(hmacFor(macAlg), key, ss)
}

type jwtCfg struct {
	Secret string `json:"secret"`
	Prev   string `json:"prev"` // "" = not configured
}

type tokVerdict struct {
	valid  bool
	reason string
	claims map[string]any // decoded payload (numbers as json.Number); set when the signature verified
}

var stdClaims = map[string]bool{"aud": true, "exp": true, "jti": true, "iat": true, "iss": true, "nbf": true, "sub": true}

// refVerifyToken decides one compact token on its own.
func refVerifyToken(tok string, cfg jwtCfg, now int64) tokVerdict {
	parts := strings.Split(tok, ".")
	if len(parts) != 3 {
		return tokVerdict{reason: "segments=" + strconv.Itoa(len(parts))}
	}
	hb, err := b64u.DecodeString(parts[0])
	if err != nil {
		return tokVerdict{reason: "header-not-base64url"}
	}
	var hdr map[string]any
	if json.Unmarshal(hb, &hdr) != nil || hdr == nil {
		return tokVerdict{reason: "header-not-json-object"}
	}
	alg, ok := hdr["alg"].(string)
	if !ok {
		return tokVerdict{reason: "alg-missing-or-not-string"}
	}
	hf := hmacFor(alg)
	if hf == nil {
		return tokVerdict{reason: "alg-not-hmac:" + alg}
	}
	sig, err := b64u.DecodeString(parts[2])
	if err != nil {
		return tokVerdict{reason: "signature-not-base64url"}
	}
	keys := []string{cfg.Secret}
	if cfg.Prev != "" {
		keys = append(keys, cfg.Prev)
	}
	verified := false
	for _, k := range keys {
		m := hmac.New(hf, []byte(k))
		m.Write([]byte(parts[0] + "." + parts[1]))
		if hmac.Equal(m.Sum(nil), sig) {
			verified = true
		}
	}
	if !verified {
		return tokVerdict{reason: "signature-mismatch"}
	}
	// The signature verifies. The statement only adds "time claims currently valid": a payload
	// from which no time claim can be read (not base64url, not JSON, not an object) carries none,
	// so the reference is lenient here (go-zero rejects most of these, which is always allowed).
	pb, err := b64u.DecodeString(parts[1])
	if err != nil {
		return tokVerdict{valid: true, reason: "valid-signature/payload-not-base64url"}
	}
	pv, err := decodeJSON(pb)
	if err != nil {
		return tokVerdict{valid: true, reason: "valid-signature/payload-not-json"}
	}
	claims, ok := pv.(map[string]any)
	if !ok {
		return tokVerdict{valid: true, reason: "valid-signature/payload-not-object"}
	}
	v := tokVerdict{claims: claims}
	nowR := new(big.Rat).SetInt64(now)
	for _, name := range []string{"exp", "nbf", "iat"} {
		raw, present := claims[name]
		if !present {
			continue
		}
		num, ok := raw.(json.Number)
		if !ok {
			v.reason = name + "-not-a-number"
			return v
		}
		t, ok := new(big.Rat).SetString(string(num))
		if !ok {
			v.reason = name + "-not-a-number"
			return v
		}
		switch name {
		case "exp":
			if nowR.Cmp(t) >= 0 {
				v.reason = "expired"
				return v
			}
		default:
			if nowR.Cmp(t) < 0 {
				v.reason = name + "-in-future"
				return v
			}
		}
	}
	v.valid = true
	v.reason = "valid"
	return v
}

// stripBearer: the token carried by an Authorization value, with an optional
// case-insensitive "Bearer " scheme removed.
func stripBearer(v string) (string, bool) {
	if len(v) >= 7 && strings.EqualFold(v[:7], "bearer ") {
		return v[7:], true
	}
	return v, false
}

// reqVerdict is the reference decision for a whole request.
type reqVerdict struct {
	allowedRun bool       // some token carried anywhere in the request is valid
	canonical  bool       // exactly one Authorization value of the form "Bearer <valid token>"
	tok        tokVerdict // verdict of the canonical / first header candidate
	reasons    []string
}

func refVerifyJWTRequest(req *http.Request, cfg jwtCfg, now int64) reqVerdict {
	var rv reqVerdict
	vals := req.Header.Values("Authorization")
	first := true
	consider := func(tok string, fromHeader bool) tokVerdict {
		v := refVerifyToken(tok, cfg, now)
		if v.valid {
			rv.allowedRun = true
		}
		if fromHeader && first {
			rv.tok = v
		}
		rv.reasons = append(rv.reasons, v.reason)
		return v
	}
	for _, val := range vals {
		stripped, had := stripBearer(val)
		if had {
			v := consider(stripped, true)
			if len(vals) == 1 && strings.HasPrefix(val, "Bearer ") && v.valid {
				rv.canonical = true
			}
			first = false
			consider(val, false)
		} else {
			consider(val, true)
			first = false
		}
	}
	// tokens carried elsewhere: never required to be honoured, but if one is
	// valid the request does carry a valid token and running is not a breach.
	q, _ := url.ParseQuery(req.URL.RawQuery)
	for _, vs := range q {
		for _, v := range vs {
			s, _ := stripBearer(v)
			consider(s, false)
		}
	}
	for _, ck := range req.Cookies() {
		s, _ := stripBearer(ck.Value)
		consider(s, false)
	}
	for name, vs := range req.Header {
		if name == "Authorization" || name == "Cookie" {
			continue
		}
		for _, v := range vs {
			if strings.Count(v, ".") >= 2 {
				s, _ := stripBearer(v)
				consider(s, false)
			}
		}
	}
	return rv
}

// ------------------------------------------------------------------ claim generation

var claimNames = []string{"uid", "role", "name", "scope", "n", "f", "flag", "obj", "arr", "nothing", "Exp", "EXP", "user-id", "a.b", "käse", "x"}

func genValue(r *kit.Rand, depth int) any {
	switch r.Pick(5, 4, 2, 2, 1, 1, 2, 2) {
	case 0:
		return kit.Choose(r, []string{"", "admin", "user", "a b", "üñí", "\"q\"", "0", "null", "<x>&", randAlnum(r, r.Range(1, 24))})
	case 1:
		return json.Number(strconv.FormatInt(int64(r.Uint64()>>uint(r.Range(1, 63)))-int64(r.Intn(3)), 10))
	case 2:
		return json.Number(kit.Choose(r, []string{"9223372036854775807", "9007199254740993", "18446744073709551615", "-9223372036854775808", "123456789012345678901234567890"}))
	case 3:
		return json.Number(kit.Choose(r, []string{"1.5", "0.1", "-2.25", "1e3", "3.0", "1.50", "6.02e23"}))
	case 4:
		return r.Bool()
	case 5:
		return nil
	case 6:
		if depth >= 2 {
			return "deep"
		}
		m := map[string]any{}
		for i, n := 0, r.Range(0, 3); i < n; i++ {
			m[kit.Choose(r, claimNames)] = genValue(r, depth+1)
		}
		return m
	default:
		if depth >= 2 {
			return json.Number("7")
		}
		a := []any{}
		for i, n := 0, r.Range(0, 3); i < n; i++ {
			a = append(a, genValue(r, depth+1))
		}
		return a
	}
}

// genClaims returns non-standard claims plus a random subset of standard ones;
// time claims keep margins of minutes around now.
func genClaims(r *kit.Rand, now int64, withExp bool) map[string]any {
	m := map[string]any{}
	for i, n := 0, r.Range(0, 6); i < n; i++ {
		m[kit.Choose(r, claimNames)] = genValue(r, 0)
	}
	num := func(v int64) any {
		if r.Chance(0.15) {
			return json.Number(strconv.FormatInt(v, 10) + kit.Choose(r, []string{".5", ".0", ".25"}))
		}
		return json.Number(strconv.FormatInt(v, 10))
	}
	if withExp {
		m["exp"] = num(now + int64(r.Range(120, 86400*30)))
	}
	if r.Chance(0.5) {
		m["iat"] = num(now - int64(r.Range(120, 86400)))
	}
	if r.Chance(0.4) {
		m["nbf"] = num(now - int64(r.Range(120, 86400)))
	}
	if r.Chance(0.4) {
		m["iss"] = kit.Choose(r, []string{"issuer", "", "https://x/y"})
	}
	if r.Chance(0.4) {
		m["sub"] = randAlnum(r, 6)
	}
	if r.Chance(0.3) {
		if r.Bool() {
			m["aud"] = "aud1"
		} else {
			m["aud"] = []any{"a", "b"}
		}
	}
	if r.Chance(0.3) {
		m["jti"] = randAlnum(r, 10)
	}
	return m
}

func mustJSON(v any) string {
	b, err := json.Marshal(v)
	if err != nil {
		panic(err)
	}
	return string(b)
}

func genSecret(r *kit.Rand) string {
	switch r.Pick(6, 2, 1, 1) {
	case 0:
		return randAlnum(r, r.Range(8, 48))
	case 1:
		return string(randBytes(r, r.Range(8, 64))) // arbitrary bytes
	case 2:
		return randAlnum(r, 8) + " !=.;" + randAlnum(r, 4)
	default:
		return randAlnum(r, r.Range(100, 200)) // longer than the HMAC block size
	}
}
