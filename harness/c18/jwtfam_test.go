package c18

// jwtfam_test.go: the JWT families (single-field mutations; two-secret rotation).

import (
	"net/http"
	"time"

	"github.com/zeromicro/go-zero/rest/handler"

	"verifharness/kit"
)

func genJWTCfg(r *kit.Rand) (jwtCfg, string) {
	cfg := jwtCfg{Secret: genSecret(r)}
	mode := "prev-none"
	switch r.Pick(4, 5, 1, 1) {
	case 1:
		cfg.Prev, mode = genSecret(r), "prev-distinct"
	case 2:
		cfg.Prev, mode = cfg.Secret, "prev-equals-secret"
	case 3:
		cfg.Prev, mode = cfg.Secret[:len(cfg.Secret)-2], "prev-prefix-of-secret"
	}
	return cfg, mode
}

func newJWTEnv(c *kit.Case, cfg jwtCfg, now int64, shape string) *jwtEnv {
	e := &jwtEnv{c: c, cfg: cfg, now: now, shape: shape, t: tally{}}
	var opts []handler.AuthorizeOption
	if cfg.Prev != "" || c.R.Chance(0.3) {
		opts = append(opts, handler.WithPrevSecret(cfg.Prev))
	}
	if c.R.Chance(0.25) {
		// a callback that does not write a status: the gate must still answer 401
		n := 0
		e.cbHit = &n
		opts = append(opts, handler.WithUnauthorizedCallback(func(w http.ResponseWriter, r *http.Request, err error) { n++ }))
	}
	e.mw = handler.Authorize(cfg.Secret, opts...)
	return e
}

func genBase(r *kit.Rand, cfg jwtCfg, now int64) (jwtBase, string) {
	b := jwtBase{alg: kit.Choose(r, []string{"HS256", "HS256", "HS384", "HS512"}), typ: "JWT"}
	signer := "secret"
	b.key = []byte(cfg.Secret)
	if cfg.Prev != "" && r.Chance(0.45) {
		b.key, signer = []byte(cfg.Prev), "prev"
	}
	withExp := r.Chance(0.85)
	b.claims = genClaims(r, now, withExp)
	b.boring = withExp
	b.hJSON = hdrJSON(b.alg, b.typ)
	b.pJSON = mustJSON(b.claims)
	b.tok = signTok(b.hJSON, b.pJSON, b.alg, b.key)
	return b, signer
}

// jwtMutationCase: one valid credential and all its single-field mutations.
func jwtMutationCase(c *kit.Case) {
	r := c.R
	now := int64(1_500_000_000) + r.Int63n(600_000_000)
	jwtNow.Store(now)
	cfg, mode := genJWTCfg(r)
	b, signer := genBase(r, cfg, now)
	e := newJWTEnv(c, cfg, now, b.alg+"/"+signer+"/"+mode)
	defer e.t.flush(c)
	specs := jwtMutations(r, b, cfg, now)
	accepted, mutAccepted := 0, 0
	for _, s := range specs {
		if c.Violated() && e.c != nil && e.t["jwt_requests"] > 4000 {
			break
		}
		if e.run(s) {
			accepted++
			if s.Kind != "base" {
				mutAccepted++
			}
		}
	}
	e.t["jwt_mutants_accepted_as_still_valid"] += int64(mutAccepted)
	if e.cbHit != nil {
		e.t["jwt_unauthorized_callback_calls"] += int64(*e.cbHit)
	}
	// the base token once more at the end: the gate's history must not have changed its mind
	e.run(jwtSpec{Kind: "base", Detail: "again", Auth: bearer(b.tok), Must: b.boring})
	if c.Index < 3 {
		c.Sample("jwt-mutations", 1, map[string]any{"config": cfg, "alg": b.alg, "signed_with": signer, "claims": b.pJSON,
			"token": b.tok, "requests": len(specs) + 1, "handler_ran": accepted, "mutations_still_valid": mutAccepted})
	}
}

// jwtRotationCase: two secrets, long request sequences against ONE gate, in
// both orders, with the parser's history reset (24 h of virtual time) in between.
func jwtRotationCase(c *kit.Case) {
	r := c.R
	now := int64(1_500_000_000) + r.Int63n(600_000_000)
	jwtNow.Store(now)
	cfg := jwtCfg{Secret: genSecret(r), Prev: genSecret(r)}
	mode := "prev-distinct"
	if r.Chance(0.1) {
		cfg.Prev, mode = cfg.Secret, "prev-equals-secret"
	}
	vc := kit.InstallVClock()
	defer kit.UninstallVClock()
	e := newJWTEnv(c, cfg, now, "rotation/"+mode)
	defer e.t.flush(c)
	third := genSecret(r)
	mk := func(who string) jwtSpec {
		alg := kit.Choose(r, []string{"HS256", "HS384", "HS512"})
		cl := genClaims(r, now, true)
		key := map[string]string{"secret": cfg.Secret, "prev": cfg.Prev, "third": third}[who]
		s := jwtSpec{Kind: "rotation/" + who, Detail: alg, Must: who != "third" && who != "expired-prev" && who != "expired-secret"}
		switch who {
		case "expired-secret":
			key = cfg.Secret
			cl["exp"] = num(now - 600)
		case "expired-prev":
			key = cfg.Prev
			cl["exp"] = num(now - 600)
		}
		s.Auth = bearer(signTok(hdrJSON(alg, "JWT"), mustJSON(cl), alg, []byte(key)))
		return s
	}
	var order []string
	rep := func(who string, n int) {
		for i := 0; i < n; i++ {
			order = append(order, who)
		}
	}
	first, second := "secret", "prev"
	if r.Bool() {
		first, second = second, first
	}
	pattern := r.Intn(4)
	switch pattern {
	case 0: // a run of one, then a run of the other, then back
		rep(first, r.Range(1, 12))
		rep(second, r.Range(1, 30))
		rep(first, r.Range(1, 30))
	case 1: // strict alternation
		for i := 0; i < r.Range(6, 40); i++ {
			rep(first, 1)
			rep(second, 1)
		}
	case 2: // failures in between
		for i := 0; i < r.Range(6, 30); i++ {
			rep(kit.Choose(r, []string{first, second, "third", "expired-secret", "expired-prev"}), 1)
		}
	default: // random
		for i := 0; i < r.Range(10, 60); i++ {
			rep(kit.Choose(r, []string{"secret", "prev", "secret", "prev", "third", "expired-secret", "expired-prev"}), 1)
		}
	}
	resetAt := -1
	if r.Chance(0.5) {
		resetAt = r.Intn(len(order))
	}
	ran := 0
	for i, who := range order {
		if i == resetAt {
			vc.Advance(25 * time.Hour) // beyond the parser's history reset period
			e.t["jwt_rotation_history_resets"]++
		}
		if e.run(mk(who)) {
			ran++
		}
	}
	e.t["jwt_rotation_sequences"]++
	c.Sig(true, "jwt-rotation", mode, pattern, first, len(order), resetAt >= 0)
	if c.Index < 2 {
		c.Sample("jwt-rotation", 1, map[string]any{"config": cfg, "order": order, "handler_ran": ran, "history_reset_at": resetAt})
	}
}
