package c18

// e2e_test.go: one pass through a real rest.Server on loopback, routes guarded
// with rest.WithJwt / rest.WithJwtTransition / rest.WithSignature, same oracles.

import (
	"bytes"
	"fmt"
	"io"
	"net"
	"net/http"
	"sync/atomic"
	"time"

	"github.com/zeromicro/go-zero/core/logx"
	"github.com/zeromicro/go-zero/rest"

	"verifharness/kit"
)

type e2eServer struct {
	base   string
	cur    atomic.Pointer[probe]
	hs     atomic.Pointer[http.Server]
	client *http.Client
	closer func() // bare net/http servers (crywrite_test.go)
}

func freePort() (int, error) {
	l, err := net.Listen("tcp", "127.0.0.1:0")
	if err != nil {
		return 0, err
	}
	defer l.Close()
	return l.Addr().(*net.TCPAddr).Port, nil
}

var e2eMethods = []string{"GET", "POST", "PUT", "DELETE", "PATCH", "HEAD", "OPTIONS"}

// startE2E builds and starts the server of the e2e family.
func startE2E(cfg jwtCfg, confIdx []int, tol time.Duration) (*e2eServer, error) {
	return startServer(func(srv *rest.Server, mk func(path string) []rest.Route) {
		var keys []rest.PrivateKeyConf
		for _, i := range confIdx {
			keys = append(keys, rest.PrivateKeyConf{Fingerprint: rsaKeys[i].Fingerprint, KeyFile: rsaKeys[i].File})
		}
		srv.AddRoutes(mk("/jwt"), rest.WithJwt(cfg.Secret))
		srv.AddRoutes(mk("/jwtt"), rest.WithJwtTransition(cfg.Secret, cfg.Prev))
		srv.AddRoutes(mk("/sig/:a/:b"), rest.WithSignature(rest.SignatureConf{Strict: true, Expiry: tol, PrivateKeys: keys}))
		srv.AddRoutes(mk("/sig/:a/:b/:c"), rest.WithSignature(rest.SignatureConf{Strict: true, Expiry: tol, PrivateKeys: keys}))
		srv.AddRoutes(mk("/loose/:a/:b"), rest.WithSignature(rest.SignatureConf{Strict: false, Expiry: tol, PrivateKeys: keys}))
	})
}

// startServer builds a rest.Server, lets add bind the route groups (mk(path) =
// one route per method, all reporting to the probe of the request in flight) and
// starts it; a port collision (other processes pick ports at the same time) is
// retried, anything else is reported to the caller.
func startServer(add func(srv *rest.Server, mk func(path string) []rest.Route)) (*e2eServer, error) {
	return startServerWith(nil, nil, add)
}

// startServerWith: confMod (may be nil) changes the configuration (middlewares ...) after the
// defaults of startServer were set; opts are handed to rest.NewServer.
func startServerWith(confMod func(conf *rest.RestConf), opts []rest.RunOption, add func(srv *rest.Server, mk func(path string) []rest.Route)) (*e2eServer, error) {
	var lastErr error
	for attempt := 0; attempt < 5; attempt++ {
		port, err := freePort()
		if err != nil {
			return nil, err
		}
		var conf rest.RestConf
		conf.Host = "127.0.0.1"
		conf.Port = port
		conf.Name = "verifc18"
		conf.Log.Mode = "console"
		conf.Log.Level = "severe"
		conf.Timeout = 0
		conf.MaxBytes = 1 << 20
		conf.Middlewares.Recover = true // everything else off: no shedding / breaker / timeout answers under CPU load
		if confMod != nil {
			confMod(&conf)
		}
		srv, err := rest.NewServer(conf, opts...)
		if err != nil {
			return nil, err
		}
		logx.Disable()
		s := &e2eServer{base: fmt.Sprintf("http://127.0.0.1:%d", port)}
		h := func(w http.ResponseWriter, r *http.Request) {
			p := s.cur.Load()
			if p == nil {
				w.WriteHeader(599)
				return
			}
			protected(p).ServeHTTP(w, r)
		}
		mk := func(path string) []rest.Route {
			var rs []rest.Route
			for _, m := range e2eMethods {
				rs = append(rs, rest.Route{Method: m, Path: path, Handler: h})
			}
			return rs
		}
		add(srv, mk)
		failed := make(chan any, 1)
		go func() {
			defer func() {
				if r := recover(); r != nil { // rest.Server panics when it cannot listen
					failed <- r
				}
			}()
			srv.StartWithOpts(func(hs *http.Server) { s.hs.Store(hs) })
		}()
		up := false
	wait:
		for i := 0; i < 1500; i++ {
			select {
			case r := <-failed:
				lastErr = fmt.Errorf("rest.Server did not start: %v", r)
				break wait
			default:
			}
			conn, err := net.DialTimeout("tcp", fmt.Sprintf("127.0.0.1:%d", port), 200*time.Millisecond)
			if err == nil {
				conn.Close()
				up = true
				break wait
			}
			time.Sleep(10 * time.Millisecond)
		}
		if !up {
			if lastErr == nil {
				lastErr = fmt.Errorf("rest.Server did not start listening on port %d", port)
			}
			continue
		}
		s.client = &http.Client{Timeout: 300 * time.Second, Transport: &http.Transport{DisableCompression: true, MaxIdleConnsPerHost: 2},
			CheckRedirect: func(*http.Request, []*http.Request) error { return http.ErrUseLastResponse }}
		return s, nil
	}
	return nil, lastErr
}

func (s *e2eServer) stop() {
	if hs := s.hs.Load(); hs != nil {
		hs.Close()
	}
	if s.closer != nil {
		s.closer()
	}
	if tr, ok := s.client.Transport.(*http.Transport); ok {
		tr.CloseIdleConnections()
	}
}

// do sends one request and returns status and body; p is the probe the route handler reports to.
func (s *e2eServer) do(req *http.Request, p *probe) (status, error) {
	s.cur.Store(p)
	defer s.cur.Store(nil)
	resp, err := s.client.Do(req)
	if err != nil {
		s.client.CloseIdleConnections()
		return status{}, err
	}
	body, err := io.ReadAll(resp.Body)
	resp.Body.Close()
	if err != nil {
		s.client.CloseIdleConnections()
		return status{}, err
	}
	return status{code: resp.StatusCode, body: body}, nil
}

// jwtExec turns the in-process style request of jwtEnv into a client request for path.
func (s *e2eServer) jwtExec(in *http.Request, p *probe) (int, string, error) {
	u := s.base + in.URL.Path
	if in.URL.RawQuery != "" {
		u += "?" + in.URL.RawQuery
	}
	var body io.Reader
	if in.Body != nil && in.ContentLength > 0 {
		b, _ := io.ReadAll(in.Body)
		body = bytes.NewReader(b)
	}
	req, err := http.NewRequest(in.Method, u, body)
	if err != nil {
		return 0, "", err
	}
	for k, vs := range in.Header {
		req.Header[k] = append([]string(nil), vs...)
	}
	st, err := s.do(req, p)
	return st.code, "", err
}

func (s *e2eServer) csExec(q csReq, p *probe) (status, string, error) {
	u := s.base + q.Path
	if q.Query != "" {
		u += "?" + q.Query
	}
	var body io.Reader
	if q.Body != nil {
		if q.UnknownLength {
			body = plainReader{bytes.NewReader(q.Body)} // net/http sends it chunked
		} else {
			body = bytes.NewReader(q.Body)
		}
	}
	req, err := http.NewRequest(q.Method, u, body)
	if err != nil {
		return status{}, "", err
	}
	if !q.NoHdr {
		req.Header.Set("X-Content-Security", q.Header)
	}
	if q.ReqURI != "" {
		req.Header.Set("X-Request-Uri", q.ReqURI)
	}
	st, err := s.do(req, p)
	return st, "", err
}

func routable(m string) bool {
	for _, x := range e2eMethods {
		if x == m {
			return true
		}
	}
	return false
}

// e2eCase: JWT (current secret only, and transition) and strict / non-strict signature routes.
func e2eCase(c *kit.Case) {
	r := c.R
	if err := setupKeys(); err != nil {
		c.Inconclusive("rsa keys: " + err.Error())
		return
	}
	now := int64(1_500_000_000) + r.Int63n(600_000_000)
	jwtNow.Store(now)
	cfg := jwtCfg{Secret: randAlnum(r, r.Range(8, 40)), Prev: randAlnum(r, r.Range(8, 40))}
	confIdx := genConfIdx(r)
	tol := kit.Choose(r, csTolerances)
	srv, err := startE2E(cfg, confIdx, tol)
	if err != nil {
		c.Inconclusive("end-to-end server: " + err.Error())
		return
	}
	defer srv.stop()

	// ---- JWT: route with the current secret only, then the transition route
	for _, route := range []struct {
		path string
		cfg  jwtCfg
	}{{"/jwt", jwtCfg{Secret: cfg.Secret}}, {"/jwtt", cfg}} {
		b, signer := genBase(r, route.cfg, now)
		e := &jwtEnv{c: c, cfg: route.cfg, now: now, shape: "e2e" + route.path + "/" + b.alg + "/" + signer, t: tally{}, exec: srv.jwtExec, kp: "C18/e2e/jwt", path: route.path}
		specs := jwtMutations(r, b, route.cfg, now)
		n := 0
		for i, s := range specs {
			// the character flips are the bulk: take a sample of those, everything else in full
			if len(s.Kind) > 5 && s.Kind[:5] == "flip-" && (i+c.Index)%kit.N(12, 3) != 0 {
				continue
			}
			e.run(s)
			n++
		}
		if route.cfg.Prev != "" {
			// a token under the other secret, and one under the current secret, in both orders
			for k := 0; k < 6; k++ {
				key := []string{route.cfg.Secret, route.cfg.Prev}[(k/2)%2]
				tok := signTok(hdrJSON("HS256", "JWT"), mustJSON(genClaims(r, now, true)), "HS256", []byte(key))
				e.run(jwtSpec{Kind: "rotation/e2e", Detail: fmt.Sprint(k), Auth: bearer(tok), Must: true})
				n++
			}
		} else {
			tok := signTok(hdrJSON("HS256", "JWT"), mustJSON(genClaims(r, now, true)), "HS256", []byte(cfg.Prev))
			e.run(jwtSpec{Kind: "wrong-secret", Detail: "previous-secret-on-a-route-without-transition", Auth: bearer(tok)})
			n++
		}
		e.t["e2e_jwt_requests"] += int64(n)
		e.t.flush(c)
	}

	// ---- signature routes
	for _, strict := range []bool{true, false} {
		e := newCSEnv(c, confIdx, tol, strict)
		e.exec, e.keyPrefix, e.gate = srv.csExec, "C18/e2e/cs", nil
		prefix := "/sig/a/b"
		if !strict {
			prefix = "/loose/a/b"
		}
		nowU := e.born.Unix()
		b := genCSBase(r, confIdx, nowU, prefix)
		e.shape = fmt.Sprintf("e2e/%s/type=%s", b.p.Method, b.p.Type)
		n := 0
		for i, s := range csMutations(r, b, confIdx, int64(tol.Seconds()), nowU) {
			if !routable(s.Req.Method) {
				continue // CONNECT / TRACE / lower-case methods cannot be routed by rest.Server
			}
			if !strict && i%5 != 0 {
				continue
			}
			if s.Kind == "signature-byte" && (i+c.Index)%kit.N(6, 2) != 0 {
				continue
			}
			e.run(s, respBytes(r))
			n++
		}
		if strict {
			// unusual timestamps (short list) through the server's route as well
			te := *e
			te.exactTime, te.dead, te.born = true, false, time.Now()
			rt := r.Split("e2e-time")
			probes := gateTimeProbes(rt, te.born.Unix(), te.tolLo, te.tolHi, kit.N(10, 40))
			runTimeProbes(rt, &te, prefix, probes, "e2e")
			n += len(probes)
		}
		e.t["e2e_cs_requests"] += int64(n)
		e.t.flush(c)
	}
	c.Sig(true, "e2e", c.Index)
	if c.Index < 2 {
		c.Sample("e2e", 1, map[string]any{"server": "rest.Server on 127.0.0.1 (all middlewares off except Recover)",
			"routes": "GET|POST|PUT|DELETE|PATCH|HEAD|OPTIONS /jwt (WithJwt), /jwtt (WithJwtTransition), /sig/:a/:b[/:c] (WithSignature strict), /loose/:a/:b (WithSignature non-strict)",
			"jwt_config": cfg, "signature_tolerance": tol.String(), "configured_keys": len(confIdx), "client": "net/http, chunked for bodies of unknown length"})
	}
}
