package c18

// cstime_test.go: the TIMESTAMP of a signed request, over the whole int64 range.
//
// "runs only if the signature covers exactly the request's timestamp (within
// tolerance)". The mutation families probe a small grid of offsets (around the
// tolerance, hours, days, a year, Max/MinInt64). Arithmetic on the timestamp can
// go wrong far away from that grid (a difference multiplied into nanoseconds,
// milliseconds ... wraps around every 2^64 units; sums next to the int64 limits
// wrap; a parser may read more spellings than the decimal one), so here every
// request is CORRECTLY SIGNED for its own timestamp and only the timestamp is
// unusual:
//
//	power-of-two  now +- 2^k, 2^k-1, 2^k+1                         k = 0..62
//	wrap-1e9      now +- (k*2^64/1e9 rounded down/up) +- {0,1,tol}  k = 1..5   (seconds -> ns wraps to ~0)
//	wrap-1e6/1e3  the same for products with 1e6 / 1e3
//	int-limits    now +- MaxInt32, MaxUint32, MaxInt64/1e9 (+-1, +-tol); MaxInt64-now, MinInt64+now, ...
//	edge          now +- {0,1,2,tol-1,tol,tol+1,tol+2,tol+30,tol+59,tol+61,2tol}
//	beyond-int64  decimal strings outside int64 (now +- 2^63, 2^64, ...)
//	spelling      '+', leading zeros, blanks, float / exponent forms, hex, octal, binary,
//	              underscores, other digits, very long digit strings, empty, signs only
//
// against tolerances 0, sub-second, 1 s, 2 s, 59 s, 5 min, 1 h, 24 h, 30 d and the
// largest time.Duration (292 years).
//
// Oracle: the handler may run only if the timestamp denotes (decimal meaning, exact
// arithmetic in math/big) an instant within the tolerance of the gate's clock. No
// distance is kept from the tolerance edges: the reference knows the unix second
// before and after the request and judges only what is certain for every instant
// in between (csEnv.exactTime). A canonical decimal timestamp that is certainly
// inside must be accepted. A spelling that is no decimal integer must not run the
// handler - unless it has a numeric meaning under a more generous reading that is
// inside the tolerance (the statement does not say which spellings a gate reads):
// then the outcome is only counted. A tolerance outside the range of time.Duration
// (a configuration that overflowed) is a gate the statement says nothing about:
// no panic, everything else counted.

import (
	"fmt"
	"math"
	"math/big"
	"strconv"
	"strings"
	"time"

	"verifharness/kit"
)

type tsProbe struct {
	class string // violation-key class below "time/"
	name  string
	ts    string   // the spelling sent
	canon bool     // canonical decimal int64: must be accepted when certainly inside
	len   *big.Rat // generous numeric meaning of a non-integer spelling (nil = none)
	core  bool     // part of the short list every gate / route group gets
}

func bi(v int64) *big.Int { return big.NewInt(v) }

func pow2(k uint) *big.Int { return new(big.Int).Lsh(bi(1), k) }

// ratInside: |x - t| <= tol for every t in [t0,t1].
func ratInside(x *big.Rat, t0, t1, tol int64) bool {
	lo := new(big.Rat).Sub(x, new(big.Rat).SetInt64(tol))
	hi := new(big.Rat).Add(x, new(big.Rat).SetInt64(tol))
	return new(big.Rat).SetInt64(t0).Cmp(lo) >= 0 && new(big.Rat).SetInt64(t1).Cmp(hi) <= 0
}

// lenientMeaning: a numeric reading of s that a generous parser might adopt.
func lenientMeaning(s string) *big.Rat {
	t := strings.TrimSpace(strings.Trim(s, "\x00"))
	t = strings.ReplaceAll(t, "_", "")
	if t == "" {
		return nil
	}
	if v, ok := new(big.Int).SetString(t, 0); ok { // 0x, 0o, 0b, leading-0 octal, decimal
		return new(big.Rat).SetInt(v)
	}
	if v, ok := new(big.Rat).SetString(t); ok { // decimals, exponents, fractions
		return v
	}
	return nil
}

// tsProbes: the timestamps for a gate whose clock reads now and whose tolerance lies in [tolLo,tolHi] seconds.
func tsProbes(now, tolLo, tolHi int64) []tsProbe {
	var out []tsProbe
	seen := map[string]bool{}
	nowB := bi(now)
	maxI, minI := bi(math.MaxInt64), bi(math.MinInt64)
	addAbs := func(class, name string, v *big.Int, core bool) {
		s := v.String()
		if seen[s] {
			return
		}
		seen[s] = true
		p := tsProbe{class: class, name: name, ts: s, core: core}
		if v.Cmp(minI) >= 0 && v.Cmp(maxI) <= 0 {
			p.canon = true
		} else {
			p.class = "beyond-int64"
		}
		out = append(out, p)
	}
	addOff := func(class, name string, off *big.Int, core bool) {
		addAbs(class, "now+"+name, new(big.Int).Add(nowB, off), core)
		addAbs(class, "now-"+name, new(big.Int).Sub(nowB, off), core)
	}
	tol := tolHi
	if tol < 0 {
		tol = 0
	}
	// edge
	for _, d := range []int64{0, 1, 2, tol - 1, tol, tol + 1, tol + 2, tol + 30, tol + 59, tol + 61, 2 * tol, tolLo} {
		if d >= 0 {
			addOff("edge", strconv.FormatInt(d, 10)+"s", bi(d), d == tol+30 || d == 0)
		}
	}
	// powers of two
	for k := uint(0); k <= 62; k++ {
		p := pow2(k)
		addOff("power-of-two", fmt.Sprintf("2^%d", k), p, k >= 50 && k%3 == 1 || k == 62)
		addOff("power-of-two", fmt.Sprintf("(2^%d-1)", k), new(big.Int).Sub(p, bi(1)), k == 55 || k == 62)
		addOff("power-of-two", fmt.Sprintf("(2^%d+1)", k), new(big.Int).Add(p, bi(1)), k == 56 || k == 61)
	}
	// products that wrap: (now - ts) * unit is a multiple of 2^64 give or take less than the tolerance
	two64 := pow2(64)
	for _, u := range []struct {
		class string
		unit  int64
		wide  bool
	}{{"wrap-1e9", 1_000_000_000, true}, {"wrap-1e6", 1_000_000, false}, {"wrap-1e3", 1_000, false}} {
		for k := int64(1); k <= 5; k++ {
			q, m := new(big.Int).DivMod(new(big.Int).Mul(bi(k), two64), bi(u.unit), new(big.Int))
			rs := []*big.Int{q}
			if m.Sign() != 0 {
				rs = append(rs, new(big.Int).Add(q, bi(1)))
			}
			for ri, q := range rs {
				rn := []string{"floor", "ceil"}[ri]
				deltas := []int64{0, 1, -1}
				if u.wide {
					deltas = append(deltas, tol, -tol, tol/2, -tol/2)
				}
				for _, d := range deltas {
					addOff(u.class, fmt.Sprintf("%s(%d*2^64/%d)%+d", rn, k, u.unit, d), new(big.Int).Add(q, bi(d)), d == 0 && (u.wide || k == 1))
				}
			}
		}
	}
	// integer limits
	q9 := int64(math.MaxInt64 / 1_000_000_000)
	for _, l := range []struct {
		name string
		v    int64
	}{{"MaxInt32", math.MaxInt32}, {"MaxUint32", math.MaxUint32}, {"MaxInt64/1e9", q9}, {"MaxInt64/1e6", math.MaxInt64 / 1_000_000}, {"MaxInt64/1e3", math.MaxInt64 / 1000}} {
		for _, d := range []int64{0, 1, -1, tol, -tol} {
			addOff("int-limits", fmt.Sprintf("(%s%+d)", l.name, d), bi(l.v+d), d == 0)
		}
	}
	for _, a := range []struct {
		name string
		v    *big.Int
	}{{"MaxInt64-now", new(big.Int).Sub(maxI, nowB)}, {"MinInt64+now", new(big.Int).Add(minI, nowB)}, {"MaxInt64", maxI}, {"MinInt64", minI},
		{"MaxInt64-tol", new(big.Int).Sub(maxI, bi(tol))}, {"MinInt64+tol", new(big.Int).Add(minI, bi(tol))}, {"MaxInt64-1", new(big.Int).Sub(maxI, bi(1))},
		{"zero", bi(0)}, {"-now", new(big.Int).Neg(nowB)}, {"now*1000", new(big.Int).Mul(nowB, bi(1000))}, {"now*1e6", new(big.Int).Mul(nowB, bi(1_000_000))},
		{"now*1e9", new(big.Int).Mul(nowB, bi(1_000_000_000))}, {"now/1000", bi(now / 1000)}, {"now/2", bi(now / 2)}, {"2*now", bi(2 * now)}} {
		addAbs("int-limits", a.name, a.v, a.name == "MaxInt64-now" || a.name == "MinInt64+now")
	}
	// decimal strings beyond int64: a parser that wraps would land next to now
	for _, k := range []uint{63, 64, 65, 96, 128} {
		addOff("beyond-int64", fmt.Sprintf("2^%d", k), pow2(k), k == 64)
	}
	addAbs("beyond-int64", "MaxInt64+1", new(big.Int).Add(maxI, bi(1)), false)
	addAbs("beyond-int64", "MinInt64-1", new(big.Int).Sub(minI, bi(1)), false)

	// spellings: of a value inside the tolerance, of one far outside, of one that wraps
	type base struct {
		name string
		v    int64
	}
	for bidx, b := range []base{{"inside", now}, {"outside", now - tol - 86400}, {"wraps", now + 18446744074}} {
		d := strconv.FormatInt(b.v, 10)
		exp := d[:1] + "." + d[1:] + "e" + strconv.Itoa(len(d)-1)
		for i, sp := range []struct{ name, s string }{
			{"plus-sign", "+" + d}, {"leading-zeros", "000" + d}, {"40-leading-zeros", strings.Repeat("0", 40) + d}, {"plus-and-zeros", "+0" + d},
			{"leading-blank", " " + d}, {"trailing-blank", d + " "}, {"leading-tab", "\t" + d}, {"leading-newline", "\n" + d}, {"trailing-nul", d + "\x00"},
			{"float.0", d + ".0"}, {"float.5", d + ".5"}, {"exponent-e0", d + "e0"}, {"exponent", exp}, {"exponent-E+", strings.Replace(exp, "e", "E+", 1)},
			{"hex", "0x" + strconv.FormatInt(b.v, 16)}, {"HEX", "0X" + strings.ToUpper(strconv.FormatInt(b.v, 16))}, {"bare-hex", strconv.FormatInt(b.v, 16)},
			{"octal-0o", "0o" + strconv.FormatInt(b.v, 8)}, {"octal-0", "0" + strconv.FormatInt(b.v, 8)}, {"binary", "0b" + strconv.FormatInt(b.v, 2)},
			{"underscores", d[:len(d)-6] + "_" + d[len(d)-6:len(d)-3] + "_" + d[len(d)-3:]}, {"thousands-commas", d[:len(d)-6] + "," + d[len(d)-6:len(d)-3] + "," + d[len(d)-3:]},
			{"arabic-indic-digits", mapDigits(d, 0x0660)}, {"fullwidth-digits", mapDigits(d, 0xFF10)},
			{"double-sign", "+-" + d}, {"double-minus", "--" + d}, {"sign-blank", "+ " + d}, {"quoted", `"` + d + `"`}, {"unit-suffix", d + "s"},
			{"two-numbers", d + " " + d}, {"rfc3339", time.Unix(b.v, 0).UTC().Format(time.RFC3339)},
		} {
			p := tsProbe{class: "spelling", name: sp.name + "/" + b.name, ts: sp.s, core: (i+bidx)%7 == 0}
			if _, ok := decimalInteger(sp.s); !ok {
				p.len = lenientMeaning(sp.s)
			}
			out = append(out, p)
		}
	}
	for _, sp := range []struct{ name, s string }{{"empty", ""}, {"plus-only", "+"}, {"minus-only", "-"}, {"minus-zero", "-0"}, {"plus-zero", "+0"}, {"text", "now"},
		{"NaN", "NaN"}, {"Inf", "+Inf"}, {"dot", "."}, {"0x", "0x"}, {"100-digits", strings.Repeat("9", 100)}, {"300-digits-of-zero", strings.Repeat("0", 300)}} {
		out = append(out, tsProbe{class: "spelling", name: sp.name, ts: sp.s, core: sp.name == "empty"})
	}
	return out
}

func mapDigits(d string, zero rune) string {
	var sb strings.Builder
	for _, ch := range d {
		if ch >= '0' && ch <= '9' {
			sb.WriteRune(zero + (ch - '0'))
		} else {
			sb.WriteRune(ch)
		}
	}
	return sb.String()
}

// runTimeProbes sends, through e (exactTime), a correctly signed request for each probe.
func runTimeProbes(r *kit.Rand, e *csEnv, path string, probes []tsProbe, word string) {
	b := genCSBase(r, e.confIdx[:1], time.Now().Unix(), path)
	for _, tp := range probes {
		m := b.p
		m.Ts = tp.ts
		// violation-key class: coarse (the three wrap classes are one input class); the family is in the case id
		kc := tp.class
		if strings.HasPrefix(kc, "wrap-") {
			kc = "product-wraps"
		}
		s := csSpec{Kind: "time/" + kc, Detail: word + "/" + tp.class + "/" + tp.name, Req: m.buildSeeded(), Must: tp.canon,
			lenient: tp.len, lenientObs: "cs_time_obs_not_a_decimal_integer_but_a_number_inside_the_tolerance_accepted"}
		before := e.t["cs_handler_ran"]
		e.run(s, respBytes(r))
		e.t["cs_time_requests"]++
		e.t["cs_time_class_"+tp.class]++
		if e.t["cs_handler_ran"] > before {
			e.t["cs_time_handler_ran"]++
		}
	}
}

// the tolerances of the handler-level family
var timeTolerances = []time.Duration{0, 500 * time.Millisecond, time.Second, 1500 * time.Millisecond, 2 * time.Second, 59 * time.Second,
	5 * time.Minute, time.Hour, 24 * time.Hour, 30 * 24 * time.Hour, time.Duration(math.MaxInt64)}

// tolerances that a configuration beyond 292 years turns into (int64 nanoseconds wrapped)
func overflowedTolerances() []time.Duration {
	y := new(big.Int).Mul(bi(365*24*3600), bi(1_000_000_000))
	var out []time.Duration
	for _, years := range []int64{293, 300, 585, 600, 1000} {
		v := new(big.Int).Mul(y, bi(years))
		out = append(out, time.Duration(v.Uint64())) // what int64 arithmetic leaves of it
	}
	return append(out, time.Duration(math.MinInt64), -time.Second, -time.Hour)
}

// the probe list is cut into csTimeSlices slices (the short "core" list goes into every slice);
// a round of the family gives every tolerance csTimeHalves of them, the next round the next ones
const (
	csTimeSlices = 4
	csTimeHalves = 1
)

func csTimeCasesPerRound() int { return len(timeTolerances)*csTimeHalves + len(overflowedTolerances()) }

// csTimeCase: handler level. Case index -> (tolerance, slice of the probe list); the cases after
// the judged tolerances run the overflowed configurations (no panic, observed).
func csTimeCase(c *kit.Case) {
	r := c.R
	judged := len(timeTolerances) * csTimeHalves
	idx, round := c.Index%csTimeCasesPerRound(), c.Index/csTimeCasesPerRound()
	confIdx := genConfIdx(r)
	var tol time.Duration
	slice, slices := 0, csTimeSlices
	noJudge := ""
	if idx < judged {
		ti, half := idx/csTimeHalves, idx%csTimeHalves
		tol, slice = timeTolerances[ti], (ti+half+csTimeHalves*round)%csTimeSlices
	} else {
		tol = overflowedTolerances()[idx-judged]
		noJudge = "cs_time_obs_tolerance_overflowed_time.Duration"
		slice, slices = (idx+round)%8, 8
	}
	e := newCSEnv(c, confIdx, tol, true)
	defer e.t.flush(c)
	e.exactTime, e.noJudge = true, noJudge
	e.shape = fmt.Sprintf("time/keys=%d/tol=%s", len(confIdx), tol)
	all := tsProbes(e.born.Unix(), e.tolLo, e.tolHi)
	var mine []tsProbe
	for i, p := range all {
		if i%slices == slice || p.core && noJudge == "" {
			mine = append(mine, p)
		}
	}
	if kit.Thorough() {
		// plus random offsets over the whole range and around the wrap points
		for k := 0; k < 60; k++ {
			var off *big.Int
			switch r.Intn(3) {
			case 0:
				off = new(big.Int).SetUint64(r.Uint64() >> uint(r.Intn(63)))
			case 1:
				q := new(big.Int).Div(new(big.Int).Mul(bi(int64(r.Range(1, 400))), pow2(64)), bi(1_000_000_000))
				off = q.Add(q, bi(int64(r.Range(-3, 3))))
			default:
				off = new(big.Int).Add(pow2(uint(r.Range(20, 62))), bi(int64(r.Range(-1000, 1000))))
			}
			if r.Bool() {
				off.Neg(off)
			}
			v := new(big.Int).Add(bi(e.born.Unix()), off)
			mine = append(mine, tsProbe{class: "random-offset", name: "now" + fmt.Sprintf("%+d", off), ts: v.String(), canon: v.IsInt64()})
		}
	}
	runTimeProbes(r, e, "", mine, "handler")
	e.t["cs_time_cases"]++
	if noJudge == "" {
		e.t["cs_time_judged_cases_tolerance_"+tol.String()]++
	}
	c.Sig(true, "cs-time", tol.String(), slice)
	if slice == 0 {
		c.Sample("cs-time", 2, map[string]any{"tolerance": tol.String(), "judged": noJudge == "", "timestamps_in_this_slice": len(mine), "timestamps_in_all": len(all),
			"first": []string{mine[0].name + " = " + mine[0].ts, mine[len(mine)/2].name + " = " + mine[len(mine)/2].ts}})
	}
}

// gateTimeProbes: the short list (core) plus a random sample of the rest, for one gate / route group.
func gateTimeProbes(r *kit.Rand, now, tolLo, tolHi int64, extra int) []tsProbe {
	all := tsProbes(now, tolLo, tolHi)
	var out, rest []tsProbe
	for _, p := range all {
		if p.core {
			out = append(out, p)
		} else {
			rest = append(rest, p)
		}
	}
	for _, i := range r.Perm(len(rest)) {
		if extra <= 0 {
			break
		}
		out = append(out, rest[i])
		extra--
	}
	return out
}

// runGroupTimeProbes: cs-gates / e2e-groups: every strict gate gets unusual timestamps, judged by ITS tolerance.
func runGroupTimeProbes(r *kit.Rand, gs []*keyGroup, word string, t tally, extra int) {
	for _, g := range gs {
		if !g.strict {
			continue
		}
		te := *g.env // same gate / route, same tally; own clock handling
		te.exactTime, te.dead, te.born = true, false, time.Now()
		probes := gateTimeProbes(r, te.born.Unix(), te.tolLo, te.tolHi, extra)
		runTimeProbes(r, &te, g.path, probes, word)
		t["cs_time_"+word+"_probed"]++
	}
}
