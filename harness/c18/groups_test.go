package c18

// groups_test.go: CONFIGURATION effects. The single-gate families configure one
// key set per gate (and per server); here several strict content-security gates
// with DIFFERENT private keys live side by side — in one process
// (handler.ContentSecurityHandler built from separate decrypter maps: cs-gates)
// and as several rest.WithSignature route groups of ONE rest.Server (e2e-groups)
// — and every gate receives requests signed under every key (fingerprint of,
// and secret encrypted to, that key). "A secret encrypted to a configured key"
// means configured for THAT gate / route: the reference decides each request with
// the key set of the route it is sent to, so a credential of group B sent to a
// route of group A must be refused and A's handler must not run. One group
// shares a key with another (control: must be accepted by both), groups have
// their own tolerances (a timestamp is judged by the tolerance of the route it
// is sent to), a non-strict group may sit in between (observed only).
//
// e2e-groups does the same for JWT route groups with different secrets, and
// replays the time-travel sequences of timetravel_test.go through the server.

import (
	"fmt"
	"sort"
	"strconv"
	"strings"
	"time"

	"github.com/zeromicro/go-zero/rest"

	"verifharness/kit"
)

type keyGroup struct {
	name   string
	path   string // request path of the group's routes (end to end); "" = any path (in-process)
	keys   []int  // indices into rsaKeys configured for this gate / route group
	tol    time.Duration
	strict bool
	env    *csEnv
}

func (g *keyGroup) has(k int) bool {
	for _, x := range g.keys {
		if x == k {
			return true
		}
	}
	return false
}

// genKeyGroups: 2..3 strict groups with pairwise different key sets (always at
// least one key that one group has and another has not), one control group that
// shares a key with one of them, sometimes a non-strict group; random order.
func genKeyGroups(r *kit.Rand) []*keyGroup {
	pool := []int{0, 1, 3}
	perm := r.Perm(3)
	nDistinct := r.Range(2, 3)
	var gs []*keyGroup
	for i := 0; i < nDistinct; i++ {
		g := &keyGroup{keys: []int{pool[perm[i]]}, strict: true}
		if r.Chance(0.25) {
			g.keys = append(g.keys, pool[perm[(i+1)%3]])
		}
		gs = append(gs, g)
	}
	gs = append(gs, &keyGroup{keys: []int{gs[r.Intn(nDistinct)].keys[0]}, strict: true})
	if r.Chance(0.4) {
		gs = append(gs, &keyGroup{keys: []int{pool[r.Intn(3)]}, strict: false})
	}
	out := make([]*keyGroup, len(gs))
	for i, j := range r.Perm(len(gs)) {
		out[i] = gs[j]
	}
	for i, g := range out {
		g.name = fmt.Sprintf("g%d", i)
		g.tol = kit.Choose(r, csTolerances)
	}
	return out
}

func layout(gs []*keyGroup) string {
	var parts []string
	for _, g := range gs {
		ks := append([]int{}, g.keys...)
		sort.Ints(ks)
		s := fmt.Sprint(ks)
		if !g.strict {
			s += "loose"
		}
		parts = append(parts, s)
	}
	return strings.Join(parts, "")
}

func describe(gs []*keyGroup) []string {
	var out []string
	for _, g := range gs {
		var fps []string
		for _, k := range g.keys {
			fps = append(fps, rsaKeys[k].Fingerprint)
		}
		out = append(out, fmt.Sprintf("%s%s: strict=%v tolerance=%s keys=%v", g.name, g.path, g.strict, g.tol, fps))
	}
	return out
}

// runKeyGroups sends, in random order and twice, a correctly signed request under
// every key to every group, then timestamps chosen between the tolerances. kind
// names are prefixed with word ("gates" in-process, "groups" end to end).
func runKeyGroups(r *kit.Rand, gs []*keyGroup, word string, t tally, counter string) {
	type job struct {
		g *keyGroup
		k int
	}
	var jobs []job
	for round := 0; round < 2; round++ {
		for _, g := range gs {
			for k := range rsaKeys {
				jobs = append(jobs, job{g, k})
			}
		}
	}
	for _, ji := range r.Perm(len(jobs)) {
		j := jobs[ji]
		kind := "key-configured-nowhere"
		if j.g.has(j.k) {
			kind = "key-configured"
		} else {
			for _, o := range gs {
				if o != j.g && o.has(j.k) {
					kind = "key-of-another-" + word[:len(word)-1]
				}
			}
		}
		b := genCSBase(r, []int{j.k}, j.g.env.born.Unix(), j.g.path)
		s := csSpec{Kind: word + "/" + kind, Detail: fmt.Sprintf("%s/type=%s", b.p.Method, b.p.Type), Req: b.p.build(b.secret), Must: kind == "key-configured"}
		if j.g.env.dead {
			continue
		}
		j.g.env.run(s, respBytes(r))
		if j.g.strict && kind != "key-configured" && !j.g.env.dead {
			t[counter]++
		}
	}
	// a timestamp is judged by the tolerance of the gate it is sent to (>= 120 s from every edge)
	for _, g := range gs {
		if g.env.dead {
			continue
		}
		for _, d := range []int64{5*60 + 120, -(5*60 + 120), 3600 + 120, -(3600 + 120)} {
			b := genCSBase(r, g.keys[:1], g.env.born.Unix()+d, g.path)
			abs := d
			if abs < 0 {
				abs = -abs
			}
			s := csSpec{Kind: word + "/timestamp-vs-own-tolerance", Detail: strconv.FormatInt(d, 10) + "s/tol=" + g.tol.String(),
				Req: b.p.build(b.secret), Must: abs < int64(g.tol.Seconds())}
			g.env.run(s, respBytes(r))
		}
	}
}

// csGatesCase: several gates with different decrypter maps in ONE process.
func csGatesCase(c *kit.Case) {
	r := c.R
	gs := genKeyGroups(r)
	t := tally{}
	defer t.flush(c)
	for _, g := range gs {
		g.env = newCSEnv(c, g.keys, g.tol, g.strict)
		g.env.t = t
		g.env.shape = fmt.Sprintf("gates/keys=%v/tol=%s", g.keys, g.tol)
	}
	runKeyGroups(r, gs, "gates", t, "cs_gates_requests_under_a_key_not_configured_for_that_gate")
	runGroupTimeProbes(r, gs, "gates", t, kit.N(12, 60))
	t["cs_gates_cases"]++
	c.Sig(true, "cs-gates", layout(gs))
	if c.Index < 2 {
		c.Sample("cs-gates", 1, map[string]any{"gates_in_one_process": describe(gs),
			"requests": "under every key (fingerprint + secret encrypted to it) to every gate, twice, random order; timestamps +-7 min, +-62 min"})
	}
}

// e2eGroupsCase: one rest.Server, several WithSignature groups with different
// PrivateKeys, several JWT groups with different secrets; cross credentials and
// time travel.
func e2eGroupsCase(c *kit.Case) {
	r := c.R
	if err := setupKeys(); err != nil {
		c.Inconclusive("rsa keys: " + err.Error())
		return
	}
	t0 := int64(1_500_000_000) + r.Int63n(600_000_000)
	jwtNow.Store(t0)
	gs := genKeyGroups(r)
	secrets := map[string]string{"A": randAlnum(r, r.Range(8, 40)), "B": randAlnum(r, r.Range(8, 40)), "C": randAlnum(r, r.Range(8, 40)), "nowhere": randAlnum(r, r.Range(8, 40))}
	type jwtGroup struct {
		path string
		cfg  jwtCfg
		env  *jwtEnv
	}
	jgs := []*jwtGroup{{path: "/ja", cfg: jwtCfg{Secret: secrets["A"]}}, {path: "/jb", cfg: jwtCfg{Secret: secrets["B"]}},
		{path: "/jt", cfg: jwtCfg{Secret: secrets["C"], Prev: secrets["A"]}}} // the transition group's previous secret is group A's
	jwtFirst, jwtOrder := r.Bool(), r.Perm(len(jgs))
	srv, err := startServer(func(srv *rest.Server, mk func(path string) []rest.Route) {
		addJwt := func() {
			for _, i := range jwtOrder {
				g := jgs[i]
				if g.cfg.Prev == "" {
					srv.AddRoutes(mk(g.path), rest.WithJwt(g.cfg.Secret))
				} else {
					srv.AddRoutes(mk(g.path), rest.WithJwtTransition(g.cfg.Secret, g.cfg.Prev))
				}
			}
		}
		if jwtFirst {
			addJwt()
		}
		for i, g := range gs {
			g.path = fmt.Sprintf("/g%d/x/y", i)
			var keys []rest.PrivateKeyConf
			for _, k := range g.keys {
				keys = append(keys, rest.PrivateKeyConf{Fingerprint: rsaKeys[k].Fingerprint, KeyFile: rsaKeys[k].File})
			}
			srv.AddRoutes(mk(fmt.Sprintf("/g%d/:a/:b", i)), rest.WithSignature(rest.SignatureConf{Strict: g.strict, Expiry: g.tol, PrivateKeys: keys}))
		}
		if !jwtFirst {
			addJwt()
		}
	})
	if err != nil {
		c.Inconclusive("end-to-end server: " + err.Error())
		return
	}
	defer srv.stop()
	t := tally{}
	defer t.flush(c)

	// ---- signature groups
	for _, g := range gs {
		g.env = newCSEnv(c, g.keys, g.tol, g.strict)
		g.env.exec, g.env.keyPrefix, g.env.gate, g.env.t = srv.csExec, "C18/e2e/cs", nil, t
		g.env.shape = fmt.Sprintf("e2e-groups/keys=%v/tol=%s", g.keys, g.tol)
	}
	before := t["cs_requests"] + t["cs_nonstrict_requests"]
	runKeyGroups(r, gs, "groups", t, "e2e_groups_requests_under_a_key_not_configured_for_that_group")
	t["e2e_groups_cs_requests"] += t["cs_requests"] + t["cs_nonstrict_requests"] - before

	// ---- JWT groups: a token under every secret to every group, twice, random order
	for _, g := range jgs {
		g.env = &jwtEnv{c: c, cfg: g.cfg, now: t0, shape: "e2e-groups" + g.path, t: t, exec: srv.jwtExec, kp: "C18/e2e/jwt", path: g.path}
	}
	names := sortedKeys(secrets)
	type job struct {
		g    *jwtGroup
		name string
	}
	var jobs []job
	for round := 0; round < 2; round++ {
		for _, g := range jgs {
			for _, n := range names {
				jobs = append(jobs, job{g, n})
			}
		}
	}
	beforeJ := t["jwt_requests"]
	for _, ji := range r.Perm(len(jobs)) {
		j := jobs[ji]
		sec := secrets[j.name]
		kind := "secret-configured-nowhere"
		if sec == j.g.cfg.Secret || sec == j.g.cfg.Prev {
			kind = "secret-configured"
		} else if j.name != "nowhere" {
			kind = "secret-of-another-group"
			t["e2e_groups_tokens_under_a_secret_not_configured_for_that_group"]++
		}
		alg := kit.Choose(r, []string{"HS256", "HS384", "HS512"})
		tok := signTok(hdrJSON(alg, "JWT"), mustJSON(genClaims(r, t0, true)), alg, []byte(sec))
		j.g.env.now = t0
		jwtNow.Store(t0)
		j.g.env.run(jwtSpec{Kind: "groups/" + kind, Detail: alg + "/secret-" + j.name, Auth: bearer(tok), Must: kind == "secret-configured"})
	}
	// ---- time travel on every JWT route (same route = same gate instance), next group as "the other gate"
	var tls []string
	for i, g := range jgs {
		toks, steps := genTimeTravel(r, g.cfg, t0)
		if g.path == "/jt" {
			other := jgs[(i+2)%len(jgs)] // /jb: shares no secret with the transition group
			runTimeTravel(g.env, other.env, toks, steps, nil, "e2e_")
		} else {
			runTimeTravel(g.env, jgs[1-i].env, toks, steps, nil, "e2e_")
		}
		tls = append(tls, fmt.Sprintf("%s: %d tokens, %d presentations", g.path, len(toks), len(steps)))
	}
	t["e2e_groups_jwt_requests"] += t["jwt_requests"] - beforeJ
	// ---- signature groups once more: unusual timestamps, judged by the tolerance of the route they are sent to
	before = t["cs_requests"]
	runGroupTimeProbes(r, gs, "groups", t, kit.N(10, 60))
	t["e2e_groups_cs_requests"] += t["cs_requests"] - before
	t["e2e_groups_servers"]++
	c.Sig(true, "e2e-groups", layout(gs), jwtFirst)
	if c.Index < 2 {
		c.Sample("e2e-groups", 1, map[string]any{"server": "rest.Server on 127.0.0.1 (all middlewares off except Recover)",
			"signature_groups": describe(gs), "jwt_groups": "/ja WithJwt(A), /jb WithJwt(B), /jt WithJwtTransition(C, previous = A)",
			"jwt_groups_bound_first": jwtFirst, "time_travel": tls})
	}
}
