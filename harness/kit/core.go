// Package kit is the shared monitor toolkit of the verification harness.
//
// It is stdlib-only (plus go-zero's own core/timex in clock.go) so that the very
// same files can be mapped with `go test -overlay` into
// github.com/zeromicro/go-zero/internal/verifkit and used by in-package
// (white-box) tests that live under /verif/whitebox.
//
// Child -> driver protocol: JSON lines appended to $VERIF_OUT (see DESIGN.md 1.1).
package kit

import (
	"bufio"
	"encoding/json"
	"fmt"
	"hash/fnv"
	"os"
	"runtime/debug"
	"sort"
	"strconv"
	"strings"
	"sync"
	"testing"
)

// ---------------------------------------------------------------- environment

// Env is the run configuration handed over by the driver.
type Env struct {
	Seed   uint64
	Tier   string // quick | thorough
	Shard  int
	Shards int
	Only   string // "<family>/<index>": run only that case (replay)
	Scale  float64
}

var (
	envOnce sync.Once
	env     Env
)

// GetEnv parses VERIF_* variables once.
func GetEnv() Env {
	envOnce.Do(func() {
		env = Env{Seed: 1, Tier: "quick", Shards: 1, Scale: 1}
		if v, err := strconv.ParseUint(os.Getenv("VERIF_SEED"), 10, 64); err == nil {
			env.Seed = v
		}
		if v := os.Getenv("VERIF_TIER"); v == "thorough" {
			env.Tier = v
		}
		if v, err := strconv.Atoi(os.Getenv("VERIF_SHARD")); err == nil {
			env.Shard = v
		}
		if v, err := strconv.Atoi(os.Getenv("VERIF_SHARDS")); err == nil && v > 0 {
			env.Shards = v
		}
		if v, err := strconv.ParseFloat(os.Getenv("VERIF_SCALE"), 64); err == nil && v > 0 {
			env.Scale = v
		}
		env.Only = os.Getenv("VERIF_ONLY")
	})
	return env
}

// Thorough reports whether the thorough tier was requested.
func Thorough() bool { return GetEnv().Tier == "thorough" }

// N picks a case count by tier (scaled by VERIF_SCALE, minimum 1).
func N(quick, thorough int) int {
	n := quick
	if Thorough() {
		n = thorough
	}
	n = int(float64(n) * GetEnv().Scale)
	if n < 1 {
		n = 1
	}
	return n
}

// ---------------------------------------------------------------- emitter

type emitter struct {
	mu      sync.Mutex
	f       *os.File
	w       *bufio.Writer
	obs     map[string]int64
	sigs    map[string]bool
	samples map[string]int
	cases   int64
}

var out = newEmitter()

func newEmitter() *emitter {
	e := &emitter{obs: map[string]int64{}, sigs: map[string]bool{}, samples: map[string]int{}}
	path := os.Getenv("VERIF_OUT")
	if path == "" {
		return e
	}
	f, err := os.OpenFile(path, os.O_CREATE|os.O_WRONLY|os.O_APPEND, 0o644)
	if err != nil {
		fmt.Fprintln(os.Stderr, "verif kit: cannot open VERIF_OUT:", err)
		os.Exit(3)
	}
	e.f = f
	e.w = bufio.NewWriter(f)
	return e
}

func (e *emitter) line(v map[string]any, flush bool) {
	b, err := json.Marshal(v)
	if err != nil {
		b, _ = json.Marshal(map[string]any{"t": "harness-error", "what": "marshal: " + err.Error()})
	}
	e.mu.Lock()
	defer e.mu.Unlock()
	if e.w == nil {
		if v["t"] == "viol" || v["t"] == "inconclusive" {
			fmt.Fprintln(os.Stderr, string(b))
		}
		return
	}
	e.w.Write(b)
	e.w.WriteByte('\n')
	if flush {
		e.w.Flush()
	}
}

// ---------------------------------------------------------------- cases

// Case is one generated case (or one batch of cheap evaluations).
type Case struct {
	ID     string
	Family string
	Index  int
	Seed   uint64
	R      *Rand
	viols  int
	evals  int64
}

// Run executes fn for every index in [0,n) of the named family that belongs to
// this shard. The case line is written (and flushed) before fn runs, so that a
// fatal crash is attributable to its input. A panic escaping fn is a harness
// error unless the property package recovers it itself.
func Run(t testing.TB, prop, family string, n int, fn func(c *Case)) {
	e := GetEnv()
	if fams := os.Getenv("VERIF_FAMILIES"); fams != "" && e.Only == "" {
		// amplified children run only the (concurrent) families named by the driver
		found := false
		for _, f := range strings.Split(fams, ",") {
			if f == family {
				found = true
			}
		}
		if !found {
			return
		}
	}
	base := NewRand(e.Seed).Split(prop + "/" + family)
	for i := 0; i < n; i++ {
		if e.Only != "" {
			if e.Only != family+"/"+strconv.Itoa(i) {
				continue
			}
		} else if i%e.Shards != e.Shard {
			continue
		}
		seed := base.At(uint64(i))
		c := &Case{ID: prop + "/" + family + "/" + strconv.Itoa(i), Family: family, Index: i, Seed: seed, R: NewRand(seed)}
		out.line(map[string]any{"t": "case", "id": c.ID, "family": family, "index": i, "seed": seed}, true)
		func() {
			defer func() {
				if r := recover(); r != nil {
					stack := string(debug.Stack())
					if fn := panicOriginInGoZero(stack); fn != "" {
						// the panic was raised inside go-zero code (not in the harness, not a user
						// function of the harness re-raised on purpose - property packages recover
						// those themselves): on the unchanged tree no case does that, so it is the
						// code under test misbehaving, not an infrastructure failure.
						c.Viol(prop+"/panic-in-go-zero/"+fn, "go-zero panicked during this case: "+firstLine(fmt.Sprint(r)),
							map[string]any{"panic": fmt.Sprint(r), "stack": stack})
						return
					}
					out.line(map[string]any{"t": "harness-error", "id": c.ID, "what": fmt.Sprint(r), "stack": stack}, true)
					t.Errorf("case %s: unexpected panic in harness: %v", c.ID, r)
				}
			}()
			armStuck(prop, c)
			defer disarmStuck()
			fn(c)
		}()
		ev := c.evals
		if ev == 0 {
			ev = 1
		}
		out.mu.Lock()
		out.cases += ev
		out.mu.Unlock()
		out.line(map[string]any{"t": "done", "id": c.ID, "n": ev}, false)
	}
}

// panicOriginInGoZero inspects the stack captured in a deferred recover: the frames
// after the runtime's panic frames are those of the panicking goroutine at the point of
// the panic. It returns the innermost such function if it belongs to go-zero proper
// (not the overlaid verifkit, not a test file), else "".
func panicOriginInGoZero(stack string) string {
	lines := strings.Split(stack, "\n")
	seenPanic := false
	for i := 0; i+1 < len(lines); i++ {
		ln := lines[i]
		if strings.HasPrefix(ln, "panic(") || strings.HasPrefix(ln, "runtime.gopanic") {
			seenPanic = true
			i++ // skip its file line
			continue
		}
		if !seenPanic || strings.HasPrefix(ln, "\t") || strings.HasPrefix(ln, "goroutine ") || ln == "" {
			continue
		}
		if strings.HasPrefix(ln, "runtime.") || strings.HasPrefix(ln, "runtime/") || strings.HasPrefix(ln, "reflect.") ||
			strings.HasPrefix(ln, "sync.") || strings.HasPrefix(ln, "sync/") || strings.HasPrefix(ln, "internal/") {
			i++
			continue
		}
		file := strings.TrimSpace(lines[i+1])
		const mod = "github.com/zeromicro/go-zero/"
		if strings.HasPrefix(ln, mod) && !strings.Contains(ln, "verifkit") && !strings.Contains(file, "_test.go") &&
			!strings.Contains(file, "/verif/") {
			fn := strings.TrimPrefix(ln, mod)
			if j := strings.LastIndex(fn, "("); j > 0 {
				fn = fn[:j]
			}
			return fn
		}
		return ""
	}
	return ""
}

func firstLine(s string) string {
	if i := strings.IndexByte(s, '\n'); i >= 0 {
		s = s[:i]
	}
	if len(s) > 200 {
		s = s[:200]
	}
	return s
}

// Evals declares that this case stands for n evaluations (default 1).
func (c *Case) Evals(n int64) { c.evals += n }

// Obs adds n to an observation counter (aggregated per process, flushed by End).
func (c *Case) Obs(k string, n int64) { Obs(k, n) }

// Obs adds n to a process-wide observation counter.
func Obs(k string, n int64) {
	out.mu.Lock()
	out.obs[k] += n
	out.mu.Unlock()
}

// Sig records a state/interleaving signature; each distinct signature is
// reported once per process. nontrivial follows the per-property rule.
func (c *Case) Sig(nontrivial bool, parts ...any) {
	h := fnv.New64a()
	for _, p := range parts {
		fmt.Fprint(h, p)
		h.Write([]byte{0})
	}
	s := strconv.FormatUint(h.Sum64(), 16)
	if nontrivial {
		s = "N" + s
	} else {
		s = "T" + s
	}
	out.mu.Lock()
	seen := out.sigs[s]
	if !seen {
		out.sigs[s] = true
	}
	out.mu.Unlock()
	if !seen {
		out.line(map[string]any{"t": "sig", "sig": s, "nontrivial": nontrivial}, false)
	}
}

// Sample writes a verbatim case description for the evidence file (at most
// `max` per class and process are kept).
func (c *Case) Sample(class string, max int, v any) {
	out.mu.Lock()
	k := out.samples[class]
	if k < max {
		out.samples[class] = k + 1
	}
	out.mu.Unlock()
	if k < max {
		out.line(map[string]any{"t": "sample", "id": c.ID, "class": class, "v": v}, false)
	}
}

// Viol reports a violation. key is the signature key matched against
// known_findings.json: it must be derived from the witness and specific to the
// failing input class, yet stable across seeds.
func (c *Case) Viol(key, what string, witness any) {
	c.viols++
	if c.viols > 20 { // one case does not need to flood the log
		return
	}
	out.line(map[string]any{"t": "viol", "id": c.ID, "family": c.Family, "index": c.Index, "seed": c.Seed,
		"key": key, "what": what, "witness": witness}, true)
}

// Violated reports whether this case has reported a violation.
func (c *Case) Violated() bool { return c.viols > 0 }

// Inconclusive reports that part of this case could not be decided.
func (c *Case) Inconclusive(why string) {
	out.line(map[string]any{"t": "inconclusive", "id": c.ID, "why": why}, true)
}

// End flushes counters and writes the terminating line of a healthy child.
func End() {
	out.mu.Lock()
	obs := make(map[string]int64, len(out.obs))
	for k, v := range out.obs {
		obs[k] = v
	}
	cases := out.cases
	out.mu.Unlock()
	keys := make([]string, 0, len(obs))
	for k := range obs {
		keys = append(keys, k)
	}
	sort.Strings(keys)
	for _, k := range keys {
		out.line(map[string]any{"t": "obs", "k": k, "n": obs[k]}, false)
	}
	out.line(map[string]any{"t": "end", "cases": cases}, true)
}

// ---------------------------------------------------------------- PRNG

// Rand is a small splittable PRNG (splitmix64); not safe for concurrent use.
type Rand struct{ s uint64 }

// NewRand returns a generator seeded with seed.
func NewRand(seed uint64) *Rand { return &Rand{s: seed*0x9E3779B97F4A7C15 + 0x632BE59BD9B4E019} }

func mix(z uint64) uint64 {
	z = (z ^ (z >> 30)) * 0xBF58476D1CE4E5B9
	z = (z ^ (z >> 27)) * 0x94D049BB133111EB
	return z ^ (z >> 31)
}

// Uint64 returns the next value.
func (r *Rand) Uint64() uint64 {
	r.s += 0x9E3779B97F4A7C15
	return mix(r.s)
}

// Split derives an independent generator from a label without advancing r.
func (r *Rand) Split(label string) *Rand {
	h := fnv.New64a()
	h.Write([]byte(label))
	return &Rand{s: mix(r.s ^ h.Sum64())}
}

// At derives a seed for index i without advancing r.
func (r *Rand) At(i uint64) uint64 { return mix(r.s + (i+1)*0xD6E8FEB86659FD93) }

// Intn returns a value in [0,n).
func (r *Rand) Intn(n int) int {
	if n <= 0 {
		return 0
	}
	return int(r.Uint64() % uint64(n))
}

// Int63n returns a value in [0,n).
func (r *Rand) Int63n(n int64) int64 {
	if n <= 0 {
		return 0
	}
	return int64(r.Uint64() % uint64(n))
}

// Range returns a value in [lo,hi].
func (r *Rand) Range(lo, hi int) int { return lo + r.Intn(hi-lo+1) }

// Float64 returns a value in [0,1).
func (r *Rand) Float64() float64 { return float64(r.Uint64()>>11) / (1 << 53) }

// Bool returns true with probability 1/2.
func (r *Rand) Bool() bool { return r.Uint64()&1 == 1 }

// Chance returns true with probability p.
func (r *Rand) Chance(p float64) bool { return r.Float64() < p }

// Pick returns a random element index weighted by w.
func (r *Rand) Pick(w ...int) int {
	t := 0
	for _, x := range w {
		t += x
	}
	k := r.Intn(t)
	for i, x := range w {
		if k < x {
			return i
		}
		k -= x
	}
	return len(w) - 1
}

// Perm returns a random permutation of [0,n).
func (r *Rand) Perm(n int) []int {
	p := make([]int, n)
	for i := range p {
		p[i] = i
	}
	for i := n - 1; i > 0; i-- {
		j := r.Intn(i + 1)
		p[i], p[j] = p[j], p[i]
	}
	return p
}

// Choose returns a random element of xs.
func Choose[T any](r *Rand, xs []T) T { return xs[r.Intn(len(xs))] }

// ---------------------------------------------------------------- helpers

// KeyPart makes a string safe for use inside a violation key.
func KeyPart(s string) string {
	s = strings.Map(func(r rune) rune {
		if r == ' ' || r == '\n' || r == '\t' {
			return '_'
		}
		return r
	}, s)
	if len(s) > 80 {
		s = s[:80]
	}
	return s
}
