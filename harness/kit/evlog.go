package kit

import (
	"fmt"
	"hash/fnv"
	"sort"
	"sync"
	"sync/atomic"
)

// stamp is the process-wide logical clock: if Stamp() a was taken after the
// return of X and Stamp() b before the invocation of Y and a < b, then X really
// returned before Y was invoked. That is the only inference drawn from stamps.
var stamp atomic.Uint64

// Stamp returns the next logical time stamp.
func Stamp() uint64 { return stamp.Add(1) }

// Event is one recorded event.
type Event struct {
	S   uint64 `json:"s"`
	G   int    `json:"g"`
	Op  string `json:"op"`
	Key string `json:"key,omitempty"`
	Arg any    `json:"arg,omitempty"`
	Res any    `json:"res,omitempty"`
}

// EvLog collects events from many goroutines; each actor appends to its own
// slice (no lock shared between the observed operations).
type EvLog struct {
	mu     sync.Mutex
	actors []*Actor
}

// Actor is the per-goroutine recorder.
type Actor struct {
	G  int
	ev []Event
}

// NewActor registers a new actor; call before starting its goroutine or from it.
func (l *EvLog) NewActor() *Actor {
	l.mu.Lock()
	defer l.mu.Unlock()
	a := &Actor{G: len(l.actors), ev: make([]Event, 0, 64)}
	l.actors = append(l.actors, a)
	return a
}

// Rec records an event stamped now and returns the stamp.
func (a *Actor) Rec(op, key string, arg, res any) uint64 {
	s := Stamp()
	a.ev = append(a.ev, Event{S: s, G: a.G, Op: op, Key: key, Arg: arg, Res: res})
	return s
}

// Merge returns all events ordered by stamp. Call only after all actors stopped.
func (l *EvLog) Merge() []Event {
	l.mu.Lock()
	defer l.mu.Unlock()
	var all []Event
	for _, a := range l.actors {
		all = append(all, a.ev...)
	}
	sort.Slice(all, func(i, j int) bool { return all[i].S < all[j].S })
	return all
}

// InterleavingSig hashes the merged sequence of (role(actor), op) pairs.
func InterleavingSig(evs []Event, role func(Event) string) string {
	h := fnv.New64a()
	for _, e := range evs {
		fmt.Fprintf(h, "%s:%s;", role(e), e.Op)
	}
	return fmt.Sprintf("%x", h.Sum64())
}
