package kit

import (
	"bytes"
	"context"
	"regexp"
	"runtime"
	"runtime/pprof"
	"strings"
	"time"
)

// WithLabel runs fn with the goroutine label verif_case=<id>; goroutines spawned
// (transitively) by fn inherit the label, which is how goroutines are attributed
// to a case.
func WithLabel(id string, fn func()) {
	pprof.Do(context.Background(), pprof.Labels("verif_case", id), func(context.Context) { fn() })
}

// Goroutine is one entry of a labelled goroutine dump.
type Goroutine struct {
	Count int
	Stack string
}

var goroutineHdr = regexp.MustCompile(`(?m)^(\d+) @ `)

// LabelledGoroutines returns the goroutines (grouped by identical stack) that
// carry the label verif_case=<id>, excluding the calling goroutine.
func LabelledGoroutines(id string) []Goroutine {
	var buf bytes.Buffer
	p := pprof.Lookup("goroutine")
	if p == nil || p.WriteTo(&buf, 1) != nil {
		return nil
	}
	want := `"verif_case":"` + id + `"`
	var res []Goroutine
	for _, blk := range strings.Split(buf.String(), "\n\n") {
		if !strings.Contains(blk, want) {
			continue
		}
		if strings.Contains(blk, "kit.LabelledGoroutines") || strings.Contains(blk, "verifkit.LabelledGoroutines") {
			continue
		}
		n := 1
		if m := goroutineHdr.FindStringSubmatch(blk); m != nil {
			n = 0
			for _, ch := range m[1] {
				n = n*10 + int(ch-'0')
			}
		}
		// keep only the symbolic lines (they start with '#'), drop addresses
		var sb strings.Builder
		for _, ln := range strings.Split(blk, "\n") {
			if strings.HasPrefix(ln, "#") {
				f := strings.Fields(ln)
				if len(f) >= 3 {
					sb.WriteString(f[2])
					if len(f) >= 4 {
						sb.WriteString(" " + f[len(f)-1])
					}
					sb.WriteString("\n")
				}
			}
		}
		res = append(res, Goroutine{Count: n, Stack: sb.String()})
	}
	return res
}

// Census waits until no goroutine other than the caller carries the label, and
// otherwise decides by *stability*: if the set of labelled stacks is non-empty
// and identical in `stableDumps` consecutive dumps taken `interval` apart, the
// remaining goroutines are reported as leaked. It never decides by elapsed time
// alone: a changing set keeps it waiting up to maxWait, after which the result is
// inconclusive (leaked=nil, conclusive=false).
func Census(id string, interval time.Duration, stableDumps int, maxWait time.Duration) (leaked []Goroutine, conclusive bool) {
	deadline := time.Now().Add(maxWait)
	// fast path: give freshly finished goroutines a chance to exit
	for i := 0; i < 50; i++ {
		if len(LabelledGoroutines(id)) == 0 {
			return nil, true
		}
		runtime.Gosched()
		if i > 10 {
			time.Sleep(200 * time.Microsecond)
		}
	}
	prev := ""
	same := 0
	for time.Now().Before(deadline) {
		gs := LabelledGoroutines(id)
		if len(gs) == 0 {
			return nil, true
		}
		cur := fingerprint(gs)
		if cur == prev {
			same++
			if same >= stableDumps {
				return gs, true
			}
		} else {
			prev, same = cur, 0
		}
		time.Sleep(interval)
	}
	return nil, false
}

func fingerprint(gs []Goroutine) string {
	var parts []string
	for _, g := range gs {
		parts = append(parts, strings.Repeat("#", g.Count)+g.Stack)
	}
	// order of blocks in the profile is not stable
	for i := 1; i < len(parts); i++ {
		for j := i; j > 0 && parts[j] < parts[j-1]; j-- {
			parts[j], parts[j-1] = parts[j-1], parts[j]
		}
	}
	return strings.Join(parts, "|")
}

// TopFrames returns the first n function names of a stack produced by
// LabelledGoroutines, for use in violation keys.
func TopFrames(stack string, n int) string {
	var fs []string
	for _, ln := range strings.Split(stack, "\n") {
		f := strings.Fields(ln)
		if len(f) == 0 {
			continue
		}
		name := f[0]
		if i := strings.Index(name, "+0x"); i >= 0 {
			name = name[:i]
		}
		if strings.HasPrefix(name, "runtime.") || strings.HasPrefix(name, "sync.") {
			continue
		}
		if i := strings.LastIndex(name, "/"); i >= 0 {
			name = name[i+1:]
		}
		fs = append(fs, name)
		if len(fs) == n {
			break
		}
	}
	return strings.Join(fs, "<")
}
