package kit

// Stuck-case detector (opt-in: VERIF_STUCK_S=<seconds>, set per target in props/*.json).
//
// Several properties are decided on sequential histories: the case goroutine calls go-zero
// synchronously, and on the unchanged tree every such call returns at once. A change that
// makes go-zero block for ever (a lost Unlock, a channel nobody reads) would otherwise end in
// the child's watchdog, i.e. in a BROKEN-RUN, although the real code was observed doing
// something the property forbids. The detector turns that observation into a verdict, and
// decides it by STATE, not by elapsed time alone:
//
//   - the case has been running for at least VERIF_STUCK_S seconds, and
//   - the goroutine running the case (the one with kit.Run on its stack) is parked in a
//     blocking wait (mutex, semaphore, channel, select, Cond, WaitGroup) whose innermost
//     non-runtime frame is go-zero code proper (not the harness, not a test file), and
//   - no goroutine of the process is running or runnable, and
//   - the complete goroutine dump (ids, wait states, stacks) is identical in four
//     consecutive dumps taken two seconds apart: nothing in the process is making progress.
//
// Then the case is reported as <prop>/stuck-in-go-zero/<function> with the dump as witness,
// the counters are flushed, the `end` line is written and the child exits 0 (the remaining
// cases of this shard are not run; the driver sees a healthy child with a violation).
// A harness that deliberately holds a go-zero call open from another goroutine changes the
// dump when it releases it; a case that legitimately needs longer keeps at least one
// goroutine runnable. If the condition is not met nothing is reported and the child's own
// watchdog (inconclusive / broken run) stays in charge.

import (
	"os"
	"runtime"
	"strconv"
	"strings"
	"sync"
	"sync/atomic"
	"time"
)

type stuckCase struct {
	c     *Case
	prop  string
	start time.Time
}

var (
	stuckOnce  sync.Once
	stuckAfter time.Duration
	stuckCur   atomic.Pointer[stuckCase]
)

func armStuck(prop string, c *Case) {
	stuckOnce.Do(func() {
		if v, err := strconv.Atoi(os.Getenv("VERIF_STUCK_S")); err == nil && v > 0 {
			stuckAfter = time.Duration(v) * time.Second
			go stuckWatch()
		}
	})
	if stuckAfter > 0 {
		stuckCur.Store(&stuckCase{c: c, prop: prop, start: time.Now()})
	}
}

func disarmStuck() {
	if stuckAfter > 0 {
		stuckCur.Store(nil)
	}
}

func stuckWatch() {
	var prevSig string
	var prevCase *stuckCase
	same := 0
	for {
		time.Sleep(2 * time.Second)
		sc := stuckCur.Load()
		if sc == nil || time.Since(sc.start) < stuckAfter {
			prevSig, prevCase, same = "", nil, 0
			continue
		}
		buf := make([]byte, 1<<20)
		for {
			n := runtime.Stack(buf, true)
			if n < len(buf) {
				buf = buf[:n]
				break
			}
			buf = make([]byte, 2*len(buf))
		}
		sig, fn := analyseDump(string(buf))
		if fn == "" {
			prevSig, prevCase, same = "", nil, 0
			continue
		}
		if sc == prevCase && sig == prevSig {
			same++
		} else {
			prevSig, prevCase, same = sig, sc, 1
		}
		if same < 4 {
			continue
		}
		if stuckCur.Load() != sc {
			continue
		}
		dump := string(buf)
		if len(dump) > 60000 {
			dump = dump[:60000]
		}
		sc.c.Viol(sc.prop+"/stuck-in-go-zero/"+fn,
			"a go-zero call made by this case never returned: the case goroutine is parked inside "+fn+
				" and no goroutine of the process made progress in four consecutive dumps",
			map[string]any{"blocked_in": fn, "running_for": time.Since(sc.start).String(), "goroutine_dump": dump})
		End()
		out.mu.Lock()
		if out.w != nil {
			out.w.Flush()
		}
		out.mu.Unlock()
		os.Exit(0)
	}
}

var parkedStates = []string{"sync.Mutex.Lock", "sync.RWMutex.RLock", "sync.RWMutex.Lock", "semacquire", "chan receive",
	"chan send", "select", "sync.Cond.Wait", "sync.WaitGroup.Wait"}

// analyseDump returns a signature of the whole dump and, if the case goroutine is parked with
// go-zero code innermost and nothing is running or runnable, the go-zero function it is parked in.
func analyseDump(dump string) (sig, fn string) {
	const mod = "github.com/zeromicro/go-zero/"
	var sb strings.Builder
	caseFn := ""
	for _, blk := range strings.Split(dump, "\n\n") {
		lines := strings.Split(strings.TrimSpace(blk), "\n")
		if len(lines) == 0 || !strings.HasPrefix(lines[0], "goroutine ") {
			continue
		}
		hdr := lines[0]
		state := ""
		if i, j := strings.Index(hdr, "["), strings.LastIndex(hdr, "]"); i >= 0 && j > i {
			state = hdr[i+1 : j]
			if k := strings.Index(state, ","); k >= 0 {
				state = state[:k]
			}
		}
		isWatch := strings.Contains(blk, "kit.stuckWatch") || strings.Contains(blk, "verifkit.stuckWatch")
		if isWatch {
			continue
		}
		if state == "running" || state == "runnable" {
			return "", ""
		}
		sb.WriteString(hdr[:strings.Index(hdr+" ", " [")+1])
		sb.WriteString(state)
		sb.WriteByte('\n')
		isCase := false
		inner := ""
		innerFile := ""
		for i := 1; i < len(lines); i++ {
			ln := lines[i]
			if strings.HasPrefix(ln, "\t") || strings.HasPrefix(ln, "created by ") {
				continue
			}
			name := ln
			if k := strings.LastIndex(name, "("); k > 0 {
				name = name[:k]
			}
			sb.WriteString(name)
			sb.WriteByte('\n')
			if strings.HasSuffix(name, "kit.Run") || strings.HasSuffix(name, "verifkit.Run") ||
				strings.Contains(name, "kit.Run.func") || strings.Contains(name, "verifkit.Run.func") {
				isCase = true
			}
			if inner == "" && !strings.HasPrefix(name, "runtime.") && !strings.HasPrefix(name, "runtime/") &&
				!strings.HasPrefix(name, "sync.") && !strings.HasPrefix(name, "sync/") && !strings.HasPrefix(name, "internal/") {
				inner = name
				if i+1 < len(lines) {
					innerFile = strings.TrimSpace(lines[i+1])
				}
			}
		}
		if !isCase {
			continue
		}
		parked := false
		for _, p := range parkedStates {
			if strings.HasPrefix(state, p) {
				parked = true
			}
		}
		if parked && strings.HasPrefix(inner, mod) && !strings.Contains(inner, "verifkit") &&
			!strings.Contains(innerFile, "_test.go") && !strings.Contains(innerFile, "/verif/") {
			caseFn = strings.TrimPrefix(inner, mod)
		}
	}
	if caseFn == "" {
		return "", ""
	}
	return sb.String(), caseFn
}
