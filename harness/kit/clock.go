package kit

import (
	"sync/atomic"
	"time"

	"github.com/zeromicro/go-zero/core/timex"
)

// VClock is a virtual clock installed behind timex.Now/Since through the
// verif-tag hook. Reading it is one atomic load, so it adds no synchronisation
// to the code under test. It starts at +400 days so that "0 means never"
// fields in go-zero behave as in production.
type VClock struct{ now atomic.Int64 }

// VClockStart is the initial virtual time.
const VClockStart = 400 * 24 * time.Hour

// InstallVClock installs a fresh virtual clock process-wide.
func InstallVClock() *VClock {
	c := &VClock{}
	c.now.Store(int64(VClockStart))
	timex.VerifSetClock(c.Now)
	return c
}

// UninstallVClock restores the wall clock.
func UninstallVClock() { timex.VerifSetClock(nil) }

// Now returns the virtual time.
func (c *VClock) Now() time.Duration { return time.Duration(c.now.Load()) }

// Advance moves the clock forward by d and returns the new time.
func (c *VClock) Advance(d time.Duration) time.Duration {
	return time.Duration(c.now.Add(int64(d)))
}

// Set sets the absolute virtual time.
func (c *VClock) Set(d time.Duration) { c.now.Store(int64(d)) }
