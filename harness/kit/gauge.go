package kit

import "sync/atomic"

// Gauge counts holders inside a guarded region. Enter returns the number of
// holders including the caller, so that a cap can be checked at the increment.
type Gauge struct {
	cur atomic.Int64
	max atomic.Int64
}

// Enter increments the gauge and returns the new value.
func (g *Gauge) Enter() int64 {
	v := g.cur.Add(1)
	for {
		m := g.max.Load()
		if v <= m || g.max.CompareAndSwap(m, v) {
			break
		}
	}
	return v
}

// Exit decrements the gauge.
func (g *Gauge) Exit() int64 { return g.cur.Add(-1) }

// Cur returns the current value.
func (g *Gauge) Cur() int64 { return g.cur.Load() }

// Max returns the running maximum.
func (g *Gauge) Max() int64 { return g.max.Load() }
