package c09

// server-options: the route table reaches the router through rest.Server with
// everything an application puts around it - MustNewServer / NewServer, WithRouter,
// WithNotFoundHandler / WithNotAllowedHandler, AddRoutes / AddRoute, WithPrefix,
// WithMiddlewares / WithMiddleware / Use / ToMiddleware, WithJwt (requests carry a
// valid token), WithJwtTransition, WithTimeout, WithMaxBytes, WithPriority,
// WithSignature (no keys, not strict), WithSSE, the native middlewares of RestConf,
// WithChain - and the dispatch / variables / 404 / 405 clauses must hold unchanged
// for the union table. The server gets a port occupied by the harness and the
// router passed with WithRouter: Start binds every route into that router and ends
// with the listen error, after which the router is driven in process with requests
// parsed by net/http (httptest.NewRequest: escaped targets, query strings).
//
// e2e-escaped: the same over loopback HTTP with the server's own router, groups
// under prefixes, custom 404/405 handlers installed through the server options, a
// context-decorating middleware, and request targets whose segments are escaped
// (%2F, %20, %2e%2e, +, UTF-8 ...): the reference runs on the decoded path the
// server-side handler reports in r.URL.Path (the client's decoding when no echo
// handler ran).

import (
	"fmt"
	"io"
	"net/http"
	"net/http/httptest"
	"net/url"
	"os"
	"path"
	"strings"
	"testing/fstest"
	"time"

	"github.com/zeromicro/go-zero/core/logx"
	"github.com/zeromicro/go-zero/rest"
	"github.com/zeromicro/go-zero/rest/chain"
	"github.com/zeromicro/go-zero/rest/router"

	"verifharness/kit"
)

const jwtSecret = "verif-c09-secret-0123456789"
const jwtPrevSecret = "verif-c09-previous-secret"

// raw (already escaped) segments that fill variables in request targets
var rawSegs = []string{"7", "me", "latest", "a%2Fb", "a%20b", "%41", "x%3Ay", "caf%C3%A9", "a+b", "%2e%2e", "%2E", "a%25b", "%3Aid", "a;b", "a=b&c", "~", "%2F", "a%2F", "42", "ping"}

// rawTargetFor builds a request target (escaped path [+ query]) from the union table.
func rawTargetFor(r *kit.Rand, table []route, methods []string) (string, string) {
	var segs []string
	meth := kit.Choose(r, methods)
	if len(table) > 0 && r.Chance(0.8) {
		src := kit.Choose(r, table)
		if r.Chance(0.45) {
			for _, x := range methods {
				if x == src.Method {
					meth = x
				}
			}
		}
		for _, s := range src.Segs {
			switch {
			case strings.HasPrefix(s, ":"):
				segs = append(segs, kit.Choose(r, rawSegs))
			default:
				segs = append(segs, s)
			}
		}
		switch r.Pick(60, 8, 8, 8, 8, 8) {
		case 1:
			segs[r.Intn(len(segs))] = kit.Choose(r, rawSegs)
		case 2:
			segs = append(segs, kit.Choose(r, rawSegs))
		case 3:
			if len(segs) > 1 {
				segs = segs[:len(segs)-1]
			}
		case 4:
			segs = append(segs, "..", kit.Choose(r, rawSegs))
		case 5:
			segs = append([]string{"."}, segs...)
		}
	} else {
		for i, d := 0, r.Range(0, 4); i < d; i++ {
			segs = append(segs, kit.Choose(r, append([]string{"v1", "api", "users", "x"}, rawSegs...)))
		}
	}
	p := "/" + strings.Join(segs, "/")
	if r.Chance(0.1) {
		p += "/"
	}
	if r.Chance(0.05) {
		p = strings.Replace(p, "/", "//", 1)
	}
	if r.Chance(0.15) {
		p += kit.Choose(r, []string{"?x=/users/1", "?", "?a=b&c=%2F", "?p0=zz"})
	}
	return p, meth
}

// serverOpts: run options for the families below.
func decorate(r *kit.Rand, groups []sGroup) {
	for i := range groups {
		g := &groups[i]
		switch r.Pick(50, 25, 25) {
		case 1:
			g.Jwt = true
		case 2:
			g.JwtTransition = true
		}
		g.Timeout, g.MaxBytes, g.Priority = r.Chance(0.3), r.Chance(0.3), r.Chance(0.3)
		g.Signature, g.SSE = r.Chance(0.25), r.Chance(0.15)
		g.RouteMWs = r.Pick(50, 25, 25)
	}
}

func declareDecorated(srv *rest.Server, groups []sGroup) {
	for i := range groups {
		g := &groups[i]
		var opts []rest.RouteOption
		// WithPrefix is applied to the routes present when the option runs: it comes first, as in generated code
		if g.UsePrefix {
			opts = append(opts, rest.WithPrefix(g.Prefix))
		}
		if g.Jwt {
			opts = append(opts, rest.WithJwt(jwtSecret))
		}
		if g.JwtTransition {
			opts = append(opts, rest.WithJwtTransition(jwtSecret, jwtPrevSecret))
		}
		if g.Timeout {
			opts = append(opts, rest.WithTimeout(2*time.Hour))
		}
		if g.MaxBytes {
			opts = append(opts, rest.WithMaxBytes(1<<20))
		}
		if g.Priority {
			opts = append(opts, rest.WithPriority())
		}
		if g.Signature {
			opts = append(opts, rest.WithSignature(rest.SignatureConf{}))
		}
		if g.SSE {
			opts = append(opts, rest.WithSSE())
		}
		rs := make([]rest.Route, len(g.Routes))
		for j, rt := range g.Routes {
			rs[j] = rest.Route{Method: rt.Method, Path: rt.Rel, Handler: echoHandler("route", rt.Gid, 200)}
		}
		switch g.RouteMWs {
		case 1:
			rs = rest.WithMiddleware(markMW(fmt.Sprintf("r%d", i)), rs...)
		case 2:
			rs = rest.WithMiddlewares([]rest.Middleware{markMW(fmt.Sprintf("r%da", i)), markMW(fmt.Sprintf("r%db", i))}, rs...)
		}
		if g.Via == "AddRoute" {
			srv.AddRoute(rs[0], opts...)
			continue
		}
		srv.AddRoutes(rs, opts...)
	}
}

func serverOptions(c *kit.Case) {
	r := c.R
	logx.Disable()
	nextGid := 0
	groups, m := genLegalGroups(r, r.Range(1, 4), 0.65, &nextGid)
	decorate(r, groups)
	for gi := len(groups) - 1; gi >= 0; gi-- {
		if r.Chance(0.15) {
			groups = splitSingles(groups, gi)
		}
	}
	l, port, err := holdPort()
	if err != nil {
		c.Inconclusive("cannot occupy a loopback port: " + err.Error())
		return
	}
	defer l.Close()
	conf := baseConf("verifc09o", port)
	var natives []string
	nat := func(name string, p *bool) {
		if r.Chance(0.4) {
			*p = true
			natives = append(natives, name)
		}
	}
	if r.Chance(0.6) {
		mw := &conf.Middlewares
		nat("Trace", &mw.Trace)
		nat("Log", &mw.Log)
		nat("Prometheus", &mw.Prometheus)
		nat("MaxConns", &mw.MaxConns)
		nat("Breaker", &mw.Breaker)
		nat("Shedding", &mw.Shedding)
		nat("Timeout", &mw.Timeout)
		nat("Recover", &mw.Recover)
		nat("Metrics", &mw.Metrics)
		nat("MaxBytes", &mw.MaxBytes)
		nat("Gunzip", &mw.Gunzip)
		conf.MaxConns = 10000
		conf.MaxBytes = 1 << 20
		conf.Timeout = 3600 * 1000 // ms: the timeout middleware must never decide anything here
		if mw.Log && r.Chance(0.3) {
			conf.Verbose = true
			natives = append(natives, "Verbose")
		}
	}
	if r.Chance(0.1) {
		conf.Name = "" // metrics are then named after host:port
	}
	rt := router.NewRouter()
	nfInst, naInst := r.Chance(0.6), r.Chance(0.6)
	opts := []rest.RunOption{rest.WithRouter(rt)}
	if nfInst {
		opts = append(opts, rest.WithNotFoundHandler(echoHandler("notfound", -1, 404)))
	}
	if naInst {
		opts = append(opts, rest.WithNotAllowedHandler(echoHandler("notallowed", -2, 405)))
	}
	var srvOpts []string
	if r.Chance(0.2) {
		opts = append(opts, rest.WithUnauthorizedCallback(func(w http.ResponseWriter, r *http.Request, err error) {}))
		srvOpts = append(srvOpts, "WithUnauthorizedCallback")
	}
	if r.Chance(0.2) {
		opts = append(opts, rest.WithUnsignedCallback(func(w http.ResponseWriter, r *http.Request, next http.Handler, strict bool, code int) {
			next.ServeHTTP(w, r)
		}))
		srvOpts = append(srvOpts, "WithUnsignedCallback")
	}
	if r.Chance(0.15) {
		opts = append(opts, rest.WithChain(chain.New()))
		srvOpts = append(srvOpts, "WithChain(empty)")
	}
	if r.Chance(0.1) {
		opts = append(opts, rest.WithTLSConfig(nil))
		srvOpts = append(srvOpts, "WithTLSConfig(nil)")
	}
	var srv *rest.Server
	if r.Bool() {
		srv = rest.MustNewServer(conf, opts...)
	} else if srv, err = rest.NewServer(conf, opts...); err != nil {
		c.Inconclusive("rest.NewServer: " + err.Error())
		return
	}
	logx.Disable()
	globals := r.Pick(40, 30, 30)
	if globals >= 1 {
		srv.Use(markMW("g1"))
	}
	if globals == 2 {
		srv.Use(rest.ToMiddleware(func(next http.Handler) http.Handler {
			return http.HandlerFunc(func(w http.ResponseWriter, r *http.Request) { next.ServeHTTP(w, withTrail(r, "g2")) })
		}))
	}
	declareDecorated(srv, groups)
	regs := describeGroups(groups)
	wit := map[string]any{"declarations": regs, "native_middlewares": natives, "server_options": srvOpts, "global_middlewares": globals}

	// Routes() / PrintRoutes(): the statement is silent, nothing may panic; what Routes() lists is counted
	func() {
		defer func() {
			if p := recover(); p != nil {
				c.Viol("C09/srvopt/panic/routes-listing", fmt.Sprintf("Routes()/PrintRoutes() panicked: %v", p), wit)
			}
		}()
		listed := map[string]bool{}
		for _, x := range srv.Routes() {
			listed[x.Method+" "+x.Path] = true
		}
		all := true
		for _, x := range m.table {
			if !listed[x.Method+" "+x.Pattern] {
				all = false
			}
		}
		if all && len(listed) == len(m.table) {
			c.Obs("srvopt_routes_listing_equals_union_table", 1)
		} else {
			c.Obs("srvopt_routes_listing_differs_from_union_table", 1)
		}
		if c.Index%40 == 0 {
			// PrintRoutes writes to os.Stdout: keep the child's log small
			old := os.Stdout
			if f, err := os.OpenFile(os.DevNull, os.O_WRONLY, 0); err == nil {
				os.Stdout = f
				srv.PrintRoutes()
				os.Stdout = old
				f.Close()
				c.Obs("srvopt_printroutes_calls", 1)
			}
		}
	}()
	if c.Violated() {
		return
	}

	out := startOnHeldPort(srv)
	wit["start"] = out
	switch out.Kind {
	case "listen-failed":
	case "rejected":
		c.Viol("C09/srvopt/legal-table-rejected-at-start", "rest.Server.Start rejected a legal route table: "+out.Err, wit)
		c.Sig(true, "server-options-rejected", strings.Join(regs, ";"))
		return
	case "crashed":
		c.Viol("C09/srvopt/crash-at-start", "rest.Server.Start died with a runtime error: "+out.Err, wit)
		return
	default:
		c.Inconclusive("rest.Server.Start on an occupied port did not end (" + out.Kind + ")")
		return
	}

	tbl, gids := gidsOf(m.table)
	token := hs256Token(jwtSecret)
	classes := map[string]int{}
	const nreq = 80
	for q := 0; q < nreq && !c.Violated(); q++ {
		target, meth := rawTargetFor(r, tbl, sevenMethods)
		var req *http.Request
		func() {
			defer func() { recover() }() // httptest.NewRequest panics on a target net/http would not parse
			req = httptest.NewRequest(meth, target, nil)
		}()
		if req == nil {
			c.Obs("srvopt_unparsable_targets_skipped", 1)
			continue
		}
		req.Header.Set("Authorization", "Bearer "+token)
		rec := httptest.NewRecorder()
		panicked := false
		func() {
			defer func() {
				if pv := recover(); pv != nil {
					panicked = true
					c.Viol("C09/srvopt/panic/serve", fmt.Sprintf("ServeHTTP(%s %q) panicked: %v", meth, target, pv), wit)
				}
			}()
			rt.ServeHTTP(rec, req)
		}()
		if panicked {
			break
		}
		w2 := map[string]any{"target": target}
		for k, v := range wit {
			w2[k] = v
		}
		classes[judge(c, "srvopt", tbl, gids, meth, req.URL.Path, observed{Status: rec.Code, Allow: rec.Header().Get("Allow"), Body: rec.Body.Bytes()}, nfInst, naInst, w2)]++
		if req.URL.RawPath != "" {
			c.Obs("srvopt_requests_with_escaped_path", 1)
		}
	}
	c.Evals(nreq)
	c.Obs("srvopt_servers", 1)
	for _, g := range groups {
		if g.Jwt || g.JwtTransition {
			c.Obs("srvopt_groups_with_jwt", 1)
		}
		if g.UsePrefix {
			c.Obs("srvopt_groups_with_prefix", 1)
		}
		if g.RouteMWs > 0 {
			c.Obs("srvopt_groups_with_route_middlewares", 1)
		}
	}
	c.Sig(classes["405"] > 0 && classes["404"] > 0 && classes["dispatch-vars"] > 0, "server-options", nfInst, naInst, globals, strings.Join(natives, ","), strings.Join(regs, ";"))
	if c.Index < 3 {
		c.Sample("server-options", 2, map[string]any{"declarations": regs, "native_middlewares": natives, "server_options": srvOpts, "not_found_handler": nfInst, "not_allowed_handler": naInst, "request_classes": classes})
	}
}

func e2eEscaped(c *kit.Case) {
	r := c.R
	logx.Disable()
	nextGid := 0
	groups, m := genLegalGroups(r, r.Range(2, 4), 0.8, &nextGid)
	for i := range groups {
		groups[i].RouteMWs = r.Pick(60, 20, 20)
	}
	pg, nonce := probeRoute(r, &nextGid)
	m.accept("GET", pg.Routes[0].Rel, pg.Routes[0].Gid)
	groups = insertGroup(groups, r.Intn(len(groups)+1), pg)
	port := freePort()
	nfInst, naInst := r.Chance(0.7), r.Chance(0.7)
	var opts []rest.RunOption
	if nfInst {
		opts = append(opts, rest.WithNotFoundHandler(echoHandler("notfound", -1, 404)))
	}
	if naInst {
		opts = append(opts, rest.WithNotAllowedHandler(echoHandler("notallowed", -2, 405)))
	}
	// half of the servers also serve static files below a mount point under which API routes live
	// too (rest.WithFileServer): the file server only takes GET requests for files that exist - no
	// generated request names the one file there is - so every request still belongs to the router
	// and is judged by the same reference (seeded change C09-s11 strips the mount point before the
	// file-exists test and hands the router the stripped path).
	fsPrefix := ""
	var staticFS http.FileSystem
	if r.Bool() {
		cands := []string{"/static"}
		for _, x := range m.table {
			segs := strings.Split(path.Clean(x.Pattern), "/")
			if len(segs) > 2 && segs[1] != "" && !strings.HasPrefix(segs[1], ":") {
				cands = append(cands, "/"+segs[1])
			}
		}
		fsPrefix = kit.Choose(r, cands)
		if r.Chance(0.3) {
			fsPrefix += "/"
		}
		staticFS = http.FS(fstest.MapFS{"zz-verif-static-file.txt": &fstest.MapFile{Data: []byte("VERIF-STATIC")}})
		opts = append(opts, rest.WithFileServer(fsPrefix, staticFS))
	}
	srv, err := rest.NewServer(baseConf("verifc09x", port), opts...)
	if err != nil {
		c.Inconclusive("rest.NewServer: " + err.Error())
		return
	}
	logx.Disable()
	globals := r.Bool()
	if globals {
		srv.Use(markMW("g1"))
	}
	declareDecorated(srv, groups)
	regs := describeGroups(groups)
	wit := map[string]any{"declarations": regs, "global_middleware": globals, "file_server_mounted_at": fsPrefix}

	up, hs, out := startLive(srv, port, nonce, pg.Routes[0].Gid)
	if !up {
		switch out.Kind {
		case "rejected":
			c.Viol("C09/e2e-escaped/legal-table-rejected-at-start", "rest.Server.Start rejected a legal route table: "+out.Err, wit)
		case "crashed":
			c.Viol("C09/e2e-escaped/crash-at-start", "rest.Server.Start died with a runtime error: "+out.Err, wit)
		case "listen-failed":
			c.Inconclusive("rest.Server could not bind its port: " + out.Err)
		default:
			c.Inconclusive("rest.Server did not start listening (" + out.Kind + ")")
		}
		return
	}
	tr := &http.Transport{}
	client := &http.Client{Transport: tr, Timeout: 10 * time.Minute}
	defer func() {
		tr.CloseIdleConnections()
		if hs != nil {
			hs.Close()
		}
	}()
	tbl, gids := gidsOf(m.table)
	base := fmt.Sprintf("http://127.0.0.1:%d", port)
	classes := map[string]int{}
	const nreq = 80
	done := 0
	for q := 0; q < nreq && !c.Violated(); q++ {
		target, meth := rawTargetFor(r, tbl, []string{"GET", "POST", "PUT", "DELETE", "PATCH", "OPTIONS"})
		u, err := url.Parse(base + target)
		if err != nil {
			c.Obs("escaped_unparsable_targets_skipped", 1)
			continue
		}
		req, err := http.NewRequest(meth, u.String(), nil)
		if err != nil {
			c.Obs("escaped_unparsable_targets_skipped", 1)
			continue
		}
		resp, err := client.Do(req)
		if err != nil {
			c.Inconclusive("e2e-escaped request failed: " + err.Error())
			return
		}
		body, _ := io.ReadAll(resp.Body)
		resp.Body.Close()
		decoded := req.URL.Path
		if es := decodeEchoes(body); len(es) > 0 {
			if es[0].Path != decoded {
				c.Obs("escaped_server_path_differs_from_client_decoding", 1)
			}
			decoded = es[0].Path
		}
		if staticFS != nil && meth == "GET" {
			// a GET below the mount point whose remainder exists in the file system (the file, or the
			// root directory for "<mount>//") belongs to the file server, not to the router
			mount := strings.TrimSuffix(fsPrefix, "/") + "/"
			if strings.HasPrefix(req.URL.Path, mount) {
				if f, err := staticFS.Open(req.URL.Path[len(mount):]); err == nil {
					f.Close()
					c.Obs("escaped_requests_taken_by_the_file_server", 1)
					continue
				}
			}
		}
		w2 := map[string]any{"target": target}
		for k, v := range wit {
			w2[k] = v
		}
		classes[judge(c, "e2e-escaped", tbl, gids, meth, decoded, observed{Status: resp.StatusCode, Allow: resp.Header.Get("Allow"), Body: body}, nfInst, naInst, w2)]++
		if req.URL.RawPath != "" {
			c.Obs("escaped_requests_with_escaped_path", 1)
		}
		done++
	}
	c.Evals(int64(done))
	if fsPrefix != "" {
		c.Obs("escaped_servers_with_file_server_mount", 1)
		below := 0
		for _, x := range m.table {
			if strings.HasPrefix(path.Clean(x.Pattern)+"/", strings.TrimSuffix(fsPrefix, "/")+"/") {
				below++
			}
		}
		c.Obs("escaped_routes_below_the_file_server_mount", int64(below))
		// the one file that exists is served (observation only: the statement is about routes)
		if resp, err := client.Get(base + strings.TrimSuffix(fsPrefix, "/") + "/zz-verif-static-file.txt"); err == nil {
			b, _ := io.ReadAll(resp.Body)
			resp.Body.Close()
			if resp.StatusCode == 200 && string(b) == "VERIF-STATIC" {
				c.Obs("escaped_static_file_served", 1)
			}
		}
	}
	c.Obs("escaped_servers", 1)
	c.Sig(classes["405"] > 0 && classes["404"] > 0 && classes["dispatch-vars"] > 0, "e2e-escaped", nfInst, naInst, globals, strings.Join(regs, ";"))
	if c.Index < 2 {
		c.Sample("e2e-escaped", 2, map[string]any{"declarations": regs, "not_found_handler": nfInst, "not_allowed_handler": naInst, "request_classes": classes})
	}
}
