package c09

// Family "incremental": routes are registered in several phases and requests are served between
// the phases (a router is legitimately extended after it has started answering: tests, plug-ins,
// servers that add routes lazily). After every phase the same request set is judged by the
// reference matcher over the routes registered SO FAR - so anything the router remembers from
// earlier lookups (a lookup cache, memoised 404/405 answers, pooled results) that is not
// invalidated by a later registration shows as a wrong route, wrong variables or a stale
// 404/405. (Seeded change C09-s10: a cache of successful lookups from which Handle drops only
// the entry equal to the new pattern.)

import (
	"net/http"
	"path"

	"github.com/zeromicro/go-zero/rest/pathvar"
	"github.com/zeromicro/go-zero/rest/router"
	"verifharness/kit"
)

func incremental(c *kit.Case, pats, paths []string) {
	r := c.R
	methods := []string{"GET", "POST"}
	// a table of 3..10 distinct (method, pattern) pairs in random order, split into 2..4 phases
	n := r.Range(3, 10)
	seen := map[string]bool{}
	var regs []route
	for len(regs) < n {
		m, p := kit.Choose(r, methods), kit.Choose(r, pats)
		if seen[m+" "+p] {
			continue
		}
		seen[m+" "+p] = true
		regs = append(regs, route{Method: m, Pattern: p, ID: len(regs), Segs: splitClean(p)})
	}
	strict := preconditionHolds(regs)
	phases := r.Range(2, 4)
	rt := router.NewRouter()
	g := &got{route: -1}
	var acc []route
	reg := map[string]bool{}
	next := 0
	reqMethods := []string{"GET", "POST", "PUT"}
	var sig []any
	changed := 0
	prev := map[string]string{}
	for ph := 0; ph < phases && !c.Violated(); ph++ {
		upto := n * (ph + 1) / phases
		if ph == phases-1 {
			upto = n
		}
		for ; next < upto; next++ {
			x := regs[next]
			id := x.ID
			err := rt.Handle(x.Method, x.Pattern, http.HandlerFunc(func(w http.ResponseWriter, req *http.Request) {
				g.route = id
				g.vars = pathvar.Vars(req)
				w.WriteHeader(200)
			}))
			key := x.Method + " " + path.Clean(x.Pattern)
			if err != nil || reg[key] {
				if strict && err != nil && !reg[key] {
					c.Viol("C09/registration-rejected", "Handle("+x.Method+","+x.Pattern+") was rejected after requests had been served: "+err.Error(),
						map[string]any{"routes": regs, "registered_so_far": acc})
				}
				continue
			}
			reg[key] = true
			acc = append(acc, x)
			sig = append(sig, ph, x.Method, x.Pattern)
		}
		for _, m := range reqMethods {
			for _, p := range paths {
				cl := checkRequest(c, rt, acc, g, m, p, strict, regs[:next])
				c.Evals(1)
				if old, ok := prev[m+" "+p]; ok && old != cl {
					changed++
				}
				prev[m+" "+p] = cl
			}
		}
		c.Obs("incremental_phases", 1)
	}
	c.Obs("incremental_tables", 1)
	c.Obs("incremental_requests_whose_class_changed_after_a_later_registration", int64(changed))
	c.Sig(strict && changed > 0, append([]any{"incr"}, sig...)...)
	if c.Index < 2 {
		c.Sample("incremental", 2, map[string]any{"routes_in_registration_order": regs, "phases": phases,
			"requests_whose_class_changed_after_a_later_registration": changed})
	}
}
