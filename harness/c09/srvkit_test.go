package c09

// Shared pieces of the families that drive the router through its wider public
// surface: custom NotFound/NotAllowed handlers, rest.Server route groups and
// options, illegal tables through rest.Server, escaped request paths.
//
// Every handler of these families (route handlers and the custom 404/405
// handlers) answers with one JSON line describing what it saw ("echo"); the
// monitor decodes all echo lines of a response, so "which handler ran, how often,
// with which variables" is observed the same way in process (ResponseRecorder)
// and over loopback HTTP.

import (
	"context"
	"crypto/hmac"
	"crypto/sha256"
	"encoding/base64"
	"encoding/json"
	"errors"
	"fmt"
	"io"
	"net"
	"net/http"
	"path"
	"runtime"
	"sort"
	"strings"
	"time"

	"github.com/zeromicro/go-zero/rest"
	"github.com/zeromicro/go-zero/rest/pathvar"

	"verifharness/kit"
)

// ---- echo handlers

type echo struct {
	Kind   string            `json:"kind"` // route | notfound | notallowed
	H      int               `json:"h"`
	Vars   map[string]string `json:"vars"`
	Path   string            `json:"path"` // r.URL.Path as the handler saw it
	Method string            `json:"method"`
	MW     []string          `json:"mw"`    // middleware markers found in the request context, in the order they ran
	Allow  string            `json:"allow"` // Allow header already present on the ResponseWriter when the handler ran
	Ctx    bool              `json:"ctx"`   // the printed request context names the pathvar key
}

type trailKeyT struct{}

func trailOf(r *http.Request) []string {
	v, _ := r.Context().Value(trailKeyT{}).([]string)
	return v
}

func withTrail(r *http.Request, name string) *http.Request {
	nt := append(append([]string(nil), trailOf(r)...), name)
	return r.WithContext(context.WithValue(r.Context(), trailKeyT{}, nt))
}

// markMW is a middleware that only leaves a marker in the request context (so a
// handler behind it sees the path variables through one more context layer).
func markMW(name string) rest.Middleware {
	return func(next http.HandlerFunc) http.HandlerFunc {
		return func(w http.ResponseWriter, r *http.Request) { next(w, withTrail(r, name)) }
	}
}

func echoHandler(kind string, id int, status int) http.HandlerFunc {
	return func(w http.ResponseWriter, r *http.Request) {
		e := echo{Kind: kind, H: id, Vars: pathvar.Vars(r), Path: r.URL.Path, Method: r.Method, MW: trailOf(r), Allow: w.Header().Get("Allow")}
		if len(e.Vars) > 0 {
			e.Ctx = strings.Contains(fmt.Sprint(r.Context()), "rest/pathvar/context key")
		}
		b, _ := json.Marshal(e)
		if status != 0 && status != 200 {
			w.WriteHeader(status)
		}
		w.Write(append(b, '\n'))
	}
}

func decodeEchoes(body []byte) []echo {
	var out []echo
	for _, ln := range strings.Split(string(body), "\n") {
		if !strings.HasPrefix(ln, `{"kind"`) {
			continue
		}
		var e echo
		if json.Unmarshal([]byte(ln), &e) == nil {
			out = append(out, e)
		}
	}
	return out
}

// ---- the judge shared by the families with custom handlers

type observed struct {
	Status int
	Allow  string
	Body   []byte
}

// judge compares one answered request with the reference matcher over table.
// gids maps a table index to the id the route's echo handler reports. nfInst /
// naInst: a custom not-found / not-allowed handler is installed (both echo and
// write 404 resp. 405 themselves). The statement is silent about the Allow header
// when a custom not-allowed handler owns the response: it is only counted.
func judge(c *kit.Case, fam string, table []route, gids []int, method, decoded string, o observed, nfInst, naInst bool, wit map[string]any) string {
	exp := reference(table, method, decoded)
	var re, nf, na []echo
	for _, e := range decodeEchoes(o.Body) {
		switch e.Kind {
		case "route":
			re = append(re, e)
		case "notfound":
			nf = append(nf, e)
		case "notallowed":
			na = append(na, e)
		}
	}
	w := map[string]any{"method": method, "path": decoded, "expected": exp, "status": o.Status, "allow": o.Allow, "body": string(o.Body),
		"custom_notfound_installed": nfInst, "custom_notallowed_installed": naInst}
	for k, v := range wit {
		w[k] = v
	}
	key := func(s string) string { return "C09/" + fam + "/" + s }
	op := map[string]string{"custom": "ch", "srvopt": "srvopt", "e2e-escaped": "escaped"}[fam] // prefix of the observation counters
	class := "404"
	switch exp.Status {
	case 200:
		class = "dispatch"
		if len(exp.Vars) > 0 {
			class = "dispatch-vars"
		}
		switch {
		case len(nf) > 0:
			c.Viol(key("custom-notfound-invoked/dispatch"), fmt.Sprintf("%s %q matches route %d but the custom not-found handler ran", method, decoded, exp.Route), w)
		case len(na) > 0:
			c.Viol(key("custom-notallowed-invoked/dispatch"), fmt.Sprintf("%s %q matches route %d but the custom not-allowed handler ran", method, decoded, exp.Route), w)
		case len(re) == 0:
			c.Viol(key(fmt.Sprintf("not-dispatched/status-%d", o.Status)), fmt.Sprintf("%s %q matches route %d but no handler ran (status %d)", method, decoded, exp.Route, o.Status), w)
		case len(re) > 1:
			c.Viol(key("dispatched-more-than-once"), fmt.Sprintf("%s %q: %d route handlers ran", method, decoded, len(re)), w)
		case re[0].H != gids[exp.Route]:
			c.Viol(key("wrong-route"), fmt.Sprintf("%s %q dispatched to handler %d, expected %d", method, decoded, re[0].H, gids[exp.Route]), w)
		case !dupVarRoute(table, exp.Route) && !sameVars(re[0].Vars, exp.Vars):
			c.Viol(key("wrong-vars"), fmt.Sprintf("%s %q: handler saw vars %v, expected %v", method, decoded, re[0].Vars, exp.Vars), w)
		default:
			if len(re[0].MW) > 0 {
				c.Obs(op+"_vars_seen_behind_context_middlewares", 1)
			}
			if re[0].Ctx {
				c.Obs(op+"_pathvar_key_printed_in_context", 1)
			}
		}
	case 405:
		class = "405"
		switch {
		case len(re) > 0:
			c.Viol(key("dispatched-without-match"), fmt.Sprintf("%s %q has no matching route for this method but handler %d ran", method, decoded, re[0].H), w)
		case len(nf) > 0:
			c.Viol(key("custom-notfound-invoked/405"), fmt.Sprintf("%s %q: other methods match (%v) but the custom not-found handler ran", method, decoded, exp.Allow), w)
		case naInst && len(na) == 0:
			c.Viol(key(fmt.Sprintf("custom-notallowed-not-invoked/status-%d", o.Status)), fmt.Sprintf("%s %q: other methods match (%v), a custom not-allowed handler is installed but did not run (status %d)", method, decoded, exp.Allow, o.Status), w)
		case naInst && len(na) > 1:
			c.Viol(key("custom-notallowed-invoked-more-than-once"), fmt.Sprintf("%s %q: the custom not-allowed handler ran %d times", method, decoded, len(na)), w)
		case !naInst && len(na) > 0:
			c.Viol(key("custom-handler-of-another-router-ran"), "a not-allowed echo without an installed handler", w)
		case o.Status != 405:
			c.Viol(key(fmt.Sprintf("expected-405/got-%d", o.Status)), fmt.Sprintf("%s %q: other methods match, expected 405, got %d", method, decoded, o.Status), w)
		case naInst:
			c.Obs(op+"_custom_notallowed_ran", 1)
			if na[0].Allow != "" || o.Allow != "" {
				c.Obs(op+"_custom_notallowed_allow_header_present", 1)
			} else {
				c.Obs(op+"_custom_notallowed_allow_header_absent", 1)
			}
		default:
			var gotAllow []string
			for _, a := range strings.Split(o.Allow, ",") {
				if a = strings.TrimSpace(a); a != "" {
					gotAllow = append(gotAllow, a)
				}
			}
			sort.Strings(gotAllow)
			if strings.Join(gotAllow, ",") != strings.Join(exp.Allow, ",") {
				c.Viol(key("wrong-allow"), fmt.Sprintf("%s %q: Allow=%v expected %v", method, decoded, gotAllow, exp.Allow), w)
			}
			c.Obs(op+"_default_405_allow_checked", 1)
		}
	default:
		switch {
		case len(re) > 0:
			c.Viol(key("dispatched-without-match"), fmt.Sprintf("%s %q matches nothing but handler %d ran", method, decoded, re[0].H), w)
		case len(na) > 0:
			c.Viol(key("custom-notallowed-invoked/404"), fmt.Sprintf("%s %q matches no route of any method but the custom not-allowed handler ran", method, decoded), w)
		case nfInst && len(nf) == 0:
			c.Viol(key(fmt.Sprintf("custom-notfound-not-invoked/status-%d", o.Status)), fmt.Sprintf("%s %q matches nothing, a custom not-found handler is installed but did not run (status %d)", method, decoded, o.Status), w)
		case nfInst && len(nf) > 1:
			c.Viol(key("custom-notfound-invoked-more-than-once"), fmt.Sprintf("%s %q: the custom not-found handler ran %d times", method, decoded, len(nf)), w)
		case !nfInst && len(nf) > 0:
			c.Viol(key("custom-handler-of-another-router-ran"), "a not-found echo without an installed handler", w)
		case o.Status != 404:
			c.Viol(key(fmt.Sprintf("expected-404/got-%d", o.Status)), fmt.Sprintf("%s %q: nothing matches, expected 404, got %d", method, decoded, o.Status), w)
		case nfInst:
			c.Obs(op+"_custom_notfound_ran", 1)
		default:
			c.Obs(op+"_default_404", 1)
		}
	}
	c.Obs(op+"_requests_"+class, 1)
	return class
}

// ---- route groups as applications declare them

type sRoute struct {
	Method string
	Rel    string // path as written in the rest.Route
	Gid    int
}

type sGroup struct {
	Prefix    string
	UsePrefix bool
	Routes    []sRoute
	Via       string // AddRoutes | AddRoute
	// options used by the server-options family
	Jwt, JwtTransition, Timeout, MaxBytes, Priority, Signature, SSE bool
	RouteMWs                                                        int
}

// finalPattern is the pattern that reaches the router: the group prefix (when
// rest.WithPrefix is used) followed by the route's own path, joined segment-wise.
// The pools contain no "." / ".." segments.
func finalPattern(g *sGroup, r sRoute) string {
	if !g.UsePrefix {
		return r.Rel
	}
	var segs []string
	for _, s := range strings.Split(g.Prefix+"/"+r.Rel, "/") {
		if s != "" {
			segs = append(segs, s)
		}
	}
	s := strings.Join(segs, "/")
	if strings.HasPrefix(g.Prefix, "/") {
		s = "/" + s
	}
	return s
}

func describeGroups(groups []sGroup) []string {
	var out []string
	for i := range groups {
		g := &groups[i]
		var rs []string
		for _, r := range g.Routes {
			rs = append(rs, fmt.Sprintf("{%s %q h=%d}", r.Method, r.Rel, r.Gid))
		}
		s := fmt.Sprintf("%s([%s]", g.Via, strings.Join(rs, " "))
		if g.UsePrefix {
			s += fmt.Sprintf(", WithPrefix(%q)", g.Prefix)
		}
		for _, o := range []struct {
			on   bool
			name string
		}{{g.Jwt, "WithJwt"}, {g.JwtTransition, "WithJwtTransition"}, {g.Timeout, "WithTimeout(2h)"}, {g.MaxBytes, "WithMaxBytes"}, {g.Priority, "WithPriority"}, {g.Signature, "WithSignature{}"}, {g.SSE, "WithSSE"}} {
			if o.on {
				s += ", " + o.name
			}
		}
		if g.RouteMWs > 0 {
			s += fmt.Sprintf(", %d route middlewares", g.RouteMWs)
		}
		out = append(out, s+")")
	}
	return out
}

var relPool = []sRoute{
	{Method: "GET", Rel: "/ping"}, {Method: "GET", Rel: "/users/:id"}, {Method: "POST", Rel: "/users/:id"}, {Method: "GET", Rel: "/users/me"},
	{Method: "GET", Rel: "/users/:id/orders/:oid"}, {Method: "PUT", Rel: "/users/:id/orders/latest"}, {Method: "GET", Rel: "/"}, {Method: "DELETE", Rel: "/users/:id"},
	{Method: "GET", Rel: "/health"}, {Method: "GET", Rel: "/:top"}, {Method: "PATCH", Rel: "/items/:item/tags/:tag"}, {Method: "GET", Rel: "/items/:item"},
	{Method: "HEAD", Rel: "/ping"}, {Method: "OPTIONS", Rel: "/users/:id"}, {Method: "GET", Rel: "/files/:name"}, {Method: "POST", Rel: "/"},
	{Method: "GET", Rel: "/users/:id/orders/latest"}, {Method: "POST", Rel: "/items/:item/tags/:tag"}, {Method: "GET", Rel: "status"},
}

var prefixPool = []string{"/v1", "/v2", "/api", "/api/v1", "/api/v2/", "/x", "/t/:tenant", "/users", "//v3"}

type legalModel struct {
	seen  map[string]bool
	table []route // accepted routes in registration order; ID = Gid
}

func newLegalModel() *legalModel { return &legalModel{seen: map[string]bool{}} }

// classify says why the router must reject (method, final pattern) given what was accepted before, "" if it must accept.
func (m *legalModel) classify(method, final string) string {
	switch {
	case !validMethods[method]:
		return "invalid-method"
	case len(final) == 0 || final[0] != '/':
		return "invalid-path"
	case m.seen[method+" "+final]:
		return "duplicate"
	case m.seen[method+" "+path.Clean(final)]:
		return "duplicate-after-clean"
	}
	return ""
}

func (m *legalModel) accept(method, final string, gid int) {
	m.seen[method+" "+final] = true
	m.seen[method+" "+path.Clean(final)] = true
	m.table = append(m.table, route{Method: method, Pattern: final, Segs: splitClean(final), ID: gid})
}

// fits: accepting (method, final) keeps the table legal and inside the statement's precondition.
func (m *legalModel) fits(method, final string) bool {
	if m.classify(method, final) != "" {
		return false
	}
	cand := append(append([]route(nil), m.table...), route{Method: method, Pattern: final, Segs: splitClean(final)})
	return preconditionHolds(cand)
}

// genLegalGroups draws ng route groups whose union is a legal table inside the precondition.
func genLegalGroups(r *kit.Rand, ng int, prefixChance float64, nextGid *int) ([]sGroup, *legalModel) {
	m := newLegalModel()
	var groups []sGroup
	for len(groups) < ng {
		g := sGroup{Via: "AddRoutes"}
		if r.Chance(prefixChance) {
			g.UsePrefix, g.Prefix = true, kit.Choose(r, prefixPool)
		}
		fillGroup(r, m, &g, r.Range(1, 4), nextGid)
		if len(g.Routes) > 0 {
			groups = append(groups, g)
		}
	}
	return groups, m
}

// fillGroup appends up to n routes of the pool that fit the model.
func fillGroup(r *kit.Rand, m *legalModel, g *sGroup, n int, nextGid *int) {
	for _, i := range r.Perm(len(relPool)) {
		if n == 0 {
			break
		}
		cand := relPool[i]
		final := finalPattern(g, cand)
		if !m.fits(cand.Method, final) {
			continue
		}
		cand.Gid = *nextGid
		*nextGid++
		m.accept(cand.Method, final, cand.Gid)
		g.Routes = append(g.Routes, cand)
		n--
	}
}

// gidsOf: judge() wants table index -> handler id; the model's table carries the id in ID.
func gidsOf(table []route) ([]route, []int) {
	t := make([]route, len(table))
	g := make([]int, len(table))
	for i, x := range table {
		g[i] = x.ID
		x.ID = i
		t[i] = x
	}
	return t, g
}

// ---- starting a rest.Server

func baseConf(name string, port int) rest.RestConf {
	var conf rest.RestConf
	conf.Host = "127.0.0.1"
	conf.Port = port
	conf.Name = name
	conf.Log.Mode = "console"
	conf.Log.Level = "severe"
	conf.Timeout = 0
	return conf
}

type startOutcome struct {
	Kind string // listen-failed | rejected | crashed | returned | watchdog
	Err  string
}

func classifyStartPanic(p any) startOutcome {
	if p == nil {
		return startOutcome{Kind: "returned"}
	}
	if _, ok := p.(runtime.Error); ok {
		return startOutcome{Kind: "crashed", Err: fmt.Sprint(p)}
	}
	if err, ok := p.(error); ok {
		var op *net.OpError
		if errors.As(err, &op) && op.Op == "listen" {
			return startOutcome{Kind: "listen-failed", Err: err.Error()}
		}
	}
	return startOutcome{Kind: "rejected", Err: fmt.Sprint(p)}
}

// holdPort occupies a loopback port for as long as the returned listener lives:
// a rest.Server configured with it binds its routes and then fails to listen.
func holdPort() (net.Listener, int, error) {
	l, err := net.Listen("tcp", "127.0.0.1:0")
	if err != nil {
		return nil, 0, err
	}
	return l, l.Addr().(*net.TCPAddr).Port, nil
}

// startOnHeldPort runs srv.Start() for a server whose port is occupied by the
// harness. rest.Server.Start binds all routes first and listens afterwards, and
// reports either failure by panicking with the error: a route-table error means
// the table was rejected at registration, a listen error means every route was
// bound. No server keeps running and nothing depends on timing (the watchdog
// only guards against a Start that would hang).
func startOnHeldPort(srv *rest.Server) startOutcome {
	done := make(chan startOutcome, 1)
	go func() {
		defer func() { done <- classifyStartPanic(recover()) }()
		srv.Start()
	}()
	select {
	case o := <-done:
		return o
	case <-time.After(10 * time.Minute):
		return startOutcome{Kind: "watchdog"}
	}
}

// probeRoute is a literal route every live server of these families carries in a
// group of its own: answering it with the nonce proves that whatever accepts
// connections on the port is this server and not some other process that took
// the port in between (that, and a failed bind, are inconclusive - never a verdict).
func probeRoute(r *kit.Rand, nextGid *int) (sGroup, string) {
	nonce := fmt.Sprintf("%016x", r.Uint64())
	g := sGroup{Via: "AddRoute", Routes: []sRoute{{Method: "GET", Rel: "/zz-verif-probe/" + nonce, Gid: *nextGid}}}
	*nextGid++
	return g, nonce
}

func probeAnswers(port int, nonce string, gid int) bool {
	client := &http.Client{Timeout: 5 * time.Minute}
	defer client.CloseIdleConnections()
	resp, err := client.Get(fmt.Sprintf("http://127.0.0.1:%d/zz-verif-probe/%s", port, nonce))
	if err != nil {
		return false
	}
	defer resp.Body.Close()
	b, _ := io.ReadAll(resp.Body)
	es := decodeEchoes(b)
	return len(es) == 1 && es[0].Kind == "route" && es[0].H == gid && es[0].Path == "/zz-verif-probe/"+nonce
}

// startLive starts srv on port and waits until Start ends or the server answers
// its probe route. Returns the captured *http.Server (to close it) when it is up.
func startLive(srv *rest.Server, port int, nonce string, probeGid int) (up bool, hs *http.Server, out startOutcome) {
	got := make(chan *http.Server, 1)
	done := make(chan startOutcome, 1)
	go func() {
		defer func() { done <- classifyStartPanic(recover()) }()
		srv.StartWithOpts(func(s *http.Server) {
			select {
			case got <- s:
			default:
			}
		})
	}()
	foreign := 0
	for i := 0; i < 6000; i++ {
		select {
		case o := <-done:
			return false, nil, o
		default:
		}
		conn, err := net.DialTimeout("tcp", fmt.Sprintf("127.0.0.1:%d", port), 100*time.Millisecond)
		if err == nil {
			conn.Close()
			if probeAnswers(port, nonce, probeGid) {
				select {
				case hs = <-got:
				default:
				}
				return true, hs, startOutcome{}
			}
			if foreign++; foreign > 20 {
				return false, nil, startOutcome{Kind: "foreign", Err: "something that is not this server answers on the port"}
			}
		}
		time.Sleep(10 * time.Millisecond)
	}
	return false, nil, startOutcome{Kind: "watchdog"}
}

// ---- a JWT the Authorize middleware accepts (HS256, no expiry), built with the standard library only

func hs256Token(secret string) string {
	enc := base64.RawURLEncoding
	h := enc.EncodeToString([]byte(`{"alg":"HS256","typ":"JWT"}`))
	p := enc.EncodeToString([]byte(`{"uid":"7"}`))
	mac := hmac.New(sha256.New, []byte(secret))
	mac.Write([]byte(h + "." + p))
	return h + "." + p + "." + enc.EncodeToString(mac.Sum(nil))
}
