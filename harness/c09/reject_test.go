package c09

// e2e-reject: route tables declared the way applications declare them
// (rest.Server.AddRoutes / AddRoute, groups, rest.WithPrefix) that contain an
// illegal route - a duplicate (method, pattern), an unsupported method, a pattern
// without a leading '/' - must be rejected when the server binds its routes,
// wherever the illegal route stands: first, in the middle, last or alone in its
// group; in the first or a later group; duplicates inside one group, across
// groups, and across prefixes that make two declarations equal after WithPrefix.
//
// Observation (causal, no clock): rest.Server.Start binds every route and only
// then listens, and reports either failure by panicking with the error. Most
// cases give the server a port the harness itself occupies, so Start always ends:
// with a route-table error (table rejected) or with a listen error (every route
// was bound = table accepted). A minority of the illegal cases use a free port
// and decide between "Start ended with a route-table error" and "the server
// accepts connections and answers" (the existing e2e start loop; a port-bind race
// is inconclusive). Legal control tables must reach the listen step.

import (
	"fmt"
	"io"
	"net/http"
	"strings"

	"github.com/zeromicro/go-zero/core/logx"
	"github.com/zeromicro/go-zero/rest"

	"verifharness/kit"
)

type badInfo struct {
	Kind         string // of the first route the router must reject
	Group, Index int
	Position     string // alone | first | middle | last   (within its AddRoutes group)
	GoodAfter    bool   // a route that binds fine follows it in the same group
	GroupPos     string // only | first | later
	How          string // how the generator made the table illegal
}

// firstBad walks the declarations in registration order through the legality model.
func firstBad(groups []sGroup) (badInfo, bool) {
	m := newLegalModel()
	var bad badInfo
	found := false
	for gi := range groups {
		g := &groups[gi]
		for ri, r := range g.Routes {
			final := finalPattern(g, r)
			k := m.classify(r.Method, final)
			if k == "" {
				m.accept(r.Method, final, r.Gid)
				if found && gi == bad.Group {
					bad.GoodAfter = true
				}
				continue
			}
			if found {
				continue
			}
			found = true
			bad = badInfo{Kind: k, Group: gi, Index: ri}
			switch {
			case len(g.Routes) == 1:
				bad.Position = "alone"
			case ri == 0:
				bad.Position = "first"
			case ri == len(g.Routes)-1:
				bad.Position = "last"
			default:
				bad.Position = "middle"
			}
			switch {
			case len(groups) == 1:
				bad.GroupPos = "only"
			case gi == 0:
				bad.GroupPos = "first"
			default:
				bad.GroupPos = "later"
			}
		}
	}
	return bad, found
}

func insertRoute(g *sGroup, pos int, r sRoute) {
	g.Routes = append(g.Routes, sRoute{})
	copy(g.Routes[pos+1:], g.Routes[pos:])
	g.Routes[pos] = r
}

func insertGroup(groups []sGroup, pos int, g sGroup) []sGroup {
	groups = append(groups, sGroup{})
	copy(groups[pos+1:], groups[pos:])
	groups[pos] = g
	return groups
}

// unclean rewrites a relative pattern into one that equals it only after cleaning.
func unclean(r *kit.Rand, rel string) string {
	switch {
	case rel == "/" || rel == "":
		return "//"
	case r.Bool():
		return rel + "/"
	default:
		i := strings.LastIndex(rel, "/")
		if i < 0 {
			return rel + "/"
		}
		return rel[:i] + "/" + rel[i:]
	}
}

// makeIllegal injects one illegal declaration and returns how.
func makeIllegal(r *kit.Rand, groups []sGroup, m *legalModel, nextGid *int) ([]sGroup, string) {
	gid := func() int { *nextGid++; return *nextGid - 1 }
	pickPos := func(g *sGroup) int {
		// first / last / middle with equal weight where they exist
		n := len(g.Routes)
		switch r.Pick(4, 3, 3) {
		case 0:
			return 0
		case 1:
			return n
		}
		if n >= 2 {
			return r.Range(1, n-1)
		}
		return r.Intn(n + 1)
	}
	switch r.Pick(16, 16, 26, 20, 16, 6) {
	case 0: // unsupported method
		gi := r.Intn(len(groups))
		bad := sRoute{Method: kit.Choose(r, []string{"TRACE", "CONNECT", "get", "", "FOO", "Post"}), Rel: "/bad/route", Gid: gid()}
		insertRoute(&groups[gi], pickPos(&groups[gi]), bad)
		return groups, "unsupported method " + bad.Method
	case 1: // pattern without a leading slash, in a group without prefix
		var cands []int
		for i := range groups {
			if !groups[i].UsePrefix {
				cands = append(cands, i)
			}
		}
		bad := sRoute{Method: "GET", Rel: kit.Choose(r, []string{"bad", "users/:id/x", "", "a/b", ":v"}), Gid: gid()}
		if len(cands) == 0 || r.Chance(0.3) {
			g := sGroup{Via: "AddRoutes"}
			fillGroup(r, m, &g, r.Range(0, 3), nextGid)
			insertRoute(&g, pickPos(&g), bad)
			return insertGroup(groups, r.Intn(len(groups)+1), g), "pattern without leading slash in a new un-prefixed group"
		}
		gi := kit.Choose(r, cands)
		insertRoute(&groups[gi], pickPos(&groups[gi]), bad)
		return groups, "pattern without leading slash"
	case 2: // duplicate inside one group
		gi := r.Intn(len(groups))
		g := &groups[gi]
		dup := kit.Choose(r, g.Routes)
		dup.Gid = gid()
		insertRoute(g, pickPos(g), dup)
		return groups, "duplicate inside one group"
	case 3: // duplicate across groups: the same final pattern reached through another prefix split
		ti := r.Intn(len(groups))
		tg := &groups[ti]
		target := kit.Choose(r, tg.Routes)
		final := finalPattern(tg, target)
		segs := splitClean(final)
		if len(segs) == 1 && segs[0] == "" {
			segs = nil
		}
		k := r.Intn(len(segs) + 1)
		ng := sGroup{Via: "AddRoutes"}
		if k > 0 {
			ng.UsePrefix, ng.Prefix = true, "/"+strings.Join(segs[:k], "/")
			if r.Chance(0.2) {
				ng.Prefix += "/"
			}
		}
		rel := "/" + strings.Join(segs[k:], "/")
		how := fmt.Sprintf("duplicate across groups (prefix split at %d of %d)", k, len(segs))
		if k > 0 && r.Chance(0.15) {
			rel = strings.TrimPrefix(rel, "/") // legal under a prefix: WithPrefix joins
		}
		fillGroup(r, m, &ng, r.Range(0, 3), nextGid)
		insertRoute(&ng, pickPos(&ng), sRoute{Method: target.Method, Rel: rel, Gid: gid()})
		pos := ti + 1 + r.Intn(len(groups)-ti)
		if r.Chance(0.3) {
			pos = r.Intn(ti + 1) // declared before the group it collides with: the older declaration becomes the rejected one
		}
		return insertGroup(groups, pos, ng), how
	case 4: // a duplicate that is equal only after cleaning the pattern (un-prefixed group if there is one: WithPrefix cleans)
		gi := r.Intn(len(groups))
		for i := range groups {
			if !groups[i].UsePrefix && r.Chance(0.8) {
				gi = i
			}
		}
		g := &groups[gi]
		dup := kit.Choose(r, g.Routes)
		dup.Rel = unclean(r, dup.Rel)
		dup.Gid = gid()
		insertRoute(g, pickPos(g), dup)
		return groups, "duplicate after cleaning"
	default: // a group whose prefix has no leading slash: every pattern of the group is illegal
		g := sGroup{Via: "AddRoutes", UsePrefix: true, Prefix: kit.Choose(r, []string{"v9", "api/v9"})}
		for i, n := 0, r.Range(1, 3); i < n; i++ {
			x := relPool[r.Intn(len(relPool))]
			x.Gid = gid()
			g.Routes = append(g.Routes, x)
		}
		return insertGroup(groups, r.Intn(len(groups)+1), g), "group prefix without leading slash"
	}
}

// splitSingles turns a group into one AddRoute call per route.
func splitSingles(groups []sGroup, gi int) []sGroup {
	g := groups[gi]
	var out []sGroup
	out = append(out, groups[:gi]...)
	for _, rt := range g.Routes {
		s := g
		s.Via = "AddRoute"
		s.Routes = []sRoute{rt}
		out = append(out, s)
	}
	return append(out, groups[gi+1:]...)
}

func declare(srv *rest.Server, groups []sGroup, mk func(gid int) http.HandlerFunc) {
	for i := range groups {
		g := &groups[i]
		var opts []rest.RouteOption
		if g.UsePrefix {
			opts = append(opts, rest.WithPrefix(g.Prefix))
		}
		if g.Via == "AddRoute" {
			srv.AddRoute(rest.Route{Method: g.Routes[0].Method, Path: g.Routes[0].Rel, Handler: mk(g.Routes[0].Gid)}, opts...)
			continue
		}
		rs := make([]rest.Route, len(g.Routes))
		for j, rt := range g.Routes {
			rs[j] = rest.Route{Method: rt.Method, Path: rt.Rel, Handler: mk(rt.Gid)}
		}
		srv.AddRoutes(rs, opts...)
	}
}

func e2eReject(c *kit.Case) {
	r := c.R
	logx.Disable()
	nextGid := 0
	groups, m := genLegalGroups(r, r.Range(1, 3), 0.6, &nextGid)
	legal := r.Chance(0.2)
	how := "legal control"
	if !legal {
		groups, how = makeIllegal(r, groups, m, &nextGid)
	}
	for gi := len(groups) - 1; gi >= 0; gi-- {
		if r.Chance(0.2) {
			groups = splitSingles(groups, gi)
		}
	}
	live := !legal && r.Chance(0.15)
	nonce, probeGid := "", -1
	if live {
		pg, n := probeRoute(r, &nextGid)
		nonce, probeGid = n, pg.Routes[0].Gid
		groups = insertGroup(groups, r.Intn(len(groups)+1), pg)
	}
	bad, isBad := firstBad(groups)
	if isBad == legal {
		// the generator and the legality model disagree: a harness defect, never a verdict on go-zero
		panic(fmt.Sprintf("e2e-reject generator: legal=%v but model says bad=%v (%s): %v", legal, isBad, how, describeGroups(groups)))
	}
	bad.How = how

	var port int
	if live {
		port = freePort()
	} else {
		l, p, err := holdPort()
		if err != nil {
			c.Inconclusive("cannot occupy a loopback port: " + err.Error())
			return
		}
		defer l.Close()
		port = p
	}
	srv, err := rest.NewServer(baseConf("verifc09r", port))
	if err != nil {
		c.Inconclusive("rest.NewServer: " + err.Error())
		return
	}
	logx.Disable()
	declare(srv, groups, func(gid int) http.HandlerFunc { return echoHandler("route", gid, 200) })
	regs := describeGroups(groups)
	wit := map[string]any{"declarations": regs, "first_illegal": bad, "legal": legal, "live": live}
	c.Evals(1)
	mode := "held-port"
	if live {
		mode = "live"
	}
	sig := func(outcome string) {
		c.Sig(isBad && bad.GoodAfter, "e2e-reject", mode, bad.Kind, bad.Position, bad.GroupPos, bad.GoodAfter, outcome, strings.Join(regs, ";"))
		if c.Index < 6 {
			c.Sample("e2e-reject", 2, map[string]any{"declarations": regs, "first_illegal": bad, "legal": legal, "mode": mode, "outcome": outcome})
		}
	}
	accepted := func(detail string, extra map[string]any) {
		for k, v := range extra {
			wit[k] = v
		}
		ga := "last-of-its-group"
		if bad.GoodAfter {
			ga = "followed by a route that binds fine"
		}
		c.Viol("C09/e2e-reject/illegal-table-accepted/"+bad.Kind,
			fmt.Sprintf("rest.Server accepted a route table whose %s route of group %d (%s group) is illegal (%s, %s; %s): %s", bad.Position, bad.Group, bad.GroupPos, bad.Kind, ga, bad.How, detail), wit)
	}

	if live {
		up, hs, out := startLive(srv, port, nonce, probeGid)
		switch {
		case up:
			// what does the running server answer for the declared routes?
			answers := map[string]string{}
			client := &http.Client{}
			for gi := range groups {
				for _, rt := range groups[gi].Routes {
					fp := finalPattern(&groups[gi], rt)
					if !validMethods[rt.Method] || !strings.HasPrefix(fp, "/") || rt.Method == "HEAD" {
						continue
					}
					req, err := http.NewRequest(rt.Method, fmt.Sprintf("http://127.0.0.1:%d%s", port, strings.ReplaceAll(fp, ":", "v-")), nil)
					if err != nil {
						continue
					}
					if resp, err := client.Do(req); err == nil {
						b, _ := io.ReadAll(resp.Body)
						resp.Body.Close()
						answers[rt.Method+" "+fp] = fmt.Sprintf("%d %s", resp.StatusCode, strings.TrimSpace(string(b)))
					}
				}
			}
			client.CloseIdleConnections()
			if hs != nil {
				hs.Close()
			}
			accepted("the server listens and answers requests", map[string]any{"answers": answers})
			sig("accepted")
		case out.Kind == "rejected":
			c.Obs("reject_illegal_tables_rejected_"+bad.Kind, 1)
			c.Obs("reject_live_start_ended_with_route_error", 1)
			sig("rejected")
		case out.Kind == "listen-failed":
			c.Inconclusive("rest.Server could not bind its port: " + out.Err)
		case out.Kind == "crashed":
			c.Viol("C09/e2e-reject/crash-at-start", "rest.Server.Start died with a runtime error: "+out.Err, wit)
		default:
			c.Inconclusive("rest.Server.Start neither ended nor listened (" + out.Kind + ")")
		}
		return
	}

	out := startOnHeldPort(srv)
	wit["start"] = out
	switch out.Kind {
	case "listen-failed":
		if isBad {
			accepted("Start bound every route and went on to listen ("+out.Err+")", nil)
			sig("accepted")
			return
		}
		c.Obs("reject_legal_tables_reached_listen", 1)
		sig("accepted")
	case "rejected":
		if !isBad {
			c.Viol("C09/e2e-reject/legal-table-rejected", "rest.Server.Start rejected a legal route table: "+out.Err, wit)
			sig("rejected")
			return
		}
		c.Obs("reject_illegal_tables_rejected_"+bad.Kind, 1)
		c.Obs("reject_bad_route_"+bad.Position, 1)
		c.Obs("reject_bad_group_"+bad.GroupPos, 1)
		if bad.GoodAfter {
			c.Obs("reject_bad_route_followed_by_good_route_in_group", 1)
		}
		if strings.HasPrefix(bad.How, "duplicate across groups") {
			c.Obs("reject_duplicate_across_prefixes", 1)
		}
		sig("rejected")
	case "crashed":
		c.Viol("C09/e2e-reject/crash-at-start", "rest.Server.Start died with a runtime error: "+out.Err, wit)
	default:
		c.Inconclusive("rest.Server.Start on an occupied port did not end (" + out.Kind + ")")
	}
}
