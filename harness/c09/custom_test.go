package c09

// custom-handlers: the 404/405 clause with custom handlers installed on the
// router (SetNotFoundHandler / SetNotAllowedHandler): the custom not-found
// handler must run exactly for the requests the reference matcher classifies as
// 404, the custom not-allowed handler exactly for those it classifies as 405,
// neither for a dispatched request; with only one of them installed the other
// class keeps the default answer (405 + Allow set / 404). The statement does not
// say who writes the Allow header once a custom not-allowed handler owns the
// response: whether it is present is counted, never judged.
//
// tree-direct: core/search.Tree driven directly with the inputs the router never
// hands to it (empty route, no leading slash, doubled slashes, nil items):
// nothing may panic; the statement says nothing else about them.

import (
	"fmt"
	"net/http"
	"net/http/httptest"
	"strings"

	"github.com/zeromicro/go-zero/core/search"
	"github.com/zeromicro/go-zero/rest/router"

	"verifharness/kit"
)

var customLits = []string{"a", "b", "users", "orders", "v1", "items", "x.y", "a-b", "A", "%41", "a:b", "*", "me"}
var sevenMethods = []string{"DELETE", "GET", "HEAD", "OPTIONS", "PATCH", "POST", "PUT"}

// genRandomLegalTable: a legal table inside the precondition (the variable at depth d is always :p<d>).
func genRandomLegalTable(r *kit.Rand, maxRoutes int) []route {
	m := newLegalModel()
	nr := r.Range(1, maxRoutes)
	nm := r.Range(1, 7)
	nl := r.Range(2, len(customLits))
	for i := 0; i < nr; i++ {
		depth := r.Range(0, 5)
		var sb strings.Builder
		for d := 0; d < depth; d++ {
			sb.WriteByte('/')
			if r.Chance(0.35) {
				fmt.Fprintf(&sb, ":p%d", d)
			} else {
				sb.WriteString(kit.Choose(r, customLits[:nl]))
			}
		}
		p := sb.String()
		if p == "" {
			p = "/"
		}
		if r.Chance(0.06) {
			p += "/"
		}
		meth := kit.Choose(r, sevenMethods[:nm])
		if m.classify(meth, p) != "" {
			continue
		}
		m.accept(meth, p, len(m.table))
	}
	return m.table
}

// requestPathFor derives a request path (as r.URL.Path) from the table, and the
// method of the route it was derived from ("" if none).
func requestPathFor(r *kit.Rand, table []route) (string, string) {
	if len(table) > 0 && r.Chance(0.75) {
		src := kit.Choose(r, table)
		segs := append([]string(nil), src.Segs...)
		for i, s := range segs {
			if strings.HasPrefix(s, ":") {
				segs[i] = kit.Choose(r, append([]string{"42", "zz", "a b", "ü", ":p0"}, customLits...))
			}
		}
		switch r.Pick(60, 10, 10, 10, 10) {
		case 1:
			segs[r.Intn(len(segs))] = kit.Choose(r, customLits)
		case 2:
			segs = append(segs, kit.Choose(r, customLits))
		case 3:
			if len(segs) > 1 {
				segs = segs[:len(segs)-1]
			}
		case 4:
			segs = append(segs, "..", kit.Choose(r, customLits))
		}
		p := "/" + strings.Join(segs, "/")
		if r.Chance(0.1) {
			p += "/"
		}
		if r.Chance(0.05) {
			p = strings.Replace(p, "/", "//", 1)
		}
		return p, src.Method
	}
	d := r.Range(0, 5)
	var sb strings.Builder
	for i := 0; i < d; i++ {
		sb.WriteByte('/')
		sb.WriteString(kit.Choose(r, customLits))
	}
	if sb.Len() == 0 {
		return kit.Choose(r, []string{"/", "", ".", "//"}), ""
	}
	return sb.String(), ""
}

func customHandlers(c *kit.Case) {
	r := c.R
	table := genRandomLegalTable(r, 30)
	mode := r.Pick(30, 30, 40) // 0: not-found only, 1: not-allowed only, 2: both
	nfInst, naInst := mode != 1, mode != 0
	rt := router.NewRouter()
	install := func() {
		if nfInst {
			rt.SetNotFoundHandler(echoHandler("notfound", -1, 404))
		}
		if naInst {
			rt.SetNotAllowedHandler(echoHandler("notallowed", -2, 405))
		}
	}
	installAt := r.Intn(len(table) + 1) // before, between or after the registrations
	nilAt := -1
	if r.Chance(0.3) {
		nilAt = r.Intn(len(table) + 1)
	}
	var regs []string
	tryNil := func() {
		// a nil handler: the statement is silent, only "no panic" is demanded
		func() {
			defer func() {
				if p := recover(); p != nil {
					c.Viol("C09/custom/panic/register-nil-handler", fmt.Sprintf("Handle(GET, /nilh/:x, nil) panicked: %v", p), map[string]any{"routes": regs})
				}
			}()
			if err := rt.Handle("GET", "/nilh/:x", nil); err != nil {
				c.Obs("custom_nil_handler_registration_error", 1)
			} else {
				c.Obs("custom_nil_handler_registration_accepted", 1)
			}
		}()
	}
	for i, x := range table {
		if i == installAt {
			install()
		}
		if i == nilAt {
			tryNil()
		}
		regs = append(regs, x.Method+" "+x.Pattern)
		if err := rt.Handle(x.Method, x.Pattern, echoHandler("route", x.ID, 200)); err != nil {
			c.Viol("C09/custom/registration-rejected", fmt.Sprintf("Handle(%s,%q) of a legal table was rejected: %v", x.Method, x.Pattern, err), map[string]any{"routes": regs})
			return
		}
	}
	if installAt == len(table) {
		install()
	}
	if nilAt == len(table) {
		tryNil()
	}
	tbl, gids := gidsOf(table)
	wit := map[string]any{"routes": regs, "handlers_installed_before_route": installAt}
	classes := map[string]int{}
	const nreq = 80
	for q := 0; q < nreq && !c.Violated(); q++ {
		p, hint := requestPathFor(r, tbl)
		if nilAt >= 0 && r.Chance(0.05) {
			p = "/nilh/1"
		}
		meth := kit.Choose(r, sevenMethods)
		if hint != "" && r.Chance(0.45) {
			meth = hint
		}
		if r.Chance(0.04) {
			meth = kit.Choose(r, []string{"TRACE", "CONNECT", "get"})
		}
		req := httptest.NewRequest("GET", "http://x/", nil)
		req.Method = meth
		req.URL.Path = p
		rec := httptest.NewRecorder()
		panicked := false
		func() {
			defer func() {
				if pv := recover(); pv != nil {
					panicked = true
					c.Viol("C09/custom/panic/serve", fmt.Sprintf("ServeHTTP(%s %q) panicked: %v", meth, p, pv), map[string]any{"routes": regs, "method": meth, "path": p})
				}
			}()
			rt.ServeHTTP(rec, req)
		}()
		if panicked {
			break
		}
		classes[judge(c, "custom", tbl, gids, meth, p, observed{Status: rec.Code, Allow: rec.Header().Get("Allow"), Body: rec.Body.Bytes()}, nfInst, naInst, wit)]++
	}
	c.Evals(nreq)
	c.Obs("custom_tables", 1)
	c.Sig(classes["405"] > 0 && classes["404"] > 0 && classes["dispatch-vars"] > 0, "custom", mode, installAt, strings.Join(regs, ";"))
	if c.Index < 2 {
		c.Sample("custom-handlers", 2, map[string]any{"routes": regs, "not_found_handler": nfInst, "not_allowed_handler": naInst, "request_classes": classes})
	}
}

func treeDirect(c *kit.Case) {
	r := c.R
	tr := search.NewTree()
	hostile := []string{"", "a", "a/b", "/", "//", "///a", "/a//b", "/a/b//", "//a", "/a/", "/:x", "/a/:", "/:/:", "/a/b/c", "/a/:x/c", "/:x/b", "/ /", "/a/./b", "/a/../b", ":", "/:x/:x"}
	var log []string
	for i, n := 0, r.Range(5, 30); i < n; i++ {
		rt := kit.Choose(r, hostile)
		var item any = i
		switch r.Pick(85, 10, 5) {
		case 1:
			item = nil
		case 2:
			item = http.Handler(nil) // what router.Handle passes for a nil handler
		}
		log = append(log, fmt.Sprintf("Add(%q,%v)", rt, item))
		func() {
			defer func() {
				if p := recover(); p != nil {
					c.Viol("C09/panic/tree-add", fmt.Sprintf("search.Tree.Add(%q) panicked: %v", rt, p), map[string]any{"calls": log})
				}
			}()
			err := tr.Add(rt, item)
			cl := "ok"
			if err != nil {
				cl = strings.Fields(err.Error())[0] + "_" + strings.Fields(err.Error())[1]
			}
			c.Obs("tree_add_"+cl, 1)
		}()
	}
	for i := 0; i < 40 && !c.Violated(); i++ {
		p := kit.Choose(r, hostile)
		if r.Chance(0.5) {
			p = "/" + strings.Join([]string{kit.Choose(r, []string{"a", "b", "", "x"}), kit.Choose(r, []string{"b", "", "c"}), kit.Choose(r, []string{"c", ""})}[:r.Range(1, 3)], "/")
		}
		log = append(log, fmt.Sprintf("Search(%q)", p))
		func() {
			defer func() {
				if pv := recover(); pv != nil {
					c.Viol("C09/panic/tree-search", fmt.Sprintf("search.Tree.Search(%q) panicked: %v", p, pv), map[string]any{"calls": log})
				}
			}()
			if _, ok := tr.Search(p); ok {
				c.Obs("tree_search_found", 1)
			} else {
				c.Obs("tree_search_notfound", 1)
			}
		}()
	}
	c.Evals(int64(len(log)))
	c.Sig(false, "tree-direct", strings.Join(log, ";"))
}
