package c09

// e2e-groups: route tables registered the way applications register them —
// in groups through rest.Server.AddRoutes with rest.WithPrefix, the same
// []rest.Route value mounted under several prefixes (shared handler sets under
// /v1 and /v2), fresh slices for others, an un-prefixed group — then real HTTP
// requests against the started server, compared with the reference matcher over
// the union table. A legal table must be accepted at registration / start.

import (
	"fmt"
	"io"
	"net"
	"net/http"
	"path"
	"sort"
	"strings"
	"time"

	"github.com/zeromicro/go-zero/core/logx"
	"github.com/zeromicro/go-zero/rest"
	"github.com/zeromicro/go-zero/rest/pathvar"

	"verifharness/kit"
)

type groupRoute struct {
	Method  string
	Pattern string
	Gid     int
}

func e2eGroups(c *kit.Case) {
	r := c.R
	logx.Disable()
	port := freePort()
	var conf rest.RestConf
	conf.Host = "127.0.0.1"
	conf.Port = port
	conf.Name = "verifc09g"
	conf.Log.Mode = "console"
	conf.Log.Level = "severe"
	conf.Timeout = 0
	srv, err := rest.NewServer(conf)
	if err != nil {
		c.Inconclusive("rest.NewServer: " + err.Error())
		return
	}
	logx.Disable()

	// candidate relative routes; variable names are fixed per position so that the
	// statement's precondition (one variable name per position under a prefix) holds
	pool := []groupRoute{
		{"GET", "/ping", 0}, {"GET", "/users/:id", 1}, {"POST", "/users/:id", 2}, {"GET", "/users/me", 3},
		{"GET", "/users/:id/orders/:oid", 4}, {"PUT", "/users/:id/orders/latest", 5}, {"GET", "/", 6}, {"DELETE", "/users/:id", 7},
	}
	mkHandler := func(gid int) http.HandlerFunc {
		return func(w http.ResponseWriter, req *http.Request) {
			vars := pathvar.Vars(req)
			keys := make([]string, 0, len(vars))
			for k := range vars {
				keys = append(keys, k)
			}
			sort.Strings(keys)
			var sb strings.Builder
			fmt.Fprintf(&sb, "h=%d", gid)
			for _, k := range keys {
				fmt.Fprintf(&sb, ";%s=%s", k, vars[k])
			}
			w.Write([]byte(sb.String()))
		}
	}
	pick := func() []groupRoute {
		n := r.Range(1, 5)
		perm := r.Perm(len(pool))
		var g []groupRoute
		for _, i := range perm[:n] {
			g = append(g, pool[i])
		}
		return g
	}
	toRest := func(g []groupRoute) []rest.Route {
		rs := make([]rest.Route, len(g))
		for i, gr := range g {
			rs[i] = rest.Route{Method: gr.Method, Path: gr.Pattern, Handler: mkHandler(gr.Gid)}
		}
		return rs
	}
	prefixes := []string{"/v1", "/v2", "/api/v1", "/api/v2/", "/x"}
	pperm := r.Perm(len(prefixes))
	np := r.Range(2, 4)
	var table []route // union table for the reference
	var gids []int    // table index -> handler gid
	var regs []string // witness
	addGroup := func(prefix string, g []groupRoute) {
		for _, gr := range g {
			pat := gr.Pattern
			if prefix != "" {
				pat = path.Join(prefix, gr.Pattern)
			}
			table = append(table, route{Method: gr.Method, Pattern: pat, Segs: splitClean(pat), ID: len(table)})
			gids = append(gids, gr.Gid)
		}
	}
	shared := pick()
	sharedRest := toRest(shared)
	reuse := r.Chance(0.7)
	for i := 0; i < np; i++ {
		prefix := prefixes[pperm[i]]
		var g []groupRoute
		var rs []rest.Route
		switch {
		case i < 2 && reuse:
			g, rs = shared, sharedRest // the very same slice value mounted under two prefixes
			c.Obs("e2e_groups_same_slice_mounted_again", int64(i))
		case i < 2:
			g, rs = shared, toRest(shared)
		default:
			g = pick()
			rs = toRest(g)
		}
		srv.AddRoutes(rs, rest.WithPrefix(prefix))
		addGroup(prefix, g)
		regs = append(regs, fmt.Sprintf("AddRoutes(%v, WithPrefix(%q)) sameSlice=%v", g, prefix, i < 2 && reuse))
	}
	if r.Chance(0.5) {
		g := []groupRoute{{"GET", "/health", 8}, {"GET", "/:top", 9}}
		srv.AddRoutes(toRest(g))
		addGroup("", g)
		regs = append(regs, fmt.Sprintf("AddRoutes(%v)", g))
	}

	startErr := make(chan any, 1)
	go func() {
		defer func() {
			if p := recover(); p != nil {
				startErr <- p
			}
		}()
		srv.Start()
	}()
	defer srv.Stop()
	up := false
	for i := 0; i < 600 && !up; i++ {
		select {
		case p := <-startErr:
			if msg := fmt.Sprint(p); strings.Contains(msg, "address already in use") || strings.Contains(msg, "bind:") || strings.Contains(msg, "listen tcp") {
				// the port found free a moment ago was taken by another process: infrastructure, not a verdict
				c.Inconclusive("rest.Server could not bind its port: " + msg)
				return
			}
			c.Viol("C09/e2e-groups/legal-table-rejected-at-start", fmt.Sprintf("rest.Server.Start panicked for a legal route table: %v", p),
				map[string]any{"registrations": regs, "panic": fmt.Sprint(p)})
			c.Sig(true, "e2e-groups-rejected", c.Index)
			return
		default:
		}
		conn, err := net.DialTimeout("tcp", fmt.Sprintf("127.0.0.1:%d", port), 50*time.Millisecond)
		if err == nil {
			conn.Close()
			up = true
			break
		}
		time.Sleep(10 * time.Millisecond)
	}
	if !up {
		c.Inconclusive("rest.Server did not start listening")
		return
	}
	base := fmt.Sprintf("http://127.0.0.1:%d", port)
	client := &http.Client{Timeout: 20 * time.Second}
	rel := []string{"/ping", "/users/7", "/users/me", "/users/7/orders/9", "/users/7/orders/latest", "/", "", "/users", "/nothing", "/health"}
	var paths []string
	for i := 0; i < np; i++ {
		for _, p := range rel {
			paths = append(paths, strings.TrimSuffix(prefixes[pperm[i]], "/")+p)
		}
	}
	// also the paths a prefix-mangling registration would create, and un-prefixed ones
	paths = append(paths, rel...)
	paths = append(paths, path.Join(prefixes[pperm[1]], prefixes[pperm[0]], "ping"), path.Join(prefixes[pperm[1]], prefixes[pperm[0]], "users/9"))
	n := 60
	for q := 0; q < n; q++ {
		m := kit.Choose(r, []string{"GET", "POST", "PUT", "DELETE"})
		p := kit.Choose(r, paths)
		if p == "" {
			p = "/"
		}
		req, _ := http.NewRequest(m, base+p, nil)
		resp, err := client.Do(req)
		if err != nil {
			c.Inconclusive("e2e-groups request failed: " + err.Error())
			return
		}
		body, _ := io.ReadAll(resp.Body)
		resp.Body.Close()
		exp := reference(table, m, p)
		w := map[string]any{"registrations": regs, "method": m, "path": p, "status": resp.StatusCode, "body": string(body), "expected": exp}
		switch exp.Status {
		case 200:
			keys := make([]string, 0, len(exp.Vars))
			for k := range exp.Vars {
				keys = append(keys, k)
			}
			sort.Strings(keys)
			want := fmt.Sprintf("h=%d", gids[exp.Route])
			for _, k := range keys {
				want += ";" + k + "=" + exp.Vars[k]
			}
			if resp.StatusCode != 200 || string(body) != want {
				c.Viol("C09/e2e-groups/wrong-dispatch", fmt.Sprintf("%s %s through rest.Server (prefixed groups): got %d %q, expected %q", m, p, resp.StatusCode, body, want), w)
			}
		default:
			if resp.StatusCode != exp.Status {
				c.Viol(fmt.Sprintf("C09/e2e-groups/expected-%d", exp.Status), fmt.Sprintf("%s %s through rest.Server (prefixed groups): status %d", m, p, resp.StatusCode), w)
			}
		}
		c.Obs("e2e_groups_requests", 1)
	}
	c.Evals(int64(n))
	c.Sig(true, "e2e-groups", c.Index)
}
