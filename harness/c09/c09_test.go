// Package c09: HTTP router vs. a reference matcher (DESIGN.md §4 C09).
package c09

import (
	"fmt"
	"io"
	"net"
	"net/http"
	"net/http/httptest"
	"path"
	"sort"
	"strings"
	"testing"
	"time"

	"github.com/zeromicro/go-zero/core/logx"
	"github.com/zeromicro/go-zero/rest"
	"github.com/zeromicro/go-zero/rest/httpx"
	"github.com/zeromicro/go-zero/rest/pathvar"
	"github.com/zeromicro/go-zero/rest/router"

	"verifharness/kit"
)

type route struct {
	Method  string
	Pattern string   // as registered
	Segs    []string // cleaned, split
	ID      int
}

func splitClean(p string) []string {
	c := path.Clean(p)
	return strings.Split(c[1:], "/") // "/" -> [""]
}

var validMethods = map[string]bool{"DELETE": true, "GET": true, "HEAD": true, "OPTIONS": true, "PATCH": true, "POST": true, "PUT": true}

// ---- reference

func matches(segs []string, req []string) (map[string]string, bool) {
	if len(segs) != len(req) {
		return nil, false
	}
	vars := map[string]string{}
	for i, s := range segs {
		if strings.HasPrefix(s, ":") {
			vars[s[1:]] = req[i]
		} else if s != req[i] {
			return nil, false
		}
	}
	return vars, true
}

// better reports whether a is preferred over b: literal before variable at the first differing segment.
func better(a, b []string) bool {
	for i := range a {
		if a[i] == b[i] {
			continue
		}
		av, bv := strings.HasPrefix(a[i], ":"), strings.HasPrefix(b[i], ":")
		if av != bv {
			return !av
		}
		return false // two different variables / two different literals cannot both match
	}
	return false
}

type expect struct {
	Status int
	Route  int // id, -1 none
	Vars   map[string]string
	Allow  []string
}

func reference(routes []route, method, urlPath string) expect {
	cp := path.Clean(urlPath)
	if len(cp) == 0 || cp[0] != '/' {
		return expect{Status: 404, Route: -1}
	}
	req := strings.Split(cp[1:], "/")
	best := -1
	var bestVars map[string]string
	allow := map[string]bool{}
	for i, r := range routes {
		v, ok := matches(r.Segs, req)
		if !ok {
			continue
		}
		if r.Method != method {
			allow[r.Method] = true
			continue
		}
		if best < 0 || better(r.Segs, routes[best].Segs) {
			best, bestVars = i, v
		}
	}
	if best >= 0 {
		return expect{Status: 200, Route: routes[best].ID, Vars: bestVars}
	}
	if len(allow) > 0 {
		var a []string
		for m := range allow {
			a = append(a, m)
		}
		sort.Strings(a)
		return expect{Status: 405, Route: -1, Allow: a}
	}
	return expect{Status: 404, Route: -1}
}

// ---- precondition: one variable name per position under a given prefix (per method tree)

func preconditionHolds(routes []route) bool {
	type k struct{ m, prefix string }
	names := map[k]string{}
	for _, r := range routes {
		seen := map[string]bool{}
		for i, s := range r.Segs {
			if !strings.HasPrefix(s, ":") {
				continue
			}
			if len(s) == 1 {
				return false // empty variable name
			}
			seen[s] = true
			key := k{r.Method, strings.Join(r.Segs[:i], "/")}
			if old, ok := names[key]; ok && old != s {
				return false
			}
			names[key] = s
		}
	}
	return true
}

// ---- run one table

type got struct {
	route int
	vars  map[string]string
}

func buildRouter(c *kit.Case, regs []route, strict bool) (httpx.Router, []route, *got) {
	rt := router.NewRouter()
	g := &got{route: -1}
	var accepted []route
	seen := map[string]bool{}
	for i := range regs {
		r := regs[i]
		id := r.ID
		err := func() (err error) {
			defer func() {
				if p := recover(); p != nil {
					c.Viol("C09/panic/register", fmt.Sprintf("Handle(%s,%q) panicked: %v", r.Method, r.Pattern, p), map[string]any{"routes": regs})
					err = fmt.Errorf("panic")
				}
			}()
			return rt.Handle(r.Method, r.Pattern, http.HandlerFunc(func(w http.ResponseWriter, req *http.Request) {
				g.route = id
				g.vars = pathvar.Vars(req)
				w.WriteHeader(200)
			}))
		}()
		wantErr := ""
		switch {
		case !validMethods[r.Method]:
			wantErr = "invalid-method"
		case len(r.Pattern) == 0 || r.Pattern[0] != '/':
			wantErr = "invalid-path"
		case seen[r.Method+" "+path.Clean(r.Pattern)]:
			wantErr = "duplicate"
		}
		if strict {
			if wantErr != "" && err == nil {
				c.Viol("C09/registration-accepted/"+wantErr, fmt.Sprintf("Handle(%s,%q) must be rejected (%s) but was accepted", r.Method, r.Pattern, wantErr), map[string]any{"routes": regs})
			}
			if wantErr == "" && err != nil {
				c.Viol("C09/registration-rejected", fmt.Sprintf("Handle(%s,%q) was rejected: %v", r.Method, r.Pattern, err), map[string]any{"routes": regs})
			}
			if wantErr != "" {
				c.Obs("registrations_rejected_"+wantErr, 1)
			}
		}
		if err == nil && wantErr == "" {
			seen[r.Method+" "+path.Clean(r.Pattern)] = true
			r.Segs = splitClean(r.Pattern)
			accepted = append(accepted, r)
		}
	}
	return rt, accepted, g
}

// dupVarRoute: the chosen route uses one variable name at two positions; which of the two
// bound segments the handler sees is not fixed by the statement, so vars are not compared.
func dupVarRoute(routes []route, id int) bool {
	for _, r := range routes {
		if r.ID != id {
			continue
		}
		seen := map[string]bool{}
		for _, s := range r.Segs {
			if strings.HasPrefix(s, ":") {
				if seen[s] {
					return true
				}
				seen[s] = true
			}
		}
	}
	return false
}

func sameVars(a, b map[string]string) bool {
	if len(a) != len(b) {
		return false
	}
	for k, v := range a {
		if bv, ok := b[k]; !ok || bv != v {
			return false
		}
	}
	return true
}

func checkRequest(c *kit.Case, rt httpx.Router, routes []route, g *got, method, urlPath string, strict bool, regs []route) string {
	req := httptest.NewRequest("GET", "http://x/", nil)
	req.Method = method
	req.URL.Path = urlPath
	rec := httptest.NewRecorder()
	g.route, g.vars = -1, nil
	panicked := false
	func() {
		defer func() {
			if p := recover(); p != nil {
				panicked = true
				c.Viol("C09/panic/serve", fmt.Sprintf("ServeHTTP(%s %q) panicked: %v", method, urlPath, p), map[string]any{"routes": regs, "method": method, "path": urlPath})
			}
		}()
		rt.ServeHTTP(rec, req)
	}()
	if panicked || !strict {
		return "nostrict"
	}
	exp := reference(routes, method, urlPath)
	w := map[string]any{"routes": regs, "method": method, "path": urlPath, "expected": exp,
		"got": map[string]any{"status": rec.Code, "route": g.route, "vars": g.vars, "allow": rec.Header().Get("Allow")}}
	switch exp.Status {
	case 200:
		if g.route < 0 {
			c.Viol(fmt.Sprintf("C09/not-dispatched/status-%d", rec.Code), fmt.Sprintf("%s %q matches route %d but no handler ran (status %d)", method, urlPath, exp.Route, rec.Code), w)
		} else if g.route != exp.Route {
			c.Viol("C09/wrong-route", fmt.Sprintf("%s %q dispatched to route %d, expected %d", method, urlPath, g.route, exp.Route), w)
		} else if !dupVarRoute(routes, exp.Route) && !sameVars(g.vars, exp.Vars) {
			c.Viol("C09/wrong-vars", fmt.Sprintf("%s %q: handler saw vars %v, expected %v", method, urlPath, g.vars, exp.Vars), w)
		}
		if len(exp.Vars) > 0 {
			return "dispatch-vars"
		}
		return "dispatch"
	case 405:
		if g.route >= 0 {
			c.Viol("C09/dispatched-without-match", fmt.Sprintf("%s %q has no matching route for this method but handler %d ran", method, urlPath, g.route), w)
		} else if rec.Code != 405 {
			c.Viol(fmt.Sprintf("C09/expected-405/got-%d", rec.Code), fmt.Sprintf("%s %q: other methods match, expected 405, got %d", method, urlPath, rec.Code), w)
		} else {
			var gotAllow []string
			for _, a := range strings.Split(rec.Header().Get("Allow"), ",") {
				if a = strings.TrimSpace(a); a != "" {
					gotAllow = append(gotAllow, a)
				}
			}
			sort.Strings(gotAllow)
			if strings.Join(gotAllow, ",") != strings.Join(exp.Allow, ",") {
				c.Viol("C09/wrong-allow", fmt.Sprintf("%s %q: Allow=%v expected %v", method, urlPath, gotAllow, exp.Allow), w)
			}
		}
		return "405"
	default:
		if g.route >= 0 {
			c.Viol("C09/dispatched-without-match", fmt.Sprintf("%s %q matches nothing but handler %d ran", method, urlPath, g.route), w)
		} else if rec.Code != 404 {
			c.Viol(fmt.Sprintf("C09/expected-404/got-%d", rec.Code), fmt.Sprintf("%s %q: nothing matches, expected 404, got %d", method, urlPath, rec.Code), w)
		}
		return "404"
	}
}

// ---- generators

func exhaustivePatterns(depth int) []string {
	segs := []string{"a", "b", ":x"}
	var out []string
	out = append(out, "/")
	var rec func(prefix string, d int)
	rec = func(prefix string, d int) {
		if d == 0 {
			return
		}
		for _, s := range segs {
			p := prefix + "/" + s
			out = append(out, p)
			rec(p, d-1)
		}
	}
	rec("", depth)
	return out
}

func exhaustivePaths(depth int) []string {
	segs := []string{"a", "b", "c"}
	var out []string
	out = append(out, "/", "", "a", "//", "/./", "/../", "/a/", "/a//b", "/a/./b", "/a/../b", "/a/b/..", "//a", "/a/b/", "/:x", "/a/:x")
	var rec func(prefix string, d int)
	rec = func(prefix string, d int) {
		if d == 0 {
			return
		}
		for _, s := range segs {
			p := prefix + "/" + s
			out = append(out, p)
			rec(p, d-1)
		}
	}
	rec("", depth)
	return out
}

func TestVerifC09(t *testing.T) {
	logx.Disable()
	pats := exhaustivePatterns(3) // 1 + 3 + 9 + 27 = 40 patterns
	type mp struct{ m, p string }
	var alphabet []mp
	for _, m := range []string{"GET", "POST"} {
		for _, p := range pats {
			alphabet = append(alphabet, mp{m, p})
		}
	}
	paths := exhaustivePaths(kit.N(3, 4))
	reqMethods := []string{"GET", "POST", "PUT"}

	// ---- bounded-exhaustive: all route sets of size <= K over the alphabet (as combinations), all requests.
	// K=2 completely; K=3 (quick: sampled by stride, thorough: completely)
	n := len(alphabet)
	var tables [][]int
	for i := 0; i < n; i++ {
		tables = append(tables, []int{i})
		for j := i + 1; j < n; j++ {
			tables = append(tables, []int{i, j})
		}
	}
	stride := kit.N(23, 1)
	cnt := 0
	for i := 0; i < n; i++ {
		for j := i + 1; j < n; j++ {
			for k := j + 1; k < n; k++ {
				if cnt%stride == 0 {
					tables = append(tables, []int{i, j, k})
				}
				cnt++
			}
		}
	}
	const batch = 200
	kit.Run(t, "C09", "exhaustive", (len(tables)+batch-1)/batch, func(c *kit.Case) {
		lo, hi := c.Index*batch, (c.Index+1)*batch
		if hi > len(tables) {
			hi = len(tables)
		}
		for ti := lo; ti < hi && !c.Violated(); ti++ {
			var regs []route
			for id, ai := range tables[ti] {
				regs = append(regs, route{Method: alphabet[ai].m, Pattern: alphabet[ai].p, ID: id})
			}
			for i := range regs {
				regs[i].Segs = splitClean(regs[i].Pattern)
			}
			strict := preconditionHolds(regs)
			rt, acc, g := buildRouter(c, regs, strict)
			classes := map[string]int{}
			for _, m := range reqMethods {
				for _, p := range paths {
					classes[checkRequest(c, rt, acc, g, m, p, strict, regs)]++
					c.Evals(1)
				}
			}
			for k, v := range classes {
				c.Obs("requests_"+k, int64(v))
			}
			c.Obs("tables", 1)
			// signature: the table; non-trivial iff a literal and a variable route compete at some depth for the same method
			nontrivial := false
			for i := range regs {
				for j := range regs {
					if i != j && regs[i].Method == regs[j].Method && len(regs[i].Segs) == len(regs[j].Segs) && better(regs[i].Segs, regs[j].Segs) {
						nontrivial = true
					}
				}
			}
			sig := []any{}
			for _, r := range regs {
				sig = append(sig, r.Method, r.Pattern)
			}
			c.Sig(nontrivial, sig...)
			if ti == lo && c.Index%50 == 0 {
				c.Sample("exhaustive", 2, map[string]any{"routes": regs, "request_methods": reqMethods, "paths": len(paths)})
			}
		}
	})

	// ---- random larger tables
	litPool := []string{"a", "b", "users", "orders", "v1", "v2", "items", "x.y", "a-b", "A", "%41", "a:b", "*"}
	varAt := func(depth int) string { return fmt.Sprintf(":p%d", depth) }
	allMethods := []string{"DELETE", "GET", "HEAD", "OPTIONS", "PATCH", "POST", "PUT"}
	kit.Run(t, "C09", "random", kit.N(1500, 60000), func(c *kit.Case) {
		r := c.R
		nr := r.Range(1, 40)
		violatePre := r.Chance(0.15)
		var regs []route
		for i := 0; i < nr; i++ {
			depth := r.Range(0, 6)
			var sb strings.Builder
			for d := 0; d < depth; d++ {
				sb.WriteByte('/')
				if r.Chance(0.35) {
					if violatePre && r.Chance(0.3) {
						sb.WriteString(kit.Choose(r, []string{":id", ":name", ":"}))
					} else {
						sb.WriteString(varAt(d))
					}
				} else {
					sb.WriteString(kit.Choose(r, litPool[:r.Range(2, len(litPool))]))
				}
			}
			p := sb.String()
			if p == "" {
				p = "/"
			}
			switch r.Pick(85, 5, 4, 3, 3) {
			case 1:
				p += "/"
			case 2:
				p = strings.Replace(p, "/", "//", 1)
			case 3:
				p = strings.TrimPrefix(p, "/")
			case 4:
				p = p + "/./" + kit.Choose(r, litPool)
			}
			m := kit.Choose(r, allMethods[:r.Range(1, 7)])
			if r.Chance(0.03) {
				m = kit.Choose(r, []string{"TRACE", "CONNECT", "get", "", "FOO"})
			}
			regs = append(regs, route{Method: m, Pattern: p, ID: i})
		}
		for i := range regs {
			if len(regs[i].Pattern) > 0 && regs[i].Pattern[0] == '/' {
				regs[i].Segs = splitClean(regs[i].Pattern)
			}
		}
		var pre []route
		for _, x := range regs {
			if validMethods[x.Method] && len(x.Pattern) > 0 && x.Pattern[0] == '/' {
				pre = append(pre, x)
			}
		}
		strict := preconditionHolds(pre)
		rt, acc, g := buildRouter(c, regs, strict)
		classes := map[string]int{}
		nreq := 60
		for q := 0; q < nreq && !c.Violated(); q++ {
			var p string
			if len(acc) > 0 && r.Chance(0.7) {
				// derive from a registered route: fill variables, maybe perturb
				src := kit.Choose(r, acc)
				segs := append([]string(nil), src.Segs...)
				for i, s := range segs {
					if strings.HasPrefix(s, ":") {
						segs[i] = kit.Choose(r, append([]string{"42", "zz", "a b", "ü"}, litPool...))
					}
				}
				switch r.Pick(60, 10, 10, 10, 10) {
				case 1:
					if len(segs) > 0 {
						segs[r.Intn(len(segs))] = kit.Choose(r, litPool)
					}
				case 2:
					segs = append(segs, kit.Choose(r, litPool))
				case 3:
					if len(segs) > 1 {
						segs = segs[:len(segs)-1]
					}
				case 4:
					segs = append(segs, "..", kit.Choose(r, litPool))
				}
				p = "/" + strings.Join(segs, "/")
				if r.Chance(0.1) {
					p += "/"
				}
				if r.Chance(0.05) {
					p = strings.Replace(p, "/", "//", 1)
				}
			} else {
				d := r.Range(0, 6)
				var sb strings.Builder
				for i := 0; i < d; i++ {
					sb.WriteByte('/')
					sb.WriteString(kit.Choose(r, litPool))
				}
				p = sb.String()
				if p == "" {
					p = kit.Choose(r, []string{"/", "", ".", "//"})
				}
			}
			m := kit.Choose(r, allMethods)
			if r.Chance(0.05) {
				m = kit.Choose(r, []string{"TRACE", "CONNECT", "get"})
			}
			classes[checkRequest(c, rt, acc, g, m, p, strict, regs)]++
		}
		c.Evals(int64(nreq))
		for k, v := range classes {
			c.Obs("requests_"+k, int64(v))
		}
		c.Obs("tables", 1)
		if !strict {
			c.Obs("tables_outside_precondition_no_panic_only", 1)
		}
		sig := []any{"rnd"}
		for _, x := range regs {
			sig = append(sig, x.Method, x.Pattern)
		}
		c.Sig(strict && classes["dispatch-vars"] > 0 && classes["405"] > 0, sig...)
		if c.Index < 2 {
			c.Sample("random", 2, map[string]any{"routes": regs, "precondition_holds": strict, "request_classes": classes})
		}
	})

	// ---- end to end through rest.Server (sample)
	kit.Run(t, "C09", "e2e", kit.N(2, 20), func(c *kit.Case) { e2e(c) })
	kit.Run(t, "C09", "e2e-groups", kit.N(16, 120), func(c *kit.Case) { e2eGroups(c) })

	// ---- wider public surface (see the file comments): illegal tables through rest.Server,
	// custom 404/405 handlers, server/route options, escaped request targets, the tree's own API
	kit.Run(t, "C09", "e2e-reject", kit.N(400, 6000), func(c *kit.Case) { e2eReject(c) })
	kit.Run(t, "C09", "custom-handlers", kit.N(600, 20000), func(c *kit.Case) { customHandlers(c) })
	kit.Run(t, "C09", "tree-direct", kit.N(200, 4000), func(c *kit.Case) { treeDirect(c) })
	kit.Run(t, "C09", "server-options", kit.N(240, 4000), func(c *kit.Case) { serverOptions(c) })
	kit.Run(t, "C09", "e2e-escaped", kit.N(16, 120), func(c *kit.Case) { e2eEscaped(c) })
	// registrations interleaved with requests (nothing remembered from earlier lookups may survive a later registration)
	kit.Run(t, "C09", "incremental", kit.N(600, 20000), func(c *kit.Case) { incremental(c, pats, paths) })
	kit.End()
}

func freePort() int {
	l, err := net.Listen("tcp", "127.0.0.1:0")
	if err != nil {
		panic(err)
	}
	defer l.Close()
	return l.Addr().(*net.TCPAddr).Port
}

func e2e(c *kit.Case) {
	r := c.R
	port := freePort()
	var conf rest.RestConf
	conf.Host = "127.0.0.1"
	conf.Port = port
	conf.Name = "verifc09"
	conf.Log.Mode = "console"
	conf.Log.Level = "severe"
	conf.Timeout = 0
	srv, err := rest.NewServer(conf)
	if err != nil {
		c.Inconclusive("rest.NewServer: " + err.Error())
		return
	}
	logx.Disable()
	table := []route{
		{Method: "GET", Pattern: "/users/:id"}, {Method: "GET", Pattern: "/users/me"}, {Method: "POST", Pattern: "/users/:id"},
		{Method: "GET", Pattern: "/users/:id/orders/:oid"}, {Method: "GET", Pattern: "/"}, {Method: "PUT", Pattern: "/users/:id/orders/latest"},
		{Method: "GET", Pattern: "/users/:id/orders/latest"},
	}
	for i := range table {
		table[i].ID = i
		table[i].Segs = splitClean(table[i].Pattern)
		id := i
		srv.AddRoute(rest.Route{Method: table[i].Method, Path: table[i].Pattern, Handler: func(w http.ResponseWriter, req *http.Request) {
			vars := pathvar.Vars(req)
			keys := make([]string, 0, len(vars))
			for k := range vars {
				keys = append(keys, k)
			}
			sort.Strings(keys)
			var sb strings.Builder
			fmt.Fprintf(&sb, "route=%d", id)
			for _, k := range keys {
				fmt.Fprintf(&sb, ";%s=%s", k, vars[k])
			}
			w.Write([]byte(sb.String()))
		}})
	}
	startPanic := make(chan any, 1)
	go func() {
		defer func() {
			if p := recover(); p != nil {
				startPanic <- p
			}
		}()
		srv.Start()
	}()
	defer srv.Stop()
	base := fmt.Sprintf("http://127.0.0.1:%d", port)
	up := false
	for i := 0; i < 400; i++ {
		conn, err := net.DialTimeout("tcp", fmt.Sprintf("127.0.0.1:%d", port), 50*time.Millisecond)
		if err == nil {
			conn.Close()
			up = true
			break
		}
		time.Sleep(10 * time.Millisecond)
	}
	if !up {
		select {
		case p := <-startPanic:
			c.Inconclusive(fmt.Sprintf("rest.Server could not start (port taken?): %v", p))
		default:
			c.Inconclusive("rest.Server did not start listening")
		}
		return
	}
	client := &http.Client{Timeout: 20 * time.Second}
	paths := []string{"/", "/users/7", "/users/me", "/users/me/", "/users/7/orders/9", "/users/7/orders/latest", "/users/me/orders/latest", "/users", "/users/7/orders", "/nothing", "/users/7/orders/9/x"}
	for q := 0; q < 40; q++ {
		m := kit.Choose(r, []string{"GET", "POST", "PUT", "DELETE"})
		p := kit.Choose(r, paths)
		req, _ := http.NewRequest(m, base+p, nil)
		resp, err := client.Do(req)
		if err != nil {
			c.Inconclusive("e2e request failed: " + err.Error())
			return
		}
		body, _ := io.ReadAll(resp.Body)
		resp.Body.Close()
		exp := reference(table, m, p)
		w := map[string]any{"method": m, "path": p, "status": resp.StatusCode, "body": string(body), "expected": exp}
		switch exp.Status {
		case 200:
			keys := make([]string, 0, len(exp.Vars))
			for k := range exp.Vars {
				keys = append(keys, k)
			}
			sort.Strings(keys)
			want := fmt.Sprintf("route=%d", exp.Route)
			for _, k := range keys {
				want += ";" + k + "=" + exp.Vars[k]
			}
			if resp.StatusCode != 200 || string(body) != want {
				c.Viol("C09/e2e/wrong-dispatch", fmt.Sprintf("%s %s through rest.Server: got %d %q, expected %q", m, p, resp.StatusCode, body, want), w)
			}
		default:
			if resp.StatusCode != exp.Status {
				c.Viol(fmt.Sprintf("C09/e2e/expected-%d", exp.Status), fmt.Sprintf("%s %s through rest.Server: status %d", m, p, resp.StatusCode), w)
			}
		}
		c.Obs("e2e_requests", 1)
	}
	c.Evals(40)
	c.Sig(true, "e2e", c.Index)
}
