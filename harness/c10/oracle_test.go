package c10

// oracle_test.go: what the statement demands of one finished run.
//
// Clean run (nothing was cancelled, nothing panicked, the context did not end):
// exact — every item mapped once, every written value reduced once, the
// reducer's single output (or ErrReduceNoOutput) returned, mapper gauge <= cap.
// Faulted run: only necessary conditions — the outcome must be an error really
// passed to cancel in this run (ErrCancelWithNil for nil), a context error (only
// if the context of this run could have ended), a user panic raised in this run,
// or a success that is still possible given the logical stamps (see S1-S3).

import (
	"encoding/json"
	"errors"
	"fmt"
	"strings"
	"sync/atomic"

	"github.com/zeromicro/go-zero/core/mr"

	"verifharness/kit"
)

func (r *run) planString() string {
	b, _ := json.Marshal(r.p)
	return string(b)
}

func (r *run) events() map[string]any {
	ps := r.panicsCopy()
	var pv []map[string]any
	for _, p := range ps {
		pv = append(pv, map[string]any{"by": p.By, "stamp": p.Stamp, "n": p.Val.N})
	}
	mapped := make([]int32, len(r.mapped))
	for i := range mapped {
		mapped[i] = atomic.LoadInt32(&r.mapped[i])
	}
	return map[string]any{
		"cancel_calls": r.cancelsCopy(), "user_panics": pv, "reducer_writes": r.writesCopy(),
		"ctx_end_inv": r.ctxEndInv.Load(), "ctx_end_ret": r.ctxEndRet.Load(), "reducer_return_stamp": r.redRet.Load(),
		"mapped_per_item": mapped, "gauge_max": r.gauge.Max(), "fault_reached": r.faultHit.Load() == 1, "more_faults_reached": r.moreReachedList(), "ctx_trigger_reached": r.ctxHit.Load() == 1,
	}
}

func (r *run) moreReachedList() []bool {
	out := make([]bool, len(r.moreHit))
	for i := range r.moreHit {
		out[i] = r.moreHit[i].Load() == 1
	}
	return out
}

func (r *run) viol(key, what string, o outcome) {
	r.c.Viol(key, what, map[string]any{"plan": r.p, "outcome": o, "outcome_text": o.String(), "events": r.events()})
}

func (r *run) judge(o outcome, leakFree bool) {
	p := r.p
	cancels, panics, writes := r.cancelsCopy(), r.panicsCopy(), r.writesCopy()
	ctxInv, ctxRet := r.ctxEndInv.Load(), r.ctxEndRet.Load()
	timerCtx := p.Ctx == ctxDeadline || p.Ctx == ctxViaTimer
	ctxMayHaveEnded := timerCtx || (ctxInv != 0 && ctxInv < o.Ret)
	ctxEndedInRun := timerCtx || ctxInv != 0
	clean := len(cancels) == 0 && len(panics) == 0 && !ctxEndedInRun && p.Red != redTwice

	if r.strange.Load() != 0 {
		r.viol("C10/integrity/unknown-item-or-value", "a mapper or the reducer received an item/value that was never generated/written", o)
	}
	if clean && p.Park != nil && p.Park.Ending != eNone {
		// the planned ending never took place (the scenario was not reached): the generator of such a
		// plan may return without having emitted every item, so the exact rules do not apply
		r.c.Obs("genpark_ending_never_took_place", 1)
	} else if clean {
		r.c.Obs("clean_runs", 1)
		r.judgeClean(o)
		if p.Park != nil {
			r.judgeCleanPark(o)
		}
	} else {
		r.c.Obs("faulted_runs", 1)
		r.judgeFaulted(o, cancels, panics, writes, ctxMayHaveEnded, ctxEndedInRun, ctxRet)
	}

	// evidence: signature = plan + outcome class; non-trivial iff a fault/context end really happened
	// at its planned position, or a clean run had more items than mapper slots or a stalled function
	moreReached := 0
	for i := range r.moreHit {
		if r.moreHit[i].Load() == 1 {
			moreReached++
			f := p.More[i]
			r.c.Obs("more_fault_reached_"+strings.ReplaceAll(f.Kind, " ", "_")+"_"+f.At.Role, 1)
		}
	}
	if moreReached > 0 && r.faultHit.Load() == 1 {
		r.c.Obs("runs_with_two_or_more_planned_faults_reached", 1)
	}
	if n := distinctDynTypes(cancels); n > 1 {
		r.c.Obs("runs_with_cancel_errors_of_distinct_dynamic_types", 1)
	}
	if len(panics) > 1 {
		r.c.Obs("runs_with_two_or_more_user_panics", 1)
	}
	nontrivial := r.faultHit.Load() == 1 || moreReached > 0 || r.cancelParked.Load() != 0 || r.ctxHit.Load() == 1 || p.ctxBeforeCall() ||
		(clean && p.Items > p.effWorkers()) || (timerCtx && isCtxErr(o.Err)) || r.parkNontrivial()
	r.c.Sig(nontrivial, p.API, p.Items, p.Workers, p.NoWorkers, p.Fan, p.Red, p.Kind, p.At, p.Then, p.Ctx, p.CtxPos,
		p.SecondKind, p.SecondAt, p.Inflight, o.Kind, leakFree, p.Errs, p.PanicVal, p.More, r.parkSig())
	r.c.Obs("outcome_"+o.Kind, 1)
	if r.faultHit.Load() == 1 {
		r.c.Obs("fault_reached_"+strings.ReplaceAll(p.Kind, " ", "_")+"_"+p.At.Role, 1)
	}
	if nontrivial {
		r.c.Sample("nontrivial", 2, map[string]any{"plan": p, "outcome": o.String(), "leak_free": leakFree})
	} else {
		r.c.Sample("trivial", 1, map[string]any{"plan": p, "outcome": o.String(), "leak_free": leakFree})
	}
}

func (r *run) judgeClean(o outcome) {
	p := r.p
	// outcome
	switch p.API {
	case apiMR, apiChan:
		ws := r.writesCopy()
		if p.Red == redNever {
			if o.Kind != "error" || !errors.Is(o.Err, mr.ErrReduceNoOutput) {
				r.viol("C10/clean/outcome/no-output-expected", "clean run, reducer wrote nothing: expected ErrReduceNoOutput, got "+o.String(), o)
			}
		} else if o.Kind != "value" || len(ws) != 1 || ws[0].Val != o.Val {
			r.viol("C10/clean/outcome/reducer-output-expected", fmt.Sprintf("clean run: expected the reducer's single output %v, got %s", ws, o.String()), o)
		}
	default:
		if o.Kind != "nil" {
			r.viol("C10/clean/outcome/nil-expected", "clean run of "+p.API+": expected nil/normal return, got "+o.String(), o)
		}
	}
	// exactly-once mapping
	for i := 0; i < p.Items; i++ {
		switch n := atomic.LoadInt32(&r.mapped[i]); {
		case n == 0:
			r.viol("C10/clean/mapping/item-lost", fmt.Sprintf("clean run: item %d was never handed to the mapper", i), o)
			return
		case n > 1:
			r.viol("C10/clean/mapping/item-duplicated", fmt.Sprintf("clean run: item %d was handed to the mapper %d times", i, n), o)
			return
		}
	}
	r.c.Obs("items_mapped_exactly_once", int64(p.Items))
	// complete reduction
	if p.hasReducer() {
		for v := range r.written {
			w, g := atomic.LoadInt32(&r.written[v]), atomic.LoadInt32(&r.reduced[v])
			switch {
			case g < w:
				r.viol("C10/clean/reduction/value-lost", fmt.Sprintf("clean run: value %d written by a mapper never reached the reducer", v), o)
				return
			case g > w:
				r.viol("C10/clean/reduction/value-duplicated", fmt.Sprintf("clean run: value %d written %d time(s) reached the reducer %d times", v, w, g), o)
				return
			}
		}
		r.c.Obs("values_reduced_exactly_once", int64(p.totalValues()))
	}
	if p.Gauge {
		r.c.Obs("gauge_checked_runs", 1)
		if p.Items > p.effWorkers() {
			r.c.Obs("gauge_checked_runs_items_gt_workers", 1)
		}
		if m := r.gauge.Max(); m > int64(p.effWorkers()) {
			r.viol("C10/clean/concurrency-cap-exceeded", fmt.Sprintf("%d mappers ran concurrently, cap is %d", m, p.effWorkers()), o)
		} else if m == int64(p.effWorkers()) {
			r.c.Obs("gauge_reached_cap", 1)
		}
	}
}

// passedToCancel: the returned error is identical to a (non-nil) error that was
// handed to cancel - or returned by a Finish function - before the call returned.
func (r *run) passedToCancel(o outcome, cancels []cancelEv) bool {
	for _, c := range cancels {
		if c.err != nil && sameErr(c.err, o.Err) && c.Inv < o.Ret {
			r.c.Obs("cancel_error_returned", 1)
			r.c.Obs("cancel_error_returned_value_"+errClassOf(o.Err), 1)
			if n := distinctDynTypes(cancels); n > 1 {
				r.c.Obs("cancel_error_returned_of_several_dynamic_types_offered", 1)
			}
			if r.p.API == apiFinish && len(cancels) > 1 {
				r.c.Obs("finish_two_or_more_fns_failed_one_error_returned", 1)
			}
			if errors.Is(o.Err, mr.ErrReduceNoOutput) || errors.Is(o.Err, mr.ErrCancelWithNil) || isCtxErr(o.Err) {
				r.c.Obs("cancel_error_returned_wrapping_a_sentinel", 1)
			}
			return true
		}
	}
	return false
}

func (r *run) judgeFaulted(o outcome, cancels []cancelEv, panics []panicEv, writes []writeEv, ctxMayHaveEnded, ctxEndedInRun bool, ctxRet uint64) {
	p := r.p
	switch o.Kind {
	case "panic":
		// re-raised user panic: the recovered value is (identical to) a value a user function of this
		// run panicked with before the call returned
		for _, e := range panics {
			if sameVal(e.val, o.Panic) && e.Stamp < o.Ret {
				r.c.Obs("user_panic_reraised", 1)
				r.c.Obs("user_panic_reraised_value_"+panicClassOf(o.Panic), 1)
				if !p.hasReducer() {
					r.c.Obs("user_panic_reraised_by_api_without_reducer", 1)
				}
				if len(panics) > 1 {
					r.c.Obs("user_panic_reraised_one_of_several", 1)
				}
				return
			}
		}
		if _, ok := o.Panic.(userPanic); ok || panicClassOf(o.Panic) == "typed_nil_pointer" {
			r.viol("C10/outcome/foreign-user-panic", "re-raised a user panic value that was not raised in this run before the return: "+o.PanS, o)
			return
		}
		if p.Red == redTwice && o.PanS == "more than one element written in reducer" {
			r.c.Obs("documented_double_write_panic", 1)
			return
		}
		for _, e := range panics {
			if txt := fmt.Sprint(e.val); e.Stamp < o.Ret && len(txt) > 8 && strings.Contains(o.PanS, txt) {
				// the text of the recovered value contains the text of a value a user function of this run
				// panicked with, but it is not that value: it was altered on its way to the caller
				r.viol("C10/outcome/user-panic-value-altered/"+panicClassOf(e.val),
					fmt.Sprintf("the call panicked with a %T that mentions the user panic by %s but is not the value (%s) that function panicked with: %s", o.Panic, e.By, e.Dyn, o.PanS), o)
				return
			}
		}
		key := "C10/outcome/non-user-panic/" + kit.KeyPart(firstN(o.PanS, 40))
		if o.PanS == "send on closed channel" {
			key += "/" + r.closeRaceClass()
		}
		r.viol(key, "the call panicked with a value that no user function raised: "+o.PanS, o)
		return
	case "error":
		switch {
		case r.passedToCancel(o, cancels):
			// identical to an error handed to cancel in this run before the return: whatever that error
			// wraps or equals (a sentinel of core/mr, a context error), it is the caller's own
			return
		case isCtxErr(o.Err):
			if ctxMayHaveEnded {
				r.c.Obs("ctx_error_returned", 1)
				return
			}
			r.viol("C10/outcome/ctx-error-without-ctx-end", "context error returned although the context of this run had not ended before the return", o)
			return
		case errors.Is(o.Err, mr.ErrCancelWithNil):
			for _, c := range cancels {
				if c.err == nil && c.Inv < o.Ret {
					r.c.Obs("cancel_nil_error_returned", 1)
					return
				}
			}
			r.viol("C10/outcome/error-from-nowhere/ErrCancelWithNil", "ErrCancelWithNil returned but cancel(nil) was not called before the return", o)
			return
		case errors.Is(o.Err, mr.ErrReduceNoOutput) && (p.API == apiMR || p.API == apiChan):
			// success-like: handled below
		default:
			key := "C10/outcome/error-from-nowhere"
			for _, c := range cancels {
				if c.err != nil && c.Inv < o.Ret && errors.Is(o.Err, c.err) {
					key += "/wraps-an-error-passed-to-cancel" // errors.Is finds it inside, but it is a different value
					break
				}
			}
			r.viol(key, fmt.Sprintf("returned an error (%T) that was not passed to cancel in this run before the return: %s", o.Err, o.ErrS), o)
			return
		}
	}
	r.judgeSuccessDespiteFault(o, cancels, panics, writes, ctxEndedInRun, ctxRet)
}
