package c10

// genpark_test.go: families `genpark` and `genpark-clean` — a GENERATOR that is
// stalled when the call has to end.
//
// In every other family the user functions that stall are mappers and reducers.
// Here the generator, after having emitted k >= 0 items, is PARKED: either on a
// channel receive from an upstream the harness owns (a forwarding generator
// `for v := range in { source <- v }` whose producer is torn down after the
// consumer), or in the middle of producing (blocked in its own code, not in the
// send to the source channel). It is released by the harness only after the
// harness has observed that the call returned (causal release, DESIGN §3.5).
// While it is parked the call is ended abnormally — the context is cancelled /
// its deadline passes, a mapper cancels with an error / with nil, the reducer
// cancels, a mapper panics, the reducer panics — optionally with every worker
// slot taken by mappers that stay inside as well.
//
// Oracle. The statement says the call returns, without deadlocking, when a mapper
// or reducer cancels, the context ends or a user function panics; it does not
// condition that on the generator having finished. So:
//   - the call returns while the generator is still parked: fine (counted); the
//     generator is released, returns, and THEN the census must find no goroutine
//     of the call; the outcome rules are the ordinary ones (oracle_test.go);
//   - the call does not return: decided by STATE, not by elapsed time — the
//     labelled goroutines are identical in consecutive dumps, every core/mr
//     goroutine is parked in a channel/select/semaphore wait, the ending is in
//     effect, and the only user function the harness still holds is the
//     generator (mappers that stay inside are released first: a call may wait
//     for its mappers). Then the generator — nothing else — is released. If the
//     call returns now, it WAITED for the stalled generator. The run is repeated
//     with doubled patience (twice the spacing, twice the dumps); if it waits
//     again => violation C10/deadlock/call-waits-for-stalled-generator/<api>/<ending>/<situation>.
//     Exception: when a mapper or the reducer CANCELS, cancel() drains the generator before it
//     returns - upstream's documented behaviour, pinned by core/mr's own
//     TestMapReduceVoidCancelWithRemains (DESIGN §7.1): for the endings mapper-cancel-err,
//     mapper-cancel-nil and reducer-cancel the wait is only counted (genpark_waits_legit_cancel_drain).
//   - nothing ends the call abnormally (family genpark-clean): the call MUST wait
//     for the generator; a call that returned before the generator was released /
//     had returned violates "every generated item is handed to the mapper
//     exactly once" => C10/clean/returned-before-generator-finished/<api>.
//
// <situation> is measured, not planned: `generator-parked` (the ending takes
// place while the generator is parked) or `generator-parks-during-termination`
// (the ending comes first, the generator still has items to send and parks
// after them), and `worker-free` / `all-workers-busy` (at the moment of the
// ending every worker slot was taken by a mapper that stays inside until the
// harness releases it — counted by the mappers themselves).

import (
	"fmt"
	"sync/atomic"
	"time"

	"verifharness/kit"
)

const (
	shUpstream  = "receive-from-upstream" // for v := range upstream { source <- v }; the harness owns upstream
	shProducing = "producing"             // blocked in its own code between two sends
)

const (
	eNone         = "none"
	eCtxCancel    = "ctx-cancel"
	eCtxDeadline  = "ctx-deadline"
	eMapCancelErr = "mapper-cancel-err"
	eMapCancelNil = "mapper-cancel-nil"
	eRedCancel    = "reducer-cancel"
	eMapPanic     = "mapper-panic"
	eRedPanic     = "reducer-panic"
)

const (
	whenParked = "while-generator-parked"
	whenAtOnce = "at-once-generator-parks-later"
)

const holdOthers = "every-other-mapper-stays-inside"

const (
	sitFree  = "worker-free"
	sitBusy  = "all-workers-busy"
	sitLater = "all-workers-busy-generator-parks-later"
)

type parkPlan struct {
	After  int    `json:"after_items"`            // the generator parks after having emitted this many items
	Shape  string `json:"shape"`                  // where it is parked
	Then   string `json:"then"`                   // once released: return | continue (emit the remaining items) | panic
	Ending string `json:"ending"`                 // what ends the call
	EndAt  int    `json:"ending_at"`              // mapper item / reducer step performing the ending; -1: the harness (context) / nobody
	NilErr bool   `json:"cancel_nil,omitempty"`   // reducer-cancel: cancel(nil)
	When   string `json:"when"`                   // the ending waits for the generator to be parked, or not
	Hold   string `json:"held_mappers,omitempty"` // mappers other than the ender stay inside until the call has returned (or provably waits for them)
	AtRest bool   `json:"ending_after_call_came_to_rest,omitempty"` // the ending waits until the harness has seen the call at rest (identical dumps, everything parked) with the generator parked; else it races the dispatcher
	Sit    string `json:"planned_situation"`
}

func (k *parkPlan) String() string {
	if k == nil {
		return ""
	}
	return fmt.Sprint(*k)
}

func (k *parkPlan) mapperEnds() bool {
	switch k.Ending {
	case eMapCancelErr, eMapCancelNil, eMapPanic:
		return true
	case eCtxCancel:
		return k.EndAt >= 0
	}
	return false
}

func (k *parkPlan) reducerEnds() bool { return k.Ending == eRedCancel || k.Ending == eRedPanic }

// parkState is embedded in run.
type parkState struct {
	mult         int           // 1, or 2 for the repetition with doubled patience
	parkReached  chan struct{} // the generator is parked (it will not send anything before it is released)
	parkRelease  chan struct{}
	upstream     chan int
	heldReached  chan struct{} // every mapper that is to stay inside before the ending is inside
	endGo        chan struct{} // AtRest plans: closed by the harness once the call has come to rest
	heldIn       atomic.Int32  // mappers inside that stay until the harness releases them
	endStamp     atomic.Uint64 // the ending act began
	busyAtEnd    atomic.Int32  // 1: every worker slot was taken by a staying mapper when the ending began; 2: not
	redEnded     atomic.Bool
	parkRelStamp atomic.Uint64 // stamp taken before the generator was released
	genRetStamp  atomic.Uint64 // stamp taken when the generator function was about to return (or panicked)
	heldReleased atomic.Bool

	retWhileParked bool // the call returned while the generator was still parked
	waitedForGen   bool // the call returned only after the generator - and nothing else - had been released
	cleanWaited    bool
	waitWitness    map[string]any
}

func (r *run) initPark() {
	r.mult = 1
	r.parkReached, r.parkRelease, r.heldReached, r.endGo = make(chan struct{}), make(chan struct{}), make(chan struct{}), make(chan struct{})
	pk := r.p.Park
	if pk == nil {
		return
	}
	if !pk.AtRest || pk.When == whenAtOnce {
		r.closeOnce(11, r.endGo)
	}
	if pk.Shape == shUpstream {
		r.upstream = make(chan int, r.p.Items+1)
		for i := 0; i < pk.After && i < r.p.Items; i++ {
			r.upstream <- i
		}
	}
	if r.heldTarget() == 0 {
		r.closeOnce(10, r.heldReached)
	}
}

// heldTarget: how many mappers other than the ender are inside, to stay, before the ending takes place.
func (r *run) heldTarget() int {
	pk := r.p.Park
	if pk == nil || pk.Hold != holdOthers {
		return 0
	}
	w := r.p.effWorkers()
	if pk.When == whenAtOnce {
		return w - 1
	}
	n := pk.After
	if n > w {
		n = w
	}
	if pk.mapperEnds() && pk.EndAt < n {
		n--
	}
	return n
}

// releaseGen lets the parked generator go on (idempotent).
func (r *run) releaseGen() {
	r.onces[8].Do(func() {
		r.parkRelStamp.Store(kit.Stamp())
		if pk := r.p.Park; pk != nil && r.upstream != nil {
			if pk.Then == thContinue {
				for i := pk.After; i < r.p.Items; i++ {
					r.upstream <- i // buffered: never blocks
				}
			}
			close(r.upstream) // the producer is torn down
		}
		close(r.parkRelease)
	})
}

// ---------------------------------------------------------------- user functions

// genRecvUpstream is the forwarding generator's receive from its upstream: the
// place where it is parked.
//
//go:noinline
func (r *run) genRecvUpstream() (v int, ok, aborted bool) {
	select {
	case v, ok = <-r.upstream:
		return v, ok, false
	case <-r.abort:
		return 0, false, true
	}
}

// genParked is the generator of a genpark plan (called by ufGen).
func (r *run) genParked(source chan<- int) {
	pk := r.p.Park
	defer func() { r.genRetStamp.CompareAndSwap(0, kit.Stamp()) }()
	if pk.Shape == shUpstream {
		sent := 0
		if pk.After == 0 {
			r.closeOnce(9, r.parkReached)
		}
		for {
			v, ok, aborted := r.genRecvUpstream()
			if aborted {
				return
			}
			if !ok {
				break
			}
			if !r.genSend(source, v) {
				return
			}
			if sent++; sent == pk.After {
				r.closeOnce(9, r.parkReached)
			}
		}
	} else {
		for i := 0; i <= r.p.Items; i++ {
			if i == pk.After {
				r.closeOnce(9, r.parkReached)
				r.hold(r.parkRelease) // in the middle of producing
				if r.aborted() {
					return
				}
				if pk.Then != thContinue {
					break
				}
			}
			if i == r.p.Items || !r.genSend(source, i) {
				break
			}
		}
	}
	if pk.Then == thPanic {
		r.doPanic("generator/after-release")
	}
}

// noteEnding is called immediately before the ending act. self: the caller is a mapper that is inside now.
func (r *run) noteEnding(self int) {
	if !r.endStamp.CompareAndSwap(0, kit.Stamp()) {
		return
	}
	if int(r.heldIn.Load())+self >= r.p.effWorkers() {
		r.busyAtEnd.Store(1)
	} else {
		r.busyAtEnd.Store(2)
	}
}

// parkMap is the mapper's part of a genpark plan. true: the mapper returns.
func (r *run) parkMap(item int, cancel func(error)) bool {
	pk := r.p.Park
	if pk.mapperEnds() && item == pk.EndAt {
		if pk.When == whenParked {
			r.hold(r.parkReached)
		}
		r.hold(r.heldReached)
		r.hold(r.endGo)
		if r.aborted() {
			return true
		}
		by := fmt.Sprintf("mapper[%d]/%s", item, pk.Ending)
		r.noteEnding(1)
		switch pk.Ending {
		case eMapPanic:
			r.doPanic(by)
		case eCtxCancel:
			r.endCtx()
		case eMapCancelErr:
			r.doCancel(by, cancel, r.newErr(by))
		case eMapCancelNil:
			r.doCancel(by, cancel, nil)
		}
		r.hold(r.outRelease) // stays inside: its worker slot stays taken
		return true
	}
	if pk.Hold == holdOthers {
		if int(r.heldIn.Add(1)) == r.heldTarget() {
			r.closeOnce(10, r.heldReached)
		}
		r.hold(r.outRelease)
	}
	return false
}

// parkRed is the reducer's part of a genpark plan. true: the reducer returns.
func (r *run) parkRed(idx int, phase string, cancel func(error)) bool {
	pk := r.p.Park
	if !pk.reducerEnds() || phase != phBefore || idx != pk.EndAt || !r.redEnded.CompareAndSwap(false, true) {
		return false
	}
	r.hold(r.parkReached)
	r.hold(r.heldReached)
	r.hold(r.endGo)
	if r.aborted() {
		return true
	}
	by := fmt.Sprintf("reducer[%d]/%s", idx, pk.Ending)
	r.noteEnding(0)
	if pk.Ending == eRedPanic {
		r.doPanic(by)
	}
	if pk.NilErr {
		r.doCancel(by, cancel, nil)
	} else {
		r.doCancel(by, cancel, r.newErr(by))
	}
	return true
}

// ---------------------------------------------------------------- driver

// waitFor waits for the call to return or for ch to be closed; it gives up when the
// goroutines of the call are identical in `need` consecutive dumps with every core/mr
// goroutine parked (stable), or when the watchdog fires.
func (r *run) waitFor(done <-chan outcome, ch <-chan struct{}, every time.Duration, need int) (w waitRes, fired bool) {
	deadline := time.Now().Add(watchdog)
	prev, same := "", 0
	for time.Now().Before(deadline) {
		t := time.NewTimer(every)
		select {
		case o := <-done:
			t.Stop()
			return waitRes{o: o, returned: true}, false
		case <-ch:
			t.Stop()
			return waitRes{}, true
		case <-t.C:
		}
		gs := kit.LabelledGoroutines(r.id)
		fp := fingerprintOf(gs)
		if fp == prev && len(gs) > 0 {
			same++
		} else {
			prev, same = fp, 0
		}
		if same >= need-1 {
			if ok, _ := allParked(mrGoroutines()); ok {
				return waitRes{stable: true, dump: gs}, false
			}
			same = 0
		}
	}
	return waitRes{}, false
}

func (r *run) releaseHeldMappers(why string) {
	if r.heldReleased.CompareAndSwap(false, true) {
		if r.heldIn.Load() > 0 || r.p.Park.mapperEnds() {
			r.c.Obs("genpark_staying_mappers_released_"+why, 1)
		}
		r.closeOnce(3, r.outRelease)
	}
}

// endingInEffect: the event that has to end the call has really happened.
func (r *run) endingInEffect() bool {
	switch r.p.Park.Ending {
	case eCtxCancel:
		return r.ctxEndRet.Load() != 0
	case eCtxDeadline:
		return r.ctx != nil && r.ctx.Err() != nil
	case eMapCancelErr, eMapCancelNil, eRedCancel:
		return len(r.cancelsCopy()) > 0
	case eMapPanic, eRedPanic:
		return len(r.panicsCopy()) > 0
	}
	return false
}

// parkEvery spaces the dumps of a genpark run. It decides nothing: the verdict needs identical
// dumps in which every goroutine of the call and every core/mr goroutine is parked in a channel /
// select / semaphore wait, a state only the harness can end.
const parkEvery = 8 * time.Millisecond

const genParkedMark = "c10.(*run).genParked"

// onlyGeneratorHeld: no user function of the call other than the generator is parked in harness
// code (user functions parked INSIDE core/mr - a mapper inside cancel, the reducer on its pipe
// - are waiting for core/mr, not for the harness).
func onlyGeneratorHeld(gs []kit.Goroutine) bool {
	for _, g := range gs {
		if heldByHarness(g) && !containsFrame(g, genParkedMark) {
			// the reducer's receive on its pipe is a select in harness code, but what it waits for is core/mr
			if containsFrame(g, "c10.(*run).redBody") && !containsFrame(g, "c10.(*run).hold") {
				continue
			}
			return false
		}
	}
	return true
}

func containsFrame(g kit.Goroutine, mark string) bool {
	for i := 0; i+len(mark) <= len(g.Stack); i++ {
		if g.Stack[i:i+len(mark)] == mark {
			return true
		}
	}
	return false
}

// awaitPark drives a genpark run. ok=false: undecided here, the generic path of await takes over.
func (r *run) awaitPark(done <-chan outcome) (awaited, bool) {
	pk := r.p.Park
	every, need := parkEvery*time.Duration(r.mult), stableNeeded*r.mult
	ret := func(w waitRes) (awaited, bool) {
		if r.parkRelStamp.Load() == 0 {
			r.retWhileParked = true
		}
		return awaited{waitRes: w}, true
	}
	// 1. the scenario builds up: the generator parks, the mappers that are to stay are inside
	for _, ch := range []<-chan struct{}{r.parkReached, r.heldReached} {
		for {
			w, fired := r.waitFor(done, ch, every, need)
			if w.returned {
				return ret(w)
			}
			if fired {
				break
			}
			if w.stable && pk.Ending == eCtxDeadline && r.ctx != nil && r.ctx.Err() != nil {
				// the deadline passed before every mapper that was to stay had been started: the call is
				// already being ended, nothing more will build up
				select {
				case <-r.parkReached:
					r.c.Obs("genpark_deadline_passed_before_scenario_complete", 1)
				default:
					r.c.Obs("genpark_scenario_not_reached", 1)
					return awaited{}, false
				}
				break
			}
			if w.stable && !r.heldReleased.Load() && pk.When == whenAtOnce {
				// the ending has taken place, the termination waits for the mappers that stay inside
				// (a call may wait for its mappers); the generator is still sending
				r.releaseHeldMappers("before_generator_parked")
				continue
			}
			r.c.Obs("genpark_scenario_not_reached", 1)
			r.c.Sample("genpark_scenario_not_reached", 3, map[string]any{"plan": r.p, "stable": w.stable, "dump": stacksOf(w.dump), "events": r.events()})
			return awaited{}, false
		}
	}
	// 2. the ending
	if pk.AtRest && pk.When == whenParked && pk.Ending != eCtxDeadline && pk.Ending != eNone {
		// let the call come to rest first (the dispatcher waits for the generator / for a worker), so
		// that the situation in which the call is ended is the planned one and not a matter of timing
		if w := r.waitQuietN(done, every, need); w.returned {
			return ret(w)
		} else if w.stable {
			r.c.Obs("genpark_ending_with_call_at_rest", 1)
		}
	}
	r.closeOnce(11, r.endGo)
	switch {
	case pk.Ending == eCtxCancel && pk.EndAt < 0:
		r.noteEnding(0)
		r.endCtx()
	case pk.Ending == eCtxDeadline:
		t := time.NewTimer(watchdog)
		select {
		case <-r.ctx.Done():
			t.Stop()
		case o := <-done:
			t.Stop()
			return ret(waitRes{o: o, returned: true})
		case <-t.C:
			return awaited{}, false
		}
		r.noteEnding(0)
		r.ctxEndInv.CompareAndSwap(0, kit.Stamp())
		r.ctxEndRet.CompareAndSwap(0, kit.Stamp())
	}
	// 3. does the call return while the generator stays parked?
	w := r.waitQuietN(done, every, need)
	if !w.returned && w.stable && !r.heldReleased.Load() && !onlyGeneratorHeld(w.dump) {
		// a call may wait for its mappers: let those that stay inside go, keep the generator
		r.releaseHeldMappers("because_call_waits")
		w = r.waitQuietN(done, every, need)
	}
	if w.returned {
		return ret(w)
	}
	if !w.stable {
		return awaited{}, false
	}
	if !onlyGeneratorHeld(w.dump) {
		r.c.Obs("genpark_other_user_function_still_held", 1)
		return awaited{}, false
	}
	candidate := false
	switch {
	case pk.Ending == eNone:
		r.cleanWaited = true
	case !r.endingInEffect():
		r.c.Obs("genpark_ending_not_in_effect", 1)
	default:
		candidate = true
		var states []string
		for _, g := range mrGoroutines() {
			states = append(states, g.Text)
		}
		r.waitWitness = map[string]any{"labelled_goroutines_while_generator_parked": stacksOf(w.dump), "core_mr_goroutines_while_generator_parked": states,
			"identical_dumps": need, "dump_spacing_ms": every.Milliseconds(), "events_before_release": r.events()}
	}
	// 4. release the generator - and nothing else
	r.releaseGen()
	w = r.waitQuietN(done, every, need)
	if w.returned {
		r.waitedForGen = candidate
		return awaited{waitRes: w}, true
	}
	return awaited{}, false
}

// ---------------------------------------------------------------- oracle

func (r *run) situation() string {
	s := "generator-parked"
	if r.p.Park.When == whenAtOnce {
		s = "generator-parks-during-termination"
	}
	if r.busyAtEnd.Load() == 1 {
		return s + "/all-workers-busy"
	}
	return s + "/worker-free"
}

func (r *run) genWaitKey() string {
	return "C10/deadlock/call-waits-for-stalled-generator/" + r.p.API + "/" + r.p.Park.Ending + "/" + r.situation()
}

var genWaitConfirmed = map[string]int{} // violation key -> confirmations (repetitions with doubled patience) by this process

const genWaitRepeats = 2 // a class is re-confirmed by repetition this often per process; afterwards the state-decided observation stands

// concludePark: after the first run of a genpark plan.
func (r *run) concludePark() {
	c, pk := r.c, r.p.Park
	tag := pk.Ending
	if r.retWhileParked {
		c.Obs("genpark_call_returned_while_generator_parked", 1)
		c.Obs("genpark_returned_while_parked_"+r.p.API+"_"+tag, 1)
		if r.busyAtEnd.Load() == 1 {
			c.Obs("genpark_returned_while_parked_all_workers_busy", 1)
		}
		if pk.When == whenAtOnce {
			c.Obs("genpark_returned_while_parked_generator_parked_during_termination", 1)
		}
		if r.genRetStamp.Load() != 0 {
			c.Obs("genpark_generator_returned_after_release", 1)
			if pk.Then == thPanic {
				c.Obs("genpark_generator_panicked_after_call_returned", 1)
			}
		}
	}
	if r.cleanWaited {
		c.Obs("genpark_clean_call_waited_for_parked_generator", 1)
	}
	obsd := "the call returned only after the generator had been released"
	if r.retWhileParked {
		obsd = "the call returned while the generator was still parked"
	}
	c.Sample("genpark/"+pk.Ending, 1, map[string]any{"plan": r.p, "measured_situation": r.situation(), "observed": obsd,
		"generator_returned_at_stamp": r.genRetStamp.Load(), "generator_released_at_stamp": r.parkRelStamp.Load()})
	if !r.waitedForGen {
		return
	}
	if pk.Ending == eMapCancelErr || pk.Ending == eMapCancelNil || pk.Ending == eRedCancel {
		// cancel(err) called by a mapper or the reducer drains the generator before it returns: upstream's
		// documented behaviour (core/mr's own TestMapReduceVoidCancelWithRemains asserts that the generator
		// has run to its end when the call returns; DESIGN §7.1). Observed, never a violation.
		c.Obs("genpark_waits_legit_cancel_drain", 1)
		c.Obs("genpark_waits_legit_cancel_drain_"+r.p.API+"_"+pk.Ending, 1)
		return
	}
	c.Obs("genpark_call_returned_only_after_generator_released", 1)
	key := r.genWaitKey()
	what := "the call had to end (" + pk.Ending + ") while the generator was parked (" + pk.Shape + ", after " + fmt.Sprint(pk.After) +
		" item(s)); it did not return - identical goroutine dumps, every core/mr goroutine parked, the generator the only user function held by the harness - until the harness released the generator, and nothing else: the call waits for a stalled generator"
	wit := map[string]any{"plan": r.p, "situation": r.situation(), "first_run": r.waitWitness}
	if genWaitConfirmed[key] >= genWaitRepeats {
		c.Obs("genpark_wait_reported_on_state_decision_alone", 1)
		wit["repetition"] = fmt.Sprintf("skipped: this process had already confirmed the class %d times by repetition with doubled patience", genWaitConfirmed[key])
		c.Viol(key, what, wit)
		return
	}
	r2 := executeRun(c, r.id+"/again", r.p, 2)
	switch {
	case r2.waitedForGen:
		genWaitConfirmed[key]++
		c.Obs("genpark_wait_confirmed_with_doubled_patience", 1)
		if k2 := r2.genWaitKey(); k2 != key {
			// a deadline context ends when its timer fires: with how many workers busy is a matter of timing
			c.Obs("genpark_wait_confirmed_in_another_measured_situation", 1)
			wit["situation_of_the_repetition"] = r2.situation()
		}
		wit["repetition_with_doubled_patience"] = r2.waitWitness
		c.Viol(key, what+"; reproduced with doubled patience", wit)
	default:
		c.Obs("genpark_wait_not_reproduced", 1)
		c.Inconclusive("genpark: the call returned only after the generator was released, but the repetition with doubled patience did not reproduce it (plan " + r.planString() + ")")
	}
}

// judgeCleanPark: nothing ended the call abnormally, so it had to wait for the generator.
func (r *run) judgeCleanPark(o outcome) {
	rel, gen := r.parkRelStamp.Load(), r.genRetStamp.Load()
	switch {
	case rel == 0 || o.Ret < rel:
		r.viol("C10/clean/returned-before-generator-finished/"+r.p.API,
			fmt.Sprintf("nothing was cancelled, nothing panicked, no context ended, yet the call returned (stamp %d) while the generator was still parked (released at stamp %d): items it had still to emit cannot reach a mapper", o.Ret, rel), o)
	case gen == 0 || o.Ret < gen:
		r.viol("C10/clean/returned-before-generator-finished/"+r.p.API,
			fmt.Sprintf("nothing was cancelled, nothing panicked, no context ended, yet the call returned (stamp %d) before the generator function had returned (stamp %d)", o.Ret, gen), o)
	default:
		r.c.Obs("genpark_clean_call_returned_after_generator", 1)
	}
}

func (r *run) parkNontrivial() bool {
	if r.p.Park == nil {
		return false
	}
	select {
	case <-r.parkReached:
	default:
		return false
	}
	return r.p.Park.Ending == eNone || r.endStamp.Load() != 0
}

func (r *run) parkSig() string {
	if r.p.Park == nil {
		return ""
	}
	return fmt.Sprint(r.p.Park.String(), r.retWhileParked, r.waitedForGen, r.busyAtEnd.Load())
}

// ---------------------------------------------------------------- plans

type parkCombo struct{ API, Ending, Sit string }

func parkCombos() []parkCombo {
	var out []parkCombo
	for _, api := range []string{apiMR, apiChan, apiVoid, apiForEach} {
		endings := []string{eCtxCancel, eCtxDeadline, eMapCancelErr, eMapCancelNil, eRedCancel, eMapPanic, eRedPanic}
		if api == apiForEach {
			endings = []string{eCtxCancel, eCtxDeadline, eMapPanic}
		}
		for _, e := range endings {
			for _, s := range []string{sitFree, sitBusy, sitLater} {
				if s == sitLater && (e == eCtxDeadline || e == eRedCancel || e == eRedPanic) {
					continue // needs a mapper that performs the ending
				}
				out = append(out, parkCombo{api, e, s})
			}
		}
	}
	return out
}

func planGenPark(c *kit.Case, combos []parkCombo) plan {
	r := c.R
	cb := combos[c.Index%len(combos)]
	p := plan{API: cb.API}
	pk := &parkPlan{Ending: cb.Ending, EndAt: -1, When: whenParked, Sit: cb.Sit}
	p.Park = pk
	p.Fan = kit.Choose(r, fanChoices)
	p.Red = redStyleFor(r, p.API)
	if p.Red == redTwice {
		p.Red = redLate
	}
	pk.Shape = []string{shUpstream, shProducing}[r.Intn(2)]
	pk.Then = []string{thReturn, thContinue, thPanic}[r.Pick(3, 2, 2)]
	if pk.Then == thPanic && p.API == apiChan {
		pk.Then = thReturn // the feeder of MapReduceChan is a goroutine of the harness
	}
	mapperEnder := cb.Ending == eMapCancelErr || cb.Ending == eMapCancelNil || cb.Ending == eMapPanic
	switch cb.Sit {
	case sitFree:
		p.Workers = kit.Choose(r, workerChoices)
		if r.Intn(8) == 0 {
			p.NoWorkers = true
		}
		w := p.effWorkers()
		if w >= 2 && r.Chance(0.35) {
			// some mappers stay inside, but not enough to take every slot
			pk.Hold = holdOthers
			pk.After = r.Intn(w)
		} else {
			pk.After = r.Intn(7)
		}
		if mapperEnder && pk.After == 0 {
			pk.After = 1
		}
		p.Items = pk.After + r.Intn(4)
		if cb.Ending == eCtxCancel && pk.After > 0 && r.Bool() {
			mapperEnder = true
		}
		if mapperEnder {
			pk.EndAt = r.Intn(pk.After)
			if w == 1 || pk.Hold == "" && r.Bool() {
				// the ender keeps its slot while it waits for the generator to park
				pk.EndAt = pk.After - 1
			}
			if pk.Hold == "" && w < 2 {
				pk.EndAt = pk.After - 1
			}
		}
	case sitBusy:
		p.Workers = 1 + r.Intn(4)
		pk.Hold = holdOthers
		pk.After = p.Workers
		p.Items = pk.After + r.Intn(3)
		if cb.Ending == eCtxCancel && r.Bool() {
			mapperEnder = true
		}
		if mapperEnder {
			pk.EndAt = r.Intn(p.Workers)
		}
	case sitLater:
		p.Workers = 1 + r.Intn(3)
		pk.Hold = holdOthers
		pk.When = whenAtOnce
		pk.EndAt = p.Workers - 1
		pk.After = p.Workers + 1 + r.Intn(3)
		p.Items = pk.After + r.Intn(3)
	}
	pk.AtRest = r.Intn(4) != 0
	if pk.reducerEnds() {
		pk.EndAt = 0
		pk.NilErr = r.Intn(3) == 0
		if cb.Sit == sitFree && pk.Hold == "" && pk.After > 0 && r.Bool() {
			// after its first value
			pk.EndAt = 1
			if p.Fan == 0 {
				p.Fan = 1
			}
		}
		// the reducer does not consume while it waits for the generator to park: what the mappers write
		// until then must fit into the collector (capacity = workers), or they never finish and the
		// generator never gets to its parking position
		if w := p.effWorkers(); pk.After*p.Fan-pk.EndAt > w {
			p.Fan = pk.EndAt
			if pk.After*p.Fan-pk.EndAt > w {
				pk.After = w + 1
			}
		}
	}
	switch cb.Ending {
	case eCtxCancel:
		p.Ctx = ctxPark
	case eCtxDeadline:
		p.Ctx = ctxDeadline
	default:
		if r.Intn(4) == 0 {
			p.Ctx = ctxIdle
		}
	}
	return p
}

// planGenParkClean: nothing ends the call; the generator parks after k items and, once released,
// emits the remaining ones. The call must wait for it and then be exact.
func planGenParkClean(c *kit.Case) plan {
	r := c.R
	p := plan{Gauge: true}
	p.API = []string{apiMR, apiChan, apiVoid, apiForEach}[r.Pick(3, 2, 2, 3)]
	sizes(r, &p)
	p.Yields = 0
	p.Red = cleanStyleFor(r, p.API)
	pk := &parkPlan{Ending: eNone, EndAt: -1, When: whenParked, Sit: sitFree, Then: thContinue}
	pk.Shape = []string{shUpstream, shProducing}[r.Intn(2)]
	pk.After = r.Intn(p.Items + 1)
	switch r.Intn(4) {
	case 0:
		pk.After = 0
	case 1:
		pk.After = p.Items // parked after its last item, before it returns
	}
	p.Park = pk
	if r.Chance(0.3) {
		p.Ctx = ctxIdle
	}
	return p
}
