package c10

// invoke_test.go: calling the API under test and classifying what came back.

import (
	"context"
	"errors"
	"fmt"
	"runtime"
	"time"

	"github.com/zeromicro/go-zero/core/mr"

	"verifharness/kit"
)

type outcome struct {
	Kind  string `json:"kind"` // value | error | nil | panic
	Val   int    `json:"val,omitempty"`
	Err   error  `json:"-"`
	ErrS  string `json:"err,omitempty"`
	Panic any    `json:"-"`
	PanS  string `json:"panic,omitempty"`
	Ret   uint64 `json:"ret_stamp"`
}

func (o outcome) String() string {
	switch o.Kind {
	case "value":
		return fmt.Sprintf("value %d", o.Val)
	case "error":
		return "error " + o.ErrS
	case "panic":
		return "panic " + o.PanS
	}
	return "nil"
}

// setup prepares the context and the helper goroutines. It runs OUTSIDE the
// goroutine label, so helpers are never attributed to the call.
func (r *run) setup(over <-chan struct{}) (feed chan int, feedDone chan struct{}, cleanup func()) {
	cleanup = func() {}
	needCancel := r.p.Kind == kOutlive && r.p.Ctx != ctxViaTimer
	switch {
	case r.p.Ctx == ctxPreDL:
		ctx, cancel := context.WithDeadline(context.Background(), time.Now().Add(-time.Second))
		r.ctx, cleanup = ctx, cancel
		r.ctxEndInv.Store(kit.Stamp()) // Done() was closed by WithDeadline itself
		r.ctxEndRet.Store(kit.Stamp())
	case r.p.Ctx == ctxDeadline || r.p.Ctx == ctxViaTimer:
		d := time.Duration(20+r.c.R.Intn(600)) * time.Microsecond
		if r.p.Park != nil {
			d = time.Duration(200+r.c.R.Intn(3000)) * time.Microsecond // the deadline passes while the call is running
		}
		ctx, cancel := context.WithTimeout(context.Background(), d)
		r.ctx, cleanup = ctx, cancel
	case r.p.Ctx == ctxIdle || r.p.Ctx == ctxPre || r.p.Ctx == ctxAt || r.p.Ctx == ctxAtAsync || r.p.Ctx == ctxPark || needCancel:
		ctx, cancel := context.WithCancel(context.Background())
		r.ctx, r.endCtxFn, cleanup = ctx, cancel, cancel
		if r.p.Ctx == ctxPre {
			r.endCtx()
		}
	}
	yields := r.p.Yields
	if r.p.Ctx == ctxAtAsync {
		go func() {
			select {
			case <-r.kick:
				for i := 0; i < yields; i++ {
					runtime.Gosched()
				}
				r.endCtx()
			case <-over:
			}
		}()
	}
	if r.p.hasKind(kStall) {
		go func() {
			select {
			case <-r.stallReached:
				for i := 0; i < yields*3; i++ {
					runtime.Gosched()
				}
				r.closeOnce(2, r.stallRelease)
			case <-over:
			}
		}()
	}
	if r.p.API == apiChan {
		// the harness owns the source: the feeder plays the generator (it can stall, not panic)
		feed = make(chan int)
		feedDone = make(chan struct{})
		go func() {
			defer close(feedDone)
			defer close(feed)
			r.ufGen(feed)
		}()
	}
	return
}

func (r *run) opts() []mr.Option {
	var o []mr.Option
	if !r.p.NoWorkers {
		o = append(o, mr.WithWorkers(r.p.Workers))
	}
	if r.ctx != nil {
		o = append(o, mr.WithContext(r.ctx))
	}
	return o
}

// invoke runs inside the goroutine label.
func (r *run) invoke(feed chan int) (o outcome) {
	defer func() {
		if x := recover(); x != nil {
			o = outcome{Kind: "panic", Panic: x, PanS: fmt.Sprint(x)}
		}
		o.Ret = kit.Stamp()
	}()
	fromErr := func(err error) outcome {
		if err != nil {
			return outcome{Kind: "error", Err: err, ErrS: err.Error()}
		}
		return outcome{Kind: "nil"}
	}
	r.ctxDoneAtCall.Store(r.ctx != nil && r.ctx.Err() != nil)
	switch r.p.API {
	case apiMR:
		v, err := mr.MapReduce[int, int, int](r.ufGen, r.ufMap, r.ufRed, r.opts()...)
		if err != nil {
			return fromErr(err)
		}
		return outcome{Kind: "value", Val: v}
	case apiChan:
		v, err := mr.MapReduceChan[int, int, int](feed, r.ufMap, r.ufRed, r.opts()...)
		if err != nil {
			return fromErr(err)
		}
		return outcome{Kind: "value", Val: v}
	case apiVoid:
		return fromErr(mr.MapReduceVoid[int, int](r.ufGen, r.ufMap, r.ufRedVoid, r.opts()...))
	case apiForEach:
		mr.ForEach[int](r.ufGen, r.ufEach, r.opts()...)
		return outcome{Kind: "nil"}
	case apiFinish:
		fns := make([]func() error, r.p.Items)
		for i := range fns {
			i := i
			fns[i] = func() error { return r.ufFn(i) }
		}
		return fromErr(mr.Finish(fns...))
	case apiFinishVoid:
		fns := make([]func(), r.p.Items)
		for i := range fns {
			i := i
			fns[i] = func() { r.ufFn(i) }
		}
		mr.FinishVoid(fns...)
		return outcome{Kind: "nil"}
	}
	panic("harness: unknown api " + r.p.API)
}

func isCtxErr(err error) bool {
	return errors.Is(err, context.DeadlineExceeded) || errors.Is(err, context.Canceled)
}
