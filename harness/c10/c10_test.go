package c10

// c10_test.go: the case families (pure functions of seed and tier) and the test entry.

import (
	"testing"

	"github.com/zeromicro/go-zero/core/logx"

	"verifharness/kit"
)

type combo struct {
	API   string
	Role  string
	Phase string
	Kind  string
	Then  string
	Class int // position class: 0 first, 1 random, 2 last, 3 end (generator: after the last item; reducer: pipe closed)
}

// faultCombos enumerates every valid (api, role, phase, kind/then, position class).
func faultCombos() []combo {
	type kt struct{ k, t string }
	kinds := []kt{{kCancelErr, ""}, {kCancelNil, ""}, {kPanic, ""}, {kCancelPanic, ""},
		{kOutlive, thReturn}, {kOutlive, thPanic}, {kOutlive, thCancel}, {kOutlive, thContinue}}
	var out []combo
	for _, api := range []string{apiMR, apiChan, apiVoid, apiForEach} {
		for _, role := range []string{roleGen, roleMap, roleRed} {
			if role == roleRed && api == apiForEach {
				continue
			}
			for _, k := range kinds {
				needsCancel := k.k == kCancelErr || k.k == kCancelNil || k.k == kCancelPanic || k.t == thCancel
				if needsCancel && (role == roleGen || api == apiForEach) {
					continue
				}
				panics := k.k == kPanic || k.k == kCancelPanic || k.t == thPanic
				if panics && role == roleGen && api == apiChan {
					continue // the feeder is a harness goroutine: a panic there is not a user-function panic of the call
				}
				for _, ph := range []string{phBefore, phAfter} {
					for class := 0; class < 4; class++ {
						if role == roleMap && class == 3 {
							continue
						}
						if role == roleRed && class == 0 && ph == phAfter {
							continue // reducer entry has no write
						}
						if role == roleGen && class == 3 && ph == phAfter {
							continue
						}
						out = append(out, combo{api, role, ph, k.k, k.t, class})
					}
				}
			}
		}
	}
	return out
}

func redStyleFor(r *kit.Rand, api string) string {
	if api != apiMR && api != apiChan {
		return ""
	}
	return []string{redLate, redLate, redEarly, redNever, redTwice}[r.Pick(4, 0, 3, 2, 1)]
}

func cleanStyleFor(r *kit.Rand, api string) string {
	if api != apiMR && api != apiChan {
		return ""
	}
	return []string{redLate, redEarly, redNever}[r.Pick(4, 3, 2)]
}

func randPos(r *kit.Rand, p *plan, role string) pos {
	ph := phBefore
	if r.Bool() {
		ph = phAfter
	}
	class := r.Intn(4)
	if role == roleMap && class == 3 {
		class = 2
	}
	idx := pickIndex(r, p, role, class)
	if role == roleRed && idx == 0 || role == roleGen && idx == idxEnd {
		ph = phBefore
	}
	return pos{role, idx, ph}
}

func rolesOf(api string) []string {
	if api == apiForEach {
		return []string{roleGen, roleMap}
	}
	return []string{roleGen, roleMap, roleRed}
}

func planClean(c *kit.Case) plan {
	r := c.R
	p := plan{Gauge: true}
	p.API = []string{apiMR, apiChan, apiVoid, apiForEach}[r.Pick(4, 2, 2, 2)]
	sizes(r, &p)
	p.Red = cleanStyleFor(r, p.API)
	if r.Chance(0.4) {
		p.Kind = kStall
		p.At = randPos(r, &p, kit.Choose(r, rolesOf(p.API)))
	}
	if r.Chance(0.3) {
		p.Ctx = ctxIdle
	}
	return p
}

func planBarrier(c *kit.Case) plan {
	r := c.R
	p := plan{Gauge: true, Barrier: true}
	p.API = []string{apiMR, apiChan, apiVoid, apiForEach}[r.Pick(3, 1, 1, 2)]
	p.Workers = 1 + r.Intn(4)
	p.Items = p.Workers - 1 + r.Intn(5)
	p.Fan = r.Intn(2)
	p.Red = cleanStyleFor(r, p.API)
	return p
}

func planFault(c *kit.Case, combos []combo) plan {
	r := c.R
	cb := combos[c.Index%len(combos)]
	p := plan{API: cb.API, Kind: cb.Kind, Then: cb.Then}
	sizes(r, &p)
	if p.Items == 0 && r.Chance(0.8) {
		p.Items = 1 + r.Intn(4)
	}
	if cb.Role == roleRed && cb.Class != 0 && cb.Class != 3 && p.Fan == 0 {
		p.Fan = 1
	}
	p.Red = redStyleFor(r, p.API)
	p.At = pos{cb.Role, pickIndex(r, &p, cb.Role, cb.Class), cb.Phase}
	if cb.Kind == kOutlive && r.Chance(0.25) {
		p.Ctx = ctxViaTimer
	}
	return p
}

func planCtx(c *kit.Case) plan {
	r := c.R
	p := plan{}
	p.API = []string{apiMR, apiChan, apiVoid, apiForEach}[r.Pick(5, 2, 2, 2)]
	sizes(r, &p)
	p.Red = redStyleFor(r, p.API)
	p.Ctx = []string{ctxPre, ctxAt, ctxAtAsync, ctxDeadline}[r.Pick(2, 3, 6, 2)]
	if p.Ctx == ctxPre {
		// the context is over before the call is made: cancelled, or a deadline that has already passed;
		// a generator that has something to send must still be allowed to finish
		if r.Bool() {
			p.Ctx = ctxPreDL
		}
		if p.Items == 0 && r.Chance(0.7) {
			p.Items = 1 + r.Intn(4)
		}
	}
	if p.Ctx == ctxAt || p.Ctx == ctxAtAsync {
		if p.hasReducer() && r.Chance(0.6) {
			// aim at the reducer's output write
			if p.Red == redEarly && p.totalValues() > 0 && r.Bool() {
				p.CtxPos = pos{roleRed, 1, phBefore}
			} else {
				p.CtxPos = pos{roleRed, idxEnd, phBefore}
			}
			p.Yields = []int{0, 0, 0, 1, 2, 5}[r.Intn(6)]
		} else {
			p.CtxPos = randPos(r, &p, kit.Choose(r, rolesOf(p.API)))
		}
	}
	return p
}

func planFinish(c *kit.Case) plan {
	r := c.R
	p := plan{Gauge: true}
	p.API = apiFinish
	if r.Intn(3) == 0 {
		p.API = apiFinishVoid
	}
	p.Items = r.Intn(9)
	p.Yields = r.Intn(20)
	kinds := []string{kNone, kCancelErr, kPanic, kStall}
	if p.API == apiFinishVoid {
		kinds = []string{kNone, kPanic, kStall}
	}
	p.Kind = kit.Choose(r, kinds)
	if p.Kind != kNone {
		p.At = pos{roleMap, r.Intn(p.Items + 1), phBefore}
	}
	return p
}

// planCombo: two independent faults, or a fault plus a context end elsewhere.
func planCombo(c *kit.Case, combos []combo) plan {
	r := c.R
	p := planFault(c, combos)
	if r.Bool() {
		role := kit.Choose(r, rolesOf(p.API))
		kinds := []string{kPanic, kStall}
		if role != roleGen && p.hasCancel() {
			kinds = append(kinds, kCancelErr, kCancelNil)
		}
		if role == roleGen && p.API == apiChan {
			kinds = []string{kStall}
		}
		p.SecondKind = kit.Choose(r, kinds)
		p.SecondAt = randPos(r, &p, role)
		if p.SecondAt == p.At {
			p.SecondKind = kNone
		}
	} else if p.Kind != kOutlive {
		p.Ctx = []string{ctxAt, ctxAtAsync, ctxDeadline}[r.Intn(3)]
		p.CtxPos = randPos(r, &p, kit.Choose(r, rolesOf(p.API)))
	}
	return p
}

func TestVerifC10(t *testing.T) {
	logx.Disable()
	combos := faultCombos()
	// cheap families first: runs that hit a (known) leak leave parked goroutines behind, and every
	// later goroutine dump of the process pays for them
	kit.Run(t, "C10", "clean", kit.N(3600, 60000), func(c *kit.Case) { execute(c, planClean(c)) })
	kit.Run(t, "C10", "barrier", kit.N(400, 8000), func(c *kit.Case) { execute(c, planBarrier(c)) })
	kit.Run(t, "C10", "finish", kit.N(600, 10000), func(c *kit.Case) { execute(c, planFinish(c)) })
	kit.Run(t, "C10", "inflight", kit.N(160, 3000), func(c *kit.Case) { execute(c, planInflight(c)) })
	kit.Run(t, "C10", "ctx", kit.N(4000, 80000), func(c *kit.Case) { execute(c, planCtx(c)) })
	kit.Run(t, "C10", "fault", kit.N(5*len(combos), 60*len(combos)), func(c *kit.Case) { execute(c, planFault(c, combos)) })
	kit.Run(t, "C10", "errvals", kit.N(1600, 30000), func(c *kit.Case) { execute(c, planErrVals(c)) })
	kit.Run(t, "C10", "finishx", kit.N(1200, 20000), func(c *kit.Case) { execute(c, planFinishX(c)) })
	kit.Run(t, "C10", "panicvals", kit.N(1200, 20000), func(c *kit.Case) { execute(c, planPanicVals(c)) })
	kit.Run(t, "C10", "sentinel", kit.N(300, 5000), func(c *kit.Case) { execute(c, planSentinel(c)) })
	kit.Run(t, "C10", "combo", kit.N(800, 30000), func(c *kit.Case) { execute(c, planCombo(c, combos)) })
	pcombos := parkCombos()
	kit.Run(t, "C10", "genpark-clean", kit.N(240, 6000), func(c *kit.Case) { execute(c, planGenParkClean(c)) })
	kit.Run(t, "C10", "genpark", kit.N(8*len(pcombos), 120*len(pcombos)), func(c *kit.Case) { execute(c, planGenPark(c, pcombos)) })
	kit.End()
}
