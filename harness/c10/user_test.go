package c10

// user_test.go: the state of one run and the user functions (generator, mapper,
// reducer, Finish functions) handed to core/mr. Every blocking point of a user
// function also listens on r.abort, so that "the user functions have returned"
// can always be brought about by the harness. All user functions are methods
// named uf*: the census recognises a still-running user function by that frame.

import (
	"context"
	"fmt"
	"runtime"
	"sync"
	"sync/atomic"

	"github.com/zeromicro/go-zero/core/mr"

	"verifharness/kit"
)

const fanStride = 4 // value id = item*fanStride + j

// userPanic is the (comparable) value every injected panic carries.
type userPanic struct {
	Run  string
	Role string
	N    int
}

type userErr struct {
	run  string
	by   string
	n    int
	text string
}

func (e *userErr) Error() string { return e.text }

type cancelEv struct {
	By  string `json:"by"`
	Err string `json:"err"`
	Dyn string `json:"dynamic_type"`
	err error
	Inv uint64 `json:"inv"`
	Ret uint64 `json:"ret"` // 0: cancel has not returned
}

type panicEv struct {
	By    string `json:"by"`
	Val   userPanic
	val   any    // the value really given to panic (Val itself for the default class)
	Dyn   string `json:"dynamic_type"`
	Stamp uint64 `json:"stamp"`
}

type writeEv struct {
	Val int    `json:"val"`
	Inv uint64 `json:"inv"`
	Ret uint64 `json:"ret"`
}

type run struct {
	c   *kit.Case
	id  string
	p   plan
	ctx context.Context

	endCtxFn  context.CancelFunc
	ctxEndInv atomic.Uint64 // stamp before the harness cancelled the context
	ctxEndRet atomic.Uint64 // stamp after that cancel returned

	abort        chan struct{} // closed by the watchdog: every hold returns
	stallReached chan struct{}
	stallRelease chan struct{}
	outReached   chan struct{}
	outRelease   chan struct{}
	kick         chan struct{} // wakes the asynchronous context killer
	onces        [16]sync.Once

	// family inflight
	genHold      chan struct{}
	redGot       chan struct{}
	redGo        chan struct{}
	cancelParked atomic.Uint64 // stamp: the mapper's cancel(err) was seen parked inside core/mr (draining the held generator)

	mapped  []int32 // per item id (atomic)
	written []int32 // per value id, incremented before the mapper's Write (atomic)
	reduced []int32 // per value id, incremented when the reducer received it (atomic)
	strange atomic.Int32
	gauge   kit.Gauge

	evmu     sync.Mutex
	cancels  []cancelEv
	panics   []panicEv
	writes   []writeEv
	redRet   atomic.Uint64 // stamp taken when the reducer function was about to return
	faultHit atomic.Int32
	moreHit  []atomic.Int32 // one per p.More
	ctxHit   atomic.Int32
	nErr     atomic.Int32

	// written by the generator / the calling goroutine only, read by the census: they add no
	// happens-before edge between the user functions of a call
	genSent       atomic.Int32 // sends of the generator that were received
	genReturned   atomic.Bool  // the generator function has returned (or panicked)
	ctxDoneAtCall atomic.Bool  // ctx.Err() != nil immediately before the call was made

	parkState // family genpark (genpark_test.go)
}

func newRun(c *kit.Case, id string, p plan) *run {
	r := &run{c: c, id: id, p: p,
		abort: make(chan struct{}), stallReached: make(chan struct{}), stallRelease: make(chan struct{}),
		outReached: make(chan struct{}), outRelease: make(chan struct{}), kick: make(chan struct{}),
		genHold: make(chan struct{}), redGot: make(chan struct{}), redGo: make(chan struct{}),
		mapped:  make([]int32, p.Items+1),
		written: make([]int32, (p.Items+1)*fanStride),
		reduced: make([]int32, (p.Items+1)*fanStride),
		moreHit: make([]atomic.Int32, len(p.More)),
	}
	r.initPark()
	return r
}

func (r *run) closeOnce(i int, ch chan struct{}) { r.onces[i].Do(func() { close(ch) }) }

// hold blocks until ch is closed or the watchdog aborts the run.
func (r *run) hold(ch <-chan struct{}) {
	select {
	case <-ch:
	case <-r.abort:
	}
}

func (r *run) endCtx() {
	if r.endCtxFn == nil {
		return
	}
	r.ctxEndInv.CompareAndSwap(0, kit.Stamp())
	r.endCtxFn()
	r.ctxEndRet.CompareAndSwap(0, kit.Stamp())
}

func (r *run) newErr(by string) error {
	n := int(r.nErr.Add(1))
	if r.p.Errs != ecPointer {
		return r.errOfClass(by, n)
	}
	return &userErr{run: r.id, by: by, n: n, text: fmt.Sprintf("user error %d of %s by %s", n, r.id, by)}
}

func (r *run) doCancel(by string, cancel func(error), e error) {
	if cancel == nil {
		return
	}
	ev := cancelEv{By: by, err: e, Err: fmt.Sprint(e), Dyn: fmt.Sprintf("%T", e), Inv: kit.Stamp()}
	r.evmu.Lock()
	i := len(r.cancels)
	r.cancels = append(r.cancels, ev)
	r.evmu.Unlock()
	cancel(e)
	ret := kit.Stamp()
	r.evmu.Lock()
	r.cancels[i].Ret = ret
	r.evmu.Unlock()
}

func (r *run) doPanic(by string) {
	r.evmu.Lock()
	v := userPanic{Run: r.id, Role: by, N: len(r.panics) + 1}
	var val any = v
	if r.p.PanicVal != pvStruct {
		val = r.panicOfClass(v)
	}
	r.panics = append(r.panics, panicEv{By: by, Val: v, val: val, Dyn: fmt.Sprintf("%T", val), Stamp: kit.Stamp()})
	r.evmu.Unlock()
	panic(val)
}

// point is called by the user functions at every (role, index, phase). It ends
// the context and/or performs the planned fault when the position matches.
// It returns true when the user function must return immediately.
func (r *run) point(role string, idx int, phase string, cancel func(error)) bool {
	here := pos{role, idx, phase}
	if r.p.Park != nil && role == roleRed && r.parkRed(idx, phase, cancel) {
		return true
	}
	if (r.p.Ctx == ctxAt || r.p.Ctx == ctxAtAsync) && r.p.CtxPos == here && r.ctxHit.CompareAndSwap(0, 1) {
		if r.p.Ctx == ctxAt {
			r.endCtx()
		} else {
			r.closeOnce(4, r.kick)
		}
	}
	if r.p.SecondKind != kNone && r.p.SecondAt == here {
		if r.act(r.p.SecondKind, thReturn, here, cancel) {
			return true
		}
	}
	for i, f := range r.p.More {
		if f.At == here && r.moreHit[i].CompareAndSwap(0, 1) {
			if r.act(f.Kind, f.Then, here, cancel) {
				return true
			}
		}
	}
	if r.p.Kind == kNone || r.p.At != here || !r.faultHit.CompareAndSwap(0, 1) {
		return false
	}
	return r.act(r.p.Kind, r.p.Then, here, cancel)
}

func (r *run) act(kind, then string, here pos, cancel func(error)) bool {
	by := here.String()
	switch kind {
	case kCancelErr:
		r.doCancel(by, cancel, r.newErr(by))
	case kCancelNil:
		r.doCancel(by, cancel, nil)
	case kPanic:
		r.doPanic(by)
	case kCancelPanic:
		r.doCancel(by, cancel, r.newErr(by))
		r.doPanic(by)
	case kStall:
		r.closeOnce(0, r.stallReached)
		r.hold(r.stallRelease)
	case kHeld:
		r.closeOnce(1, r.outReached)
		r.hold(r.outRelease)
		switch then {
		case thReturn:
			return true
		case thPanic:
			r.doPanic(by + "/late")
		case thCancel:
			r.doCancel(by+"/late", cancel, r.newErr(by))
		}
	case kOutlive:
		if r.p.Ctx == ctxViaTimer {
			r.hold(r.ctx.Done())
			r.ctxEndInv.CompareAndSwap(0, kit.Stamp())
			r.ctxEndRet.CompareAndSwap(0, kit.Stamp())
		} else {
			r.endCtx()
		}
		r.closeOnce(1, r.outReached)
		r.hold(r.outRelease)
		switch then {
		case thReturn:
			return true
		case thPanic:
			r.doPanic(by + "/late")
		case thCancel:
			r.doCancel(by+"/late", cancel, r.newErr(by))
		}
	}
	return false
}

// ---------------------------------------------------------------- user functions

// genSend is the generator's send of one item on the source channel. It is the
// only place where a generator waits for core/mr (every other wait of a user
// function is a hold on a harness channel): a goroutine whose innermost
// non-runtime frame is genSend is parked in that send. The send also listens on
// the harness's abort channel, so that a generator whose channel was abandoned by
// the call can be released after it has been reported (census_test.go).
//
//go:noinline
func (r *run) genSend(source chan<- int, i int) bool {
	select {
	case source <- i:
		r.genSent.Add(1)
		return true
	case <-r.abort:
		return false
	}
}

func (r *run) ufGen(source chan<- int) {
	defer r.genReturned.Store(true)
	if r.p.Park != nil {
		r.genParked(source)
		return
	}
	for i := 0; i < r.p.Items; i++ {
		if r.point(roleGen, i, phBefore, nil) {
			return
		}
		if r.p.Inflight && i == 1 {
			r.hold(r.genHold)
		}
		if !r.genSend(source, i) {
			return
		}
		if r.point(roleGen, i, phAfter, nil) {
			return
		}
	}
	r.point(roleGen, idxEnd, phBefore, nil)
}

func (r *run) mapBody(item int, w mr.Writer[int], cancel func(error)) {
	if item < 0 || item >= r.p.Items {
		r.strange.Add(1)
		return
	}
	atomic.AddInt32(&r.mapped[item], 1)
	if r.p.Gauge {
		r.gauge.Enter()
		defer r.gauge.Exit()
	}
	if r.p.Barrier {
		r.linger()
	}
	if r.p.Park != nil && r.parkMap(item, cancel) {
		return
	}
	if r.point(roleMap, item, phBefore, cancel) {
		return
	}
	if w != nil {
		for j := 0; j < r.p.Fan; j++ {
			v := item*fanStride + j
			atomic.AddInt32(&r.written[v], 1)
			w.Write(v)
		}
	}
	if r.p.Inflight && item == 0 {
		r.doCancel("mapper[0]/after-write", cancel, r.newErr("mapper[0]"))
	}
	r.point(roleMap, item, phAfter, cancel)
}

// linger keeps a mapper inside until more mappers than the cap are inside (the
// gauge's maximum then records it) or a bounded number of yields has passed.
func (r *run) linger() {
	limit := int64(r.p.effWorkers())
	for i := 0; i < 150; i++ {
		if r.gauge.Cur() > limit {
			return
		}
		select {
		case <-r.abort:
			return
		default:
		}
		runtime.Gosched()
	}
}

func (r *run) ufMap(item int, w mr.Writer[int], cancel func(error)) { r.mapBody(item, w, cancel) }
func (r *run) ufEach(item int)                                      { r.mapBody(item, nil, nil) }

func (r *run) ufRed(pipe <-chan int, w mr.Writer[int], cancel func(error)) {
	r.redBody(pipe, w, cancel)
}
func (r *run) ufRedVoid(pipe <-chan int, cancel func(error)) { r.redBody(pipe, nil, cancel) }

func (r *run) redWrite(w mr.Writer[int], k int) {
	if w == nil {
		return
	}
	n := 1
	if r.p.Red == redTwice {
		n = 2
	}
	for i := 0; i < n; i++ {
		v := outBase + k*2 + i
		inv := kit.Stamp()
		r.evmu.Lock()
		at := len(r.writes)
		r.writes = append(r.writes, writeEv{Val: v, Inv: inv})
		r.evmu.Unlock()
		w.Write(v)
		ret := kit.Stamp()
		r.evmu.Lock()
		r.writes[at].Ret = ret
		r.evmu.Unlock()
	}
}

const outBase = 1_000_000

func (r *run) redBody(pipe <-chan int, w mr.Writer[int], cancel func(error)) {
	defer func() { r.redRet.CompareAndSwap(0, kit.Stamp()) }()
	if r.point(roleRed, 0, phBefore, cancel) {
		return
	}
	k, wrote := 0, false
	style := r.p.Red
	for open := true; open; {
		select {
		case v, ok := <-pipe:
			if !ok {
				open = false
				break
			}
			k++
			if v >= 0 && v < len(r.reduced) {
				atomic.AddInt32(&r.reduced[v], 1)
			} else {
				r.strange.Add(1)
			}
			if r.p.Inflight && k == 1 {
				r.closeOnce(5, r.redGot)
				r.hold(r.redGo)
			}
			if r.point(roleRed, k, phBefore, cancel) {
				return
			}
			if !wrote && (style == redEarly || style == redTwice) {
				wrote = true
				r.redWrite(w, k)
			}
			if r.point(roleRed, k, phAfter, cancel) {
				return
			}
		case <-r.abort:
			return
		}
	}
	if r.point(roleRed, idxEnd, phBefore, cancel) {
		return
	}
	if !wrote && style != redNever {
		r.redWrite(w, k)
	}
	r.point(roleRed, idxEnd, phAfter, cancel)
}

// ufFn is the i-th function given to Finish / FinishVoid; a "cancel(err)" fault
// is expressed by returning that error.
func (r *run) ufFn(i int) error {
	var ret error
	if i >= 0 && i < r.p.Items {
		atomic.AddInt32(&r.mapped[i], 1)
	}
	if r.p.Gauge {
		r.gauge.Enter()
		defer r.gauge.Exit()
	}
	set := func(e error) { ret = e }
	r.point(roleMap, i, phBefore, set)
	return ret
}
