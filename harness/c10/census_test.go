package c10

// census_test.go: goroutine dumps — which goroutines belong to a run (pprof
// label, kit.LabelledGoroutines), whether a user function is still running
// (frame c10.(*run).uf*), and in which scheduler state the core/mr goroutines
// are (runtime.Stack), so that "stable" is never confused with "runnable but
// not yet scheduled on a loaded machine".

import (
	"regexp"
	"runtime"
	"sort"
	"strconv"
	"strings"

	"verifharness/kit"
)

const ufMark = "c10.(*run).uf"

var genericRe = regexp.MustCompile(`\[[^\]]*\]`)

func hasUserFrame(g kit.Goroutine) bool { return strings.Contains(g.Stack, ufMark) }

func anyUserFrame(gs []kit.Goroutine) bool {
	for _, g := range gs {
		if hasUserFrame(g) {
			return true
		}
	}
	return false
}

func fingerprintOf(gs []kit.Goroutine) string {
	var parts []string
	for _, g := range gs {
		parts = append(parts, strconv.Itoa(g.Count)+"x"+g.Stack)
	}
	sort.Strings(parts)
	return strings.Join(parts, "|")
}

// frames returns the first n non-runtime function names (generic instantiation
// brackets and package paths stripped) of a labelled stack.
func frames(stack string, n int) string {
	return genericRe.ReplaceAllString(kit.TopFrames(stack, n), "")
}

var knownLeaked = map[int]bool{} // goroutine ids already reported as leaked by earlier runs of this process

type gState struct {
	ID    int
	State string
	Text  string
}

var gHdr = regexp.MustCompile(`^goroutine (\d+) \[([^\],]+)`)

// mrGoroutines returns the goroutines (other than already reported ones) that
// have a core/mr frame on their stack, with their scheduler state.
func mrGoroutines() []gState {
	buf := make([]byte, 1<<20)
	for {
		n := runtime.Stack(buf, true)
		if n < len(buf) {
			buf = buf[:n]
			break
		}
		buf = make([]byte, 2*len(buf))
	}
	var res []gState
	for _, blk := range strings.Split(string(buf), "\n\n") {
		if !strings.Contains(blk, "go-zero/core/mr.") {
			continue
		}
		m := gHdr.FindStringSubmatch(blk)
		if m == nil {
			continue
		}
		id, _ := strconv.Atoi(m[1])
		if knownLeaked[id] {
			continue
		}
		res = append(res, gState{ID: id, State: m[2], Text: blk})
	}
	return res
}

var waitingStates = map[string]bool{
	"chan send": true, "chan receive": true, "select": true, "semacquire": true,
	"sync.WaitGroup.Wait": true, "sync.Cond.Wait": true, "sync.Mutex.Lock": true,
	"chan send (nil chan)": true, "chan receive (nil chan)": true, "select (no cases)": true,
}

// allParked reports whether every core/mr goroutine is parked in a channel /
// select / semaphore wait (as opposed to runnable, running, sleeping, syscall).
func allParked(gs []gState) (bool, string) {
	for _, g := range gs {
		if !waitingStates[g.State] {
			return false, g.State
		}
	}
	return true, ""
}

func markLeaked() {
	for _, g := range mrGoroutines() {
		knownLeaked[g.ID] = true
	}
}

// leakClass derives the violation key of a leak from the stuck stacks and from
// what happened in the run: one defect = one class.
func (r *run) leakClass(gs []kit.Goroutine, o outcome) string {
	origin := ""
	for _, g := range gs {
		if !strings.Contains(g.Stack, "onceChan).write") {
			continue
		}
		switch {
		case strings.Contains(g.Stack, "buildSource"):
			origin = "generator-panic"
		case strings.Contains(g.Stack, "executeMappers"):
			origin = "mapper-panic"
		case strings.Contains(g.Stack, "mapReduceWithPanicChan"):
			origin = "reducer-runtime-panic"
			for _, p := range r.panicsCopy() {
				if strings.HasPrefix(p.By, roleRed) {
					origin = "reducer-panic"
				}
			}
		default:
			origin = "other"
		}
	}
	if origin != "" {
		return "C10/leak/panic-write-blocked/" + origin
	}
	var tops []string
	for _, g := range gs {
		tops = append(tops, frames(g.Stack, 2))
	}
	sort.Strings(tops)
	return "C10/leak/" + kit.KeyPart(tops[0])
}

func (r *run) panicsCopy() []panicEv {
	r.evmu.Lock()
	defer r.evmu.Unlock()
	return append([]panicEv(nil), r.panics...)
}

func (r *run) cancelsCopy() []cancelEv {
	r.evmu.Lock()
	defer r.evmu.Unlock()
	return append([]cancelEv(nil), r.cancels...)
}

func (r *run) writesCopy() []writeEv {
	r.evmu.Lock()
	defer r.evmu.Unlock()
	return append([]writeEv(nil), r.writes...)
}

func stacksOf(gs []kit.Goroutine) []string {
	var s []string
	for _, g := range gs {
		s = append(s, strconv.Itoa(g.Count)+" x\n"+g.Stack)
	}
	return s
}
