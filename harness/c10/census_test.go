package c10

// census_test.go: goroutine dumps — which goroutines belong to a run (pprof
// label, kit.LabelledGoroutines), whether a user function is still running
// (frame c10.(*run).uf*), and in which scheduler state the core/mr goroutines
// are (runtime.Stack), so that "stable" is never confused with "runnable but
// not yet scheduled on a loaded machine".

import (
	"context"
	"regexp"
	"runtime"
	"sort"
	"strconv"
	"strings"
	"sync/atomic"
	"time"

	"verifharness/kit"
)

const ufMark = "c10.(*run).uf"

var genericRe = regexp.MustCompile(`\[[^\]]*\]`)

// hasUserFrame: a user function is still RUNNING on this goroutine. A user
// function that terminated by panicking stays on the stack below runtime.gopanic
// while core/mr's deferred recover handler runs: that one has returned.
func hasUserFrame(g kit.Goroutine) bool {
	i := strings.Index(g.Stack, ufMark)
	if i < 0 {
		return false
	}
	j := strings.Index(g.Stack, "runtime.gopanic")
	return !(j >= 0 && j < i)
}

func anyUserFrame(gs []kit.Goroutine) bool {
	for _, g := range gs {
		if hasUserFrame(g) {
			return true
		}
	}
	return false
}

// heldByHarness: a user function is running and is parked in harness code (a
// hold / the generator's send), i.e. it waits for something the harness
// controls. A user function parked INSIDE a core/mr call (Writer.Write, cancel)
// is being blocked by core/mr, not by the harness.
func heldByHarness(g kit.Goroutine) bool {
	if !hasUserFrame(g) {
		return false
	}
	for _, ln := range strings.Split(g.Stack, "\n") {
		if ln == "" || strings.HasPrefix(ln, "{") || strings.HasPrefix(ln, "labels:") ||
			strings.HasPrefix(ln, "runtime.") || strings.HasPrefix(ln, "sync.") || strings.HasPrefix(ln, "runtime/") {
			continue
		}
		return strings.HasPrefix(ln, "verifharness/c10.")
	}
	return false
}

func anyHeldByHarness(gs []kit.Goroutine) bool {
	for _, g := range gs {
		if heldByHarness(g) {
			return true
		}
	}
	return false
}

func fingerprintOf(gs []kit.Goroutine) string {
	var parts []string
	for _, g := range gs {
		parts = append(parts, strconv.Itoa(g.Count)+"x"+g.Stack)
	}
	sort.Strings(parts)
	return strings.Join(parts, "|")
}

// frames returns the first n non-runtime function names (generic instantiation
// brackets and package paths stripped) of a labelled stack.
func frames(stack string, n int) string {
	var keep []string
	for _, ln := range strings.Split(stack, "\n") {
		if strings.HasPrefix(ln, "{") || strings.HasPrefix(ln, "labels:") { // the label line of the profile block
			continue
		}
		keep = append(keep, ln)
	}
	return genericRe.ReplaceAllString(kit.TopFrames(strings.Join(keep, "\n"), n), "")
}

const (
	genSendMark  = "c10.(*run).genSend"
	buildSrcMark = "go-zero/core/mr.buildSource"
)

// innermostFrame returns the innermost non-runtime function of a labelled stack.
func innermostFrame(g kit.Goroutine) string {
	for _, ln := range strings.Split(g.Stack, "\n") {
		if ln == "" || strings.HasPrefix(ln, "{") || strings.HasPrefix(ln, "labels:") ||
			strings.HasPrefix(ln, "runtime.") || strings.HasPrefix(ln, "sync.") || strings.HasPrefix(ln, "runtime/") {
			continue
		}
		return ln
	}
	return ""
}

// generatorInSend: the goroutine started by mr.buildSource is inside the harness
// generator, and the generator is in its send on the source channel (genSend's
// select is the innermost non-runtime frame).
func generatorInSend(g kit.Goroutine) bool {
	return hasUserFrame(g) && strings.Contains(g.Stack, buildSrcMark) && strings.Contains(innermostFrame(g), genSendMark)
}

// onlyGeneratorsInSend: at least one generator of the call sits in its send, and
// no OTHER user function of the call is still running (every other goroutine of
// the call, if any, is inside core/mr only).
func onlyGeneratorsInSend(gs []kit.Goroutine) bool {
	n := 0
	for _, g := range gs {
		switch {
		case generatorInSend(g):
			n++
		case hasUserFrame(g):
			return false
		}
	}
	return n > 0
}

// progress condenses everything the user functions of this run have done so far
// into one number (atomic loads only: the census does not synchronise the user
// functions with each other).
func (r *run) progress() uint64 {
	var n uint64
	for i := range r.mapped {
		n += uint64(atomic.LoadInt32(&r.mapped[i]))
	}
	for i := range r.written {
		n += uint64(atomic.LoadInt32(&r.written[i])) + uint64(atomic.LoadInt32(&r.reduced[i]))
	}
	r.evmu.Lock()
	n += uint64(len(r.cancels) + len(r.panics) + len(r.writes))
	for _, c := range r.cancels {
		if c.Ret != 0 {
			n++
		}
	}
	for _, w := range r.writes {
		if w.Ret != 0 {
			n++
		}
	}
	r.evmu.Unlock()
	n += uint64(r.genSent.Load()) + uint64(r.faultHit.Load()) + uint64(r.ctxHit.Load())
	for i := range r.moreHit {
		n += uint64(r.moreHit[i].Load())
	}
	if r.redRet.Load() != 0 {
		n++
	}
	if r.genReturned.Load() {
		n++
	}
	return n
}

type abandonVerdict int

const (
	abandonGone      abandonVerdict = iota // the state dissolved: the generator moved on, or another user function is running
	abandonConfirmed                       // identical in abandonDumps further dumps, everything parked, no progress
	abandonUndecided                       // the pattern persisted but the state never stood still
)

const (
	abandonDumps    = 3                      // further identical dumps after the stable census
	abandonEvery    = 100 * time.Millisecond // generous; only spaces the dumps, never decides
	abandonMaxDumps = 40
)

var abandonReported = map[string]int{} // violation key -> reports by this process

// confirmAbandoned decides, by state only, whether the generator(s) of the call
// are stuck in their send for good: the call has returned, every hold of the
// harness has been released, no other user function of the call is running, and
// in abandonDumps further dumps the labelled stacks are identical, every core/mr
// goroutine is PARKED in a channel/select/semaphore wait (nobody is merely
// waiting for a CPU), and no user function made any progress in between. Every
// goroutine that could receive from the source channel belongs to the call (it
// carries the label): if none of them is runnable and none is inside user code,
// nothing can ever wake the generator.
func (r *run) confirmAbandoned(first []kit.Goroutine, every time.Duration) (abandonVerdict, []kit.Goroutine, int) {
	fp, prog, same := fingerprintOf(first), r.progress(), 0
	for i := 1; i <= abandonMaxDumps; i++ {
		time.Sleep(every)
		gs := kit.LabelledGoroutines(r.id)
		if !onlyGeneratorsInSend(gs) {
			return abandonGone, gs, i
		}
		parked, _ := allParked(mrGoroutines())
		f, p := fingerprintOf(gs), r.progress()
		if f == fp && p == prog && parked {
			same++
			if same >= abandonDumps {
				return abandonConfirmed, gs, i
			}
			continue
		}
		fp, prog, same = f, p, 0
	}
	return abandonUndecided, nil, abandonMaxDumps
}

// abandonClass: what had happened in the run whose generator was abandoned.
func (r *run) abandonClass() string {
	switch {
	case r.ctxDoneAtCall.Load():
		return "ctx-ended-before-call"
	case r.ctxEndInv.Load() != 0 || (r.ctx != nil && r.ctx.Err() == context.DeadlineExceeded):
		return "ctx-ended-during-call"
	case len(r.cancelsCopy()) > 0:
		return "after-cancel"
	case len(r.panicsCopy()) > 0:
		return "after-user-panic"
	}
	return "no-fault"
}

var knownLeaked = map[int]bool{} // goroutine ids already reported as leaked by earlier runs of this process

type gState struct {
	ID    int
	State string
	Text  string
}

var gHdr = regexp.MustCompile(`^goroutine (\d+) \[([^\],]+)`)

// mrGoroutines returns the goroutines (other than already reported ones) that
// have a core/mr frame on their stack, with their scheduler state.
func mrGoroutines() []gState {
	buf := make([]byte, 1<<20)
	for {
		n := runtime.Stack(buf, true)
		if n < len(buf) {
			buf = buf[:n]
			break
		}
		buf = make([]byte, 2*len(buf))
	}
	var res []gState
	for _, blk := range strings.Split(string(buf), "\n\n") {
		if !strings.Contains(blk, "go-zero/core/mr.") {
			continue
		}
		m := gHdr.FindStringSubmatch(blk)
		if m == nil {
			continue
		}
		id, _ := strconv.Atoi(m[1])
		if knownLeaked[id] {
			continue
		}
		res = append(res, gState{ID: id, State: m[2], Text: blk})
	}
	return res
}

var waitingStates = map[string]bool{
	"chan send": true, "chan receive": true, "select": true, "semacquire": true,
	"sync.WaitGroup.Wait": true, "sync.Cond.Wait": true, "sync.Mutex.Lock": true,
	"chan send (nil chan)": true, "chan receive (nil chan)": true, "select (no cases)": true,
}

// allParked reports whether every core/mr goroutine is parked in a channel /
// select / semaphore wait (as opposed to runnable, running, sleeping, syscall).
func allParked(gs []gState) (bool, string) {
	for _, g := range gs {
		if !waitingStates[g.State] {
			return false, g.State
		}
	}
	return true, ""
}

func markLeaked() {
	for _, g := range mrGoroutines() {
		knownLeaked[g.ID] = true
	}
}

// panicWriteOrigin tells which goroutine of the call is parked in onceChan.write
// (the unbuffered hand-over of a recovered panic to the caller), if any.
func (r *run) panicWriteOrigin(gs []kit.Goroutine) string {
	origin := ""
	for _, g := range gs {
		if !strings.Contains(g.Stack, "onceChan).write") {
			continue
		}
		switch {
		case strings.Contains(g.Stack, "buildSource"):
			origin = "generator-panic"
		case strings.Contains(g.Stack, "executeMappers"):
			origin = "mapper-panic"
		case strings.Contains(g.Stack, "mapReduceWithPanicChan"):
			origin = "reducer-runtime-panic"
			for _, p := range r.panicsCopy() {
				if strings.HasPrefix(p.By, roleRed) {
					origin = "reducer-panic"
				}
			}
		default:
			origin = "other"
		}
	}
	return origin
}

// pwClass maps the goroutine parked in onceChan.write to a defect class: a user
// panic that nobody will ever receive, or the runtime's "send on closed channel"
// raised inside guardedWriter.Write (recovered by the reducer goroutine).
func (r *run) pwClass(gs []kit.Goroutine) string {
	origin := r.panicWriteOrigin(gs)
	if origin == "" {
		return ""
	}
	for _, g := range gs {
		if strings.Contains(g.Stack, "onceChan).write") && strings.Contains(g.Stack, "runtime.chansend") && strings.Contains(g.Stack, "guardedWriter") {
			return "send-on-closed-channel/" + r.closeRaceClass()
		}
	}
	if origin == "reducer-runtime-panic" || origin == "other" {
		return "non-user-panic"
	}
	return "user-panic"
}

// leakClass derives the violation key of a leak from the stuck stacks and from
// what happened in the run: one defect = one class.
func (r *run) leakClass(gs []kit.Goroutine) string {
	if c := r.pwClass(gs); c != "" {
		return "C10/leak/panic-write-blocked/" + c
	}
	var tops []string
	for _, g := range gs {
		tops = append(tops, frames(g.Stack, 2))
	}
	sort.Strings(tops)
	return "C10/leak/" + kit.KeyPart(tops[0])
}

// deadlockClass: what the caller is (transitively) waiting for, else where it is parked.
func (r *run) deadlockClass(gs []kit.Goroutine) string {
	if c := r.pwClass(gs); c != "" {
		return "C10/deadlock/panic-write-blocked/" + c
	}
	caller := "unknown"
	for _, g := range gs {
		if strings.Contains(g.Stack, "c10.(*run).invoke") {
			caller = frames(g.Stack, 1)
		}
	}
	return "C10/deadlock/caller-in-" + kit.KeyPart(caller)
}

func (r *run) panicsCopy() []panicEv {
	r.evmu.Lock()
	defer r.evmu.Unlock()
	return append([]panicEv(nil), r.panics...)
}

func (r *run) cancelsCopy() []cancelEv {
	r.evmu.Lock()
	defer r.evmu.Unlock()
	return append([]cancelEv(nil), r.cancels...)
}

func (r *run) writesCopy() []writeEv {
	r.evmu.Lock()
	defer r.evmu.Unlock()
	return append([]writeEv(nil), r.writes...)
}

func stacksOf(gs []kit.Goroutine) []string {
	var s []string
	for _, g := range gs {
		s = append(s, strconv.Itoa(g.Count)+" x\n"+g.Stack)
	}
	return s
}

// closeRaceClass: was the reducer Write that blew up ("send on closed channel")
// begun while the termination (cancel / context branch) was still in progress,
// or only after a cancel call had already returned (then it had to be dropped)?
func (r *run) closeRaceClass() string {
	cs := r.cancelsCopy()
	for _, w := range r.writesCopy() {
		if w.Ret != 0 {
			continue
		}
		for _, c := range cs {
			if c.Ret != 0 && c.Ret < w.Inv {
				return "write-began-after-cancel-returned"
			}
		}
	}
	return "write-concurrent-with-termination"
}
