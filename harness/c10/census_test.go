package c10

// census_test.go: goroutine dumps — which goroutines belong to a run (pprof
// label, kit.LabelledGoroutines), whether a user function is still running
// (frame c10.(*run).uf*), and in which scheduler state the core/mr goroutines
// are (runtime.Stack), so that "stable" is never confused with "runnable but
// not yet scheduled on a loaded machine".

import (
	"regexp"
	"runtime"
	"sort"
	"strconv"
	"strings"

	"verifharness/kit"
)

const ufMark = "c10.(*run).uf"

var genericRe = regexp.MustCompile(`\[[^\]]*\]`)

// hasUserFrame: a user function is still RUNNING on this goroutine. A user
// function that terminated by panicking stays on the stack below runtime.gopanic
// while core/mr's deferred recover handler runs: that one has returned.
func hasUserFrame(g kit.Goroutine) bool {
	i := strings.Index(g.Stack, ufMark)
	if i < 0 {
		return false
	}
	j := strings.Index(g.Stack, "runtime.gopanic")
	return !(j >= 0 && j < i)
}

func anyUserFrame(gs []kit.Goroutine) bool {
	for _, g := range gs {
		if hasUserFrame(g) {
			return true
		}
	}
	return false
}

// heldByHarness: a user function is running and is parked in harness code (a
// hold / the generator's send), i.e. it waits for something the harness
// controls. A user function parked INSIDE a core/mr call (Writer.Write, cancel)
// is being blocked by core/mr, not by the harness.
func heldByHarness(g kit.Goroutine) bool {
	if !hasUserFrame(g) {
		return false
	}
	for _, ln := range strings.Split(g.Stack, "\n") {
		if ln == "" || strings.HasPrefix(ln, "{") || strings.HasPrefix(ln, "labels:") ||
			strings.HasPrefix(ln, "runtime.") || strings.HasPrefix(ln, "sync.") || strings.HasPrefix(ln, "runtime/") {
			continue
		}
		return strings.HasPrefix(ln, "verifharness/c10.")
	}
	return false
}

func anyHeldByHarness(gs []kit.Goroutine) bool {
	for _, g := range gs {
		if heldByHarness(g) {
			return true
		}
	}
	return false
}

func fingerprintOf(gs []kit.Goroutine) string {
	var parts []string
	for _, g := range gs {
		parts = append(parts, strconv.Itoa(g.Count)+"x"+g.Stack)
	}
	sort.Strings(parts)
	return strings.Join(parts, "|")
}

// frames returns the first n non-runtime function names (generic instantiation
// brackets and package paths stripped) of a labelled stack.
func frames(stack string, n int) string {
	var keep []string
	for _, ln := range strings.Split(stack, "\n") {
		if strings.HasPrefix(ln, "{") || strings.HasPrefix(ln, "labels:") { // the label line of the profile block
			continue
		}
		keep = append(keep, ln)
	}
	return genericRe.ReplaceAllString(kit.TopFrames(strings.Join(keep, "\n"), n), "")
}

var knownLeaked = map[int]bool{} // goroutine ids already reported as leaked by earlier runs of this process

type gState struct {
	ID    int
	State string
	Text  string
}

var gHdr = regexp.MustCompile(`^goroutine (\d+) \[([^\],]+)`)

// mrGoroutines returns the goroutines (other than already reported ones) that
// have a core/mr frame on their stack, with their scheduler state.
func mrGoroutines() []gState {
	buf := make([]byte, 1<<20)
	for {
		n := runtime.Stack(buf, true)
		if n < len(buf) {
			buf = buf[:n]
			break
		}
		buf = make([]byte, 2*len(buf))
	}
	var res []gState
	for _, blk := range strings.Split(string(buf), "\n\n") {
		if !strings.Contains(blk, "go-zero/core/mr.") {
			continue
		}
		m := gHdr.FindStringSubmatch(blk)
		if m == nil {
			continue
		}
		id, _ := strconv.Atoi(m[1])
		if knownLeaked[id] {
			continue
		}
		res = append(res, gState{ID: id, State: m[2], Text: blk})
	}
	return res
}

var waitingStates = map[string]bool{
	"chan send": true, "chan receive": true, "select": true, "semacquire": true,
	"sync.WaitGroup.Wait": true, "sync.Cond.Wait": true, "sync.Mutex.Lock": true,
	"chan send (nil chan)": true, "chan receive (nil chan)": true, "select (no cases)": true,
}

// allParked reports whether every core/mr goroutine is parked in a channel /
// select / semaphore wait (as opposed to runnable, running, sleeping, syscall).
func allParked(gs []gState) (bool, string) {
	for _, g := range gs {
		if !waitingStates[g.State] {
			return false, g.State
		}
	}
	return true, ""
}

func markLeaked() {
	for _, g := range mrGoroutines() {
		knownLeaked[g.ID] = true
	}
}

// panicWriteOrigin tells which goroutine of the call is parked in onceChan.write
// (the unbuffered hand-over of a recovered panic to the caller), if any.
func (r *run) panicWriteOrigin(gs []kit.Goroutine) string {
	origin := ""
	for _, g := range gs {
		if !strings.Contains(g.Stack, "onceChan).write") {
			continue
		}
		switch {
		case strings.Contains(g.Stack, "buildSource"):
			origin = "generator-panic"
		case strings.Contains(g.Stack, "executeMappers"):
			origin = "mapper-panic"
		case strings.Contains(g.Stack, "mapReduceWithPanicChan"):
			origin = "reducer-runtime-panic"
			for _, p := range r.panicsCopy() {
				if strings.HasPrefix(p.By, roleRed) {
					origin = "reducer-panic"
				}
			}
		default:
			origin = "other"
		}
	}
	return origin
}

// pwClass maps the goroutine parked in onceChan.write to a defect class: a user
// panic that nobody will ever receive, or the runtime's "send on closed channel"
// raised inside guardedWriter.Write (recovered by the reducer goroutine).
func (r *run) pwClass(gs []kit.Goroutine) string {
	origin := r.panicWriteOrigin(gs)
	if origin == "" {
		return ""
	}
	for _, g := range gs {
		if strings.Contains(g.Stack, "onceChan).write") && strings.Contains(g.Stack, "runtime.chansend") && strings.Contains(g.Stack, "guardedWriter") {
			return "send-on-closed-channel/" + r.closeRaceClass()
		}
	}
	if origin == "reducer-runtime-panic" || origin == "other" {
		return "non-user-panic"
	}
	return "user-panic"
}

// leakClass derives the violation key of a leak from the stuck stacks and from
// what happened in the run: one defect = one class.
func (r *run) leakClass(gs []kit.Goroutine) string {
	if c := r.pwClass(gs); c != "" {
		return "C10/leak/panic-write-blocked/" + c
	}
	var tops []string
	for _, g := range gs {
		tops = append(tops, frames(g.Stack, 2))
	}
	sort.Strings(tops)
	return "C10/leak/" + kit.KeyPart(tops[0])
}

// deadlockClass: what the caller is (transitively) waiting for, else where it is parked.
func (r *run) deadlockClass(gs []kit.Goroutine) string {
	if c := r.pwClass(gs); c != "" {
		return "C10/deadlock/panic-write-blocked/" + c
	}
	caller := "unknown"
	for _, g := range gs {
		if strings.Contains(g.Stack, "c10.(*run).invoke") {
			caller = frames(g.Stack, 1)
		}
	}
	return "C10/deadlock/caller-in-" + kit.KeyPart(caller)
}

func (r *run) panicsCopy() []panicEv {
	r.evmu.Lock()
	defer r.evmu.Unlock()
	return append([]panicEv(nil), r.panics...)
}

func (r *run) cancelsCopy() []cancelEv {
	r.evmu.Lock()
	defer r.evmu.Unlock()
	return append([]cancelEv(nil), r.cancels...)
}

func (r *run) writesCopy() []writeEv {
	r.evmu.Lock()
	defer r.evmu.Unlock()
	return append([]writeEv(nil), r.writes...)
}

func stacksOf(gs []kit.Goroutine) []string {
	var s []string
	for _, g := range gs {
		s = append(s, strconv.Itoa(g.Count)+" x\n"+g.Stack)
	}
	return s
}

// closeRaceClass: was the reducer Write that blew up ("send on closed channel")
// begun while the termination (cancel / context branch) was still in progress,
// or only after a cancel call had already returned (then it had to be dropped)?
func (r *run) closeRaceClass() string {
	cs := r.cancelsCopy()
	for _, w := range r.writesCopy() {
		if w.Ret != 0 {
			continue
		}
		for _, c := range cs {
			if c.Ret != 0 && c.Ret < w.Inv {
				return "write-began-after-cancel-returned"
			}
		}
	}
	return "write-concurrent-with-termination"
}
