package c10

// oracle2_test.go: a success-like outcome (value, nil, ErrReduceNoOutput) of a
// run in which a fault really happened. Success is legal when the fault took
// effect after the reducer had committed; it is a violation only when the
// logical stamps (or the structure of the pipeline) prove the opposite.

import (
	"fmt"
	"strings"
)

func firstN(s string, n int) string {
	if len(s) > n {
		return s[:n]
	}
	return s
}

func (r *run) judgeSuccessDespiteFault(o outcome, cancels []cancelEv, panics []panicEv, writes []writeEv, ctxEndedInRun bool, ctxRet uint64) {
	p := r.p
	r.c.Obs("success_like_outcome_in_faulted_run", 1)
	// Finish: any function that returned an error makes the call return one of them
	if p.API == apiFinish {
		if len(cancels) > 0 {
			r.viol(r.lostKey("C10/outcome/finish-error-lost", cancels), "Finish returned nil although a function returned an error", o)
			return
		}
	}
	// commit point: invocation stamp of the reducer Write that produced the value; for
	// no-output outcomes the stamp taken when the reducer function was about to return
	commit := r.redRet.Load()
	noOutput := true
	if o.Kind == "value" {
		noOutput = false
		found := false
		for _, w := range writes {
			if w.Val == o.Val {
				commit, found = w.Inv, true
			}
		}
		if !found {
			r.viol("C10/outcome/value-not-written", fmt.Sprintf("returned value %d was never written by the reducer (writes %v)", o.Val, writes), o)
			return
		}
	}
	if noOutput && p.hasReducer() {
		// ErrReduceNoOutput (nil for MapReduceVoid) means "the reducer finished without output":
		// the reducer function must have returned before the call did
		if rr := r.redRet.Load(); rr == 0 || rr > o.Ret {
			var before []cancelEv
			for _, c := range cancels {
				if c.Inv < o.Ret {
					before = append(before, c)
				}
			}
			r.viol(r.lostKey("C10/outcome/no-output-before-reducer-returned", before),
				fmt.Sprintf("the call returned %s (stamp %d) although the reducer function had not returned yet (its return stamp: %d)", o.String(), o.Ret, rr), o)
			return
		}
	}
	if p.Inflight && commit != 0 {
		// S4: the cancel call had been seen parked inside core/mr (error registered, draining the
		// source) before the reducer's Write was invoked
		if cp := r.cancelParked.Load(); cp != 0 && cp < commit {
			r.viol("C10/outcome/success-while-cancel-in-progress",
				fmt.Sprintf("cancel(err) was in progress inside core/mr (seen parked at stamp %d) before the reducer committed (stamp %d), yet the call returned %s", cp, commit, o.String()), o)
			return
		}
	}
	if p.hasReducer() && commit != 0 {
		// S1: a cancel call that had RETURNED before the commit point began makes success impossible
		for _, c := range cancels {
			if c.Ret != 0 && c.Ret < commit {
				r.viol(r.lostKey("C10/outcome/success-after-cancel-completed", []cancelEv{c}),
					fmt.Sprintf("cancel(%s) had returned (stamp %d) before the reducer committed (stamp %d), yet the call returned %s", c.Err, c.Ret, commit, o.String()), o)
				return
			}
		}
		// S2: the context had ended before the reducer's Write was invoked: the write must be dropped
		if ctxRet != 0 && ctxRet < commit {
			if !noOutput {
				r.viol("C10/outcome/success-after-ctx-ended/value",
					fmt.Sprintf("the context had ended (stamp %d) before the reducer's Write was invoked (stamp %d), yet the call returned %s", ctxRet, commit, o.String()), o)
				return
			}
			// no-output flavour: see DESIGN §7.1 / findings — counted, judged by obs only
			r.c.Obs("no_output_or_nil_after_ctx_ended_before_reducer_return", 1)
			if p.ctxBeforeCall() {
				// no concurrency to argue with: the context had ended before the call was even made
				r.c.Obs("no_output_or_nil_with_ctx_cancelled_before_the_call", 1)
				r.viol("C10/outcome/success-after-ctx-ended/no-output/ctx-cancelled-before-the-call",
					"the context was cancelled before the call was made, yet the call returned "+o.String()+" instead of a context error", o)
				return
			}
		}
	}
	// S3: the ONLY fault of the run is one user panic, and the pipeline structure makes it
	// impossible for the reducer to commit before the caller has consumed that panic
	if len(panics) == 1 && len(cancels) == 0 && !ctxEndedInRun && p.Red != redTwice {
		pe := panics[0]
		byRed := strings.HasPrefix(pe.By, roleRed)
		structural := false
		switch {
		case !p.hasReducer():
			structural = true // ForEach / FinishVoid: the collector closes only after every mapper is done
		case byRed:
			structural = true
			for _, w := range writes {
				if w.Inv < pe.Stamp {
					structural = false // the reducer had started a Write before it panicked
				}
			}
		default:
			structural = p.API == apiVoid || p.Red == redLate || p.Red == redNever
		}
		if structural {
			key := "C10/outcome/panic-lost"
			if panicClassOf(pe.val) == "typed_nil_pointer" {
				key += "/panic-value-is-a-typed-nil-pointer"
			}
			r.viol(key, "the only fault of the run was the user panic by "+pe.By+" and the reducer cannot commit before it is consumed, yet the call returned "+o.String(), o)
		}
	}
	// S3b: ForEach / FinishVoid / Finish without any failing function, several user panics, nothing else: the
	// call cannot return before every mapper is done (the collector closes after the last one), and each
	// panic is handed over before its mapper counts as done - so one of them must have been re-raised
	if len(panics) > 1 && len(cancels) == 0 && !ctxEndedInRun && !p.hasReducer() {
		for _, pe := range panics {
			if pe.Stamp < o.Ret {
				key := "C10/outcome/panic-lost/several-user-panics"
				for _, q := range panics {
					if strings.HasPrefix(q.By, roleGen) {
						// a class of its own: the generator's hand-over of its panic is not ordered before
						// the close of the collector (findings/C10-panic-lost-between-cas-and-send.md)
						key += "/one-of-them-by-the-generator"
						break
					}
				}
				r.viol(key, fmt.Sprintf("%d user functions panicked (the first by %s) before the call returned, nothing else happened, yet %s returned %s",
					len(panics), pe.By, p.API, o.String()), o)
				break
			}
		}
	}
}
