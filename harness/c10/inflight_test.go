package c10

// inflight_test.go: family `inflight` — a cancel call that is still IN PROGRESS
// when the reducer commits. The generator is held before its second item, mapper 0
// writes its value and calls cancel(err): cancel registers the error and then
// drains the (held) generator, so it cannot return. Only when a goroutine dump
// shows that cancel call parked inside core/mr (twice, unchanged) is the reducer
// let go to write its value; then the generator is released. The call must return
// the cancel error: a cancel that was under way before the reducer's Write was
// even invoked must not be overtaken by the value.

import (
	"strings"
	"time"

	"verifharness/kit"
)

func planInflight(c *kit.Case) plan {
	r := c.R
	p := plan{Inflight: true, Red: redEarly, Fan: 1} // one value: mapper 0 must get past its write with the reducer held
	p.API = apiMR
	p.Workers = 1 + r.Intn(4)
	p.Items = 2 + r.Intn(4)
	p.Yields = r.Intn(10)
	return p
}

func cancelParkedInMr(gs []kit.Goroutine) bool {
	for _, g := range gs {
		i := strings.Index(g.Stack, "core/mr.drain")
		j := strings.Index(g.Stack, "c10.(*run).doCancel")
		if i >= 0 && j > i && strings.Contains(g.Stack, "c10.(*run).ufMap") {
			return true
		}
	}
	return false
}

// driveInflight returns the outcome if the call returned while being driven.
func (r *run) driveInflight(done <-chan outcome) (outcome, bool) {
	defer func() {
		r.closeOnce(7, r.redGo)
		r.closeOnce(6, r.genHold)
	}()
	t := time.NewTimer(watchdog)
	defer t.Stop()
	select {
	case o := <-done:
		return o, true
	case <-r.redGot:
	case <-t.C:
		r.c.Obs("inflight_not_reached", 1)
		return outcome{}, false
	}
	// wait until the mapper's cancel call is parked inside core/mr in two consecutive dumps
	seen := 0
	for i := 0; i < 400 && seen < 2; i++ {
		select {
		case o := <-done:
			return o, true
		default:
		}
		if cancelParkedInMr(kit.LabelledGoroutines(r.id)) {
			seen++
		} else {
			seen = 0
		}
		time.Sleep(5 * time.Millisecond)
	}
	if seen < 2 {
		r.c.Obs("inflight_not_reached", 1)
		return outcome{}, false
	}
	r.cancelParked.Store(kit.Stamp())
	r.c.Obs("inflight_cancel_seen_parked_before_reducer_write", 1)
	r.closeOnce(7, r.redGo)
	// the reducer's Write is delivered to the caller (or dropped); then let the generator go
	for i := 0; i < 2000; i++ {
		ws := r.writesCopy()
		if len(ws) > 0 && ws[0].Ret != 0 {
			break
		}
		select {
		case o := <-done:
			return o, true
		default:
		}
		time.Sleep(time.Millisecond)
	}
	return outcome{}, false
}
