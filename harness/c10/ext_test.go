package c10

// ext_test.go: the values that travel through core/mr unchanged by contract —
// the error handed to cancel (or returned by a Finish function) and the value a
// user function panics with — drawn from the classes real callers produce, any
// number of faults in one call (several Finish functions failing with errors of
// different dynamic types, several panics, a function that stays inside until
// the call has returned), and the families built from them. The oracle is the
// one of oracle_test.go: the returned error must be identical to an error that
// was passed to cancel in this run, a re-raised panic must carry a value a user
// function of this run panicked with.

import (
	"context"
	"errors"
	"fmt"
	"reflect"

	"github.com/zeromicro/go-zero/core/mr"

	"verifharness/kit"
)

// xfault is one further fault of a plan (plan.More).
type xfault struct {
	Kind string `json:"fault"`
	At   pos    `json:"at"`
	Then string `json:"then,omitempty"` // kHeld only
}

func (p plan) hasKind(k string) bool {
	if p.Kind == k || p.SecondKind == k {
		return true
	}
	for _, f := range p.More {
		if f.Kind == k {
			return true
		}
	}
	return false
}

// ---------------------------------------------------------------- error values passed to cancel

const (
	ecPointer     = ""                         // *userErr, a fresh pointer per cancel (the classes below are opt-in per plan)
	ecTypedNil    = "typed-nil-pointer"        // a non-nil error interface holding a nil *nilableErr (its Error tolerates the nil receiver)
	ecStruct      = "comparable-struct"        // valErr: struct value with a value receiver, compared by value
	ecWrapped     = "fmt.Errorf(%w)"           // *fmt.wrapError around a fresh *userErr
	ecStd         = "errors.New"               // *errors.errorString
	ecSlice       = "non-comparable-slice"     // listErr: a slice type (== on two of them would panic)
	ecJoined      = "errors.Join"              // *errors.joinError of two fresh errors
	ecString      = "string-type"              // textErr: a defined string type
	ecMixed       = "mixed"                    // the n-th error of the run takes the n-th class: several dynamic types in one call
	ecWrapsNoOut  = "wraps-ErrReduceNoOutput"  // fmt.Errorf("...: %w", mr.ErrReduceNoOutput): what a nested MapReduce hands to the outer cancel
	ecBareNoOut   = "mr.ErrReduceNoOutput"     // the sentinel itself passed to cancel
	ecWrapsNilErr = "wraps-ErrCancelWithNil"   // an error of the caller that wraps the other sentinel
	ecWrapsCtxErr = "wraps-context.Canceled"   // an error of the caller that wraps a context error although no context ended
	ecWrapsDLErr  = "context.DeadlineExceeded" // the bare context sentinel passed to cancel without any context
)

var mixedClasses = []string{ecStd, ecStruct, ecWrapped, ecTypedNil, ecPointer, ecSlice, ecJoined, ecString}

type nilableErr struct {
	run string
	n   int
}

func (e *nilableErr) Error() string {
	if e == nil {
		return "typed-nil *nilableErr"
	}
	return fmt.Sprintf("nilable error %d of %s", e.n, e.run)
}

type valErr struct {
	Run string
	By  string
	N   int
}

func (e valErr) Error() string { return fmt.Sprintf("struct error %d of %s by %s", e.N, e.Run, e.By) }

type listErr []string

func (e listErr) Error() string { return fmt.Sprint([]string(e)) }

type textErr string

func (e textErr) Error() string { return string(e) }

func (r *run) errOfClass(by string, n int) error {
	class := r.p.Errs
	if class == ecMixed {
		class = mixedClasses[(n-1+int(r.c.Seed%uint64(len(mixedClasses))))%len(mixedClasses)]
	}
	text := fmt.Sprintf("user error %d of %s by %s", n, r.id, by)
	switch class {
	case ecTypedNil:
		var e *nilableErr
		return e
	case ecStruct:
		return valErr{Run: r.id, By: by, N: n}
	case ecWrapped:
		return fmt.Errorf("wrapped: %w", &userErr{run: r.id, by: by, n: n, text: text})
	case ecStd:
		return errors.New(text)
	case ecSlice:
		return listErr{r.id, by, fmt.Sprint(n)}
	case ecJoined:
		return errors.Join(errors.New(text), &userErr{run: r.id, by: by, n: n, text: text})
	case ecString:
		return textErr(text)
	case ecWrapsNoOut:
		return fmt.Errorf("%s: inner call: %w", text, mr.ErrReduceNoOutput)
	case ecBareNoOut:
		return mr.ErrReduceNoOutput
	case ecWrapsNilErr:
		return fmt.Errorf("%s: inner call: %w", text, mr.ErrCancelWithNil)
	case ecWrapsCtxErr:
		return fmt.Errorf("%s: upstream: %w", text, context.Canceled)
	case ecWrapsDLErr:
		return context.DeadlineExceeded
	}
	return &userErr{run: r.id, by: by, n: n, text: text}
}

// sameVal: a and b are the same value in the sense of `==` on interfaces; for a
// dynamic type that is not comparable (== would panic) identity of the backing
// array stands in.
func sameVal(a, b any) bool {
	if a == nil || b == nil {
		return a == nil && b == nil
	}
	ta, tb := reflect.TypeOf(a), reflect.TypeOf(b)
	if ta != tb {
		return false
	}
	if ta.Comparable() {
		return a == b
	}
	va, vb := reflect.ValueOf(a), reflect.ValueOf(b)
	if va.Kind() == reflect.Slice {
		return va.Len() == vb.Len() && va.Pointer() == vb.Pointer()
	}
	return false
}

func sameErr(a, b error) bool { return sameVal(a, b) }

// errClassOf names the class of an error value by its dynamic type (for the
// observation counters: what really came back).
func errClassOf(e error) string {
	switch v := e.(type) {
	case *nilableErr:
		if v == nil {
			return "typed_nil_pointer"
		}
		return "nilable_pointer"
	case *userErr:
		return "pointer"
	case valErr:
		return "comparable_struct"
	case listErr:
		return "non_comparable_slice"
	case textErr:
		return "string_type"
	}
	switch fmt.Sprintf("%T", e) {
	case "*fmt.wrapError":
		return "wrapped"
	case "*errors.errorString":
		return "errors_New"
	case "*errors.joinError":
		return "errors_Join"
	}
	return "other"
}

// distinctDynTypes counts the dynamic types among the non-nil errors passed to cancel.
func distinctDynTypes(cs []cancelEv) int {
	seen := map[reflect.Type]bool{}
	for _, c := range cs {
		if c.err != nil {
			seen[reflect.TypeOf(c.err)] = true
		}
	}
	return len(seen)
}

// lostKey: the key of "the call reported success although cancel(err) had taken
// effect". An error that wraps (or is) core/mr's own "no output" sentinel, and a
// nil pointer inside a non-nil error, are failing input classes of their own.
func (r *run) lostKey(base string, cs []cancelEv) string {
	if sw := swallowClass(cs); sw != "" {
		return "C10/outcome/cancel-error-swallowed" + sw + "/" + r.p.API
	}
	return base
}

func swallowClass(cs []cancelEv) string {
	for _, c := range cs {
		if c.err != nil && errors.Is(c.err, mr.ErrReduceNoOutput) {
			if c.err == mr.ErrReduceNoOutput {
				return "/cancel-error-is-ErrReduceNoOutput"
			}
			return "/cancel-error-wraps-ErrReduceNoOutput"
		}
	}
	for _, c := range cs {
		if v, ok := c.err.(*nilableErr); ok && v == nil {
			return "/typed-nil-pointer-error"
		}
	}
	return ""
}

// ---------------------------------------------------------------- panic values

const (
	pvStruct   = ""                     // userPanic (comparable struct), as everywhere else
	pvError    = "error-pointer"        // panic(err) with a fresh *userErr
	pvString   = "string"               // panic("...")
	pvTypedNil = "typed-nil-pointer"    // panic((*nilableErr)(nil)): recover() != nil, yet the pointer inside is nil
	pvSlice    = "non-comparable-slice" // panic([]string{...})
	pvWrapped  = "fmt.Errorf(%w)"       // panic(fmt.Errorf("...: %w", err))
	pvMixed    = "mixed"
)

var mixedPanics = []string{pvString, pvError, pvStruct, pvTypedNil, pvSlice, pvWrapped}

func (r *run) panicOfClass(v userPanic) any {
	class := r.p.PanicVal
	if class == pvMixed {
		class = mixedPanics[(v.N-1+int(r.c.Seed%uint64(len(mixedPanics))))%len(mixedPanics)]
	}
	text := fmt.Sprintf("user panic %d of %s by %s", v.N, v.Run, v.Role)
	switch class {
	case pvError:
		return &userErr{run: v.Run, by: v.Role, n: v.N, text: text}
	case pvString:
		return text
	case pvTypedNil:
		var e *nilableErr
		return e
	case pvSlice:
		return []string{v.Run, v.Role, fmt.Sprint(v.N)}
	case pvWrapped:
		return fmt.Errorf("%s: %w", text, &userErr{run: v.Run, by: v.Role, n: v.N, text: text})
	}
	return v
}

func panicClassOf(v any) string {
	switch x := v.(type) {
	case userPanic:
		return "struct"
	case *userErr:
		return "error_pointer"
	case string:
		return "string"
	case *nilableErr:
		if x == nil {
			return "typed_nil_pointer"
		}
	case []string:
		return "non_comparable_slice"
	case error:
		return "wrapped_error"
	}
	return "other"
}

// ---------------------------------------------------------------- families

var (
	errClassChoices = []string{ecTypedNil, ecTypedNil, ecTypedNil, ecMixed, ecMixed, ecMixed, ecStruct, ecWrapped, ecStd, ecSlice, ecJoined, ecString}
	panicChoices    = []string{pvMixed, pvMixed, pvError, pvString, pvTypedNil, pvTypedNil, pvSlice, pvWrapped, pvStruct}
)

func otherIndex(r *kit.Rand, n, not int) int {
	if n < 2 {
		return not
	}
	i := r.Intn(n - 1)
	if i >= not {
		i++
	}
	return i
}

// planErrVals: one of the cancelling APIs, the (first) cancel at a mapper or
// reducer position, with the error values drawn from a class; in half of the
// runs further cancels (other mappers, the reducer) follow in the same call, so
// that errors of several dynamic types are offered to one call.
func planErrVals(c *kit.Case) plan {
	r := c.R
	p := plan{}
	p.API = []string{apiMR, apiChan, apiVoid, apiFinish}[r.Pick(3, 2, 3, 2)]
	p.Errs = kit.Choose(r, errClassChoices)
	if p.API == apiFinish {
		p.Items = 1 + r.Intn(8)
		p.Yields = r.Intn(20)
		p.Kind = kCancelErr
		p.At = pos{roleMap, r.Intn(p.Items), phBefore}
		return p
	}
	sizes(r, &p)
	if p.Items == 0 {
		p.Items = 1 + r.Intn(4)
	}
	p.Red = redStyleFor(r, p.API)
	role := roleMap
	if r.Intn(3) == 0 {
		role = roleRed
		if p.Fan == 0 && r.Bool() {
			p.Fan = 1
		}
	}
	p.At = randPos(r, &p, role)
	switch r.Pick(8, 1, 1) {
	case 0:
		p.Kind = kCancelErr
	case 1:
		p.Kind = kCancelPanic
	case 2:
		p.Kind, p.Then = kHeld, thCancel
	}
	for n := r.Pick(5, 3, 2); n > 0; n-- {
		role := roleMap
		if r.Intn(3) == 0 {
			role = roleRed
		}
		at := randPos(r, &p, role)
		if at == p.At {
			continue
		}
		k := kCancelErr
		if r.Intn(8) == 0 {
			k = kCancelNil
		}
		p.More = append(p.More, xfault{Kind: k, At: at})
	}
	if r.Intn(6) == 0 {
		p.Ctx = ctxIdle
	}
	return p
}

// planFinishX: Finish / FinishVoid with a set of faults: two or more functions
// failing (errors of different dynamic types), a failing or panicking function
// next to one that stays inside until the call has returned, several panics.
func planFinishX(c *kit.Case) plan {
	r := c.R
	p := plan{Gauge: true, API: apiFinish}
	p.Items = 2 + r.Intn(7)
	p.Yields = r.Intn(20)
	p.Errs = kit.Choose(r, errClassChoices)
	p.PanicVal = kit.Choose(r, panicChoices)
	first := r.Intn(p.Items)
	at := func(i int) pos { return pos{roleMap, i, phBefore} }
	if r.Intn(3) == 0 {
		p.API = apiFinishVoid
		p.Errs = ecPointer
		p.Kind, p.At = kPanic, at(first)
		switch r.Intn(4) {
		case 0: // every other function panics as well
			for i := 0; i < p.Items; i++ {
				if i != first && r.Bool() {
					p.More = append(p.More, xfault{Kind: kPanic, At: at(i)})
				}
			}
		case 1:
			p.More = append(p.More, xfault{Kind: kHeld, At: at(otherIndex(r, p.Items, first)), Then: []string{thReturn, thPanic}[r.Intn(2)]})
		case 2:
			p.More = append(p.More, xfault{Kind: kStall, At: at(otherIndex(r, p.Items, first))})
		}
		return p
	}
	p.Kind, p.At = kCancelErr, at(first)
	switch r.Pick(5, 3, 2, 2, 1) {
	case 0: // two or more functions fail, mostly with errors of different dynamic types
		if r.Intn(3) != 0 {
			p.Errs = ecMixed
		}
		n := 0
		for i := 0; i < p.Items; i++ {
			if i != first && (n == 0 || r.Bool()) {
				p.More = append(p.More, xfault{Kind: kCancelErr, At: at(i)})
				n++
			}
		}
	case 1: // one fails, a sibling stays inside until the caller has the result
		p.More = append(p.More, xfault{Kind: kHeld, At: at(otherIndex(r, p.Items, first)), Then: []string{thReturn, thCancel, thPanic}[r.Intn(3)]})
	case 2: // one fails, one panics
		p.More = append(p.More, xfault{Kind: kPanic, At: at(otherIndex(r, p.Items, first))})
	case 3:
		p.More = append(p.More, xfault{Kind: kStall, At: at(otherIndex(r, p.Items, first))})
		if p.Items > 2 && r.Bool() {
			p.More = append(p.More, xfault{Kind: kCancelErr, At: at(otherIndex(r, p.Items, first))})
		}
	case 4: // several panics, no error
		p.Kind = kPanic
		p.More = append(p.More, xfault{Kind: kPanic, At: at(otherIndex(r, p.Items, first))})
	}
	return p
}

// planPanicVals: a user function panics with a value of a class; mostly the
// APIs without a reducer (ForEach, FinishVoid), where re-raising is the only way
// the caller learns about it. Optionally a second panic elsewhere, or a sibling
// mapper that stays inside until the panic has reached the caller.
func planPanicVals(c *kit.Case) plan {
	r := c.R
	p := plan{}
	p.API = []string{apiForEach, apiFinishVoid, apiMR, apiChan, apiVoid, apiFinish}[r.Pick(6, 3, 1, 1, 1, 1)]
	p.PanicVal = kit.Choose(r, panicChoices)
	p.Kind = kPanic
	if p.API == apiFinish || p.API == apiFinishVoid {
		p.Items = 1 + r.Intn(8)
		p.Yields = r.Intn(20)
		p.At = pos{roleMap, r.Intn(p.Items), phBefore}
		if p.Items > 1 && r.Bool() {
			k := []string{kPanic, kHeld, kStall}[r.Intn(3)]
			f := xfault{Kind: k, At: pos{roleMap, otherIndex(r, p.Items, p.At.Index), phBefore}}
			if k == kHeld {
				f.Then = []string{thReturn, thPanic}[r.Intn(2)]
			}
			p.More = append(p.More, f)
		}
		return p
	}
	sizes(r, &p)
	if p.Items == 0 {
		p.Items = 1 + r.Intn(4)
	}
	p.Red = redStyleFor(r, p.API)
	roles := rolesOf(p.API)
	if p.API == apiChan {
		roles = []string{roleMap, roleRed} // the feeder is a harness goroutine
	}
	p.At = randPos(r, &p, kit.Choose(r, roles))
	switch r.Intn(4) {
	case 0:
		at := randPos(r, &p, kit.Choose(r, roles))
		if at != p.At {
			p.More = append(p.More, xfault{Kind: kPanic, At: at})
		}
	case 1:
		at := randPos(r, &p, roleMap)
		if at != p.At {
			p.More = append(p.More, xfault{Kind: kHeld, At: at, Then: []string{thReturn, thPanic, thContinue}[r.Intn(3)]})
		}
	}
	if r.Intn(5) == 0 {
		p.Ctx = ctxIdle
	}
	return p
}

// planSentinel: the error handed to cancel wraps (or is) one of the sentinels of
// core/mr or of package context although no context ended - what a nested call
// produces. Same oracle: an error that was passed to cancel must come back.
func planSentinel(c *kit.Case) plan {
	r := c.R
	p := plan{}
	p.API = []string{apiMR, apiChan, apiVoid, apiFinish}[r.Pick(2, 1, 3, 3)]
	p.Errs = []string{ecWrapsNoOut, ecBareNoOut, ecWrapsNilErr, ecWrapsCtxErr, ecWrapsDLErr}[r.Pick(4, 2, 1, 2, 1)]
	p.Kind = kCancelErr
	if p.API == apiFinish {
		p.Items = 1 + r.Intn(6)
		p.Yields = r.Intn(20)
		p.At = pos{roleMap, r.Intn(p.Items), phBefore}
		return p
	}
	sizes(r, &p)
	if p.Items == 0 {
		p.Items = 1 + r.Intn(4)
	}
	p.Red = redStyleFor(r, p.API)
	role := roleMap
	if r.Intn(3) == 0 {
		role = roleRed
	}
	p.At = randPos(r, &p, role)
	return p
}
