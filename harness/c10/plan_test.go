// Package c10: MapReduce — exactly-once mapping, complete reduction, clean
// termination (DESIGN.md §4 C10). Black-box: only the public API of core/mr.
//
// plan_test.go: what one run looks like (API, sizes, reducer style, one fault
// at a (role, index, phase) position, how/when the context ends).
package c10

import (
	"fmt"

	"verifharness/kit"
)

const (
	apiMR         = "MapReduce"
	apiChan       = "MapReduceChan"
	apiVoid       = "MapReduceVoid"
	apiForEach    = "ForEach"
	apiFinish     = "Finish"
	apiFinishVoid = "FinishVoid"
)

const (
	roleGen = "generator"
	roleMap = "mapper"
	roleRed = "reducer"
)

const (
	phBefore = "before-write"
	phAfter  = "after-write"
)

// fault kinds
const (
	kNone        = ""
	kCancelErr   = "cancel(err)"
	kCancelNil   = "cancel(nil)"
	kPanic       = "panic"
	kStall       = "stall"                   // blocks until the harness releases it (no cancellation: the run stays clean)
	kOutlive     = "outlive-ctx"             // ends the context here, stays until the call has returned, then does Then
	kCancelPanic = "cancel+panic"            // cancel(err) and then panic in the same invocation (two faults)
	kHeld        = "held-until-call-returns" // no context involved: stays inside until the call has returned (or provably waits for it), then does Then
)

// what an outliving function does once it has been released
const (
	thReturn   = "return"
	thPanic    = "panic"
	thCancel   = "cancel(err)"
	thContinue = "continue" // carries on normally (writes, returns)
)

// reducer styles
const (
	redLate  = "write-after-pipe-closed"
	redEarly = "write-on-first-value" // or at pipe close when there is no value
	redNever = "never-writes"
	redTwice = "writes-twice"
)

// context modes
const (
	ctxNone     = ""             // no WithContext option
	ctxIdle     = "idle"         // WithContext(cancellable) that is never cancelled during the call
	ctxPre      = "pre"          // cancelled before the call
	ctxPreDL    = "pre-deadline" // context.WithDeadline whose deadline had already passed when it was created, before the call
	ctxAt       = "at"           // cancelled by the user function reaching CtxPos, inline (strictly before it continues)
	ctxAtAsync  = "at-async"     // as ctxAt, but by a helper goroutine racing the user function's next step
	ctxDeadline = "deadline"     // context.WithTimeout of a few hundred microseconds (real timer; either outcome is legal)
	ctxViaTimer = "via-timer"    // only with kOutlive: the outliver waits for a real, tiny deadline instead of cancelling
	ctxPark     = "cancelled-while-generator-parked" // family genpark: cancelled by the harness / a mapper, see genpark_test.go
)

// idxEnd as Index: generator: after the last item; reducer: after the pipe was closed.
const idxEnd = -1

type pos struct {
	Role  string `json:"role"`
	Index int    `json:"index"` // generator/mapper: item id; reducer: 0 = on entry, k = after receiving the k-th value, idxEnd = pipe closed
	Phase string `json:"phase"` // relative to the write of that step (generator: the send; mapper: its writes; reducer: the output write)
}

func (p pos) String() string { return fmt.Sprintf("%s[%d]/%s", p.Role, p.Index, p.Phase) }

type plan struct {
	API        string `json:"api"`
	Items      int    `json:"items"`
	Workers    int    `json:"workers"` // value given to WithWorkers
	NoWorkers  bool   `json:"no_workers_option,omitempty"`
	Fan        int    `json:"fan_out"`
	Red        string `json:"reducer,omitempty"`
	Kind       string `json:"fault,omitempty"`
	At         pos    `json:"fault_at,omitempty"`
	Then       string `json:"then,omitempty"`
	Ctx        string `json:"ctx,omitempty"`
	CtxPos     pos    `json:"ctx_at,omitempty"`
	Yields     int    `json:"yields"` // schedule perturbation used by releasers / async helpers
	Gauge      bool   `json:"gauge,omitempty"`
	Barrier    bool   `json:"barrier,omitempty"`          // mappers linger until the cap is reached (gauge family)
	Inflight   bool   `json:"cancel_in_flight,omitempty"` // family inflight: see inflight_test.go
	SecondKind string `json:"fault2,omitempty"`           // a second, independent fault
	SecondAt   pos    `json:"fault2_at,omitempty"`
	// ext_test.go: which error values are passed to cancel / returned by Finish functions, which values
	// user panics carry, and any number of further faults at further positions
	Errs     string   `json:"cancel_error_values,omitempty"`
	PanicVal string   `json:"panic_values,omitempty"`
	More     []xfault `json:"more_faults,omitempty"`
	// genpark_test.go: the generator is parked (on an upstream the harness owns, or in the middle of
	// producing) when the call has to end, and is released only after the call has returned
	Park *parkPlan `json:"generator_parked,omitempty"`
}

func (p plan) effWorkers() int {
	if p.API == apiFinish || p.API == apiFinishVoid {
		if p.Items < 1 {
			return 1
		}
		return p.Items
	}
	if p.NoWorkers {
		return 16
	}
	if p.Workers < 1 {
		return 1
	}
	return p.Workers
}

func (p plan) hasReducer() bool { return p.API == apiMR || p.API == apiChan || p.API == apiVoid }
func (p plan) hasCancel() bool  { return p.hasReducer() }
func (p plan) ctxEnds() bool    { return p.Ctx != ctxNone && p.Ctx != ctxIdle || p.Kind == kOutlive }

// ctxBeforeCall: the context has ended, by plan, before the call is made.
func (p plan) ctxBeforeCall() bool { return p.Ctx == ctxPre || p.Ctx == ctxPreDL }

// clean: nothing is cancelled, nothing panics, the context does not end.
func (p plan) clean() bool {
	if p.ctxEnds() || p.Red == redTwice || p.SecondKind != kNone {
		return false
	}
	return p.Kind == kNone || p.Kind == kStall
}

// totalValues is the number of values the mappers write in a clean run.
func (p plan) totalValues() int {
	if !p.hasReducer() {
		return 0
	}
	return p.Items * p.Fan
}

var (
	itemChoices   = []int{0, 1, 2, 3, 5, 8, 17, 50}
	workerChoices = []int{1, 2, 3, 4, 16}
	fanChoices    = []int{0, 1, 1, 3}
)

// sizes draws (items, workers, fan): half of the draws put the item count on the
// worker-count boundary (workers-1, workers, workers+1).
func sizes(r *kit.Rand, p *plan) {
	p.Workers = kit.Choose(r, workerChoices)
	switch r.Intn(10) {
	case 0:
		p.Workers = 0 // WithWorkers clamps to 1
	case 1:
		p.Workers = -3
	case 2:
		p.NoWorkers = true
	}
	w := p.effWorkers()
	switch r.Intn(6) {
	case 0:
		p.Items = w - 1
	case 1:
		p.Items = w
	case 2:
		p.Items = w + 1
	default:
		p.Items = kit.Choose(r, itemChoices)
	}
	if p.Items < 0 {
		p.Items = 0
	}
	p.Fan = kit.Choose(r, fanChoices)
	p.Yields = []int{0, 0, 1, 3, 10, 50, 200}[r.Intn(7)]
}

// pickIndex chooses an invocation index for a role by position class.
func pickIndex(r *kit.Rand, p *plan, role string, class int) int {
	switch role {
	case roleGen:
		// 0..items-1 or idxEnd
		if p.Items == 0 || class == 3 {
			return idxEnd
		}
		return classIdx(r, class, p.Items)
	case roleMap:
		if p.Items == 0 {
			return 0 // never reached: recorded as such
		}
		return classIdx(r, class, p.Items)
	default:
		tv := p.totalValues()
		switch {
		case class == 3 || tv == 0 && class != 0:
			return idxEnd
		case class == 0:
			return 0
		}
		return 1 + classIdx(r, class, tv)
	}
}

func classIdx(r *kit.Rand, class, n int) int {
	switch class {
	case 0:
		return 0
	case 1:
		return r.Intn(n)
	default:
		return n - 1
	}
}
