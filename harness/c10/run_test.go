package c10

// run_test.go: one run = start the call under a goroutine label, wait for it
// (stable-deadlock detector, DESIGN §3.6), let the user functions return,
// census (DESIGN §3.4), then the oracles of oracle_test.go.

import (
	"runtime"
	"sync"
	"time"

	"verifharness/kit"
)

const (
	pollEvery    = 100 * time.Millisecond // distance between two dumps compared for stability
	stableNeeded = 3                      // identical consecutive dumps
	watchdog     = 40 * time.Second       // firing => inconclusive, never a verdict
)

type waitRes struct {
	o        outcome
	returned bool
	stable   bool // not returned, labelled goroutines identical in stableNeeded dumps and all parked
	dump     []kit.Goroutine
}

// waitQuiet waits for the call to return; it gives up when the labelled
// goroutines did not change over stableNeeded dumps and every core/mr goroutine
// is parked (stable=true), or when the watchdog fires (stable=false).
func (r *run) waitQuiet(done <-chan outcome, every time.Duration) waitRes {
	deadline := time.Now().Add(watchdog)
	prev, same := "", 0
	for time.Now().Before(deadline) {
		t := time.NewTimer(every)
		select {
		case o := <-done:
			t.Stop()
			return waitRes{o: o, returned: true}
		case <-t.C:
		}
		gs := kit.LabelledGoroutines(r.id)
		fp := fingerprintOf(gs)
		if fp == prev && len(gs) > 0 {
			same++
		} else {
			prev, same = fp, 0
		}
		if same >= stableNeeded-1 {
			if ok, _ := allParked(mrGoroutines()); ok {
				return waitRes{stable: true, dump: gs}
			}
			same = 0
		}
	}
	return waitRes{}
}

type awaited struct {
	waitRes
	releasedAll bool // the watchdog path released every user function before the call returned
}

func (r *run) releaseAll() {
	r.closeOnce(2, r.stallRelease)
	r.closeOnce(3, r.outRelease)
	r.closeOnce(6, r.genHold)
	r.closeOnce(7, r.redGo)
	select {
	case <-r.abort:
	default:
		close(r.abort)
	}
}

func (r *run) await(done <-chan outcome) awaited {
	if r.p.Inflight {
		if o, ok := r.driveInflight(done); ok {
			return awaited{waitRes: waitRes{o: o, returned: true}}
		}
	}
	if r.p.Kind == kOutlive {
		t := time.NewTimer(watchdog)
		select {
		case o := <-done:
			t.Stop()
			r.closeOnce(3, r.outRelease)
			return awaited{waitRes: waitRes{o: o, returned: true}}
		case <-r.outReached:
			t.Stop()
			if r.p.At.Role == roleGen {
				// the cancel / context branches drain the generator synchronously: the call
				// legitimately waits for it, so it is released after a few yields
				for i := 0; i < r.p.Yields; i++ {
					runtime.Gosched()
				}
			} else {
				// causal release: the outliver is released once the call has returned; if the call
				// legitimately waits for it (ForEach waits for its mappers, a caller that already holds
				// the reducer's value waits for the reducer) nothing changes any more and it is
				// released then - a change of schedule, never a verdict
				w := r.waitQuiet(done, pollEvery/4)
				if w.returned {
					r.c.Obs("outliver_released_after_call_returned", 1)
					r.closeOnce(3, r.outRelease)
					return awaited{waitRes: w}
				}
				r.c.Obs("outliver_released_because_call_waits_for_it", 1)
			}
		case <-t.C:
		}
		r.closeOnce(3, r.outRelease)
	}
	w := r.waitQuiet(done, pollEvery/4)
	if w.returned {
		return awaited{waitRes: w}
	}
	// release every user function the harness may still be holding, then decide
	r.releaseAll()
	w = r.waitQuiet(done, pollEvery)
	return awaited{waitRes: w, releasedAll: true}
}

func execute(c *kit.Case, p plan) {
	r := newRun(c, c.ID, p)
	base := runtime.NumGoroutine()
	over := make(chan struct{})
	feed, feedDone, cleanup := r.setup(over)
	var overOnce sync.Once
	finish := func() {
		overOnce.Do(func() {
			close(over)
			cleanup()
		})
	}
	defer finish()
	done := make(chan outcome, 1)
	go func() {
		var o outcome
		kit.WithLabel(r.id, func() { o = r.invoke(feed) })
		done <- o
	}()
	a := r.await(done)
	c.Obs("runs", 1)
	c.Obs("runs_api_"+p.API, 1)
	if !a.returned {
		r.notReturned(a)
		r.releaseAll()
		markLeaked()
		return
	}
	if a.releasedAll {
		c.Obs("call_returned_only_after_release_all", 1)
	}
	o := a.o
	// let the user functions return
	r.closeOnce(2, r.stallRelease)
	r.closeOnce(3, r.outRelease)
	if feedDone != nil {
		t := time.NewTimer(watchdog)
		select {
		case <-feedDone:
			t.Stop()
		case <-t.C:
			r.releaseAll()
			<-feedDone
			c.Obs("feeder_released_by_watchdog", 1)
		}
	}
	finish()
	settle(base)
	leakFree := r.census(o)
	r.judge(o, leakFree)
}

// notReturned: the call has not returned although nothing changes any more.
func (r *run) notReturned(a awaited) {
	gs := kit.LabelledGoroutines(r.id)
	switch {
	case !a.stable:
		r.c.Inconclusive("watchdog: call did not return and its goroutines kept changing (plan " + r.planString() + ")")
	case anyHeldByHarness(a.dump) || anyHeldByHarness(gs):
		r.c.Inconclusive("call did not return while a user function was still running after release-all (plan " + r.planString() + ")")
	default:
		st := mrGoroutines()
		var states []string
		for _, g := range st {
			states = append(states, g.Text)
		}
		r.c.Obs("deadlocks", 1)
		r.c.Viol(r.deadlockClass(gs),
			"the call did not return: every user function has returned, all goroutines of the call are parked with identical stacks in consecutive dumps",
			map[string]any{"plan": r.p, "events": r.events(), "labelled_goroutines": stacksOf(gs), "core_mr_goroutines": states})
	}
}

// census decides leak-freedom once the call has returned. Returns true if no
// goroutine of the call is left.
func (r *run) census(o outcome) bool {
	for attempt := 0; attempt < 4; attempt++ {
		leaked, conclusive := stableCensus(r.id, 50*time.Millisecond, stableNeeded, watchdog/2)
		if !conclusive {
			r.c.Inconclusive("census: goroutines of the call kept changing (plan " + r.planString() + ")")
			r.releaseAll()
			markLeaked()
			return false
		}
		if len(leaked) == 0 {
			r.c.Obs("census_zero", 1)
			return true
		}
		if anyHeldByHarness(leaked) || (anyUserFrame(leaked) && r.panicWriteOrigin(leaked) == "") {
			// a user function has not returned yet: the statement conditions on that
			if attempt == 0 {
				r.releaseAll()
				continue
			}
			if attempt == 3 {
				r.c.Obs("user_function_still_running_at_census", 1)
				r.c.Inconclusive("census: a user function is still running (blocked inside core/mr?) " + frames(firstUser(leaked), 3) + " (plan " + r.planString() + ")")
				markLeaked()
				return false
			}
			time.Sleep(200 * time.Millisecond)
			continue
		}
		if ok, st := allParked(mrGoroutines()); !ok {
			if attempt == 3 {
				r.c.Inconclusive("census: remaining goroutine is not parked (" + st + ")")
				markLeaked()
				return false
			}
			time.Sleep(200 * time.Millisecond)
			continue
		}
		r.c.Obs("leaks", 1)
		r.c.Viol(r.leakClass(leaked),
			"goroutine(s) started by the call are still alive (parked, identical stacks in consecutive dumps) after the call and all user functions returned",
			map[string]any{"plan": r.p, "outcome": o, "events": r.events(), "leaked": stacksOf(leaked)})
		markLeaked()
		return false
	}
	return false
}

func firstUser(gs []kit.Goroutine) string {
	for _, g := range gs {
		if hasUserFrame(g) {
			return g.Stack
		}
	}
	return ""
}

// settle cheaply waits for the goroutine count to come back to what it was
// before the run (exiting goroutines need a moment); the labelled census that
// follows is what decides.
func settle(base int) {
	last, unchanged := -1, 0
	for i := 0; i < 400; i++ {
		n := runtime.NumGoroutine()
		if n <= base {
			return
		}
		if n == last {
			unchanged++
			if unchanged > 60 {
				return // nothing is exiting any more: let the census look
			}
		} else {
			last, unchanged = n, 0
		}
		runtime.Gosched()
	}
}

// stableCensus has the semantics of kit.Census (zero labelled goroutines, or the
// same non-empty set of stacks in `need` consecutive dumps `every` apart, else
// inconclusive after maxWait) without its 50-dump fast path: settle() has
// already given exiting goroutines their chance, and dumps are the expensive
// part of a run that hits a (known) leak.
func stableCensus(id string, every time.Duration, need int, maxWait time.Duration) ([]kit.Goroutine, bool) {
	deadline := time.Now().Add(maxWait)
	prev, same := "", 0
	for i := 0; time.Now().Before(deadline); i++ {
		gs := kit.LabelledGoroutines(id)
		if len(gs) == 0 {
			return nil, true
		}
		if fp := fingerprintOf(gs); fp == prev {
			same++
			if same >= need-1 {
				return gs, true
			}
		} else {
			prev, same = fp, 0
		}
		if i < 3 {
			runtime.Gosched() // the first looks are close together: most stragglers are just exiting
			time.Sleep(time.Millisecond)
			same = 0
			continue
		}
		time.Sleep(every)
	}
	return nil, false
}
