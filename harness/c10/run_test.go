package c10

// run_test.go: one run = start the call under a goroutine label, wait for it
// (stable-deadlock detector, DESIGN §3.6), let the user functions return,
// census (DESIGN §3.4), then the oracles of oracle_test.go.

import (
	"runtime"
	"sync"
	"time"

	"verifharness/kit"
)

const (
	pollEvery    = 100 * time.Millisecond // distance between two dumps compared for stability
	stableNeeded = 3                      // identical consecutive dumps
	watchdog     = 40 * time.Second       // firing => inconclusive, never a verdict
)

type waitRes struct {
	o        outcome
	returned bool
	stable   bool // not returned, labelled goroutines identical in stableNeeded dumps and all parked
	dump     []kit.Goroutine
}

// waitQuiet waits for the call to return; it gives up when the labelled
// goroutines did not change over stableNeeded dumps and every core/mr goroutine
// is parked (stable=true), or when the watchdog fires (stable=false).
func (r *run) waitQuiet(done <-chan outcome, every time.Duration) waitRes {
	return r.waitQuietN(done, every, stableNeeded)
}

// waitQuietN is waitQuiet with the number of identical consecutive dumps as a parameter.
func (r *run) waitQuietN(done <-chan outcome, every time.Duration, need int) waitRes {
	deadline := time.Now().Add(watchdog)
	prev, same := "", 0
	for time.Now().Before(deadline) {
		t := time.NewTimer(every)
		select {
		case o := <-done:
			t.Stop()
			return waitRes{o: o, returned: true}
		case <-t.C:
		}
		gs := kit.LabelledGoroutines(r.id)
		fp := fingerprintOf(gs)
		if fp == prev && len(gs) > 0 {
			same++
		} else {
			prev, same = fp, 0
		}
		if same >= need-1 {
			if ok, _ := allParked(mrGoroutines()); ok {
				return waitRes{stable: true, dump: gs}
			}
			same = 0
		}
	}
	return waitRes{}
}

type awaited struct {
	waitRes
	releasedAll bool // the watchdog path released every user function before the call returned
}

// releaseHolds opens every hold of the harness (stall, outliver, the inflight
// family's gates). What a user function can still be waiting for afterwards is
// core/mr: the generator's send on the source channel, the reducer's pipe, a
// Write or cancel call.
func (r *run) releaseHolds() {
	r.closeOnce(2, r.stallRelease)
	r.closeOnce(3, r.outRelease)
	r.closeOnce(6, r.genHold)
	r.closeOnce(7, r.redGo)
	r.closeOnce(11, r.endGo)
	r.releaseGen()
}

// releaseAll additionally aborts the run: the generator's send and the reducer's
// receive give up as well, so every user function returns.
func (r *run) releaseAll() {
	r.releaseHolds()
	select {
	case <-r.abort:
	default:
		close(r.abort)
	}
}

func (r *run) aborted() bool {
	select {
	case <-r.abort:
		return true
	default:
		return false
	}
}

func (r *run) await(done <-chan outcome) awaited {
	if r.p.Park != nil {
		if a, ok := r.awaitPark(done); ok {
			return a
		}
	}
	if r.p.Inflight {
		if o, ok := r.driveInflight(done); ok {
			return awaited{waitRes: waitRes{o: o, returned: true}}
		}
	}
	if r.p.Kind == kOutlive {
		t := time.NewTimer(watchdog)
		select {
		case o := <-done:
			t.Stop()
			r.closeOnce(3, r.outRelease)
			return awaited{waitRes: waitRes{o: o, returned: true}}
		case <-r.outReached:
			t.Stop()
			if r.p.At.Role == roleGen {
				// the cancel / context branches drain the generator synchronously: the call
				// legitimately waits for it, so it is released after a few yields
				for i := 0; i < r.p.Yields; i++ {
					runtime.Gosched()
				}
			} else {
				// causal release: the outliver is released once the call has returned; if the call
				// legitimately waits for it (ForEach waits for its mappers, a caller that already holds
				// the reducer's value waits for the reducer) nothing changes any more and it is
				// released then - a change of schedule, never a verdict
				w := r.waitQuiet(done, pollEvery/4)
				if w.returned {
					r.c.Obs("outliver_released_after_call_returned", 1)
					r.closeOnce(3, r.outRelease)
					return awaited{waitRes: w}
				}
				r.c.Obs("outliver_released_because_call_waits_for_it", 1)
			}
		case <-t.C:
		}
		r.closeOnce(3, r.outRelease)
	}
	if r.p.hasKind(kHeld) && r.p.Kind != kOutlive {
		// a function that stays inside until the call has returned: released then; if the call provably
		// waits for it (ForEach / FinishVoid wait for their mappers, a clean MapReduce waits for all of
		// them) nothing changes any more and it is released - a change of schedule, never a verdict
		t := time.NewTimer(watchdog)
		select {
		case o := <-done:
			t.Stop()
			r.closeOnce(3, r.outRelease)
			return awaited{waitRes: waitRes{o: o, returned: true}}
		case <-r.outReached:
			t.Stop()
			w := r.waitQuiet(done, pollEvery/4)
			if w.returned {
				r.c.Obs("held_function_released_after_call_returned", 1)
				if r.p.API == apiFinish {
					r.c.Obs("finish_returned_while_a_sibling_function_was_still_inside", 1)
				}
				r.closeOnce(3, r.outRelease)
				return awaited{waitRes: w}
			}
			r.c.Obs("held_function_released_because_call_waits_for_it", 1)
			if r.p.API == apiFinish && len(r.cancelsCopy()) > 0 {
				r.c.Obs("finish_with_a_failed_function_waited_for_a_sibling_still_inside", 1)
			}
		case <-t.C:
		}
		r.closeOnce(3, r.outRelease)
	}
	w := r.waitQuiet(done, pollEvery/4)
	if w.returned {
		return awaited{waitRes: w}
	}
	// release every user function the harness may still be holding, then decide
	r.releaseAll()
	w = r.waitQuiet(done, pollEvery)
	return awaited{waitRes: w, releasedAll: true}
}

func execute(c *kit.Case, p plan) {
	r := executeRun(c, c.ID, p, 1)
	if r.p.Park != nil {
		r.concludePark()
	}
}

// executeRun performs one run of the plan under the goroutine label id. mult > 1: a repetition
// of a genpark run with doubled patience (genpark_test.go): only the question "did the call wait
// for the parked generator" is answered, nothing else is judged or counted again.
func executeRun(c *kit.Case, id string, p plan, mult int) *run {
	r := newRun(c, id, p)
	r.mult = mult
	base := runtime.NumGoroutine()
	over := make(chan struct{})
	feed, feedDone, cleanup := r.setup(over)
	var overOnce sync.Once
	finish := func() {
		overOnce.Do(func() {
			close(over)
			cleanup()
		})
	}
	defer finish()
	done := make(chan outcome, 1)
	go func() {
		var o outcome
		kit.WithLabel(r.id, func() { o = r.invoke(feed) })
		done <- o
	}()
	a := r.await(done)
	if mult == 1 {
		c.Obs("runs", 1)
		c.Obs("runs_api_"+p.API, 1)
	}
	if !a.returned {
		r.notReturned(a)
		r.releaseAll()
		markLeaked()
		return r
	}
	if a.releasedAll {
		c.Obs("call_returned_only_after_release_all", 1)
	}
	o := a.o
	// let the user functions return
	r.closeOnce(2, r.stallRelease)
	r.closeOnce(3, r.outRelease)
	r.releaseGen()
	if feedDone != nil {
		r.awaitFeeder(feedDone)
	}
	finish()
	settle(base)
	leakFree := r.census(o)
	if mult > 1 {
		return r
	}
	if r.ctxDoneAtCall.Load() {
		c.Obs("ctx_ended_before_call_runs", 1)
		if leakFree && !r.aborted() && p.Items > 0 && (p.API == apiMR || p.API == apiVoid || p.API == apiForEach) {
			// the goroutine the call started for the generator is gone although the harness never released it
			c.Obs("ctx_ended_before_call_generator_goroutine_exited_unaided", 1)
		}
	}
	r.judge(o, leakFree)
	return r
}

// awaitFeeder: MapReduceChan has returned; the harness goroutine that plays the
// generator on the caller-owned source channel has to finish before the run can
// be torn down. core/mr keeps draining that channel after the call returned (the
// dispatcher's epilogue), so the feeder is normally done at once. The wait is
// decided by state: when no goroutine of the call is left (or they are all
// parked, unchanged) while the feeder has not moved, nobody will ever receive
// from the source again; the feeder is not a goroutine started by the call, so
// this is recorded as an observation, not judged, and the feeder is released.
// Teardown never blocks on it: a feeder that does not come back is reported as
// inconclusive and left behind.
func (r *run) awaitFeeder(feedDone <-chan struct{}) {
	deadline := time.Now().Add(watchdog)
	wait := 2 * time.Millisecond
	prev, same, sent := "", 0, int32(-1)
	decided := false
loop:
	for time.Now().Before(deadline) {
		t := time.NewTimer(wait)
		select {
		case <-feedDone:
			t.Stop()
			return
		case <-t.C:
		}
		if wait < pollEvery {
			wait *= 2
		}
		gs := kit.LabelledGoroutines(r.id)
		fp, n := fingerprintOf(gs), r.genSent.Load()
		if fp == prev && n == sent {
			same++
		} else {
			prev, sent, same = fp, n, 0
		}
		if same == 0 {
			continue
		}
		switch {
		case r.genReturned.Load():
			// the feeder function itself has returned: only the goroutine's epilogue is outstanding
		case len(gs) == 0:
			// the call has returned and none of its goroutines exists any more
			decided = true
			r.c.Obs("chan_source_left_undrained_by_returned_call", 1)
			if r.ctxDoneAtCall.Load() {
				r.c.Obs("chan_source_left_undrained_ctx_ended_before_call", 1)
			}
			break loop
		case same >= stableNeeded-1:
			if ok, _ := allParked(mrGoroutines()); ok {
				decided = true
				r.c.Obs("chan_feeder_released_with_call_goroutines_parked", 1)
				break loop // the census judges the goroutines of the call that are left
			}
			same = 0
		}
	}
	if !decided {
		r.c.Obs("feeder_released_by_watchdog", 1)
	}
	r.releaseAll()
	t := time.NewTimer(watchdog / 4)
	defer t.Stop()
	select {
	case <-feedDone:
	case <-t.C:
		r.c.Inconclusive("teardown: the harness feeder of MapReduceChan did not return after release-all; left behind (plan " + r.planString() + ")")
	}
}

// notReturned: the call has not returned although nothing changes any more.
func (r *run) notReturned(a awaited) {
	gs := kit.LabelledGoroutines(r.id)
	switch {
	case !a.stable:
		r.c.Inconclusive("watchdog: call did not return and its goroutines kept changing (plan " + r.planString() + ")")
	case anyHeldByHarness(a.dump) || anyHeldByHarness(gs):
		r.c.Inconclusive("call did not return while a user function was still running after release-all (plan " + r.planString() + ")")
	default:
		st := mrGoroutines()
		var states []string
		for _, g := range st {
			states = append(states, g.Text)
		}
		r.c.Obs("deadlocks", 1)
		r.c.Viol(r.deadlockClass(gs),
			"the call did not return: every user function has returned, all goroutines of the call are parked with identical stacks in consecutive dumps",
			map[string]any{"plan": r.p, "events": r.events(), "labelled_goroutines": stacksOf(gs), "core_mr_goroutines": states})
	}
}

// census decides leak-freedom once the call has returned. Returns true if no
// goroutine of the call is left.
func (r *run) census(o outcome) bool {
	genReported, dissolved := false, 0
	for attempt := 0; attempt < 4; attempt++ {
		leaked, conclusive := stableCensus(r.id, 50*time.Millisecond, stableNeeded, watchdog/2)
		if !conclusive {
			r.c.Inconclusive("census: goroutines of the call kept changing (plan " + r.planString() + ")")
			r.releaseAll()
			markLeaked()
			return false
		}
		if len(leaked) == 0 {
			if genReported {
				return false
			}
			if r.mult > 1 {
				return true
			}
			r.c.Obs("census_zero", 1)
			if !r.aborted() {
				r.c.Obs("census_zero_without_abort", 1)
			}
			return true
		}
		if !genReported && dissolved < 3 && !r.aborted() && onlyGeneratorsInSend(leaked) {
			// The call has returned, yet the goroutine it started for the generator sits in the
			// generator's send on the source channel and no other user function is running: the
			// generator cannot return only because nobody receives from the channel the call
			// handed to it. Decide by state whether that is for good.
			r.releaseHolds()
			key := "C10/leak/generator-abandoned-in-send/" + r.abandonClass()
			every := abandonEvery
			if abandonReported[key] >= 8 {
				every /= 4 // this process has reported the class often enough with the full spacing
			}
			verdict, gs, dumps := r.confirmAbandoned(leaked, every)
			switch verdict {
			case abandonConfirmed:
				abandonReported[key]++
				genReported = true
				r.c.Obs("leaks", 1)
				r.c.Obs("generator_abandoned_in_send", 1)
				st := mrGoroutines()
				var states []string
				for _, g := range st {
					states = append(states, g.Text)
				}
				r.c.Viol(key,
					"the call has returned and every other user function has returned, but the goroutine the call started for the generator (mr.buildSource) is parked for good in the generator's send on the source channel: nothing of the call is left that could receive from it (identical stacks in consecutive dumps, every core/mr goroutine parked, no progress of any user function in between)",
					map[string]any{"plan": r.p, "outcome": o, "outcome_text": o.String(), "events": r.events(), "leaked": stacksOf(gs),
						"core_mr_goroutines": states, "ctx_err_before_call": r.ctxDoneAtCall.Load(), "items_received_from_generator": r.genSent.Load(),
						"further_identical_dumps": abandonDumps, "dump_spacing_ms": every.Milliseconds(), "dumps_taken": dumps})
				// release the generator so that the case can be torn down; whatever else of the call is
				// still there is judged by the next rounds
				r.releaseAll()
				attempt = -1
				continue
			case abandonUndecided:
				r.c.Inconclusive("census: the generator sits in its send after the call returned, but the state of the call's goroutines never stood still (plan " + r.planString() + ")")
				r.releaseAll()
				markLeaked()
				return false
			}
			// abandonGone: somebody is receiving after all, or another user function is running: look again
			// (a few times; then the ordinary rules below apply)
			dissolved++
			attempt--
			continue
		}
		if anyHeldByHarness(leaked) || (anyUserFrame(leaked) && r.panicWriteOrigin(leaked) == "") {
			// a user function has not returned yet: the statement conditions on that
			if attempt == 0 {
				r.releaseAll()
				continue
			}
			if attempt == 3 {
				r.c.Obs("user_function_still_running_at_census", 1)
				r.c.Inconclusive("census: a user function is still running (blocked inside core/mr?) " + frames(firstUser(leaked), 3) + " (plan " + r.planString() + ")")
				markLeaked()
				return false
			}
			time.Sleep(200 * time.Millisecond)
			continue
		}
		if ok, st := allParked(mrGoroutines()); !ok {
			if attempt == 3 {
				r.c.Inconclusive("census: remaining goroutine is not parked (" + st + ")")
				markLeaked()
				return false
			}
			time.Sleep(200 * time.Millisecond)
			continue
		}
		r.c.Obs("leaks", 1)
		r.c.Viol(r.leakClass(leaked),
			"goroutine(s) started by the call are still alive (parked, identical stacks in consecutive dumps) after the call and all user functions returned",
			map[string]any{"plan": r.p, "outcome": o, "events": r.events(), "leaked": stacksOf(leaked)})
		markLeaked()
		return false
	}
	return false
}

func firstUser(gs []kit.Goroutine) string {
	for _, g := range gs {
		if hasUserFrame(g) {
			return g.Stack
		}
	}
	return ""
}

// settle cheaply waits for the goroutine count to come back to what it was
// before the run (exiting goroutines need a moment); the labelled census that
// follows is what decides.
func settle(base int) {
	last, unchanged := -1, 0
	for i := 0; i < 400; i++ {
		n := runtime.NumGoroutine()
		if n <= base {
			return
		}
		if n == last {
			unchanged++
			if unchanged > 60 {
				return // nothing is exiting any more: let the census look
			}
		} else {
			last, unchanged = n, 0
		}
		runtime.Gosched()
	}
}

// stableCensus has the semantics of kit.Census (zero labelled goroutines, or the
// same non-empty set of stacks in `need` consecutive dumps `every` apart, else
// inconclusive after maxWait) without its 50-dump fast path: settle() has
// already given exiting goroutines their chance, and dumps are the expensive
// part of a run that hits a (known) leak.
func stableCensus(id string, every time.Duration, need int, maxWait time.Duration) ([]kit.Goroutine, bool) {
	deadline := time.Now().Add(maxWait)
	prev, same := "", 0
	for i := 0; time.Now().Before(deadline); i++ {
		gs := kit.LabelledGoroutines(id)
		if len(gs) == 0 {
			return nil, true
		}
		if fp := fingerprintOf(gs); fp == prev {
			same++
			if same >= need-1 {
				return gs, true
			}
		} else {
			prev, same = fp, 0
		}
		if i < 3 {
			runtime.Gosched() // the first looks are close together: most stragglers are just exiting
			time.Sleep(time.Millisecond)
			same = 0
			continue
		}
		time.Sleep(every)
	}
	return nil, false
}
