// Package c14: SQL transactions end exactly once (DESIGN.md §4 C14).
//
// A harness database/sql driver logs Begin/Exec/Query/Commit/Rollback per
// transaction and injects a fault at any of them; the oracle reads that log and
// the error returned by Transact/TransactCtx. The fault space within the bound
// is enumerated completely (level: fault_enumeration).
package c14

import (
	"context"
	"database/sql"
	"database/sql/driver"
	"errors"
	"fmt"
	"io"
	"runtime"
	"strings"
	"sync"
	"testing"
	"time"

	"github.com/zeromicro/go-zero/core/logx"
	"github.com/zeromicro/go-zero/core/stores/sqlc"
	"github.com/zeromicro/go-zero/core/stores/sqlx"

	"verifharness/kit"
)

// ---------------------------------------------------------------- driver

type script struct {
	mu           sync.Mutex
	log          []string
	failBegin    bool
	failStmt     int // index of the statement the driver fails (-1 none)
	failCommit   bool
	failRollback bool
	stmts        int
	// error values the driver injects (default: the errXxx sentinels)
	stmtErr, commitErr, rollbackErr error
}

type wrappedErr struct{ inner error }

func (w *wrappedErr) Error() string { return "verif wrapped: " + w.inner.Error() }
func (w *wrappedErr) Unwrap() error { return w.inner }

// errFlavours are the identities a failing statement / body / commit / rollback may carry.
// The property quantifies over fault points, not over error values, so every flavour must be
// treated alike: exactly one Begin, one body run, one terminal event, the error surfaced.
var errFlavours = []string{"custom", "ErrNoRows", "ErrTxDone", "ErrConnDone", "ErrBadConn", "Canceled", "DeadlineExceeded", "EOF", "wrapped", "wrapped-ErrBadConn"}

func errValue(flavour string, dflt error) error {
	switch flavour {
	case "ErrNoRows":
		return sql.ErrNoRows
	case "ErrTxDone":
		return sql.ErrTxDone
	case "ErrConnDone":
		return sql.ErrConnDone
	case "ErrBadConn":
		return driver.ErrBadConn
	case "Canceled":
		return context.Canceled
	case "DeadlineExceeded":
		return context.DeadlineExceeded
	case "EOF":
		return io.EOF
	case "wrapped":
		return &wrappedErr{dflt}
	case "wrapped-ErrBadConn":
		return &wrappedErr{driver.ErrBadConn}
	}
	return dflt
}

var (
	errBegin    = errors.New("verif: injected begin failure")
	errStmt     = errors.New("verif: injected statement failure")
	errCommit   = errors.New("verif: injected commit failure")
	errRollback = errors.New("verif: injected rollback failure")
	errBody     = errors.New("verif: body error")
)

func (s *script) add(e string) {
	s.mu.Lock()
	s.log = append(s.log, e)
	s.mu.Unlock()
}

var (
	scriptsMu sync.Mutex
	scripts   = map[string]*script{}
)

type drv struct{}

func (drv) Open(name string) (driver.Conn, error) {
	scriptsMu.Lock()
	s := scripts[name]
	scriptsMu.Unlock()
	if s == nil {
		return nil, fmt.Errorf("no script %q", name)
	}
	return &conn{s: s}, nil
}

type conn struct{ s *script }

func (c *conn) Prepare(q string) (driver.Stmt, error) { return nil, errors.New("prepare not scripted") }
func (c *conn) Close() error                          { return nil }
func (c *conn) Begin() (driver.Tx, error)             { return c.BeginTx(context.Background(), driver.TxOptions{}) }
func (c *conn) BeginTx(ctx context.Context, _ driver.TxOptions) (driver.Tx, error) {
	if c.s.failBegin {
		c.s.add("begin-fail")
		return nil, errBegin
	}
	c.s.add("begin")
	return &tx{s: c.s}, nil
}

func (c *conn) stmt(kind string) error {
	c.s.mu.Lock()
	i := c.s.stmts
	c.s.stmts++
	fail := i == c.s.failStmt
	if fail {
		c.s.log = append(c.s.log, fmt.Sprintf("%s-fail:%d", kind, i))
	} else {
		c.s.log = append(c.s.log, fmt.Sprintf("%s:%d", kind, i))
	}
	c.s.mu.Unlock()
	if fail {
		if c.s.stmtErr != nil {
			return c.s.stmtErr
		}
		return errStmt
	}
	return nil
}

func (c *conn) ExecContext(ctx context.Context, q string, args []driver.NamedValue) (driver.Result, error) {
	if err := c.stmt("exec"); err != nil {
		return nil, err
	}
	return driver.RowsAffected(1), nil
}

func (c *conn) QueryContext(ctx context.Context, q string, args []driver.NamedValue) (driver.Rows, error) {
	if err := c.stmt("query"); err != nil {
		return nil, err
	}
	return &rows{}, nil
}

type rows struct{ done bool }

func (r *rows) Columns() []string { return []string{"v"} }
func (r *rows) Close() error      { return nil }
func (r *rows) Next(dest []driver.Value) error {
	if r.done {
		return io.EOF
	}
	r.done = true
	dest[0] = int64(7)
	return nil
}

type tx struct{ s *script }

func (t *tx) Commit() error {
	if t.s.failCommit {
		t.s.add("commit-fail")
		if t.s.commitErr != nil {
			return t.s.commitErr
		}
		return errCommit
	}
	t.s.add("commit")
	return nil
}

func (t *tx) Rollback() error {
	if t.s.failRollback {
		t.s.add("rollback-fail")
		if t.s.rollbackErr != nil {
			return t.s.rollbackErr
		}
		return errRollback
	}
	t.s.add("rollback")
	return nil
}

func init() { sql.Register("verifc14", drv{}) }

// ---------------------------------------------------------------- cases

type fault struct {
	Kind string // none begin stmt-returned stmt-ignored body-error body-acceptable-error panic commit rollback-after-error rollback-after-panic ctx-done ctx-cancel-stmt ctx-cancel-direct ctx-cancel-ignored ctx-deadline-stmt
	At   int    // statement index / number of statements executed before the body fails
	Pan  string // panic value flavour
	Err  string // error identity flavour ("" = the harness's own sentinel)
}

type tcase struct {
	Entry string // Transact TransactCtx CachedTransact CachedTransactCtx
	K     int    // statements in the body
	Query []bool // statement i is a query (else exec)
	F     fault
	Leak  bool // the body leaks the session and uses it after the call returned
}

type customPanic struct{ X int }

type stringerPanic struct{}

func (stringerPanic) String() string { return "verif stringer panic" }

type errPanic struct{ code int }

func (e *errPanic) Error() string { return fmt.Sprintf("verif error-typed panic %d", e.code) }

func panicValue(flavour string) any {
	switch flavour {
	case "string":
		return "verif panic"
	case "error":
		return errors.New("verif panic error")
	case "struct":
		return customPanic{7}
	case "int":
		return 42
	case "slice":
		return []int{1, 2}
	case "stringer":
		return stringerPanic{}
	case "errptr":
		return &errPanic{3}
	case "runtime":
		var m map[string]int
		defer func() { _ = m }()
		var arr []int
		_ = arr[len(m)+3] // runtime.Error (index out of range)
		return nil
	default:
		return nil // panic(nil) -> *runtime.PanicNilError under go >= 1.21
	}
}

var caseSeq int

func runCase(c *kit.Case, tc tcase) {
	// history follow-ups (ext_engine_test.go) run on this goroutine: keep it on one OS thread so
	// that objects a transaction put into a sync.Pool are likely handed to the next one
	runtime.LockOSThread()
	defer runtime.UnlockOSThread()
	caseSeq++
	name := fmt.Sprintf("%s-%d", c.ID, caseSeq)
	s := &script{failStmt: -1}
	switch tc.F.Kind {
	case "begin":
		s.failBegin = true
	case "stmt-returned", "stmt-ignored":
		s.failStmt = tc.F.At
		s.stmtErr = errValue(tc.F.Err, errStmt)
	case "commit":
		s.failCommit = true
		s.commitErr = errValue(tc.F.Err, errCommit)
	case "rollback-after-error", "rollback-after-panic":
		s.failRollback = true
		s.rollbackErr = errValue(tc.F.Err, errRollback)
	}
	bodyErr := errBody
	if tc.F.Kind == "body-error" {
		bodyErr = errValue(tc.F.Err, errBody)
	}
	// contexts that end WHILE the body runs (after At statements)
	var cancelMid context.CancelFunc
	ctxMid := strings.HasPrefix(tc.F.Kind, "ctx-cancel-") || tc.F.Kind == "ctx-deadline-stmt"
	scriptsMu.Lock()
	scripts[name] = s
	scriptsMu.Unlock()
	defer func() {
		scriptsMu.Lock()
		delete(scripts, name)
		scriptsMu.Unlock()
	}()
	db, err := sql.Open("verifc14", name)
	if err != nil {
		panic(err)
	}
	defer db.Close()
	sc := sqlx.NewSqlConnFromDB(db)

	bodyRuns := 0
	var bodyRet error
	bodyPanicked := false
	var leaked sqlx.Session
	var stmtErrs []error
	body := func(ctx context.Context, sess sqlx.Session) (err error) {
		bodyRuns++
		leaked = sess
		defer func() { bodyRet = err }()
		for i := 0; i <= tc.K; i++ {
			if ctxMid && tc.F.At == i {
				// the caller's context ends now, in the middle of the body
				if tc.F.Kind == "ctx-deadline-stmt" {
					<-ctx.Done() // synchronisation only: the 60 ms deadline set below
				} else {
					cancelMid()
				}
				switch tc.F.Kind {
				case "ctx-cancel-direct":
					return ctx.Err()
				case "ctx-cancel-stmt", "ctx-deadline-stmt":
					// a statement issued with the ended context fails inside database/sql
					_, e := sess.ExecCtx(ctx, "update t set v = 1")
					if e == nil {
						e = errors.New("verif: statement on a done context unexpectedly succeeded")
					}
					return e
				}
				// ctx-cancel-ignored: carry on with a live context, return nil at the end
				ctx = context.Background()
			}
			if i == tc.K {
				break
			}
			if (tc.F.Kind == "body-error" || tc.F.Kind == "body-acceptable-error" || tc.F.Kind == "rollback-after-error") && tc.F.At == i {
				if tc.F.Kind == "body-acceptable-error" {
					return sql.ErrNoRows
				}
				return bodyErr
			}
			if (tc.F.Kind == "panic" || tc.F.Kind == "rollback-after-panic") && tc.F.At == i {
				bodyPanicked = true
				panic(panicValue(tc.F.Pan))
			}
			var e error
			if tc.Query[i] {
				var v int64
				e = sess.QueryRowCtx(ctx, &v, "select v from t where id = ?", i)
			} else {
				_, e = sess.ExecCtx(ctx, "update t set v = ? where id = ?", i, i)
			}
			stmtErrs = append(stmtErrs, e)
			if e != nil && tc.F.Kind == "stmt-returned" {
				return e
			}
		}
		switch {
		case (tc.F.Kind == "body-error" || tc.F.Kind == "rollback-after-error") && tc.F.At == tc.K:
			return bodyErr
		case tc.F.Kind == "body-acceptable-error" && tc.F.At == tc.K:
			return sql.ErrNoRows
		case (tc.F.Kind == "panic" || tc.F.Kind == "rollback-after-panic") && tc.F.At == tc.K:
			bodyPanicked = true
			panic(panicValue(tc.F.Pan))
		}
		return nil
	}

	ctx := context.Background()
	if tc.F.Kind == "ctx-done" {
		cctx, cancel := context.WithCancel(ctx)
		cancel()
		ctx = cctx
	}
	if ctxMid {
		if tc.F.Kind == "ctx-deadline-stmt" {
			ctx, cancelMid = context.WithTimeout(ctx, 60*time.Millisecond)
		} else {
			ctx, cancelMid = context.WithCancel(ctx)
		}
		defer cancelMid()
	}
	var ret error
	var escaped any
	func() {
		defer func() { escaped = recover() }()
		switch tc.Entry {
		case "Transact":
			ret = sc.Transact(func(s sqlx.Session) error { return body(ctx, s) })
		case "TransactCtx":
			ret = sc.TransactCtx(ctx, body)
		case "CachedTransact":
			ret = sqlc.NewConnWithCache(sc, nil).Transact(func(s sqlx.Session) error { return body(ctx, s) })
		default:
			ret = sqlc.NewConnWithCache(sc, nil).TransactCtx(ctx, body)
		}
	}()

	var lateErr error
	lateTried := false
	if tc.Leak && leaked != nil {
		lateTried = true
		_, lateErr = leaked.ExecCtx(context.Background(), "update t set v = 0")
	}

	s.mu.Lock()
	log := append([]string(nil), s.log...)
	s.mu.Unlock()
	// history: a healthy and a failing transaction on the same SqlConn (faults removed) and on a
	// fresh one must commit / roll back whatever the case above did; judged on their own log windows
	{
		hw := newWorld(name)
		from := len(log)
		hw.importAfter = func(id int) []xev {
			s.mu.Lock()
			win := append([]string(nil), s.log[from:]...)
			from = len(s.log)
			s.mu.Unlock()
			return oldLogEvents(win, id)
		}
		s.failBegin, s.failStmt, s.failCommit, s.failRollback = false, -1, false, false
		hw.followUps(c, tc.F.Kind, []sqlx.SqlConn{sc}, false)
		hw.close()
	}
	w := map[string]any{"case": tc, "driver_log": log, "returned": fmt.Sprint(ret), "body_runs": bodyRuns, "escaped_panic": fmt.Sprint(escaped)}
	key := func(kind string) string { return "C14/" + kind + "/" + tc.F.Kind }

	count := func(prefix string) int {
		n := 0
		for _, e := range log {
			if e == prefix || strings.HasPrefix(e, prefix+":") {
				n++
			}
		}
		return n
	}
	begins := count("begin")
	commits := count("commit") + count("commit-fail")
	rollbacks := count("rollback") + count("rollback-fail")
	c.Obs("driver_events", int64(len(log)))

	if escaped != nil {
		c.Viol(key("panic-escaped"), "a body panic must come back as an error, but it escaped Transact", w)
		return
	}

	// the call itself was refused before anything ran (done context): nothing may have happened
	if (tc.F.Kind == "ctx-done" || tc.F.Kind == "ctx-deadline-stmt") && bodyRuns == 0 {
		// (ctx-deadline-stmt: on a heavily loaded machine the deadline can pass before the call
		// started; then it is just another refused call)
		if ret == nil {
			c.Viol(key("nil-without-commit"), "returned nil although nothing was committed", w)
		}
		if len(log) != 0 {
			c.Viol(key("events-without-body"), "driver saw events although the body never ran", w)
		}
		c.Obs("refused_before_begin", 1)
		return
	}

	if tc.F.Kind == "begin" {
		if bodyRuns != 0 {
			c.Viol(key("body-ran-without-tx"), "the body ran although the transaction could not begin", w)
		}
		if ret == nil {
			c.Viol(key("nil-without-commit"), "begin failed but nil was returned", w)
		} else if !errors.Is(ret, errBegin) && !strings.Contains(ret.Error(), errBegin.Error()) {
			c.Viol(key("error-not-surfaced"), "begin failure not surfaced in the returned error", w)
		}
		if commits+rollbacks != 0 {
			c.Viol(key("terminal-without-begin"), "commit/rollback without a begun transaction", w)
		}
		c.Obs("begin_failures", 1)
		return
	}

	if begins != 1 {
		c.Viol(key("begin-count"), fmt.Sprintf("expected exactly one Begin, saw %d", begins), w)
	}
	if bodyRuns != 1 {
		c.Viol(key("body-count"), fmt.Sprintf("body ran %d times", bodyRuns), w)
	}
	if commits+rollbacks != 1 {
		c.Viol(key("terminal-count"), fmt.Sprintf("transaction ended %d times (commits=%d rollbacks=%d)", commits+rollbacks, commits, rollbacks), w)
	}
	bodyOK := !bodyPanicked && bodyRet == nil
	if bodyOK && commits != 1 {
		c.Viol(key("no-commit-on-success"), "body returned nil but the transaction was not committed", w)
	}
	if !bodyOK && commits != 0 {
		c.Viol(key("commit-on-failure"), "body failed (error or panic) but the transaction was committed", w)
	}
	if !bodyOK && rollbacks != 1 {
		c.Viol(key("no-rollback-on-failure"), "body failed (error or panic) but the transaction was not rolled back", w)
	}
	committedOK := count("commit") == 1
	if ret == nil && !committedOK {
		c.Viol(key("nil-without-commit"), "nil returned although no commit succeeded", w)
	}
	if ret != nil && committedOK {
		c.Viol(key("error-after-successful-commit"), "commit succeeded (body nil) but an error was returned", w)
	}
	// terminal event must be the last transaction event; statements only between begin and terminal
	seenTerminal := false
	for _, e := range log {
		if strings.HasPrefix(e, "commit") || strings.HasPrefix(e, "rollback") {
			seenTerminal = true
			continue
		}
		if seenTerminal && (strings.HasPrefix(e, "exec") || strings.HasPrefix(e, "query")) {
			c.Viol(key("statement-after-end"), "a statement reached the driver after the transaction ended", w)
		}
	}
	if lateTried {
		c.Obs("late_statement_attempts", 1)
		if lateErr == nil {
			c.Viol(key("late-statement-accepted"), "a statement on the leaked session succeeded after the transaction ended", w)
		}
	}
	// surfaced errors
	switch tc.F.Kind {
	case "commit":
		if ce := errValue(tc.F.Err, errCommit); bodyOK && (ret == nil || !(errors.Is(ret, ce) || strings.Contains(ret.Error(), ce.Error()))) {
			c.Viol(key("error-not-surfaced"), "commit failure not surfaced", w)
		}
		c.Obs("commit_failures", 1)
	case "rollback-after-error", "rollback-after-panic":
		if re := errValue(tc.F.Err, errRollback); ret == nil || !(errors.Is(ret, re) || strings.Contains(ret.Error(), re.Error())) {
			c.Viol(key("error-not-surfaced"), "rollback failure not surfaced", w)
		}
		c.Obs("rollback_failures", 1)
	case "body-error", "body-acceptable-error", "stmt-returned", "ctx-cancel-stmt", "ctx-cancel-direct", "ctx-deadline-stmt":
		if bodyRet != nil && (ret == nil || !(errors.Is(ret, bodyRet) || strings.Contains(ret.Error(), bodyRet.Error()))) {
			c.Viol(key("error-not-surfaced"), "the body's error was not returned", w)
		}
	case "panic":
		if ret == nil {
			c.Viol(key("panic-swallowed"), "body panicked but nil was returned", w)
		}
		c.Obs("panics", 1)
	}
	if ctxMid {
		c.Obs("ctx_ended_mid_body", 1)
	}
	if tc.F.Err != "" {
		c.Obs("error_identity_"+tc.F.Err, 1)
	}
	if commits == 1 {
		c.Obs("commits", 1)
	}
	if rollbacks == 1 {
		c.Obs("rollbacks", 1)
	}
}

func enumerate(maxK int) []tcase {
	var out []tcase
	entries := []string{"Transact", "TransactCtx", "CachedTransact", "CachedTransactCtx"}
	for _, en := range entries {
		for k := 0; k <= maxK; k++ {
			// statement kinds: all exec, all query, alternating
			var shapes [][]bool
			shapes = append(shapes, make([]bool, k))
			if k > 0 {
				q := make([]bool, k)
				alt := make([]bool, k)
				for i := range q {
					q[i] = true
					alt[i] = i%2 == 1
				}
				shapes = append(shapes, q)
				if k > 1 {
					shapes = append(shapes, alt)
				}
			}
			for shi, sh := range shapes {
				sh0 := shi == 0
				add := func(f fault, leak bool) { out = append(out, tcase{Entry: en, K: k, Query: sh, F: f, Leak: leak}) }
				add(fault{Kind: "none"}, false)
				add(fault{Kind: "none"}, true)
				add(fault{Kind: "begin"}, false)
				add(fault{Kind: "commit"}, false)
				add(fault{Kind: "commit"}, true)
				add(fault{Kind: "ctx-done"}, false)
				for i := 0; i < k; i++ {
					add(fault{Kind: "stmt-returned", At: i}, false)
					add(fault{Kind: "stmt-ignored", At: i}, false)
				}
				if sh0 {
					// error identities (first statement shape only) and contexts ending mid-body
					for _, fl := range errFlavours[1:] {
						add(fault{Kind: "commit", Err: fl}, false)
						for i := 0; i < k; i++ {
							add(fault{Kind: "stmt-returned", At: i, Err: fl}, false)
						}
						for i := 0; i <= k; i++ {
							add(fault{Kind: "body-error", At: i, Err: fl}, false)
							if i == 0 || i == k {
								add(fault{Kind: "rollback-after-error", At: i, Err: fl}, false)
							}
						}
					}
					for i := 0; i <= k; i++ {
						add(fault{Kind: "ctx-cancel-stmt", At: i}, false)
						add(fault{Kind: "ctx-cancel-direct", At: i}, false)
						add(fault{Kind: "ctx-cancel-ignored", At: i}, false)
					}
					add(fault{Kind: "ctx-deadline-stmt", At: k}, false)
				}
				for i := 0; i <= k; i++ {
					add(fault{Kind: "body-error", At: i}, false)
					add(fault{Kind: "body-error", At: i}, true)
					add(fault{Kind: "body-acceptable-error", At: i}, false)
					add(fault{Kind: "rollback-after-error", At: i}, false)
					for _, p := range []string{"string", "error", "struct", "nil", "int", "slice", "stringer", "errptr", "runtime"} {
						add(fault{Kind: "panic", At: i, Pan: p}, false)
						add(fault{Kind: "rollback-after-panic", At: i, Pan: p}, false)
					}
					add(fault{Kind: "panic", At: i, Pan: "string"}, true)
				}
			}
		}
	}
	return out
}

func TestVerifC14(t *testing.T) {
	logx.Disable()
	cases := enumerate(kit.N(3, 5))
	kit.Run(t, "C14", "enum", len(cases), func(c *kit.Case) {
		tc := cases[c.Index]
		runCase(c, tc)
		c.Sig(tc.F.Kind != "none", tc.Entry, tc.K, fmt.Sprint(tc.Query), tc.F.Kind, tc.F.At, tc.F.Pan, tc.F.Err, tc.Leak)
		c.Sample(tc.F.Kind, 1, tc)
	})
	runExtFamilies(t)
	kit.End()
}
