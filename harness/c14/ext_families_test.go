package c14

// Extension families of C14 (see ext_engine_test.go for the driver and the per-call oracle):
//
//	kinds    - bodies that use every session-level helper of a transaction session (Exec/QueryRow*/
//	           QueryRows*/Prepare + statement helpers, NewSqlConnFromSession inside the body), the
//	           statement kind varied per body position, every driver-level statement a fault point
//	nested   - the body runs an independent Transact on another SqlConn / on the same SqlConn; the
//	           inner transaction fails at begin / statement / body / commit / rollback with every
//	           error identity; the body returns the inner error as is / %w-wrapped / joined / not at all
//	ctxpoint - the caller's context ends INSIDE the driver's BeginTx / first statement / Commit /
//	           Rollback (cancelled, or its deadline passes there)
//	newconn  - sqlx.NewSqlConn (lazy connection through the connection manager), failing provider
//	accept   - WithAcceptable (one / two options): acceptable errors still roll back and are returned
//	breaker  - bursts of failing transactions until the breaker rejects: rejected => body not run, no begin
//	external - NewSessionFromTx / NewSqlConnFromSession over an externally begun *sql.Tx
//
// Every case is followed by history follow-ups (healthy + failing transaction on the same and on
// a fresh SqlConn, same goroutine, OS thread locked).

import (
	"context"
	"errors"
	"fmt"
	"runtime"
	"testing"
	"time"

	"github.com/zeromicro/go-zero/core/stores/sqlc"
	"github.com/zeromicro/go-zero/core/stores/sqlx"

	"verifharness/kit"
)

// ---------------------------------------------------------------- body operations

type xrow struct {
	V int64 `db:"v"`
}

type xrowWide struct {
	V int64  `db:"v"`
	W string `db:"w"`
}

type xrowMismatch struct {
	A int64 `db:"a"`
	B int64 `db:"b"`
}

var opNames = []string{
	"ExecCtx", "Exec", "QueryRowCtx", "QueryRow", "QueryRowPartialCtx", "QueryRowPartial",
	"QueryRowsCtx", "QueryRows", "QueryRowsPartialCtx", "QueryRowsPartial",
	"PrepareCtx+ExecCtx+Close", "Prepare+QueryRowCtx+deferClose", "PrepareCtx+Exec+QueryRowsCtx+noClose",
	"Prepare+stmtQueries+deferClose", "ConnFromSession+ExecCtx+QueryRowCtx", "ConnFromSession+Transact",
	"QueryRowCtx-norows", "QueryRowCtx-mismatch", "ExecCtx-argcount",
}

type opEnv struct {
	ctx       context.Context
	sess      sqlx.Session
	deferred  []func()
	nestedRan int // bodies of a Transact on a session-bound conn that ran (must stay 0)
	nestedNil int // such calls that returned nil (must stay 0)
	ops       int
}

const (
	qUpd = "update t set v = ? where id = ?"
	qSel = "select v from t where id > ?"
)

// runOp performs body operation `kind`; it returns the first error it meets.
func runOp(kind int, e *opEnv, i int) error {
	e.ops++
	ctx, s := e.ctx, e.sess
	switch kind {
	case 0:
		_, err := s.ExecCtx(ctx, qUpd, i, i)
		return err
	case 1:
		_, err := s.Exec(qUpd, i, i)
		return err
	case 2:
		var v int64
		return s.QueryRowCtx(ctx, &v, qSel, i) // three rows, the first is scanned
	case 3:
		var v xrow
		return s.QueryRow(&v, qSel, i)
	case 4:
		var v xrowWide
		return s.QueryRowPartialCtx(ctx, &v, qSel, i)
	case 5:
		var v xrowWide
		return s.QueryRowPartial(&v, qSel, i)
	case 6:
		var v []int64
		return s.QueryRowsCtx(ctx, &v, qSel, i)
	case 7:
		var v []xrow
		return s.QueryRows(&v, qSel, i)
	case 8:
		var v []xrowWide
		return s.QueryRowsPartialCtx(ctx, &v, qSel, i)
	case 9:
		var v []*xrowWide
		return s.QueryRowsPartial(&v, qSel, i)
	case 10:
		st, err := s.PrepareCtx(ctx, qUpd)
		if err != nil {
			return err
		}
		_, err = st.ExecCtx(ctx, i, i)
		if cerr := st.Close(); err == nil {
			err = cerr
		}
		return err
	case 11:
		st, err := s.Prepare(qSel)
		if err != nil {
			return err
		}
		e.deferred = append(e.deferred, func() { st.Close() })
		var v int64
		return st.QueryRowCtx(ctx, &v, i)
	case 12:
		st, err := s.PrepareCtx(ctx, qUpd) // Close forgotten: database/sql closes it with the transaction
		if err != nil {
			return err
		}
		if _, err = st.Exec(i, i); err != nil {
			return err
		}
		st2, err := s.PrepareCtx(ctx, qSel)
		if err != nil {
			return err
		}
		var v []int64
		return st2.QueryRowsCtx(ctx, &v, i)
	case 13:
		st, err := s.Prepare(qSel)
		if err != nil {
			return err
		}
		e.deferred = append(e.deferred, func() { st.Close() })
		var a xrowWide
		if err = st.QueryRowPartial(&a, i); err != nil {
			return err
		}
		var b []xrowWide
		if err = st.QueryRowsPartial(&b, i); err != nil {
			return err
		}
		var c xrow
		if err = st.QueryRow(&c, i); err != nil {
			return err
		}
		var d []xrow
		if err = st.QueryRows(&d, i); err != nil {
			return err
		}
		if err = st.QueryRowPartialCtx(ctx, &a, i); err != nil {
			return err
		}
		return st.QueryRowsPartialCtx(ctx, &b, i)
	case 14:
		sc := sqlx.NewSqlConnFromSession(s) // what goctl models do with withSession(session)
		if _, err := sc.ExecCtx(ctx, qUpd, i, i); err != nil {
			return err
		}
		var v int64
		return sc.QueryRowCtx(ctx, &v, qSel, i)
	case 15:
		sc := sqlx.NewSqlConnFromSession(s)
		if _, err := sc.RawDB(); err == nil {
			return errors.New("verif: RawDB of a session-bound conn returned no error")
		}
		var err error
		inner := func(sqlx.Session) error { e.nestedRan++; return nil }
		switch i % 3 {
		case 0:
			err = sc.Transact(inner)
		case 1:
			err = sc.TransactCtx(ctx, func(_ context.Context, s sqlx.Session) error { return inner(s) })
		default:
			err = sqlc.NewConnWithCache(sc, nil).TransactCtx(ctx, func(_ context.Context, s sqlx.Session) error { return inner(s) })
		}
		if err == nil {
			e.nestedNil++
		}
		return err
	case 16:
		var v int64
		return s.QueryRowCtx(ctx, &v, "select v from norows where id = ?", i)
	case 17:
		var v xrowMismatch
		return s.QueryRowCtx(ctx, &v, qSel, i)
	default:
		// one argument for two placeholders: refused by sqlx before it reaches the driver, with an
		// error the breaker accepts (the transaction must be rolled back all the same if returned)
		_, err := s.ExecCtx(ctx, qUpd, i)
		return err
	}
}

// judgeNested: a Transact on a session-bound conn cannot begin a transaction.
func judgeNested(c *kit.Case, class string, e *opEnv, wit any) {
	if e.nestedRan > 0 {
		c.Viol("C14/body-ran-without-tx/"+class, "Transact on a session-bound SqlConn (no transaction can begin) ran its body", wit)
	}
	if e.nestedNil > 0 {
		c.Viol("C14/nil-without-commit/"+class, "Transact on a session-bound SqlConn returned nil although nothing was begun or committed", wit)
	}
}

func runDeferred(e *opEnv) {
	for i := len(e.deferred) - 1; i >= 0; i-- {
		e.deferred[i]()
	}
	e.deferred = nil
}

// ---------------------------------------------------------------- family: kinds

type kcase struct {
	Entry string
	Ops   []int
	F     string // none begin stmt body-error panic commit rollback-after-error rollback-after-panic
	At    int    // driver-level statement index (F == stmt)
	Mode  string // what the body does with a failing operation: returned wrapped ignored
	Err   string
}

func enumKinds() []kcase {
	var out []kcase
	n := len(opNames)
	for b := 0; b < n; b++ {
		for k := 1; k <= 3; k++ {
			ops := make([]int, k)
			for i := range ops {
				ops[i] = (b + 5*i) % n
			}
			var fs []kcase
			add := func(f string, at int, mode string) { fs = append(fs, kcase{Ops: ops, F: f, At: at, Mode: mode}) }
			add("none", 0, "returned")
			add("none", 0, "ignored")
			add("begin", 0, "returned")
			for j := 0; j < 4; j++ {
				add("stmt", j, "returned")
				add("stmt", j, "wrapped")
				add("stmt", j, "ignored")
			}
			add("body-error", 0, "ignored")
			add("panic", 0, "ignored")
			add("commit", 0, "ignored")
			add("rollback-after-error", 0, "ignored")
			add("rollback-after-panic", 0, "ignored")
			for _, f := range fs {
				entries := xEntries
				if !kit.Thorough() {
					entries = []string{xEntries[len(out)%4]}
				}
				for _, en := range entries {
					f.Entry = en
					f.Err = xFlavours[len(out)%len(xFlavours)]
					out = append(out, f)
				}
			}
		}
	}
	return out
}

func runKinds(c *kit.Case, kc kcase) {
	runtime.LockOSThread()
	defer runtime.UnlockOSThread()
	w := newWorld(c.ID)
	defer w.close()
	d := w.newDB("A")
	sc := sqlx.NewSqlConnFromDB(d.open())
	class := "kinds-" + kc.F
	call := w.newCall(class, kc.Entry)
	switch kc.F {
	case "begin":
		call.InjBegin = xErrValue(kc.Err, errBegin)
		d.setBeginFault(0, call.InjBegin)
	case "stmt":
		p := d.plan(0)
		p.failStmt, p.stmtErr = kc.At, xErrValue(kc.Err, errStmt)
	case "commit":
		p := d.plan(0)
		p.failCommit, p.commitErr = true, xErrValue(kc.Err, errCommit)
		call.InjCommit = p.commitErr
	case "rollback-after-error", "rollback-after-panic":
		p := d.plan(0)
		p.failRollback, p.rollbackErr = true, xErrValue(kc.Err, errRollback)
		call.InjRollback = p.rollbackErr
	}
	env := &opEnv{}
	opErrs := 0
	w.transact(call, sc, context.Background(), func(ctx context.Context, sess sqlx.Session) error {
		env.ctx, env.sess = ctx, sess
		defer runDeferred(env)
		for i, op := range kc.Ops {
			if err := runOp(op, env, i); err != nil {
				opErrs++
				switch kc.Mode {
				case "returned":
					return err
				case "wrapped":
					return fmt.Errorf("verif: operation %d (%s): %w", i, opNames[op], err)
				}
			}
		}
		switch kc.F {
		case "body-error", "rollback-after-error":
			return xErrValue(kc.Err, errBody)
		case "panic", "rollback-after-panic":
			panic(customPanic{11})
		}
		return nil
	})
	w.judgeCall(c, call)
	judgeNested(c, class, env, map[string]any{"case": kc, "ops": opNamesOf(kc.Ops), "driver_log": renderLog(w.snapshot())})
	c.Obs("kinds_operations", int64(env.ops))
	c.Obs("kinds_operation_errors", int64(opErrs))
	for _, op := range kc.Ops[:min(env.ops, len(kc.Ops))] {
		c.Obs("kinds_op_"+opNames[op], 1)
	}
	w.mu.Lock()
	c.Obs("rows_closed_before_last_row", int64(w.rowsNotExhausted))
	w.mu.Unlock()
	for _, e := range w.snapshot() {
		switch e.Kind {
		case "prepare", "stmt-exec", "stmt-query", "stmt-close":
			c.Obs("driver_"+e.Kind, 1)
		}
	}
	w.followUps(c, class, []sqlx.SqlConn{sc}, false)
}

func opNamesOf(ops []int) []string {
	out := make([]string, len(ops))
	for i, o := range ops {
		out[i] = opNames[o]
	}
	return out
}

// ---------------------------------------------------------------- family: nested

type ncase struct {
	OuterEntry, InnerEntry string
	Where                  string // other: another SqlConn over another database; same: the same SqlConn (second pooled connection)
	K0                     int    // statements of the outer body before the inner call
	IF                     string // inner fault: none begin stmt body-error commit rollback panic
	Err                    string
	Handling               string // asis wrap join swallow
}

func enumNested() []ncase {
	var out []ncase
	for _, where := range []string{"other", "same"} {
		for _, f := range []string{"none", "begin", "stmt", "body-error", "commit", "rollback", "panic"} {
			fl := xFlavours
			if f == "none" || f == "panic" {
				fl = xFlavours[:1]
			}
			for _, e := range fl {
				for _, h := range []string{"asis", "wrap", "join", "swallow"} {
					for k0 := 0; k0 <= 1; k0++ {
						i := len(out)
						out = append(out, ncase{OuterEntry: xEntries[i%4], InnerEntry: xEntries[(i/4)%2], Where: where, K0: k0, IF: f, Err: e, Handling: h})
					}
				}
			}
		}
	}
	return out
}

func runNested(c *kit.Case, nc ncase) {
	runtime.LockOSThread()
	defer runtime.UnlockOSThread()
	w := newWorld(c.ID)
	defer w.close()
	da := w.newDB("A")
	sa := sqlx.NewSqlConnFromDB(da.open())
	db, sb := da, sa
	if nc.Where == "other" {
		db = w.newDB("B")
		sb = sqlx.NewSqlConnFromDB(db.open())
	}
	suffix := nc.Where + "-" + nc.IF
	outer := w.newCall("nested-outer-"+suffix, nc.OuterEntry)
	var inners []*xcall
	w.transact(outer, sa, context.Background(), func(ctx context.Context, sess sqlx.Session) error {
		for i := 0; i < nc.K0; i++ {
			if _, err := sess.ExecCtx(ctx, qUpd, i, i); err != nil {
				return err
			}
		}
		// arm the inner transaction's fault (ordinal: transactions begun so far on its database)
		inner := w.newCall("nested-inner-"+suffix, nc.InnerEntry)
		inners = append(inners, inner)
		ord := db.begun() // "same": the second transaction of database A; "other": the first of B
		switch nc.IF {
		case "begin":
			inner.InjBegin = xErrValue(nc.Err, errBegin)
			db.setBeginFault(ord, inner.InjBegin)
		case "stmt":
			p := db.plan(ord)
			p.failStmt, p.stmtErr = 1, xErrValue(nc.Err, errStmt)
		case "commit":
			p := db.plan(ord)
			p.failCommit, p.commitErr = true, xErrValue(nc.Err, errCommit)
			inner.InjCommit = p.commitErr
		case "rollback":
			p := db.plan(ord)
			p.failRollback, p.rollbackErr = true, xErrValue(nc.Err, errRollback)
			inner.InjRollback = p.rollbackErr
		}
		ierr := w.transact(inner, sb, ctx, func(ictx context.Context, isess sqlx.Session) error {
			for i := 0; i < 2; i++ {
				if _, err := isess.ExecCtx(ictx, qUpd, i, i); err != nil {
					return err
				}
			}
			switch nc.IF {
			case "body-error":
				return xErrValue(nc.Err, errBody)
			case "rollback":
				return errBody
			case "panic":
				panic("verif inner panic")
			}
			return nil
		})
		// the stale connection has been replaced: a (wrong) second attempt of either transaction
		// would find a healthy database
		db.heal()
		if _, err := sess.ExecCtx(ctx, qUpd, 9, 9); err != nil {
			return err
		}
		if ierr == nil {
			return nil
		}
		switch nc.Handling {
		case "asis":
			return ierr
		case "wrap":
			return fmt.Errorf("verif: write audit record: %w", ierr)
		case "join":
			return errors.Join(errors.New("verif: audit failed"), ierr)
		}
		return nil // swallowed
	})
	for _, in := range inners {
		w.judgeCall(c, in)
	}
	w.judgeCall(c, outer)
	c.Obs("nested_inner_calls", int64(len(inners)))
	c.Obs("nested_"+nc.Where, 1)
	if len(inners) > 0 && inners[0].Ret != nil {
		c.Obs("nested_inner_failed_"+nc.IF, 1)
		c.Obs("nested_inner_error_"+nc.Handling, 1)
	}
	sames := []sqlx.SqlConn{sa}
	if nc.Where == "other" {
		sames = append(sames, sb)
	}
	w.followUps(c, "nested-"+suffix, sames, false)
}

// ---------------------------------------------------------------- family: ctxpoint

type pcase struct {
	Entry string // TransactCtx CachedTransactCtx
	Point string // begin-before begin-after stmt-before stmt-after commit-before commit-after rollback-before rollback-after
	Mode  string // cancel deadline
	Body  string // ctx-stmts-return ctx-stmts-ignore bg-stmts return-ctx-err body-error panic
	K     int
}

func enumCtxPoints() []pcase {
	var out []pcase
	for _, en := range []string{"TransactCtx", "CachedTransactCtx"} {
		for _, p := range []string{"begin-before", "begin-after", "stmt-before", "stmt-after", "commit-before", "commit-after", "rollback-before", "rollback-after"} {
			for _, m := range []string{"cancel", "deadline"} {
				for _, b := range []string{"ctx-stmts-return", "ctx-stmts-ignore", "bg-stmts", "return-ctx-err", "body-error", "panic"} {
					for k := 0; k <= 2; k++ {
						if m == "deadline" && k == 1 && !kit.Thorough() {
							continue // the deadline cases wait for a real (short) deadline
						}
						out = append(out, pcase{Entry: en, Point: p, Mode: m, Body: b, K: k})
					}
				}
			}
		}
	}
	return out
}

func runCtxPoint(c *kit.Case, pc pcase) (seen map[string]any) {
	runtime.LockOSThread()
	defer runtime.UnlockOSThread()
	w := newWorld(c.ID)
	defer w.close()
	d := w.newDB("A")
	sc := sqlx.NewSqlConnFromDB(d.open())
	class := "ctx-" + pc.Mode + "-in-" + pc.Point
	call := w.newCall(class, pc.Entry)
	var ctx context.Context
	var cancel context.CancelFunc
	if pc.Mode == "deadline" {
		ctx, cancel = context.WithTimeout(context.Background(), 25*time.Millisecond)
	} else {
		ctx, cancel = context.WithCancel(context.Background())
	}
	defer cancel()
	fired, watchdog := false, false
	w.hook = func(point string, e xev) {
		if fired || point != pc.Point || e.Call != call.ID {
			return
		}
		fired = true
		if pc.Mode == "cancel" {
			cancel()
		} else {
			select {
			case <-ctx.Done(): // synchronisation with the caller's own deadline, not a verdict
			case <-time.After(60 * time.Second):
				watchdog = true
			}
		}
		call.CtxEnded = true
	}
	w.transact(call, sc, ctx, func(bctx context.Context, sess sqlx.Session) error {
		sctx := bctx
		if pc.Body == "bg-stmts" || pc.Body == "return-ctx-err" || pc.Body == "body-error" || pc.Body == "panic" {
			sctx = context.Background()
		}
		for i := 0; i < pc.K; i++ {
			var err error
			if i%2 == 0 {
				_, err = sess.ExecCtx(sctx, qUpd, i, i)
			} else {
				var v int64
				err = sess.QueryRowCtx(sctx, &v, qSel, i)
			}
			if err != nil && pc.Body != "ctx-stmts-ignore" {
				return err
			}
		}
		switch pc.Body {
		case "return-ctx-err":
			return bctx.Err() // nil while the context is alive
		case "body-error":
			return errBody
		case "panic":
			panic(errors.New("verif panic error"))
		}
		return nil
	})
	if watchdog {
		c.Inconclusive("the caller's 25 ms deadline did not fire within 60 s")
		return nil
	}
	seen = map[string]any{"case": pc, "context_ended_at_the_point": fired, "body_runs": call.BodyRuns, "body_returned": fmt.Sprint(call.BodyRet),
		"returned": fmt.Sprint(call.Ret), "driver_log": renderLog(w.snapshot())}
	if ctx.Err() != nil && !fired {
		// (deadline mode on a stalled machine: the context ended somewhere else; still judged)
		call.CtxEnded = true
	}
	v := w.judgeCall(c, call)
	if fired {
		c.Obs("ctx_ended_in_"+pc.Point, 1)
		if v.Begins > 0 && call.BodyRuns == 1 {
			c.Obs("ctx_ended_in_driver_body_ran", 1)
		}
	}
	w.followUps(c, class, []sqlx.SqlConn{sc}, false)
	return seen
}

// ---------------------------------------------------------------- family: newconn / accept

var (
	errAccA = errors.New("verif: acceptable error A")
	errAccB = errors.New("verif: acceptable error B")
)

type qcase struct {
	Entry string
	Ctor  string // NewSqlConn NewSqlConnFromDB
	Opts  int    // number of WithAcceptable options (0 1 2)
	F     string // none open begin stmt body-error panic commit rollback
	Which string // identity of the injected error: plain A B wrappedA wrappedB
	K     int
}

func enumNewConn() []qcase {
	var out []qcase
	for _, f := range []string{"none", "open", "begin", "stmt", "body-error", "panic", "commit", "rollback"} {
		for k := 0; k <= 2; k += 2 {
			for opts := 0; opts <= 1; opts++ {
				for _, en := range xEntries {
					out = append(out, qcase{Entry: en, Ctor: "NewSqlConn", Opts: opts, F: f, Which: "plain", K: k})
				}
			}
		}
	}
	return out
}

func enumAccept() []qcase {
	var out []qcase
	for _, ctor := range []string{"NewSqlConnFromDB", "NewSqlConn"} {
		for opts := 1; opts <= 2; opts++ {
			for _, f := range []string{"begin", "stmt", "body-error", "commit", "rollback"} {
				for _, which := range []string{"plain", "A", "B", "wrappedA", "wrappedB"} {
					out = append(out, qcase{Entry: xEntries[len(out)%4], Ctor: ctor, Opts: opts, F: f, Which: which, K: 1})
				}
			}
		}
	}
	return out
}

func accErr(which string, dflt error) error {
	switch which {
	case "A":
		return errAccA
	case "B":
		return errAccB
	case "wrappedA":
		return &wrappedErr{errAccA}
	case "wrappedB":
		return &wrappedErr{errAccB}
	}
	return dflt
}

// makeConn builds the SqlConn of a q-case; asked counts calls of the acceptable callbacks.
func makeConn(d *xdb, ctor string, nopts int, asked *int) sqlx.SqlConn {
	var opts []sqlx.SqlOption
	if nopts >= 1 {
		opts = append(opts, sqlx.WithAcceptable(func(err error) bool { *asked++; return errors.Is(err, errAccA) }))
	}
	if nopts >= 2 {
		opts = append(opts, sqlx.WithAcceptable(func(err error) bool { *asked++; return errors.Is(err, errAccB) }))
	}
	if ctor == "NewSqlConn" {
		return sqlx.NewSqlConn("verifc14x", d.name, opts...)
	}
	return sqlx.NewSqlConnFromDB(d.open(), opts...)
}

// closeManaged closes the *sql.DB the connection manager opened for a NewSqlConn case (the
// manager keeps one per datasource for the life of the process; each case has its own datasource).
func closeManaged(sc sqlx.SqlConn) {
	if db, err := sc.RawDB(); err == nil && db != nil {
		db.Close()
	}
}

func runQ(c *kit.Case, family string, qc qcase) {
	runtime.LockOSThread()
	defer runtime.UnlockOSThread()
	w := newWorld(c.ID)
	defer w.close()
	d := w.newDB("A")
	asked := 0
	sc := makeConn(d, qc.Ctor, qc.Opts, &asked)
	if qc.Ctor == "NewSqlConn" {
		defer closeManaged(sc)
	}
	class := family + "-" + qc.F
	call := w.newCall(class, qc.Entry)
	switch qc.F {
	case "open":
		d.setOpenErr(errors.New("verif: cannot connect"))
	case "begin":
		call.InjBegin = accErr(qc.Which, errBegin)
		d.setBeginFault(0, call.InjBegin)
	case "stmt":
		p := d.plan(0)
		p.failStmt, p.stmtErr = 0, accErr(qc.Which, errStmt)
	case "commit":
		p := d.plan(0)
		p.failCommit, p.commitErr = true, accErr(qc.Which, errCommit)
		call.InjCommit = p.commitErr
	case "rollback":
		p := d.plan(0)
		p.failRollback, p.rollbackErr = true, accErr(qc.Which, errRollback)
		call.InjRollback = p.rollbackErr
	}
	w.transact(call, sc, context.Background(), func(ctx context.Context, sess sqlx.Session) error {
		for i := 0; i < max(qc.K, 1); i++ {
			if _, err := sess.ExecCtx(ctx, qUpd, i, i); err != nil {
				return err
			}
		}
		switch qc.F {
		case "body-error":
			return accErr(qc.Which, errBody)
		case "rollback":
			return errBody
		case "panic":
			panic(fmt.Sprintf("verif panic %d", qc.K))
		}
		return nil
	})
	v := w.judgeCall(c, call)
	if qc.F == "open" {
		opens := 0
		for _, e := range w.snapshot() {
			if e.Kind == "open-fail" {
				opens++
			}
		}
		if opens > 0 && v.Begins == 0 {
			c.Obs("conn_provider_failed", 1)
		}
	}
	if qc.Ctor == "NewSqlConn" && v.Begins > 0 {
		c.Obs("lazy_conn_transactions", 1)
	}
	c.Obs("acceptable_callback_calls", int64(asked))
	w.followUps(c, class, []sqlx.SqlConn{sc}, false)
}

// ---------------------------------------------------------------- family: breaker

type bcase struct {
	Entry string
	F     string // begin stmt body-error panic commit rollback open
	Acc   bool   // the injected error is acceptable (WithAcceptable): the breaker should not trip
	Ctor  string
}

func enumBreaker() []bcase {
	var out []bcase
	for _, f := range []string{"begin", "stmt", "body-error", "panic", "commit", "rollback", "open"} {
		for _, acc := range []bool{false, true} {
			if acc && (f == "panic" || f == "open") {
				continue
			}
			for _, en := range xEntries {
				ctor := "NewSqlConnFromDB"
				if f == "open" || len(out)%3 == 0 {
					ctor = "NewSqlConn"
				}
				out = append(out, bcase{Entry: en, F: f, Acc: acc, Ctor: ctor})
			}
		}
	}
	return out
}

func runBreaker(c *kit.Case, bc bcase) {
	runtime.LockOSThread()
	defer runtime.UnlockOSThread()
	// the breaker's statistics live in a rolling window over timex: freeze it, so that the burst
	// below falls into one window however slowly this process is scheduled
	kit.InstallVClock()
	defer kit.UninstallVClock()
	w := newWorld(c.ID)
	defer w.close()
	d := w.newDB("A")
	asked := 0
	nopts := 0
	which := "plain"
	if bc.Acc {
		nopts, which = 1, "A"
	}
	sc := makeConn(d, bc.Ctor, nopts, &asked)
	if bc.Ctor == "NewSqlConn" {
		defer closeManaged(sc)
	}
	class := "breaker-burst-" + bc.F
	const burst, tail = 40, 12
	rejected, ran := 0, 0
	for n := 0; n < burst+tail; n++ {
		failing := n < burst
		call := w.newCall(class, bc.Entry)
		call.MayReject = true
		d.heal()
		if failing {
			ord := d.begun()
			switch bc.F {
			case "open":
				// the connection manager does not keep a failed connection: every call asks again
				d.setOpenErr(errors.New("verif: cannot connect"))
			case "begin":
				call.InjBegin = accErr(which, errBegin)
				d.setBeginFault(ord, call.InjBegin)
			case "stmt":
				p := d.plan(ord)
				p.failStmt, p.stmtErr = 0, accErr(which, errStmt)
			case "commit":
				p := d.plan(ord)
				p.failCommit, p.commitErr = true, accErr(which, errCommit)
				call.InjCommit = p.commitErr
			case "rollback":
				p := d.plan(ord)
				p.failRollback, p.rollbackErr = true, accErr(which, errRollback)
				call.InjRollback = p.rollbackErr
			}
		}
		w.transact(call, sc, context.Background(), func(ctx context.Context, sess sqlx.Session) error {
			if _, err := sess.ExecCtx(ctx, qUpd, n, n); err != nil {
				return err
			}
			if !failing {
				return nil
			}
			switch bc.F {
			case "body-error":
				return accErr(which, errBody)
			case "rollback":
				return errBody
			case "panic":
				panic("verif burst panic")
			}
			return nil
		})
		v := w.judgeCall(c, call)
		if v.Rejected {
			rejected++
			if !failing {
				c.Obs("breaker_rejected_healthy_call", 1)
			}
		} else {
			ran++
			if !failing && v.CommittedOK {
				c.Obs("breaker_admitted_healthy_call", 1)
			}
		}
	}
	c.Evals(burst + tail - 1)
	c.Obs("breaker_burst_calls", burst+tail)
	c.Obs("breaker_rejections", int64(rejected))
	if bc.Acc {
		c.Obs("breaker_rejections_acceptable_errors", int64(rejected))
	}
	w.followUps(c, class, []sqlx.SqlConn{sc}, true)
}

// ---------------------------------------------------------------- family: external

type ecase struct {
	Ops  []int
	At   int    // failing driver-level statement (-1 none)
	End  string // how the harness ends its own transaction: commit rollback
	Via  string // Transact TransactCtx CachedTransactCtx on the session-bound conn
	Open bool   // the harness leaves a raw *sql.Rows of its transaction unread and unclosed
}

func enumExternal() []ecase {
	var out []ecase
	n := len(opNames)
	for b := 0; b < n; b++ {
		for k := 1; k <= 2; k++ {
			ops := make([]int, k)
			for i := range ops {
				ops[i] = (b + 7*i) % n
			}
			for at := -1; at <= 1; at++ {
				i := len(out)
				out = append(out, ecase{Ops: ops, At: at, End: []string{"commit", "rollback"}[i%2],
					Via: []string{"Transact", "TransactCtx", "CachedTransactCtx"}[i%3], Open: i%4 == 1})
			}
		}
	}
	return out
}

func runExternal(c *kit.Case, ec ecase) {
	runtime.LockOSThread()
	defer runtime.UnlockOSThread()
	w := newWorld(c.ID)
	defer w.close()
	d := w.newDB("A")
	db := d.open()
	class := "external-tx"
	if ec.At >= 0 {
		p := d.plan(0)
		p.failStmt, p.stmtErr = ec.At, xErrValue(xFlavours[c.Index%len(xFlavours)], errStmt)
	}
	tx, err := db.Begin() // the caller's own transaction, handed to go-zero as a Session
	if err != nil {
		panic(err)
	}
	sess := sqlx.NewSessionFromTx(tx)
	env := &opEnv{ctx: context.Background(), sess: sess}
	opErrs := 0
	for i, op := range ec.Ops {
		if err := runOp(op, env, i); err != nil {
			opErrs++
		}
	}
	if ec.Open {
		if rows, err := tx.QueryContext(context.Background(), qSel, 1); err == nil {
			_ = rows // neither read nor closed: database/sql closes it with the transaction
		}
	}
	// a Transact on the session-bound conn cannot begin anything: the body must not run, an error
	// must come back, and nothing may reach the driver on behalf of that call
	sc := sqlx.NewSqlConnFromSession(sess)
	call := w.newCall(class, ec.Via)
	before := w.logLen()
	w.transact(call, sc, context.Background(), func(ctx context.Context, s sqlx.Session) error {
		_, err := s.ExecCtx(ctx, qUpd, 1, 1)
		return err
	})
	w.judgeCall(c, call)
	wit := map[string]any{"case": ec, "ops": opNamesOf(ec.Ops), "returned": fmt.Sprint(call.Ret), "driver_log": renderLog(w.snapshot())}
	if n := w.logLen() - before; n != 0 {
		c.Viol("C14/events-without-body/"+class, fmt.Sprintf("Transact on a session-bound SqlConn caused %d driver events", n), wit)
	}
	judgeNested(c, class, env, wit)
	runDeferred(env)
	var endErr error
	if ec.End == "commit" {
		endErr = tx.Commit()
	} else {
		endErr = tx.Rollback()
	}
	// (what the session helpers do to the caller's transaction is outside the statement: observed only)
	if endErr == nil {
		c.Obs("external_tx_ended_by_its_owner", 1)
	} else {
		c.Obs("external_tx_end_failed", 1)
	}
	c.Obs("external_operations", int64(env.ops))
	c.Obs("external_operation_errors", int64(opErrs))
	c.Obs("external_nested_transact_refused", 1)
	w.followUps(c, class, nil, false)
}

// ---------------------------------------------------------------- registration

func runExtFamilies(t *testing.T) {
	ks := enumKinds()
	kit.Run(t, "C14", "kinds", len(ks), func(c *kit.Case) {
		kc := ks[c.Index]
		runKinds(c, kc)
		c.Sig(kc.F != "none", "kinds", kc.Entry, fmt.Sprint(kc.Ops), kc.F, kc.At, kc.Mode, kc.Err)
		c.Sample("kinds-"+kc.F, 1, map[string]any{"case": kc, "ops": opNamesOf(kc.Ops)})
	})
	ns := enumNested()
	kit.Run(t, "C14", "nested", len(ns), func(c *kit.Case) {
		nc := ns[c.Index]
		runNested(c, nc)
		c.Sig(true, "nested", nc)
		c.Sample("nested-"+nc.Where+"-"+nc.IF, 1, nc)
	})
	ps := enumCtxPoints()
	kit.Run(t, "C14", "ctxpoint", len(ps), func(c *kit.Case) {
		pc := ps[c.Index]
		seen := runCtxPoint(c, pc)
		c.Sig(true, "ctxpoint", pc)
		if seen != nil && seen["context_ended_at_the_point"] == true {
			c.Sample("ctxpoint-"+pc.Mode+"-"+pc.Point, 1, seen)
		}
	})
	qs := enumNewConn()
	kit.Run(t, "C14", "newconn", len(qs), func(c *kit.Case) {
		qc := qs[c.Index]
		runQ(c, "newconn", qc)
		c.Sig(qc.F != "none", "newconn", qc)
		c.Sample("newconn-"+qc.F, 1, qc)
	})
	as := enumAccept()
	kit.Run(t, "C14", "accept", len(as), func(c *kit.Case) {
		qc := as[c.Index]
		runQ(c, "accept", qc)
		c.Sig(true, "accept", qc)
		c.Sample("accept-"+qc.F, 1, qc)
	})
	bs := enumBreaker()
	kit.Run(t, "C14", "breaker", len(bs), func(c *kit.Case) {
		bc := bs[c.Index]
		runBreaker(c, bc)
		c.Sig(true, "breaker", bc)
		c.Sample("breaker-"+bc.F, 1, bc)
	})
	es := enumExternal()
	kit.Run(t, "C14", "external", len(es), func(c *kit.Case) {
		ec := es[c.Index]
		runExternal(c, ec)
		c.Sig(true, "external", fmt.Sprint(ec.Ops), ec.At, ec.End, ec.Via, ec.Open)
		c.Sample("external", 2, map[string]any{"case": ec, "ops": opNamesOf(ec.Ops)})
	})
}
