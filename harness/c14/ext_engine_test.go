package c14

// Extension engine (second harness driver "verifc14x" + per-call oracle).
//
// Differences to the first driver in c14_test.go:
//   - one ordered event log for ALL scripted databases of a case ("world"), every event tagged with
//     the database, the physical connection, the transaction ordinal and the harness CALL (one
//     Transact/TransactCtx invocation) it belongs to - so that nested / consecutive transactions
//     are judged one by one ("per connection log");
//   - faults are planned per transaction ordinal; begin faults are sticky (database/sql retries a
//     begin that fails with driver.ErrBadConn on up to three connections);
//   - hook points inside BeginTx / statements / Commit / Rollback (the harness ends the CALLER's
//     context there - go-zero begins with db.Begin(), the driver never sees that context);
//   - prepared statements, multi-row results, failing Open (connection provider fails).
//
// The oracle (judgeCall) is the statement of C14 applied to one call: at most one successful
// begin; no begin => body not run and an error returned; every transaction begun by the call has
// exactly one terminal event by the time the call has returned; commit iff the body ran once and
// returned nil without panicking, rollback otherwise; nil returned only if a commit succeeded;
// commit / rollback / begin failures and the body's error are surfaced; a panic comes back as an
// error.

import (
	"context"
	"database/sql"
	"database/sql/driver"
	"errors"
	"fmt"
	"io"
	"strings"
	"sync"

	"github.com/go-sql-driver/mysql"
	"github.com/zeromicro/go-zero/core/breaker"
	"github.com/zeromicro/go-zero/core/stores/sqlc"
	"github.com/zeromicro/go-zero/core/stores/sqlx"

	"verifharness/kit"
)

// ---------------------------------------------------------------- events

type xev struct {
	Call int    // harness call the event belongs to (-1: none)
	DB   string // scripted database (short label)
	Conn int    // physical connection of that database
	Tx   int    // transaction ordinal within the database (-1: outside a transaction)
	Kind string // begin begin-fail exec query prepare stmt-exec stmt-query (+ "-fail") stmt-close commit commit-fail rollback rollback-fail open open-fail
	Idx  int    // statement index within the transaction
}

func (e xev) String() string {
	return fmt.Sprintf("call%d %s#%d tx%d %s:%d", e.Call, e.DB, e.Conn, e.Tx, e.Kind, e.Idx)
}

type xplan struct {
	failStmt     int // driver-level statement index within the transaction (-1 none)
	stmtErr      error
	failCommit   bool
	commitErr    error
	failRollback bool
	rollbackErr  error
}

type xworld struct {
	mu       sync.Mutex
	log      []xev
	stack    []int
	nextCall int
	hook     func(point string, e xev) // called without w.mu held, on the goroutine that called the driver
	dbs      []*xdb
	calls    []*xcall
	// result sets closed before their last row was read
	rowsNotExhausted int
	id               string
	seq              int
	// importAfter, when set, is asked after every call for events recorded elsewhere (the first
	// driver's string log) that belong to that call
	importAfter func(callID int) []xev
	before      string // history follow-ups: class of the case they follow
}

type xdb struct {
	w             *xworld
	label, name   string
	openErr       error // driver.Open fails
	failBeginFrom int   // begin attempts fail once this many transactions have begun (-1 never)
	beginErr      error
	okBegins      int
	plans         map[int]*xplan
	nconn         int
	sqlDB         *sql.DB
}

var (
	xdbsMu sync.Mutex
	xdbs   = map[string]*xdb{}
)

func newWorld(id string) *xworld { return &xworld{id: id} }

func (w *xworld) newDB(label string) *xdb {
	w.seq++
	d := &xdb{w: w, label: label, name: fmt.Sprintf("%s/%s-%d", w.id, label, w.seq), failBeginFrom: -1, plans: map[int]*xplan{}}
	xdbsMu.Lock()
	xdbs[d.name] = d
	xdbsMu.Unlock()
	w.dbs = append(w.dbs, d)
	return d
}

// open returns a *sql.DB over the scripted database (NewSqlConnFromDB path).
func (d *xdb) open() *sql.DB {
	if d.sqlDB == nil {
		db, err := sql.Open("verifc14x", d.name)
		if err != nil {
			panic(err)
		}
		d.sqlDB = db
	}
	return d.sqlDB
}

func (d *xdb) plan(ord int) *xplan {
	d.w.mu.Lock()
	defer d.w.mu.Unlock()
	p := d.plans[ord]
	if p == nil {
		p = &xplan{failStmt: -1}
		d.plans[ord] = p
	}
	return p
}

func (d *xdb) begun() int {
	d.w.mu.Lock()
	defer d.w.mu.Unlock()
	return d.okBegins
}

func (d *xdb) setBeginFault(from int, err error) {
	d.w.mu.Lock()
	d.failBeginFrom, d.beginErr = from, err
	d.w.mu.Unlock()
}

func (d *xdb) setOpenErr(err error) {
	d.w.mu.Lock()
	d.openErr = err
	d.w.mu.Unlock()
}

// heal removes every planned fault (transactions begun from now on are healthy).
func (d *xdb) heal() {
	d.w.mu.Lock()
	d.failBeginFrom, d.beginErr, d.openErr = -1, nil, nil
	d.plans = map[int]*xplan{}
	d.w.mu.Unlock()
}

func (w *xworld) close() {
	for _, d := range w.dbs {
		if d.sqlDB != nil {
			d.sqlDB.Close()
		}
		xdbsMu.Lock()
		delete(xdbs, d.name)
		xdbsMu.Unlock()
	}
}

func (w *xworld) top() int {
	if len(w.stack) == 0 {
		return -1
	}
	return w.stack[len(w.stack)-1]
}

// add appends an event; call < -1 means "the call on top of the stack".
func (w *xworld) add(e xev) xev {
	w.mu.Lock()
	if e.Call < -1 {
		e.Call = w.top()
	}
	w.log = append(w.log, e)
	w.mu.Unlock()
	return e
}

func (w *xworld) fire(point string, e xev) {
	w.mu.Lock()
	h := w.hook
	if e.Call < -1 {
		e.Call = w.top()
	}
	w.mu.Unlock()
	if h != nil {
		h(point, e)
	}
}

func (w *xworld) snapshot() []xev {
	w.mu.Lock()
	defer w.mu.Unlock()
	return append([]xev(nil), w.log...)
}

func (w *xworld) logLen() int {
	w.mu.Lock()
	defer w.mu.Unlock()
	return len(w.log)
}

func renderLog(l []xev) []string {
	out := make([]string, len(l))
	for i, e := range l {
		out[i] = e.String()
	}
	return out
}

// ---------------------------------------------------------------- driver

type xdrv struct{}

func (xdrv) Open(name string) (driver.Conn, error) {
	xdbsMu.Lock()
	d := xdbs[name]
	xdbsMu.Unlock()
	if d == nil {
		return nil, fmt.Errorf("verifc14x: no scripted database %q", name)
	}
	d.w.mu.Lock()
	oe := d.openErr
	id := d.nconn
	if oe == nil {
		d.nconn++
	}
	d.w.mu.Unlock()
	if oe != nil {
		d.w.add(xev{Call: -2, DB: d.label, Conn: -1, Tx: -1, Kind: "open-fail"})
		return nil, oe
	}
	d.w.add(xev{Call: -2, DB: d.label, Conn: id, Tx: -1, Kind: "open"})
	return &xconn{d: d, id: id}, nil
}

type xconn struct {
	d   *xdb
	id  int
	cur *xtx
}

type xtx struct {
	c      *xconn
	ord    int
	call   int
	nstmts int
	plan   *xplan
	ended  bool
}

func (c *xconn) Close() error { return nil }

func (c *xconn) Begin() (driver.Tx, error) {
	return c.BeginTx(context.Background(), driver.TxOptions{})
}

func (c *xconn) BeginTx(_ context.Context, _ driver.TxOptions) (driver.Tx, error) {
	w := c.d.w
	w.fire("begin-before", xev{Call: -2, DB: c.d.label, Conn: c.id, Tx: -1, Kind: "begin"})
	w.mu.Lock()
	if c.d.failBeginFrom >= 0 && c.d.okBegins >= c.d.failBeginFrom {
		err := c.d.beginErr
		w.mu.Unlock()
		if err == nil {
			err = errBegin
		}
		w.add(xev{Call: -2, DB: c.d.label, Conn: c.id, Tx: -1, Kind: "begin-fail"})
		return nil, err
	}
	ord := c.d.okBegins
	c.d.okBegins++
	p := c.d.plans[ord]
	if p == nil {
		p = &xplan{failStmt: -1}
	}
	t := &xtx{c: c, ord: ord, call: w.top(), plan: p}
	c.cur = t
	e := xev{Call: t.call, DB: c.d.label, Conn: c.id, Tx: ord, Kind: "begin"}
	w.log = append(w.log, e)
	w.mu.Unlock()
	w.fire("begin-after", e)
	return t, nil
}

// stmt logs one driver-level statement and decides whether it fails.
func (c *xconn) stmt(kind string) error {
	w := c.d.w
	w.mu.Lock()
	e := xev{Call: w.top(), DB: c.d.label, Conn: c.id, Tx: -1, Kind: kind}
	var fail error
	if t := c.cur; t != nil {
		e.Tx, e.Call, e.Idx = t.ord, t.call, t.nstmts
		t.nstmts++
		if e.Idx == t.plan.failStmt {
			fail = t.plan.stmtErr
			if fail == nil {
				fail = errStmt
			}
		}
	}
	w.mu.Unlock()
	w.fire("stmt-before", e)
	if fail != nil {
		e.Kind += "-fail"
	}
	w.add(e)
	w.fire("stmt-after", e)
	return fail
}

func (c *xconn) ExecContext(_ context.Context, _ string, _ []driver.NamedValue) (driver.Result, error) {
	if err := c.stmt("exec"); err != nil {
		return nil, err
	}
	return driver.RowsAffected(1), nil
}

func (c *xconn) QueryContext(_ context.Context, q string, _ []driver.NamedValue) (driver.Rows, error) {
	if err := c.stmt("query"); err != nil {
		return nil, err
	}
	return newRows(c.d.w, q), nil
}

func (c *xconn) Prepare(q string) (driver.Stmt, error) {
	return c.PrepareContext(context.Background(), q)
}

func (c *xconn) PrepareContext(_ context.Context, q string) (driver.Stmt, error) {
	if err := c.stmt("prepare"); err != nil {
		return nil, err
	}
	return &xstmt{c: c, q: q}, nil
}

type xstmt struct {
	c *xconn
	q string
}

func (s *xstmt) Close() error {
	e := xev{Call: -2, DB: s.c.d.label, Conn: s.c.id, Tx: -1, Kind: "stmt-close"}
	s.c.d.w.mu.Lock()
	if t := s.c.cur; t != nil {
		e.Tx, e.Call = t.ord, t.call
	}
	s.c.d.w.mu.Unlock()
	s.c.d.w.add(e)
	return nil
}
func (s *xstmt) NumInput() int { return -1 }
func (s *xstmt) Exec(_ []driver.Value) (driver.Result, error) {
	return s.ExecContext(context.Background(), nil)
}
func (s *xstmt) Query(_ []driver.Value) (driver.Rows, error) {
	return s.QueryContext(context.Background(), nil)
}
func (s *xstmt) ExecContext(_ context.Context, _ []driver.NamedValue) (driver.Result, error) {
	if err := s.c.stmt("stmt-exec"); err != nil {
		return nil, err
	}
	return driver.RowsAffected(1), nil
}
func (s *xstmt) QueryContext(_ context.Context, _ []driver.NamedValue) (driver.Rows, error) {
	if err := s.c.stmt("stmt-query"); err != nil {
		return nil, err
	}
	return newRows(s.c.d.w, s.q), nil
}

// xrows: three rows of one column "v" (none when the query text mentions "norows").
type xrows struct {
	w    *xworld
	left int
	eof  bool
}

func newRows(w *xworld, q string) *xrows {
	n := 3
	if strings.Contains(q, "norows") {
		n = 0
	}
	return &xrows{w: w, left: n}
}

func (r *xrows) Columns() []string { return []string{"v"} }
func (r *xrows) Close() error {
	if !r.eof {
		r.w.mu.Lock()
		r.w.rowsNotExhausted++
		r.w.mu.Unlock()
		r.eof = true
	}
	return nil
}
func (r *xrows) Next(dest []driver.Value) error {
	if r.left == 0 {
		r.eof = true
		return io.EOF
	}
	r.left--
	dest[0] = int64(7 + r.left)
	return nil
}

func (t *xtx) end(kind string, fail bool, ferr, dflt error) error {
	w := t.c.d.w
	e := xev{Call: t.call, DB: t.c.d.label, Conn: t.c.id, Tx: t.ord, Kind: kind}
	w.fire(kind+"-before", e)
	w.mu.Lock()
	if t.c.cur == t {
		t.c.cur = nil
	}
	t.ended = true
	w.mu.Unlock()
	var err error
	if fail {
		e.Kind += "-fail"
		err = ferr
		if err == nil {
			err = dflt
		}
	}
	w.add(e)
	w.fire(kind+"-after", e)
	return err
}

func (t *xtx) Commit() error {
	return t.end("commit", t.plan.failCommit, t.plan.commitErr, errCommit)
}
func (t *xtx) Rollback() error {
	return t.end("rollback", t.plan.failRollback, t.plan.rollbackErr, errRollback)
}

func init() { sql.Register("verifc14x", xdrv{}) }

// ---------------------------------------------------------------- error identities

// xFlavours: the identities of c14_test.go plus the go-sql-driver "invalid connection" error
// (which database/sql does NOT retry) and a %w-wrapped form of it.
var xFlavours = append(append([]string(nil), errFlavours...), "ErrInvalidConn", "wrapped-ErrInvalidConn")

func xErrValue(flavour string, dflt error) error {
	switch flavour {
	case "ErrInvalidConn":
		return mysql.ErrInvalidConn
	case "wrapped-ErrInvalidConn":
		return &wrappedErr{mysql.ErrInvalidConn}
	}
	return errValue(flavour, dflt)
}

// ---------------------------------------------------------------- calls

type xcall struct {
	ID           int
	Class        string // class of the failing input (third part of the violation key)
	Entry        string
	BodyRuns     int
	BodyRet      error
	BodyPanicked bool
	Ret          error
	Escaped      any
	CtxEnded     bool // the caller's context ended while the call was running
	MustCommit   bool // healthy follow-up: must commit and return nil
	MayReject    bool // a circuit breaker may legitimately refuse this call
	InjBegin     error
	InjCommit    error
	InjRollback  error
	logAtReturn  int
	returned     bool
}

func (w *xworld) newCall(class, entry string) *xcall {
	w.mu.Lock()
	c := &xcall{ID: w.nextCall, Class: class, Entry: entry}
	w.nextCall++
	w.calls = append(w.calls, c)
	w.mu.Unlock()
	return c
}

type xbody func(ctx context.Context, sess sqlx.Session) error

// transact performs one Transact/TransactCtx call on sc and records what the harness saw of it.
func (w *xworld) transact(call *xcall, sc sqlx.SqlConn, ctx context.Context, body xbody) error {
	wrapped := func(bctx context.Context, sess sqlx.Session) (err error) {
		call.BodyRuns++
		completed := false
		defer func() {
			if !completed {
				call.BodyPanicked = true
			}
			call.BodyRet = err
		}()
		err = body(bctx, sess)
		completed = true
		return err
	}
	w.mu.Lock()
	w.stack = append(w.stack, call.ID)
	w.mu.Unlock()
	func() {
		defer func() { call.Escaped = recover() }()
		switch call.Entry {
		case "Transact":
			call.Ret = sc.Transact(func(s sqlx.Session) error { return wrapped(ctx, s) })
		case "TransactCtx":
			call.Ret = sc.TransactCtx(ctx, wrapped)
		case "CachedTransact":
			call.Ret = sqlc.NewConnWithCache(sc, nil).Transact(func(s sqlx.Session) error { return wrapped(ctx, s) })
		default:
			call.Ret = sqlc.NewConnWithCache(sc, nil).TransactCtx(ctx, wrapped)
		}
	}()
	var imported []xev
	if w.importAfter != nil {
		imported = w.importAfter(call.ID)
	}
	w.mu.Lock()
	w.stack = w.stack[:len(w.stack)-1]
	w.log = append(w.log, imported...)
	call.logAtReturn = len(w.log)
	call.returned = true
	w.mu.Unlock()
	return call.Ret
}

var xEntries = []string{"Transact", "TransactCtx", "CachedTransact", "CachedTransactCtx"}

func surfaced(ret, want error) bool {
	return ret != nil && (errors.Is(ret, want) || strings.Contains(ret.Error(), want.Error()))
}

// judgeCall applies the statement of C14 to one call. It returns what it observed.
type xverdict struct {
	Begins, Commits, Rollbacks int
	CommittedOK                bool
	Rejected                   bool
}

func (w *xworld) judgeCall(c *kit.Case, call *xcall) xverdict {
	full := w.snapshot()
	log := full
	if call.returned && call.logAtReturn <= len(full) {
		log = full[:call.logAtReturn]
	}
	var v xverdict
	wit := map[string]any{
		"call": map[string]any{"id": call.ID, "class": call.Class, "entry": call.Entry, "body_runs": call.BodyRuns,
			"body_returned": fmt.Sprint(call.BodyRet), "body_panicked": call.BodyPanicked, "returned": fmt.Sprint(call.Ret),
			"escaped_panic": fmt.Sprint(call.Escaped), "ctx_ended_during_call": call.CtxEnded},
		"case_before":             w.before,
		"driver_log_until_return": renderLog(log),
		"driver_log_afterwards":   renderLog(full[len(log):]),
	}
	key := func(kind string) string { return "C14/" + kind + "/" + call.Class }
	if call.Escaped != nil {
		c.Viol(key("panic-escaped"), "a body panic must come back as an error, but a panic escaped Transact", wit)
		return v
	}
	// transactions begun by this call, their terminal events, begin attempts after the first begin
	type txkey struct {
		db string
		tx int
	}
	terminals := map[txkey][]string{}
	var begun []txkey
	beginFails, lateAttempts := 0, 0
	stmtAfterEnd := false
	commitFailed, rollbackFailed := false, false
	for _, e := range log {
		if e.Call != call.ID {
			continue
		}
		k := txkey{e.DB, e.Tx}
		switch e.Kind {
		case "begin":
			if len(begun) > 0 {
				lateAttempts++
			}
			begun = append(begun, k)
		case "begin-fail":
			beginFails++
			if len(begun) > 0 {
				lateAttempts++
			}
		case "commit", "commit-fail", "rollback", "rollback-fail":
			terminals[k] = append(terminals[k], e.Kind)
			switch e.Kind {
			case "commit":
				v.Commits++
				v.CommittedOK = true
			case "commit-fail":
				v.Commits++
				commitFailed = true
			case "rollback":
				v.Rollbacks++
			default:
				v.Rollbacks++
				rollbackFailed = true
			}
		case "stmt-close":
		default:
			if e.Tx >= 0 && len(terminals[k]) > 0 {
				stmtAfterEnd = true
			}
		}
	}
	v.Begins = len(begun)
	c.Obs("x_calls_judged", 1)

	if v.Begins == 0 {
		// the transaction could not begin (begin failed, no connection, breaker/ctx refused the call)
		if call.BodyRuns != 0 {
			c.Viol(key("body-ran-without-tx"), "the body ran although no transaction was begun", wit)
		}
		if call.Ret == nil {
			c.Viol(key("nil-without-commit"), "nil returned although no transaction was begun", wit)
		}
		if beginFails > 0 && call.InjBegin != nil && !surfaced(call.Ret, call.InjBegin) {
			c.Viol(key("error-not-surfaced"), "begin failure not surfaced in the returned error", wit)
		}
		if errors.Is(call.Ret, breaker.ErrServiceUnavailable) && beginFails == 0 {
			v.Rejected = true
			c.Obs("x_breaker_rejections", 1)
			if !call.MayReject {
				// with at most five calls in its window the breaker never rejects (protection = 5);
				// the harness keeps to that on every connection not marked MayReject
				c.Inconclusive("breaker rejected a call on a connection that had seen at most five calls: " + call.Class)
			}
		} else if call.MustCommit {
			c.Viol(key("healthy-not-committed"), "a healthy transaction (no fault planned) did not begin", wit)
		}
		if beginFails > 0 {
			c.Obs("x_begin_failures", 1)
		} else {
			c.Obs("x_no_begin_attempt", 1)
		}
		return v
	}

	if v.Begins != 1 || lateAttempts != 0 {
		c.Viol(key("begin-count"), fmt.Sprintf("one call must begin one transaction: %d begun, %d begin attempts after the first begin", v.Begins, lateAttempts), wit)
	}
	if call.BodyRuns > 1 {
		c.Viol(key("body-count"), fmt.Sprintf("body ran %d times", call.BodyRuns), wit)
	}
	for _, k := range begun {
		if n := len(terminals[k]); n != 1 {
			c.Viol(key("terminal-count"), fmt.Sprintf("transaction %s/tx%d ended %d times by the time the call returned (%v)", k.db, k.tx, n, terminals[k]), wit)
		}
	}
	bodyOK := call.BodyRuns == 1 && !call.BodyPanicked && call.BodyRet == nil
	if bodyOK && v.Commits != 1 {
		c.Viol(key("no-commit-on-success"), fmt.Sprintf("body returned nil: exactly one commit expected, saw %d", v.Commits), wit)
	}
	if !bodyOK && v.Commits != 0 {
		c.Viol(key("commit-on-failure"), "body did not return nil (error, panic or not run) but a commit was issued", wit)
	}
	if !bodyOK && v.Rollbacks != 1 {
		c.Viol(key("no-rollback-on-failure"), fmt.Sprintf("body did not return nil (error, panic or not run): exactly one rollback expected, saw %d", v.Rollbacks), wit)
	}
	if call.Ret == nil && !v.CommittedOK {
		c.Viol(key("nil-without-commit"), "nil returned although no commit succeeded", wit)
	}
	if call.Ret != nil && v.CommittedOK && !commitFailed && !call.CtxEnded && v.Begins == 1 {
		c.Viol(key("error-after-successful-commit"), "commit succeeded (body nil) but an error was returned", wit)
	}
	if stmtAfterEnd {
		c.Viol(key("statement-after-end"), "a statement reached the driver inside a transaction that had ended", wit)
	}
	if commitFailed && bodyOK && call.InjCommit != nil && !surfaced(call.Ret, call.InjCommit) {
		c.Viol(key("error-not-surfaced"), "commit failure not surfaced", wit)
	}
	if rollbackFailed && call.InjRollback != nil && !surfaced(call.Ret, call.InjRollback) {
		c.Viol(key("error-not-surfaced"), "rollback failure not surfaced", wit)
	}
	if call.BodyRuns == 1 && !call.BodyPanicked && call.BodyRet != nil && !rollbackFailed && !surfaced(call.Ret, call.BodyRet) {
		c.Viol(key("error-not-surfaced"), "the body's error was not returned", wit)
	}
	if call.BodyPanicked && call.Ret == nil {
		c.Viol(key("panic-swallowed"), "body panicked but nil was returned", wit)
	}
	if call.MustCommit && !(v.CommittedOK && call.Ret == nil) {
		c.Viol(key("healthy-not-committed"), "a healthy transaction (no fault planned, body returned nil) must commit and return nil", wit)
	}
	if v.CommittedOK {
		c.Obs("x_commits", 1)
	}
	if v.Rollbacks > 0 {
		c.Obs("x_rollbacks", 1)
	}
	if commitFailed {
		c.Obs("x_commit_failures", 1)
	}
	if rollbackFailed {
		c.Obs("x_rollback_failures", 1)
	}
	if call.BodyPanicked {
		c.Obs("x_panics", 1)
	}
	if call.BodyRuns == 0 {
		c.Obs("x_begun_body_not_run", 1)
	}
	return v
}

// ---------------------------------------------------------------- history follow-ups

// followUps runs, on the calling goroutine, a healthy and a failing transaction on every given
// connection and on a fresh one, and judges each: state leaking from the call(s) before (pooled
// objects, cached errors) shows as a healthy transaction that is not committed / a failing one
// that is. mayReject: a breaker on the given connections may have been tripped by the case.
func (w *xworld) followUps(c *kit.Case, class string, sames []sqlx.SqlConn, mayReject bool) {
	for _, d := range w.dbs {
		d.heal()
	}
	w.before = class
	w.mu.Lock()
	w.hook = nil
	w.mu.Unlock()
	fresh := sqlx.NewSqlConnFromDB(w.newDB("F").open())
	n := 0
	run := func(sc sqlx.SqlConn, where string, reject bool) {
		for _, healthy := range []bool{true, false} {
			n++
			entry := xEntries[(c.Index+n)%2] // Transact / TransactCtx
			kind := "failing"
			if healthy {
				kind = "healthy"
			}
			call := w.newCall("after-"+historyGroup(class), entry)
			call.MustCommit = healthy && !reject
			call.MayReject = reject
			w.transact(call, sc, context.Background(), func(ctx context.Context, sess sqlx.Session) error {
				if _, err := sess.ExecCtx(ctx, "update t set v = ? where id = ?", 1, 2); err != nil {
					return err
				}
				if healthy {
					return nil
				}
				return errBody
			})
			v := w.judgeCall(c, call)
			if !v.Rejected {
				c.Obs("history_"+kind+"_"+where, 1)
			}
		}
	}
	for _, sc := range sames {
		run(sc, "same-conn", mayReject)
	}
	run(fresh, "other-conn", false)
}

// historyGroup coarsens the class of the case that went before (state that leaks through a
// process-wide pool shows up after unrelated cases as well: the exact predecessor is in the witness).
func historyGroup(class string) string {
	for _, g := range []string{"ctx", "nested", "breaker", "panic", "rollback", "commit", "begin", "stmt", "body", "open"} {
		if strings.Contains(class, g) {
			if g == "body" {
				return "body-error"
			}
			return g
		}
	}
	return "other"
}

// oldLogEvents turns a window of the first driver's string log into events of one call (that driver
// knows neither calls nor transaction ordinals: terminal events belong to the latest begin).
func oldLogEvents(window []string, callID int) []xev {
	var out []xev
	tx := -1
	for _, s := range window {
		e := xev{Call: callID, DB: "old", Tx: tx}
		switch {
		case s == "begin":
			tx++
			e.Tx, e.Kind = tx, "begin"
		case s == "begin-fail":
			e.Tx, e.Kind = -1, "begin-fail"
		case s == "commit" || s == "commit-fail" || s == "rollback" || s == "rollback-fail":
			e.Kind = s
		default:
			e.Kind = s
			if i := strings.IndexByte(s, ':'); i > 0 {
				e.Kind = s[:i]
			}
		}
		out = append(out, e)
	}
	return out
}
