// Package c12: timing wheel vs. reference model (DESIGN.md §4 C12).
//
// The wheel is driven through a harness-owned timex.Ticker whose channel is
// unbuffered: a tick send completes exactly when the wheel's loop takes it; a
// following synchronous no-op (RemoveTimer of an unused key) completes only when
// the loop is back in its select, i.e. after onTick finished; then the harness
// waits for the callback goroutine(s) the tick spawned to exit (goroutine count
// back at the baseline). Firings are therefore attributed to ticks exactly, and
// no verdict depends on wall-clock time.
package c12

import (
	"fmt"
	"runtime"
	"sort"
	"sync"
	"testing"
	"time"

	"github.com/zeromicro/go-zero/core/collection"
	"github.com/zeromicro/go-zero/core/logx"
	"github.com/zeromicro/go-zero/core/timex"

	"verifharness/kit"
)

const interval = time.Second

type hTicker struct {
	c    chan time.Time
	once sync.Once
}

func (t *hTicker) Chan() <-chan time.Time { return t.c }
func (t *hTicker) Stop()                  {}

// tick returns when the wheel's loop has taken the tick (unbuffered channel).
func (t *hTicker) tick(sync func()) { t.c <- time.Time{} }

// tickSrc is a ticker the runner can drive tick by tick: tick must hand exactly one tick to the
// wheel and return only once the wheel's loop has taken it.
type tickSrc interface {
	timex.Ticker
	tick(sync func())
}

// fTicker drives the wheel through go-zero's own timex.NewFakeTicker (buffered channel of 1):
// Tick() only puts the tick into the buffer, and the wheel's select may serve other ready
// requests first, so the runner issues synchronous no-ops until the buffer is empty (len on a
// receive-only channel is allowed): from then on the loop has taken the tick, and the runner's
// own sync() that follows returns only after onTick has finished. If Tick() delivered no tick or
// more than one, every later firing is off by a tick and the reference model reports it.
type fTicker struct {
	timex.FakeTicker
}

func (t fTicker) tick(sync func()) {
	t.Tick()
	for len(t.Chan()) > 0 {
		sync()
	}
}

// useFakeTicker selects the ticker of the runners created from now on (set per family; the cases
// of a child run sequentially).
var useFakeTicker bool

// wildBase: keys >= wildBase are "wild": the histories apply operations outside the statement's
// domain to them (delays below one interval). The monitor asserts nothing about them - their
// firings are only counted - but every other key must behave exactly as the model says.
const wildBase = 100000

// cbAct is what the callback of a key does on the same wheel, from inside the callback.
type cbAct struct {
	K     opKind // opSet, opMove, opRemove
	Key   int    // target key
	Steps int
}

func (a cbAct) String() string { return "cb:" + op{K: a.K, Key: a.Key, Steps: a.Steps}.String() }

// cbScript, when non-nil, maps a firing key to the operation its callback issues on the wheel (as
// long as the budget lasts); set per case like poisonKeys.
var (
	cbScript map[int]cbAct
	cbBudget int
)

type opKind int

const (
	opSet opKind = iota
	opMove
	opRemove
	opTick
	opDrain
)

type op struct {
	K     opKind
	Key   int
	Steps int           // whole ticks
	Frac  time.Duration // extra delay below one interval
	DP    *drainPlan    // opDrain only: for which deliveries the function passed to Drain panics (drainpanic_test.go)
}

func (o op) String() string {
	switch o.K {
	case opSet:
		return fmt.Sprintf("Set(k%d,%d%s)", o.Key, o.Steps, frac(o.Frac))
	case opMove:
		return fmt.Sprintf("Move(k%d,%d%s)", o.Key, o.Steps, frac(o.Frac))
	case opRemove:
		return fmt.Sprintf("Remove(k%d)", o.Key)
	case opTick:
		return "Tick"
	default:
		if o.DP != nil {
			return "Drain[" + o.DP.String() + "]"
		}
		return "Drain"
	}
}

func frac(d time.Duration) string {
	if d == 0 {
		return ""
	}
	return "+" + d.String()
}

type fired struct {
	key, val int
	act      *cbAct // operation the callback issued on the wheel, if any
	actVal   int    // value of a Set issued by the callback
	actErr   error
}

type mtimer struct {
	val     int
	due     int // absolute tick index at which it must fire
	armedAt int // tick count when last armed
	lastOp  string
	rel     string // geometric relation at the time of the last re-arm
}

type runner struct {
	n        int
	tw       *collection.TimingWheel
	tk       tickSrc
	script   map[int]cbAct
	budget   int
	cbOps    int64
	wild     int64
	mu       sync.Mutex
	got      []fired
	baseline int
	ticks    int
	model    map[int]*mtimer
	nextVal  int
	c        *kit.Case
	seq      []op
	procBase int
	fires    int64
	rearms   int64
	drained  map[int]bool // keys delivered by an earlier (mid-sequence) Drain
	drains   int64
	plan     *drainPlan // plan of the next Drain (nil: the drain function never panics)
	dlog     []string   // what each planned Drain did (witness)
	dstat    drainStats
	stopOnce sync.Once
	parked   bool // the wheel's goroutine was found parked for ever (drainpanic_test.go); the wheel is stopped
}

var (
	procBaseline int
	baseOnce     sync.Once
)

// measureBaseline runs inside the first case of the process: by then the kit has started whatever
// helper goroutine it runs for the whole process (the stuck-case detector), so that it is part of
// the baseline the goroutine census compares with.
func measureBaseline() {
	baseOnce.Do(func() {
		runtime.Gosched()
		time.Sleep(10 * time.Millisecond)
		procBaseline = runtime.NumGoroutine()
	})
}

func quiesce(target int) bool {
	for i := 0; i < 2000000; i++ {
		if runtime.NumGoroutine() <= target {
			return true
		}
		if i < 200 {
			runtime.Gosched()
		} else {
			time.Sleep(20 * time.Microsecond)
		}
	}
	return false
}

// poisonKeys, when non-nil, makes the harness callback panic (after it has recorded the firing)
// for these keys: go-zero must contain the panic of one timer's callback without losing the
// other timers that are due at the same tick. Set per case; cases of a child run sequentially.
var poisonKeys map[int]bool

func newRunner(c *kit.Case, n int, seq []op) *runner {
	r := &runner{n: n, model: map[int]*mtimer{}, c: c, seq: seq}
	poison := poisonKeys // read-only from here on
	measureBaseline()
	if !quiesce(procBaseline) {
		c.Inconclusive("goroutine count did not return to the process baseline")
	}
	if useFakeTicker {
		r.tk = fTicker{timex.NewFakeTicker()}
	} else {
		r.tk = &hTicker{c: make(chan time.Time)}
	}
	r.script, r.budget = cbScript, cbBudget
	tw, err := collection.NewTimingWheelWithTicker(interval, n, func(k, v any) {
		f := fired{key: k.(int), val: v.(int)}
		r.mu.Lock()
		if a, ok := r.script[f.key]; ok && r.budget > 0 {
			r.budget--
			f.act = &a
			if a.K == opSet {
				r.nextVal++
				f.actVal = r.nextVal
			}
		}
		r.mu.Unlock()
		if f.act != nil {
			// the callback re-arms / moves / removes a timer of the wheel it was called by (the
			// cache cleaner does that for its retries): must neither deadlock nor be lost
			d := time.Duration(f.act.Steps) * interval
			switch f.act.K {
			case opSet:
				f.actErr = r.tw.SetTimer(f.act.Key, f.actVal, d)
			case opMove:
				f.actErr = r.tw.MoveTimer(f.act.Key, d)
			default:
				f.actErr = r.tw.RemoveTimer(f.act.Key)
			}
		}
		r.mu.Lock()
		r.got = append(r.got, f)
		r.mu.Unlock()
		if poison[k.(int)] {
			kit.Obs("callback_panics", 1)
			panic("c12: poisoned timer callback")
		}
	}, r.tk)
	if err != nil {
		panic(err)
	}
	r.tw = tw
	r.baseline = procBaseline + 1
	return r
}

func (r *runner) sync() { r.tw.RemoveTimer(-1) }

func (r *runner) take() []fired {
	r.mu.Lock()
	all := r.got
	r.got = nil
	r.mu.Unlock()
	g := all[:0]
	for _, f := range all {
		if f.key >= wildBase {
			r.wild++ // outside the statement's domain: counted, never judged
			continue
		}
		g = append(g, f)
	}
	return g
}

// newVal hands out the next timer value (callbacks that set timers draw from the same counter).
func (r *runner) newVal() int {
	r.mu.Lock()
	r.nextVal++
	v := r.nextVal
	r.mu.Unlock()
	return v
}

// applyActs replays, in the order the callbacks ran, what the callbacks of this tick did to the
// wheel. All timers due at a tick are taken off the wheel before the first callback runs, so an
// operation on a key that fires at the same tick finds no pending timer; the callbacks have
// returned before the next tick is sent (quiesce), so a timer they arm counts its ticks from the
// tick at which the callback ran.
func (r *runner) applyActs(got []fired) {
	for _, f := range got {
		if f.act == nil {
			continue
		}
		r.cbOps++
		a := *f.act
		if f.actErr != nil {
			r.c.Viol("C12/api-error/callback-"+opName(a.K), fmt.Sprintf("%s issued from the callback of k%d returned %v", a, f.key, f.actErr), r.witness(""))
			continue
		}
		old, pending := r.model[a.Key]
		switch a.K {
		case opSet:
			switch {
			case pending:
				r.rearms++
				r.model[a.Key] = &mtimer{val: f.actVal, due: r.ticks + a.Steps, armedAt: r.ticks, lastOp: "cb-set-existing", rel: r.relation(old, a.Steps)}
			case a.Key == f.key:
				r.model[a.Key] = &mtimer{val: f.actVal, due: r.ticks + a.Steps, armedAt: r.ticks, lastOp: "cb-set-self", rel: "-"}
			default:
				r.model[a.Key] = &mtimer{val: f.actVal, due: r.ticks + a.Steps, armedAt: r.ticks, lastOp: "cb-set-new", rel: "-"}
			}
			delete(r.drained, a.Key)
		case opMove:
			if pending {
				r.rearms++
				r.model[a.Key] = &mtimer{val: old.val, due: r.ticks + a.Steps, armedAt: r.ticks, lastOp: "cb-move", rel: r.relation(old, a.Steps)}
			}
		default:
			delete(r.model, a.Key)
		}
	}
}

func opName(k opKind) string {
	switch k {
	case opSet:
		return "set"
	case opMove:
		return "move"
	case opRemove:
		return "remove"
	}
	return "op"
}

func (r *runner) witness(extra string) map[string]any {
	s := make([]string, len(r.seq))
	for i, o := range r.seq {
		s[i] = o.String()
	}
	rels := map[string]string{}
	for k, m := range r.model {
		rels[fmt.Sprintf("k%d", k)] = m.lastOp + " " + m.rel
	}
	w := map[string]any{"slots": r.n, "ops": s, "detail": extra, "pending_last_rearm_geometry": rels}
	if useFakeTicker {
		w["ticker"] = "timex.NewFakeTicker"
	}
	if len(r.script) > 0 {
		sc := map[string]string{}
		for k, a := range r.script {
			sc[fmt.Sprintf("k%d", k)] = a.String()
		}
		w["callback_script"] = sc
		w["callback_budget"] = cbBudget
	}
	if len(r.dlog) > 0 {
		w["drains_whose_function_panics"] = r.dlog
	}
	if len(poisonKeys) > 0 {
		var pk []int
		for k := range poisonKeys {
			pk = append(pk, k)
		}
		sort.Ints(pk)
		w["panicking_keys"] = pk
	}
	return w
}

// relation of old slot / ticked position / new slot at re-arm time
func (r *runner) relation(old *mtimer, steps int) string {
	ticked := (r.n - 1 + r.ticks) % r.n
	oldSlot := (r.n - 1 + old.due) % r.n
	newPos := (ticked + steps) % r.n
	rel := func(a, b int) string {
		switch {
		case a < b:
			return "<"
		case a == b:
			return "="
		}
		return ">"
	}
	circ := "c0"
	if (steps-1)/r.n > 0 {
		circ = "c+"
	}
	return fmt.Sprintf("old%sticked,ticked%snew,old%snew,%s", rel(oldSlot, ticked), rel(ticked, newPos), rel(oldSlot, newPos), circ)
}

func (r *runner) apply(o op) {
	d := time.Duration(o.Steps)*interval + o.Frac
	if o.Key >= wildBase {
		// outside the statement's domain (delay below one interval): only "no panic, no deadlock,
		// no effect on the other keys" is demanded
		switch o.K {
		case opSet:
			r.tw.SetTimer(o.Key, r.newVal(), d)
		case opMove:
			r.tw.MoveTimer(o.Key, d)
		case opRemove:
			r.tw.RemoveTimer(o.Key)
		}
		return
	}
	switch o.K {
	case opSet:
		v := r.newVal()
		if err := r.tw.SetTimer(o.Key, v, d); err != nil {
			r.c.Viol("C12/api-error/set", "SetTimer returned "+err.Error(), r.witness(""))
			return
		}
		if old, ok := r.model[o.Key]; ok {
			r.rearms++
			r.model[o.Key] = &mtimer{val: v, due: r.ticks + o.Steps, armedAt: r.ticks, lastOp: "set-existing", rel: r.relation(old, o.Steps)}
		} else if r.drained[o.Key] {
			// first Set of a key whose previous timer was delivered by Drain: a new timer like any other
			delete(r.drained, o.Key)
			r.model[o.Key] = &mtimer{val: v, due: r.ticks + o.Steps, armedAt: r.ticks, lastOp: "set-after-drain", rel: "-"}
		} else {
			r.model[o.Key] = &mtimer{val: v, due: r.ticks + o.Steps, armedAt: r.ticks, lastOp: "set-new", rel: "-"}
		}
	case opMove:
		if err := r.tw.MoveTimer(o.Key, d); err != nil {
			r.c.Viol("C12/api-error/move", "MoveTimer returned "+err.Error(), r.witness(""))
			return
		}
		if old, ok := r.model[o.Key]; ok {
			r.rearms++
			r.model[o.Key] = &mtimer{val: old.val, due: r.ticks + o.Steps, armedAt: r.ticks, lastOp: "move", rel: r.relation(old, o.Steps)}
		}
	case opRemove:
		r.tw.RemoveTimer(o.Key)
		delete(r.model, o.Key)
	case opTick:
		r.tick()
	case opDrain:
		// mid-sequence Drain: pending timers are delivered exactly once (checked), nothing of
		// them may fire later (the per-tick monitor reports any firing the model does not hold,
		// with a key that names the drained key), and timers set afterwards behave as usual
		for k := range r.model {
			if r.drained == nil {
				r.drained = map[int]bool{}
			}
			r.drained[k] = true
		}
		r.plan = o.DP
		r.drainDeliver()
		r.drains++
	}
}

// tick sends one tick and compares what fired with the model's due set. (A timer that missed its
// due tick stays in the model marked overdue, so that a late firing during the rest of the
// sequence is classified as late - with the same coarse keys as during the flush.)
func (r *runner) tick() { r.tickLate() }

func revs(delta, n int) string {
	if delta%n == 0 {
		return fmt.Sprintf("%drev", delta/n)
	}
	return "other"
}

// flush ticks long enough for every pending timer (also late ones) to fire.
func (r *runner) flush() {
	maxDue := func() int {
		max := 0
		for _, m := range r.model {
			d := m.due
			if d < 0 {
				d = -d
			}
			if d > max {
				max = d
			}
		}
		return max
	}
	// two extra revolutions so that "fires a revolution late" is observed as late, not as missing
	end := maxDue()
	if end < r.ticks {
		end = r.ticks
	}
	end += 2*r.n + 2
	for r.ticks < end {
		r.tickLate()
		if len(r.script) > 0 {
			// callbacks may arm further timers while the flush is running (their budget is finite)
			if e := maxDue() + 2*r.n + 2; e > end {
				end = e
			}
		}
	}
	for k, m := range r.model {
		if m.due < 0 {
			r.c.Viol(fmt.Sprintf("C12/missing/%s", m.lastOp), fmt.Sprintf("key k%d was due at tick %d and never fired within two further revolutions", k, -m.due), r.witness(""))
		} else {
			r.c.Viol("C12/harness-flush-too-short", "internal: pending timer not yet due after flush", r.witness(""))
		}
	}
}

// tickLate is tick() that also classifies overdue timers firing late.
func (r *runner) tickLate() {
	// temporarily translate overdue timers: handled inside tick via negative due
	r.tk.tick(r.sync)
	r.sync()
	if !quiesce(r.baseline) {
		r.c.Inconclusive("callback goroutines did not finish")
	}
	r.ticks++
	got := r.take()
	seen := map[int]int{}
	for _, f := range got {
		seen[f.key]++
		r.fires++
		m, ok := r.model[f.key]
		switch {
		case !ok && r.drained[f.key]:
			r.c.Viol("C12/fired-after-drain/mid-sequence", fmt.Sprintf("key k%d fired at tick %d although its timer had been delivered by an earlier Drain and was not set again", f.key, r.ticks), r.witness(""))
		case !ok:
			r.c.Viol("C12/fired-but-not-pending", fmt.Sprintf("key k%d fired at tick %d but the model holds no pending timer for it (removed, already fired or never set)", f.key, r.ticks),
				r.witness(fmt.Sprintf("tick=%d key=%d val=%d", r.ticks, f.key, f.val)))
		case seen[f.key] > 1:
			r.c.Viol("C12/duplicate-in-tick", fmt.Sprintf("key k%d fired twice at tick %d", f.key, r.ticks), r.witness(""))
		case m.due < 0:
			r.c.Viol(fmt.Sprintf("C12/late/%s/%s", m.lastOp, revs(r.ticks+m.due, r.n)),
				fmt.Sprintf("key k%d fired at tick %d, was due at tick %d (armed at tick %d by %s)", f.key, r.ticks, -m.due, m.armedAt, m.lastOp), r.witness(""))
			delete(r.model, f.key)
		case m.due != r.ticks:
			r.c.Viol(fmt.Sprintf("C12/early/%s/%s", m.lastOp, revs(m.due-r.ticks, r.n)),
				fmt.Sprintf("key k%d fired at tick %d, due at tick %d (armed at tick %d by %s)", f.key, r.ticks, m.due, m.armedAt, m.lastOp),
				r.witness(fmt.Sprintf("tick=%d key=%d due=%d", r.ticks, f.key, m.due)))
			delete(r.model, f.key)
		default:
			if m.val != f.val {
				r.c.Viol("C12/wrong-value/"+m.lastOp, fmt.Sprintf("key k%d fired with value %d, most recently set value is %d", f.key, f.val, m.val), r.witness(""))
			}
			delete(r.model, f.key)
		}
	}
	for _, m := range r.model {
		if m.due == r.ticks {
			m.due = -m.due
		}
	}
	r.applyActs(got)
}

// drain is the terminal Drain: every pending timer delivered exactly once, nothing afterwards.
func (r *runner) drain() {
	if !r.drainDeliver() {
		return
	}
	if len(r.model) > 0 {
		// the function passed to Drain has set timers: they fire at their ticks, nothing else does
		r.flush()
		return
	}
	for i := 0; i < 2*r.n+2; i++ {
		r.tk.tick(r.sync)
		r.sync()
		quiesce(r.baseline)
		r.ticks++
		if g := r.take(); len(g) > 0 {
			r.c.Viol("C12/fired-after-drain", fmt.Sprintf("k%d fired %d ticks after Drain", g[0].key, i+1), r.witness(""))
		}
	}
}

// drainDeliver calls Drain and checks that exactly the pending timers are delivered, once each,
// with their latest values; the model is empty afterwards. A delivery is the CALL of the drain
// function with that key/value: the function records it and only then panics if the plan of this
// Drain says so (r.plan, see drainpanic_test.go) - go-zero must hand every other pending timer to
// the function all the same, and the wheel must go on serving operations.
func (r *runner) drainDeliver() bool {
	var mu sync.Mutex
	var got []fired
	plan := r.plan
	r.plan = nil
	boom := plan.resolve(r.model)
	again := plan.rearm(r.model)
	type reset struct {
		val, steps int
		err        error
	}
	resets := map[int]*reset{}
	arrival, panics, closed := 0, 0, false
	if err := r.tw.Drain(func(k, v any) {
		mu.Lock()
		if closed { // the verdict on this Drain is in (deadlock, wheel stopped): the unwinding calls are not part of it
			mu.Unlock()
			return
		}
		idx := arrival
		arrival++
		key := k.(int)
		if key < wildBase {
			got = append(got, fired{key: key, val: v.(int)})
		}
		bang := boom != nil && boom(key, idx)
		if bang {
			panics++
		}
		var rs *reset
		if again != nil {
			if st := again(key, idx); st > 0 {
				rs = &reset{val: r.newVal(), steps: st}
				resets[key] = rs
			}
		}
		mu.Unlock()
		if rs != nil {
			// the function operates on the wheel that is being drained (the cleaner's clean() does)
			err := r.tw.SetTimer(key, rs.val, time.Duration(rs.steps)*interval)
			mu.Lock()
			rs.err = err
			mu.Unlock()
		}
		if bang {
			kit.Obs("drain_fn_panics", 1)
			panic("c12: poisoned drain callback")
		}
	}); err != nil {
		r.c.Viol("C12/api-error/drain", err.Error(), r.witness(""))
		return false
	}
	// the loop is back in its select only when drainAll has returned; if it never does - the
	// wheel's goroutine parked in the drain's task runner with nobody left to free a slot, or
	// waiting for workers that wait for the wheel - that is decided from the goroutine dump
	// (state), the wheel is stopped and the sync returns
	dl, ok := settleWatched(r.scope(), r.baseline, r.sync, r.stop)
	if dl == nil && !ok {
		r.c.Inconclusive("drain goroutines did not finish")
	}
	mu.Lock()
	defer mu.Unlock()
	closed = true
	if plan != nil {
		r.dlog = append(r.dlog, fmt.Sprintf("%s: %d pending, %d calls of the drain function, %d of them panicked, %d set their key again", plan, len(r.model), arrival, panics, len(resets)))
		r.dstat.add(plan, len(r.model), panics)
		r.dstat.addRe(len(resets))
	}
	if dl != nil {
		r.parked = true
		missing := 0
		seen := map[int]bool{}
		for _, f := range got {
			seen[f.key] = true
		}
		for k := range r.model {
			if !seen[k] {
				missing++
			}
		}
		key, how := deadlockKey(dl)
		w := r.witness(fmt.Sprintf("%d of %d pending timers never delivered; %s", missing, len(r.model), how))
		w["goroutine_dump"] = dl.Dump
		r.c.Viol(key, fmt.Sprintf("Drain never completes: after %d calls of the drain function (%d panicked, %d called SetTimer on the wheel) %s; %d pending timers were never delivered and the wheel serves no further operation",
			arrival, panics, len(resets), how, missing), w)
		r.model = map[int]*mtimer{}
		if dl.Kind != "slots-lost" {
			// the wheel has been stopped: the operations the workers are parked in return ErrClosed and
			// the drain unwinds (its remaining calls are ignored: closed). Wait for that - or for the
			// state in which it never will (slots lost on the way: those goroutines join the baseline)
			mu.Unlock()
			ok, d2 := quiesceRunner(dlScope{}, procBaseline)
			mu.Lock()
			if !ok && d2 == nil {
				r.c.Inconclusive("the goroutines of a stopped wheel did not finish")
			}
		}
		return false
	}
	seen := map[int]int{}
	for _, f := range got {
		seen[f.key]++
		m, ok := r.model[f.key]
		if !ok {
			r.c.Viol("C12/drain/not-pending", fmt.Sprintf("Drain delivered k%d which is not pending", f.key), r.witness(""))
		} else if m.val != f.val {
			r.c.Viol("C12/drain/wrong-value", fmt.Sprintf("Drain delivered k%d with value %d, latest is %d", f.key, f.val, m.val), r.witness(""))
		}
	}
	for k := range r.model {
		if seen[k] == 0 {
			w := r.witness(fmt.Sprintf("%d calls of the drain function; goroutines now %d, quiescent at %d", arrival, runtime.NumGoroutine(), r.baseline))
			if !r.c.Violated() {
				w["goroutine_dump_at_verdict"] = allStacks()
			}
			r.c.Viol("C12/drain/missing", fmt.Sprintf("Drain did not deliver pending k%d", k), w)
		} else if seen[k] > 1 {
			r.c.Viol("C12/drain/duplicate", fmt.Sprintf("Drain delivered k%d %d times", k, seen[k]), r.witness(""))
		}
	}
	r.c.Obs("drained", int64(len(got)))
	r.model = map[int]*mtimer{}
	// timers the drain function has set: new timers like any other, armed at the current tick
	// (every pending timer was taken off the wheel before the function was called for the first one)
	for k, rs := range resets {
		if rs.err != nil {
			r.c.Viol("C12/api-error/drain-fn-set", fmt.Sprintf("SetTimer(k%d) issued by the function passed to Drain returned %v", k, rs.err), r.witness(""))
			continue
		}
		r.model[k] = &mtimer{val: rs.val, due: r.ticks + rs.steps, armedAt: r.ticks, lastOp: "set-from-drain-fn", rel: "-"}
		delete(r.drained, k)
		r.cbOps++
	}
	return true
}

func (r *runner) stop() {
	r.stopOnce.Do(r.tw.Stop)
}

func runSeq(c *kit.Case, n int, seq []op, drain bool) {
	r := newRunner(c, n, seq)
	defer r.stop()
	hasRearm, hasTick := false, false
	for _, o := range seq {
		pending := len(r.model)
		before := r.rearms
		r.apply(o)
		if r.rearms > before && pending > 0 {
			hasRearm = true
		}
		if o.K == opTick {
			hasTick = true
		}
		if c.Violated() {
			break
		}
	}
	if !c.Violated() {
		if drain {
			r.drain()
		} else {
			r.flush()
		}
	}
	c.Obs("sequences", 1)
	c.Obs("ops", int64(len(seq)))
	c.Obs("ticks", int64(r.ticks))
	c.Obs("firings", r.fires)
	c.Obs("rearms_of_pending_timer", r.rearms)
	if r.drains > 0 {
		c.Obs("mid_sequence_drains", r.drains)
	}
	if useFakeTicker {
		c.Obs("fake_ticker_sequences", 1)
		c.Obs("fake_ticker_ticks", int64(r.ticks))
	}
	if r.cbOps > 0 {
		c.Obs("ops_issued_from_callbacks", r.cbOps)
	}
	if r.wild > 0 {
		c.Obs("subinterval_firings_ignored", r.wild)
	}
	sig := []any{n, drain, useFakeTicker}
	for _, o := range seq {
		sig = append(sig, o.String())
	}
	if len(r.script) > 0 {
		ks := make([]int, 0, len(r.script))
		for k := range r.script {
			ks = append(ks, k)
		}
		sort.Ints(ks)
		for _, k := range ks {
			sig = append(sig, k, r.script[k].String())
		}
		sig = append(sig, cbBudget)
	}
	// non-trivial: a pending timer was re-armed after at least one tick had moved the wheel
	c.Sig(hasRearm && hasTick, sig...)
}

func delaysFor(n int) []int {
	m := map[int]bool{}
	for _, d := range []int{1, 2, n - 1, n, n + 1, 2 * n, 2*n + 1} {
		if d >= 1 {
			m[d] = true
		}
	}
	var ds []int
	for d := range m {
		ds = append(ds, d)
	}
	sort.Ints(ds)
	return ds
}

func alphabet(n, keys int) []op {
	var a []op
	a = append(a, op{K: opTick})
	for k := 0; k < keys; k++ {
		for _, d := range delaysFor(n) {
			a = append(a, op{K: opSet, Key: k, Steps: d})
			a = append(a, op{K: opMove, Key: k, Steps: d})
		}
		a = append(a, op{K: opRemove, Key: k})
	}
	return a
}

func TestVerifC12(t *testing.T) {
	logx.Disable()
	runtime.Gosched()
	time.Sleep(10 * time.Millisecond)
	procBaseline = runtime.NumGoroutine()

	escapeFamily(t) // drainpanic_test.go; first on purpose

	// ---- bounded-exhaustive: every sequence of exactly L ops (shorter ones are prefixes'
	// behaviours and are covered because each sequence is flushed after its last op)
	type ex struct{ n, keys, L int }
	exs := []ex{{1, 1, 4}, {2, 1, 4}, {3, 1, 4}, {5, 1, 4}, {2, 2, 3}, {3, 2, 3}}
	if kit.Thorough() {
		exs = []ex{{1, 1, 5}, {2, 1, 5}, {3, 1, 5}, {5, 1, 5}, {4, 1, 5}, {2, 2, 4}, {3, 2, 4}, {5, 2, 4}, {3, 3, 3}}
	}
	const batch = 2000
	for _, e := range exs {
		al := alphabet(e.n, e.keys)
		total := 1
		for i := 0; i < e.L; i++ {
			total *= len(al)
		}
		fam := fmt.Sprintf("exh-n%d-k%d-L%d", e.n, e.keys, e.L)
		kit.Run(t, "C12", fam, (total+batch-1)/batch, func(c *kit.Case) {
			lo, hi := c.Index*batch, (c.Index+1)*batch
			if hi > total {
				hi = total
			}
			for idx := lo; idx < hi && !c.Violated(); idx++ {
				seq := make([]op, e.L)
				x := idx
				for i := e.L - 1; i >= 0; i-- {
					seq[i] = al[x%len(al)]
					x /= len(al)
				}
				// sequences that start with Move/Remove/Tick on an empty wheel are legal too
				runSeq(c, e.n, seq, false)
				c.Evals(1)
			}
			if c.Index == 0 {
				c.Sample("exhaustive", 1, map[string]any{"family": fam, "alphabet": len(al), "length": e.L, "sequences": total})
			}
		})
	}

	// ---- random: bigger wheels, more keys, delays up to 5 revolutions, fractional delays
	kit.Run(t, "C12", "random", kit.N(1500, 60000), func(c *kit.Case) {
		r := c.R
		n := kit.Choose(r, []int{1, 2, 3, 4, 5, 7, 8, 16, 31, 64})
		keys := r.Range(1, 20)
		if r.Chance(0.5) {
			keys = r.Range(1, 3)
		}
		L := r.Range(5, 120)
		if kit.Thorough() && r.Chance(0.2) {
			L = r.Range(100, 400)
		}
		seq := make([]op, 0, L)
		for i := 0; i < L; i++ {
			var o op
			switch r.Pick(30, 25, 8, 37) {
			case 0:
				o = op{K: opSet}
			case 1:
				o = op{K: opMove}
			case 2:
				o = op{K: opRemove}
			default:
				o = op{K: opTick}
			}
			o.Key = r.Intn(keys)
			if o.K == opSet || o.K == opMove {
				switch r.Pick(3, 3, 2, 2) {
				case 0:
					o.Steps = r.Range(1, n+1)
				case 1:
					o.Steps = kit.Choose(r, delaysFor(n))
				case 2:
					o.Steps = r.Range(1, 5*n+1)
				default:
					o.Steps = r.Range(1, 3)
				}
				if r.Chance(0.2) {
					o.Frac = time.Duration(r.Range(1, int(interval)-1))
				}
			}
			seq = append(seq, o)
		}
		drain := r.Chance(0.3)
		poisonKeys = nil
		if r.Chance(0.3) {
			// the callbacks of some keys panic: every other timer must still fire exactly once at its tick
			poisonKeys = map[int]bool{}
			for k := 0; k < keys; k++ {
				if r.Chance(0.4) {
					poisonKeys[k] = true
				}
			}
			c.Obs("histories_with_panicking_callbacks", 1)
		}
		runSeq(c, n, seq, drain)
		poisonKeys = nil
		if c.Index < 2 {
			s := make([]string, len(seq))
			for i, o := range seq {
				s[i] = o.String()
			}
			c.Sample("random", 2, map[string]any{"slots": n, "keys": keys, "drain": drain, "ops": s})
		}
	})

	// ---- random with Drain in the middle of the sequence: the wheel stays usable after Drain
	// (statement: "Drain delivers each pending timer exactly once"; timers set afterwards are
	// timers like any other). Move/Remove of a drained key are no-ops for the model.
	kit.Run(t, "C12", "drain-mid", kit.N(600, 20000), func(c *kit.Case) {
		r := c.R
		n := kit.Choose(r, []int{1, 2, 3, 5, 8, 16})
		keys := r.Range(1, 4)
		L := r.Range(6, 60)
		seq := make([]op, 0, L)
		for i := 0; i < L; i++ {
			var o op
			switch r.Pick(30, 20, 6, 34, 10) {
			case 0:
				o = op{K: opSet}
			case 1:
				o = op{K: opMove}
			case 2:
				o = op{K: opRemove}
			case 3:
				o = op{K: opTick}
			default:
				o = op{K: opDrain}
			}
			o.Key = r.Intn(keys)
			if o.K == opSet || o.K == opMove {
				if r.Bool() {
					o.Steps = r.Range(1, n+1)
				} else {
					o.Steps = r.Range(1, 3*n+1)
				}
			}
			seq = append(seq, o)
		}
		runSeq(c, n, seq, r.Chance(0.3))
		if c.Index < 1 {
			s := make([]string, len(seq))
			for i, o := range seq {
				s[i] = o.String()
			}
			c.Sample("drain-mid", 1, map[string]any{"slots": n, "keys": keys, "ops": s})
		}
	})

	scriptedExtFamilies(t)
	drainPanicFamilies(t)
	realFamilies(t)
	consumerFamilies(t) // last: every cache leaves goroutines behind that join the baseline
	kit.End()
}
