package c12

// consumer-cleaner-panic: the cache cleaner on its production wheel (real 1 s ticker, 300 slots,
// the package's 5-worker task runner) with clean tasks that PANIC - as many as the runner has
// workers, one more, more than twice as many, or a few - on their first call or on their retry
// (the store errors first: the cleaner re-arms the task 5 s later), next to tasks that succeed and
// tasks whose store errors once. For the cleaner "every timer fires exactly once" reads: every clean
// task is called exactly once one tick after AddCleanTask - the call is the delivery, whether or
// not the task then panics -, a task that returned an error is called exactly once more (5 ticks
// later), and tasks added AFTER the panics are served like any other. What becomes of a task after
// its own panic is not judged. Decided as in consumer_test.go by sentinels (a task added later with
// the same delay cannot be due earlier) plus quiescence - and, while the sentinel is waited for, by
// state: if every goroutine that has a TaskRunner frame is parked in TaskRunner.Schedule (called
// from clean) nobody will ever free a slot, and the tasks that have not run never will.

import (
	"errors"
	"fmt"
	"sync"
	"time"

	"github.com/zeromicro/go-zero/core/stores/cache"

	"verifharness/kit"
)

type pTask struct {
	id     int
	script []string // ok | err | panic per call; beyond the script: ok
	runs   []time.Duration
	added  time.Duration
	wave   int
}

// cleanerRunnerDead: an earlier case of this process found the cleaner's runner without a free
// slot and nobody to free one (reported there); nothing added with AddCleanTask runs any more.
var cleanerRunnerDead bool

func cleanerPanicCase(c *kit.Case) {
	readWorkers()
	if cleanerRunnerDead {
		c.Obs("cleaner_cases_skipped_the_package_runner_is_dead", 1)
		return
	}
	r := c.R
	measureBaseline()
	if !quiesce(procBaseline) {
		c.Inconclusive("goroutine count did not return to the process baseline")
		return
	}
	W := cleanWorkers
	P := []int{W, W + 1, 2*W + 1, r.Range(1, W-1)}[c.Index%4]
	retryPanics := c.Index%8 >= 4 // the store errors first, the retry (5 ticks later) panics
	withErr := retryPanics || c.Index%2 == 0
	start := time.Now()
	var mu sync.Mutex
	var tasks []*pTask
	panics := 0
	add := func(script []string, wave int) *pTask {
		t := &pTask{id: len(tasks), script: script, wave: wave}
		mu.Lock()
		tasks = append(tasks, t)
		mu.Unlock()
		t.added = time.Since(start)
		cache.AddCleanTask(func() error {
			mu.Lock()
			t.runs = append(t.runs, time.Since(start))
			out := "ok"
			if n := len(t.runs); n <= len(t.script) {
				out = t.script[n-1]
			}
			if out == "panic" {
				panics++
			}
			mu.Unlock()
			switch out {
			case "panic":
				kit.Obs("clean_task_panics", 1)
				panic("c12: poisoned clean task")
			case "err":
				return errors.New("c12: the store is down")
			}
			return nil
		}, fmt.Sprintf("c12p:%d:%d", c.Index, t.id))
		return t
	}
	witness := func(extra string) map[string]any {
		mu.Lock()
		defer mu.Unlock()
		var ts []string
		for _, t := range tasks {
			ts = append(ts, fmt.Sprintf("task %d (wave %d) outcomes=%v added=%v runs=%v", t.id, t.wave, t.script, t.added, t.runs))
		}
		return map[string]any{"clean_workers": W, "tasks_in_order_of_AddCleanTask": ts, "detail": extra}
	}
	runsOf := func(t *pTask) int {
		mu.Lock()
		defer mu.Unlock()
		return len(t.runs)
	}
	// await: the sentinel has run `want` times and everything is quiescent; while waiting, look
	// for the state from which nothing will ever run again
	await := func(sentinel *pTask, want int, watchdog time.Duration) bool {
		deadline := time.Now().Add(watchdog)
		for i := 0; runsOf(sentinel) < want; i++ {
			if time.Now().After(deadline) {
				c.Inconclusive(fmt.Sprintf("cleaner: the sentinel task did not run %d time(s) within the %v watchdog", want, watchdog))
				return false
			}
			time.Sleep(5 * time.Millisecond)
			if i%50 == 49 {
				if d := findDeadlock(allStacks(), dlScope{}); d != nil && d.Kind == "slots-lost" {
					leaked(d.ids)
					cleanerRunnerDead = true
					never := 0
					for _, t := range tasks {
						if runsOf(t) == 0 {
							never++
						}
					}
					mu.Lock()
					p := panics
					mu.Unlock()
					class := "after-fewer-panicking-tasks-than-workers"
					if p >= W {
						class = "after-as-many-panicking-tasks-as-workers"
					}
					w := witness(fmt.Sprintf("goroutines parked in TaskRunner.Schedule called from %s", d.Where))
					w["goroutine_dump"] = d.Dump
					c.Viol("C12/consumer-cleaner/task-never-ran/stuck-in-TaskRunner.Schedule/"+class,
						fmt.Sprintf("after %d clean tasks have panicked every goroutine that has a TaskRunner frame is parked in TaskRunner.Schedule (called from %s) waiting for a slot that no live goroutine holds: %d clean tasks have never been called and never will be", p, d.Where, never), w)
					return false
				}
			}
		}
		if !quiesce(procBaseline) {
			c.Inconclusive("cleaner: worker goroutines did not finish")
			return false
		}
		return true
	}

	// ---- wave 1
	var scripts [][]string
	for i := 0; i < P; i++ {
		if retryPanics {
			scripts = append(scripts, []string{"err", "panic"})
		} else {
			scripts = append(scripts, []string{"panic"})
		}
	}
	for i, m := 0, r.Range(2, 8); i < m; i++ {
		scripts = append(scripts, []string{"ok"})
	}
	if withErr {
		for i, m := 0, r.Range(1, 3); i < m; i++ {
			scripts = append(scripts, []string{"err", "ok"})
		}
	}
	for _, i := range r.Perm(len(scripts)) {
		add(scripts[i], 1)
		if r.Chance(0.1) {
			time.Sleep(time.Duration(r.Range(1, 200)) * time.Millisecond)
		}
	}
	s1 := add([]string{"ok"}, 1)
	if !await(s1, 1, 90*time.Second) {
		return
	}
	for _, t := range tasks {
		switch n := runsOf(t); {
		case n == 0:
			c.Viol("C12/consumer-cleaner/task-never-ran/first-run", fmt.Sprintf("clean task %d was never called although a task added later (same delay) has run and all workers have finished", t.id), witness(""))
			return
		case n > 1:
			c.Viol("C12/consumer-cleaner/task-ran-twice/first-run", fmt.Sprintf("clean task %d was called %d times within one tick", t.id, n), witness(""))
			return
		}
	}
	c.Obs("cleaner_tasks_run_exactly_once", int64(len(tasks)))
	// ---- wave 2: added after the (first-call) panics; its sentinel fails once if retries are
	// pending, so that its own retry is armed after theirs and cannot be due earlier
	first := len(tasks)
	for i, m := 0, r.Range(W+1, 2*W+2); i < m; i++ {
		add([]string{"ok"}, 2)
	}
	s2script, want := []string{"ok"}, 1
	if withErr {
		s2script, want = []string{"err", "ok"}, 2
	}
	s2 := add(s2script, 2)
	if !await(s2, want, 120*time.Second) {
		return
	}
	for _, t := range tasks {
		n := runsOf(t)
		exp := 1
		if len(t.script) > 1 {
			exp = 2 // err, then ok or panic: exactly one retry
		}
		stage := "first-run"
		if t.wave == 2 {
			stage = "added-after-the-panics"
		}
		if exp == 2 {
			stage = "retry"
		}
		switch {
		case n < exp:
			c.Viol("C12/consumer-cleaner/task-never-ran/"+stage, fmt.Sprintf("clean task %d was called %d time(s), %d expected by now: a task armed later with the same delay has run and all workers have finished", t.id, n, exp), witness(""))
			return
		case n > exp:
			c.Viol("C12/consumer-cleaner/task-ran-twice/"+stage, fmt.Sprintf("clean task %d was called %d times, %d expected", t.id, n, exp), witness(""))
			return
		}
		if exp == 2 {
			mu.Lock()
			gap := t.runs[1] - t.runs[0]
			mu.Unlock()
			if gap < (5-slackTicks)*time.Second {
				c.Viol("C12/consumer-cleaner/retry-early", fmt.Sprintf("the retry (5 ticks of 1 s) of clean task %d ran %v after the failed attempt", t.id, gap), witness(""))
				return
			}
			c.Obs("cleaner_retries_run_exactly_once", 1)
		}
	}
	mu.Lock()
	p := panics
	mu.Unlock()
	c.Obs("cleaner_tasks_run_exactly_once", int64(len(tasks)-first))
	c.Obs("cleaner_tasks_added_after_panicking_tasks_run_exactly_once", int64(len(tasks)-first))
	c.Obs("cleaner_panic_histories", 1)
	if p >= W {
		c.Obs("cleaner_histories_panics_ge_workers", 1)
	}
	if p > W {
		c.Obs("cleaner_histories_panics_gt_workers", 1)
	}
	if p > 2*W {
		c.Obs("cleaner_histories_panics_gt_2x_workers", 1)
	}
	if retryPanics {
		c.Obs("cleaner_histories_retry_panics", 1)
	}
	c.Sig(p > 0, "cleaner-panic", P, retryPanics, withErr, len(tasks), c.Index)
	if c.Index < 1 {
		c.Sample("consumer-cleaner-panic", 1, witness(""))
	}
}
