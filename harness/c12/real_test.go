package c12

// Families on the REAL wheel (collection.NewTimingWheel: real timex.NewTicker with an interval of a
// few milliseconds), on Stop, and on the constructor's argument validation.
//
// Real time means real nondeterminism: the machine may be arbitrarily slow, ticks are delivered
// late or dropped by time.Ticker, callbacks run in goroutines that start whenever the scheduler
// likes. The monitors below therefore judge NECESSARY conditions only, each of which holds on any
// machine however loaded, and none of which compares an elapsed time with an upper bound:
//
//   at-most-once   a value handed to SetTimer is delivered (fired or drained) at most once.
//   explainable    a firing (k,v) observed at monotonic time t needs an arming j of v (the Set of v,
//                  or a later Move of k) with  before(j) + (steps(j)-3)*interval <= t  that was not
//                  surely superseded (Set of another value / Move / Remove / Drain which STARTED
//                  after j returned and RETURNED before before(j)+(steps(j)-3)*interval).
//                  Why 3 intervals of slack and not 1: the wheel counts ticks. The first tick it
//                  counts after the arming may be a stale one that sat in time.Ticker's one-slot
//                  buffer; the second may be a firing the runtime delivered late, so that its
//                  successor on the ticker's fixed grid follows immediately. From the third tick on
//                  the grid times lie after the arming, one interval apart. Lateness is never a
//                  violation.
//   exactly-once   tick counting makes "eventually" decidable without a deadline: a sentinel timer
//                  set AFTER an arming j returned, with at least as many steps, cannot be due at an
//                  earlier tick than j. Once the sentinel has fired and the process is quiescent
//                  again (no callback goroutine left), the last value set for a key (not removed)
//                  must have been delivered exactly once; if it was not, it is missing. Only the
//                  sentinel itself is waited for with a watchdog (-> inconclusive).
//   drain          a Drain delivers only values that can have been pending; a value that cannot
//                  have fired before the Drain returned is delivered by the Drain, not fired later.
//   stop           Stop racing with operations and ticks: every operation returns nil or ErrClosed,
//                  nothing panics or blocks; once the wheel's goroutine is gone (state, not time)
//                  every operation returns ErrClosed and nothing fires any more; a Set that was
//                  rejected with ErrClosed never fires.

import (
	"errors"
	"fmt"
	"runtime"
	"sort"
	"strings"
	"sync"
	"sync/atomic"
	"testing"
	"time"

	"github.com/zeromicro/go-zero/core/collection"

	"verifharness/kit"
)

const (
	sentinelBase = 1 << 20
	slackTicks   = 3
)

type rop struct {
	Kind  string // set move remove drain stop
	Key   int
	Val   int
	Steps int
	Frac  time.Duration
	B, A  time.Duration // monotonic offsets: before the call / after it returned
	Actor string        // case | callback
	err   error
	id    int
}

func (o *rop) String() string {
	e := ""
	if o.err != nil {
		e = " -> " + o.err.Error()
	}
	switch o.Kind {
	case "set":
		return fmt.Sprintf("[%v..%v] %s Set(k%d,v%d,%d%s)%s", o.B, o.A, o.Actor, o.Key, o.Val, o.Steps, frac(o.Frac), e)
	case "move":
		return fmt.Sprintf("[%v..%v] %s Move(k%d,%d%s)%s", o.B, o.A, o.Actor, o.Key, o.Steps, frac(o.Frac), e)
	case "remove":
		return fmt.Sprintf("[%v..%v] %s Remove(k%d)%s", o.B, o.A, o.Actor, o.Key, e)
	}
	return fmt.Sprintf("[%v..%v] %s %s%s", o.B, o.A, o.Actor, o.Kind, e)
}

type rfire struct {
	Key, Val int
	T        time.Duration
	Drain    int // 0 = fired by the wheel; n = delivered by the n-th Drain call
}

type realRun struct {
	c        *kit.Case
	I        time.Duration
	n        int
	tw       *collection.TimingWheel
	start    time.Time
	mu       sync.Mutex
	ops      []*rop
	fires    []rfire
	nextVal  int
	script   map[int]cbAct
	budget   int
	poison   map[int]bool
	maxSteps int
	ticker   string
	drains   int
	sentinel int
	// drainPoison, when non-nil, says for which calls (nth Drain, key, index of arrival) the function
	// passed to Drain panics after it has recorded the delivery (drainpanic_test.go)
	drainPoison func(nth, key, idx int) bool
	drainPanics map[int]int
	// drainRearm, when non-nil: ticks with which the function sets the key it was called with again
	// (0: it does not touch the wheel)
	drainRearm  func(nth, key, idx int) int
	drainResets map[int]int
	drainClosed map[int]bool // the verdict on that Drain is in: unwinding calls are ignored
}

func (rr *realRun) now() time.Duration { return time.Since(rr.start) }

func (rr *realRun) callback(k, v any) {
	t := rr.now()
	key, val := k.(int), v.(int)
	var act *cbAct
	rr.mu.Lock()
	rr.fires = append(rr.fires, rfire{Key: key, Val: val, T: t})
	if a, ok := rr.script[key]; ok && rr.budget > 0 {
		rr.budget--
		act = &a
	}
	rr.mu.Unlock()
	if act != nil {
		rr.do("callback", act.K, act.Key, act.Steps, 0)
	}
	if rr.poison[key] {
		kit.Obs("callback_panics", 1)
		panic("c12: poisoned timer callback")
	}
}

func (rr *realRun) do(actor string, k opKind, key, steps int, fr time.Duration) *rop {
	o := &rop{Key: key, Steps: steps, Frac: fr, Actor: actor}
	d := time.Duration(steps)*rr.I + fr
	rr.mu.Lock()
	if k == opSet {
		rr.nextVal++
		o.Val = rr.nextVal
	}
	if steps > rr.maxSteps {
		rr.maxSteps = steps
	}
	rr.mu.Unlock()
	o.B = rr.now()
	switch k {
	case opSet:
		o.Kind = "set"
		o.err = rr.tw.SetTimer(key, o.Val, d)
	case opMove:
		o.Kind = "move"
		o.err = rr.tw.MoveTimer(key, d)
	case opRemove:
		o.Kind = "remove"
		o.err = rr.tw.RemoveTimer(key)
	case opDrain:
		o.Kind = "drain"
		rr.mu.Lock()
		rr.drains++
		nth := rr.drains
		rr.mu.Unlock()
		o.Val = nth
		arrival := 0
		o.err = rr.tw.Drain(func(k, v any) {
			t := rr.now()
			rr.mu.Lock()
			if rr.drainClosed[nth] {
				rr.mu.Unlock()
				return
			}
			rr.fires = append(rr.fires, rfire{Key: k.(int), Val: v.(int), T: t, Drain: nth})
			idx := arrival
			arrival++
			bang := rr.drainPoison != nil && rr.drainPoison(nth, k.(int), idx)
			if bang {
				if rr.drainPanics == nil {
					rr.drainPanics = map[int]int{}
				}
				rr.drainPanics[nth]++
			}
			again := 0
			if rr.drainRearm != nil {
				if again = rr.drainRearm(nth, k.(int), idx); again > 0 {
					if rr.drainResets == nil {
						rr.drainResets = map[int]int{}
					}
					rr.drainResets[nth]++
				}
			}
			rr.mu.Unlock()
			if again > 0 {
				rr.do("drain-fn", opSet, k.(int), again, 0)
			}
			if bang {
				kit.Obs("drain_fn_panics", 1)
				panic("c12: poisoned drain callback")
			}
		})
	}
	o.A = rr.now()
	rr.mu.Lock()
	o.id = len(rr.ops)
	rr.ops = append(rr.ops, o)
	rr.mu.Unlock()
	return o
}

func (rr *realRun) firedCount() int {
	rr.mu.Lock()
	defer rr.mu.Unlock()
	return len(rr.fires)
}

func (rr *realRun) hasFired(key, val int) bool {
	rr.mu.Lock()
	defer rr.mu.Unlock()
	for i := len(rr.fires) - 1; i >= 0; i-- {
		if rr.fires[i].Key == key && rr.fires[i].Val == val {
			return true
		}
	}
	return false
}

func (rr *realRun) witness(extra string) map[string]any {
	rr.mu.Lock()
	defer rr.mu.Unlock()
	ops := make([]string, len(rr.ops))
	for i, o := range rr.ops {
		ops[i] = o.String()
	}
	fs := make([]string, len(rr.fires))
	for i, f := range rr.fires {
		how := "fired"
		if f.Drain > 0 {
			how = fmt.Sprintf("drained(%d)", f.Drain)
		}
		fs[i] = fmt.Sprintf("%v %s k%d v%d", f.T, how, f.Key, f.Val)
	}
	w := map[string]any{"ticker": rr.ticker, "interval": rr.I.String(), "slots": rr.n, "ops_in_order_of_return": ops, "deliveries": fs, "detail": extra}
	if len(rr.script) > 0 {
		sc := map[string]string{}
		for k, a := range rr.script {
			sc[fmt.Sprintf("k%d", k)] = a.String()
		}
		w["callback_script"] = sc
	}
	return w
}

// sentinelRound sets a sentinel with at least as many steps as any arming so far and waits until
// it has fired and the callbacks have finished. false = watchdog (inconclusive).
func (rr *realRun) sentinelRound() (*rop, bool) {
	rr.mu.Lock()
	steps := rr.maxSteps
	for _, a := range rr.script {
		if a.Steps > steps {
			steps = a.Steps
		}
	}
	rr.sentinel++
	key := sentinelBase + rr.sentinel
	rr.mu.Unlock()
	if steps < 1 {
		steps = 1
	}
	s := rr.do("case", opSet, key, steps, 0)
	if s.err != nil {
		rr.c.Viol("C12/api-error/set", "SetTimer returned "+s.err.Error(), rr.witness(""))
		return s, false
	}
	deadline := time.Now().Add(90 * time.Second)
	for !rr.hasFired(key, s.Val) {
		if time.Now().After(deadline) {
			rr.c.Inconclusive(fmt.Sprintf("real wheel: sentinel (%d steps of %v) did not fire within the 90 s watchdog", steps, rr.I))
			return s, false
		}
		time.Sleep(300 * time.Microsecond)
	}
	rr.tw.RemoveTimer(-1) // the loop is back in its select
	if !quiesce(procBaseline + 1) {
		rr.c.Inconclusive("real wheel: callback goroutines did not finish")
		return s, false
	}
	return s, true
}

// settle runs sentinel rounds until no operation was issued after the last sentinel was set
// (callbacks may arm timers at any time; their budget is finite).
func (rr *realRun) settle() bool {
	for round := 0; round < 12; round++ {
		s, ok := rr.sentinelRound()
		if !ok {
			return false
		}
		late := false
		rr.mu.Lock()
		for _, o := range rr.ops {
			if o != s && o.A >= s.B {
				late = true
			}
		}
		rr.mu.Unlock()
		if !late {
			rr.c.Obs("real_sentinel_rounds", int64(round+1))
			return true
		}
	}
	rr.c.Obs("real_unsettled", 1)
	return false
}

// judge applies the necessary conditions. settled: a sentinel round after which nothing was issued
// has completed, so the exactly-once clause is decidable.
func (rr *realRun) judge(settled bool) {
	rr.mu.Lock()
	ops := append([]*rop(nil), rr.ops...)
	fires := append([]rfire(nil), rr.fires...)
	rr.mu.Unlock()
	c := rr.c
	byKey := map[int][]*rop{}
	var drains []*rop
	for _, o := range ops {
		if o.err != nil {
			continue
		}
		switch o.Kind {
		case "drain":
			drains = append(drains, o)
		case "set", "move", "remove":
			byKey[o.Key] = append(byKey[o.Key], o)
		}
	}
	setOf := func(key, val int) *rop {
		for _, o := range byKey[key] {
			if o.Kind == "set" && o.Val == val {
				return o
			}
		}
		return nil
	}
	type kv struct{ k, v int }
	count := map[kv]int{}
	for _, f := range fires {
		count[kv{f.Key, f.Val}]++
	}
	for p, n := range count {
		if n > 1 {
			how := "fired-twice"
			for _, f := range fires {
				if f.Key == p.k && f.Val == p.v && f.Drain > 0 {
					how = "fired-and-drained"
				}
			}
			c.Viol("C12/real/duplicate/"+how, fmt.Sprintf("k%d v%d was delivered %d times", p.k, p.v, n), rr.witness(""))
			return
		}
	}
	slack := func(j *rop) time.Duration {
		s := j.Steps - slackTicks
		if s < 0 {
			s = 0
		}
		return j.B + time.Duration(s)*rr.I
	}
	for _, f := range fires {
		if f.Key >= sentinelBase {
			continue
		}
		so := setOf(f.Key, f.Val)
		if so == nil {
			// the Set may have been rejected (ErrClosed) or never issued
			c.Viol("C12/real/fired-value-never-set", fmt.Sprintf("k%d was delivered with value v%d which no successful SetTimer of that key carried", f.Key, f.Val), rr.witness(""))
			return
		}
		if f.Drain > 0 {
			var d *rop
			for _, x := range drains {
				if x.Val == f.Drain {
					d = x
				}
			}
			if d == nil {
				continue // the Drain call has not returned yet (cannot happen after quiescence)
			}
			if so.B > d.A {
				c.Viol("C12/real/drain/not-pending", fmt.Sprintf("Drain delivered k%d v%d, which was set only after the Drain had returned", f.Key, f.Val), rr.witness(""))
				return
			}
			for _, x := range byKey[f.Key] {
				if x != so && x.B > so.A && x.A < d.B && (x.Kind == "remove" || x.Kind == "set") {
					c.Viol("C12/real/drain/not-pending", fmt.Sprintf("Drain delivered k%d v%d although %s had completed before the Drain started", f.Key, f.Val, x), rr.witness(""))
					return
				}
			}
			continue
		}
		cands := []*rop{so}
		for _, x := range byKey[f.Key] {
			if x.Kind == "move" && !(x.A < so.B) {
				cands = append(cands, x)
			}
		}
		explained := false
		class := "fired-before-set"
		var lastB time.Duration = -1
		for _, j := range cands {
			why := ""
			e := slack(j)
			if j.B > f.T {
				why = "fired-before-armed"
			} else if e > f.T {
				why = "early/" + j.Kind
			} else {
				for _, x := range byKey[f.Key] {
					if x != j && x.B > j.A && x.A < e {
						switch x.Kind {
						case "remove":
							why = "fired-after-remove"
						case "set":
							why = "stale-value"
						default:
							why = "fired-on-superseded-schedule"
						}
					}
				}
				for _, x := range drains {
					if x.B > j.A && x.A < e {
						why = "fired-after-drain"
					}
				}
			}
			if why == "" {
				explained = true
				break
			}
			if j.B <= f.T && j.B > lastB {
				lastB, class = j.B, why
			} else if lastB < 0 {
				class = why
			}
		}
		if !explained {
			c.Viol("C12/real/"+class, fmt.Sprintf("k%d v%d fired at %v: no arming of that value explains it (every candidate is either more than %d intervals of %v too young or surely superseded before it could fire)", f.Key, f.Val, f.T, slackTicks, rr.I),
				rr.witness(fmt.Sprintf("firing k%d v%d at %v", f.Key, f.Val, f.T)))
			return
		}
	}
	c.Obs("real_firings_explained", int64(len(fires)))
	if !settled {
		return
	}
	// exactly-once for the last value of every key
	for key, kops := range byKey {
		if key >= sentinelBase || key < 0 {
			continue
		}
		var last *rop
		for _, o := range kops {
			if o.Kind == "move" {
				continue
			}
			ok := true
			for _, x := range kops {
				if x != o && x.Kind != "move" && !(x.A < o.B) {
					ok = false
				}
			}
			if ok {
				last = o
			}
		}
		if last == nil {
			c.Obs("real_keys_without_decidable_last_op", 1)
			continue
		}
		if last.Kind == "remove" {
			c.Obs("real_keys_removed_last", 1)
			continue
		}
		moved := false
		for _, x := range kops {
			if x.Kind == "move" && x.B > last.A {
				moved = true
			}
		}
		switch count[kv{key, last.Val}] {
		case 1:
			c.Obs("real_last_values_delivered_exactly_once", 1)
		case 0:
			how := "set"
			if moved {
				how = "move"
			}
			c.Viol("C12/real/missing/"+how, fmt.Sprintf("k%d v%d (the last value set for the key, not removed) was never delivered although a sentinel timer set later with at least as many steps has fired and every callback has finished", key, last.Val), rr.witness(""))
			return
		}
	}
}

func realCase(c *kit.Case) {
	r := c.R
	rr := &realRun{c: c, ticker: "timex.NewTicker (real)"}
	rr.I = time.Duration(kit.Choose(r, []int{2, 3, 5})) * time.Millisecond
	rr.n = kit.Choose(r, []int{1, 2, 4, 5, 8, 8, 16})
	keys := r.Range(1, 5)
	L := r.Range(4, 30)
	mode := r.Pick(45, 30, 25) // sentinel | drain | stop
	if r.Chance(0.35) {
		rr.script = genScript(r, rr.n, keys)
		rr.budget = r.Range(1, 8)
	}
	if r.Chance(0.25) {
		rr.poison = genPoison(r, keys)
		c.Obs("histories_with_panicking_callbacks", 1)
	}
	measureBaseline()
	if !quiesce(procBaseline) {
		c.Inconclusive("goroutine count did not return to the process baseline")
		return
	}
	rr.start = time.Now()
	tw, err := collection.NewTimingWheel(rr.I, rr.n, rr.callback)
	if err != nil {
		c.Viol("C12/ctor/valid-arguments-rejected", "NewTimingWheel returned "+err.Error(), map[string]any{"interval": rr.I.String(), "slots": rr.n})
		return
	}
	rr.tw = tw
	stopped := false
	defer func() {
		if !stopped {
			tw.Stop()
		}
		quiesce(procBaseline)
	}()
	for i := 0; i < L; i++ {
		key := r.Intn(keys)
		steps := 1
		switch r.Pick(2, 2, 4, 2) {
		case 0:
			steps = r.Range(1, 3)
		case 1:
			steps = kit.Choose(r, delaysFor(rr.n))
		case 2:
			steps = r.Range(4, 3*rr.n+6)
		default:
			steps = r.Range(rr.n+4, 2*rr.n+8)
		}
		var fr time.Duration
		if r.Chance(0.2) {
			fr = time.Duration(r.Range(1, int(rr.I)-1))
		}
		var o *rop
		switch r.Pick(40, 30, 15) {
		case 0:
			o = rr.do("case", opSet, key, steps, fr)
		case 1:
			o = rr.do("case", opMove, key, steps, fr)
		default:
			o = rr.do("case", opRemove, key, 0, 0)
		}
		if o.err != nil {
			c.Viol("C12/api-error/"+o.Kind, o.Kind+" returned "+o.err.Error()+" on a running wheel", rr.witness(""))
			return
		}
		switch r.Pick(50, 30, 15, 5) {
		case 1:
			time.Sleep(time.Duration(r.Range(1, int(rr.I))))
		case 2:
			time.Sleep(time.Duration(r.Range(1, 3)) * rr.I)
		case 3:
			time.Sleep(time.Duration(r.Range(3, rr.n+4)) * rr.I)
		}
	}
	settled := false
	switch mode {
	case 0:
		settled = rr.settle()
	case 1:
		if d := rr.do("case", opDrain, 0, 0, 0); d.err != nil {
			c.Viol("C12/api-error/drain", "Drain returned "+d.err.Error()+" on a running wheel", rr.witness(""))
			return
		}
		c.Obs("real_drains", 1)
		settled = rr.settle()
	default:
		// Stop with timers pending: they are discarded; only at-most-once / explainable apply
		rr.do("case", opRemove, -1, 0, 0)
		tw.Stop()
		stopped = true
		rr.checkStopped()
		c.Obs("real_stops", 1)
	}
	if c.Violated() {
		return
	}
	if mode != 2 {
		rr.mu.Lock()
		var bad *rop
		for _, o := range rr.ops {
			if o.err != nil {
				bad = o
			}
		}
		rr.mu.Unlock()
		if bad != nil {
			c.Viol("C12/api-error/callback-"+bad.Kind, bad.String()+" on a running wheel", rr.witness(""))
			return
		}
	}
	rr.judge(settled)
	rr.mu.Lock()
	nops, nf := len(rr.ops), len(rr.fires)
	cb := 0
	for _, o := range rr.ops {
		if o.Actor == "callback" {
			cb++
		}
	}
	rr.mu.Unlock()
	c.Obs("real_wheels", 1)
	c.Obs("real_ops", int64(nops))
	c.Obs("real_deliveries", int64(nf))
	if cb > 0 {
		c.Obs("real_ops_issued_from_callbacks", int64(cb))
	}
	if settled {
		c.Obs("real_histories_settled", 1)
	}
	c.Sig(nf > 1 && nops > 4, "real", rr.I, rr.n, keys, L, mode, c.Index)
	if c.Index < 2 {
		c.Sample("real", 2, rr.witness(fmt.Sprintf("mode=%d settled=%v", mode, settled)))
	}
}

// checkStopped: Stop has returned. Wait (state, not time) until the wheel's goroutine and every
// callback goroutine are gone; from then on every operation must return ErrClosed and nothing can
// fire. The calls are made on the case goroutine: if one blocks for ever the stuck-case detector of
// the kit reports it (VERIF_STUCK_S).
func (rr *realRun) checkStopped() {
	c := rr.c
	if !quiesce(procBaseline) {
		if fn := parkedInWheelOp(); fn != "" {
			c.Viol("C12/stop/blocked-after-stop/"+fn, "Stop has returned, yet a goroutine is still parked inside "+fn+" (nobody will ever serve it)", rr.witness(""))
			return
		}
		c.Inconclusive("goroutines of a stopped wheel did not finish")
		return
	}
	before := rr.firedCount()
	type res struct {
		name string
		err  error
	}
	var rs []res
	rs = append(rs, res{"set", rr.tw.SetTimer(7, 1<<30, 2*rr.I)})
	rs = append(rs, res{"move", rr.tw.MoveTimer(0, 2*rr.I)})
	rs = append(rs, res{"remove", rr.tw.RemoveTimer(0)})
	rs = append(rs, res{"drain", rr.tw.Drain(func(k, v any) {
		rr.mu.Lock()
		rr.fires = append(rr.fires, rfire{Key: k.(int), Val: v.(int), T: rr.now(), Drain: 1 << 20})
		rr.mu.Unlock()
	})})
	for _, x := range rs {
		switch {
		case x.err == nil:
			c.Viol("C12/stop/accepted-after-stop/"+x.name, x.name+" returned nil on a wheel whose goroutine has exited after Stop (documented: ErrClosed)", rr.witness(""))
		case !errors.Is(x.err, collection.ErrClosed):
			c.Viol("C12/stop/wrong-error/"+x.name, x.name+" after Stop returned "+x.err.Error()+", documented: ErrClosed", rr.witness(""))
		default:
			c.Obs("ops_after_stop_rejected_with_ErrClosed", 1)
		}
	}
	if rr.I < 20*time.Millisecond {
		time.Sleep(4 * rr.I) // a few real ticks; on the scripted tickers the interval is nominal
	}
	runtime.Gosched()
	if after := rr.firedCount(); after != before {
		c.Viol("C12/stop/fired-after-stop", fmt.Sprintf("%d deliveries after Stop had returned and the wheel's goroutine had exited", after-before), rr.witness(""))
	}
}

// parkedInWheelOp looks for a goroutine parked in a TimingWheel operation (state check used only
// when the goroutine count does not come down after Stop).
func parkedInWheelOp() string {
	buf := make([]byte, 1<<20)
	buf = buf[:runtime.Stack(buf, true)]
	for _, blk := range strings.Split(string(buf), "\n\n") {
		if !strings.Contains(blk, "[select") && !strings.Contains(blk, "[chan send") {
			continue
		}
		for _, fn := range []string{"SetTimer", "MoveTimer", "RemoveTimer", "Drain"} {
			if strings.Contains(blk, "collection.(*TimingWheel)."+fn+"(") {
				return fn
			}
		}
	}
	return ""
}

// stopRace: Stop races with operations issued by the case goroutine, with operations issued from
// callbacks and with ticks (harness ticker fed by a helper goroutine, or the real ticker).
func stopRace(c *kit.Case, real bool) {
	r := c.R
	rr := &realRun{c: c}
	rr.n = kit.Choose(r, []int{1, 2, 3, 5, 8})
	keys := r.Range(1, 4)
	M := r.Range(4, 40)
	stopAt := int64(r.Range(0, M))
	rr.script = genScript(r, rr.n, keys)
	rr.budget = r.Range(0, 10)
	measureBaseline()
	if !quiesce(procBaseline) {
		c.Inconclusive("goroutine count did not return to the process baseline")
		return
	}
	rr.start = time.Now()
	var tw *collection.TimingWheel
	var err error
	var tk *hTicker
	if real {
		rr.I = time.Duration(r.Range(1, 3)) * time.Millisecond
		rr.ticker = "timex.NewTicker (real)"
		tw, err = collection.NewTimingWheel(rr.I, rr.n, rr.callback)
	} else {
		rr.I = interval
		rr.ticker = "harness ticker fed by a helper goroutine"
		tk = &hTicker{c: make(chan time.Time)}
		tw, err = collection.NewTimingWheelWithTicker(rr.I, rr.n, rr.callback, tk)
	}
	if err != nil {
		c.Viol("C12/ctor/valid-arguments-rejected", "constructor returned "+err.Error(), map[string]any{"slots": rr.n})
		return
	}
	rr.tw = tw
	var issued atomic.Int64
	quit := make(chan struct{})
	var wg sync.WaitGroup
	var ticksTaken atomic.Int64
	if tk != nil {
		wg.Add(1)
		go func() {
			defer wg.Done()
			for i := 0; i < 4*M; i++ {
				select {
				case tk.c <- time.Time{}:
					ticksTaken.Add(1)
				case <-quit:
					return
				}
				if i%3 == 0 {
					runtime.Gosched()
				}
			}
		}()
	}
	wg.Add(1)
	var stopDone atomic.Bool
	go func() {
		defer wg.Done()
		for issued.Load() < stopAt {
			select {
			case <-quit:
				return
			default:
				runtime.Gosched()
			}
		}
		b := rr.now()
		tw.Stop()
		a := rr.now()
		rr.mu.Lock()
		rr.ops = append(rr.ops, &rop{Kind: "stop", B: b, A: a, Actor: "stopper"})
		rr.mu.Unlock()
		stopDone.Store(true)
	}()
	accepted, rejected := 0, 0
	for i := 0; i < M && !c.Violated(); i++ {
		key := r.Intn(keys)
		steps := r.Range(1, 2*rr.n+2)
		var o *rop
		switch r.Pick(45, 25, 15, 5) {
		case 0:
			o = rr.do("case", opSet, key, steps, 0)
		case 1:
			o = rr.do("case", opMove, key, steps, 0)
		case 2:
			o = rr.do("case", opRemove, key, 0, 0)
		default:
			o = rr.do("case", opDrain, 0, 0, 0)
		}
		issued.Add(1)
		switch {
		case o.err == nil:
			accepted++
		case errors.Is(o.err, collection.ErrClosed):
			rejected++
		default:
			c.Viol("C12/stop/wrong-error/"+o.Kind, o.Kind+" racing with Stop returned "+o.err.Error(), rr.witness(""))
		}
		if real && r.Chance(0.3) {
			time.Sleep(time.Duration(r.Range(1, int(rr.I))))
		}
	}
	issued.Store(1 << 40)
	joined := make(chan struct{})
	go func() {
		for !stopDone.Load() {
			runtime.Gosched()
			time.Sleep(50 * time.Microsecond)
		}
		close(quit)
		wg.Wait()
		close(joined)
	}()
	select {
	case <-joined:
	case <-time.After(60 * time.Second):
		c.Inconclusive("stop-race: helper goroutines did not finish within the watchdog")
		select {
		case <-quit:
		default:
			close(quit)
		}
		return
	}
	if c.Violated() {
		return
	}
	rr.checkStopped()
	if c.Violated() {
		return
	}
	// a Set that was rejected never fires; callbacks' operations end in nil or ErrClosed as well
	rr.mu.Lock()
	rejectedVals := map[int]*rop{}
	cbOps := 0
	var bad *rop
	for _, o := range rr.ops {
		if o.Actor == "callback" {
			cbOps++
		}
		if o.err != nil && !errors.Is(o.err, collection.ErrClosed) {
			bad = o
		}
		if o.Kind == "set" && o.err != nil {
			rejectedVals[o.Val] = o
		}
	}
	var ghost *rfire
	for i, f := range rr.fires {
		if _, ok := rejectedVals[f.Val]; ok && f.Key < sentinelBase {
			ghost = &rr.fires[i]
		}
	}
	rr.mu.Unlock()
	if bad != nil {
		c.Viol("C12/stop/wrong-error/"+bad.Kind, bad.String(), rr.witness(""))
		return
	}
	if ghost != nil {
		c.Viol("C12/stop/rejected-set-fired", fmt.Sprintf("k%d v%d was delivered although its SetTimer had returned ErrClosed", ghost.Key, ghost.Val), rr.witness(""))
		return
	}
	rr.judgeStopped()
	c.Obs("stop_races", 1)
	c.Obs("stop_race_ops_accepted", int64(accepted))
	c.Obs("stop_race_ops_rejected_ErrClosed", int64(rejected))
	c.Obs("stop_race_ticks_taken", ticksTaken.Load())
	c.Obs("stop_race_deliveries", int64(rr.firedCount()))
	if cbOps > 0 {
		c.Obs("stop_race_ops_issued_from_callbacks", int64(cbOps))
	}
	bucket := func(x int) int {
		switch {
		case x == 0:
			return 0
		case x < 4:
			return 1
		case x < 16:
			return 2
		}
		return 3
	}
	c.Sig(accepted > 0 && rejected > 0, "stop-race", real, rr.n, bucket(accepted), bucket(rejected), bucket(int(ticksTaken.Load())), bucket(rr.firedCount()), c.Index)
	if c.Index < 1 {
		c.Sample("stop-race", 1, rr.witness(fmt.Sprintf("accepted=%d rejected=%d", accepted, rejected)))
	}
}

// judgeStopped: at-most-once and "only values that were set" for a history that ended in Stop
// (on the scripted ticker the time-based clauses do not apply).
func (rr *realRun) judgeStopped() {
	rr.mu.Lock()
	defer rr.mu.Unlock()
	type kv struct{ k, v int }
	count := map[kv]int{}
	sets := map[kv]bool{}
	for _, o := range rr.ops {
		if o.Kind == "set" && o.err == nil {
			sets[kv{o.Key, o.Val}] = true
		}
	}
	var ks []kv
	for _, f := range rr.fires {
		p := kv{f.Key, f.Val}
		if count[p] == 0 {
			ks = append(ks, p)
		}
		count[p]++
	}
	sort.Slice(ks, func(i, j int) bool { return ks[i].k < ks[j].k || ks[i].k == ks[j].k && ks[i].v < ks[j].v })
	for _, p := range ks {
		if count[p] > 1 {
			rr.mu.Unlock()
			rr.c.Viol("C12/stop/duplicate", fmt.Sprintf("k%d v%d was delivered %d times in a history with Stop", p.k, p.v, count[p]), rr.witness(""))
			rr.mu.Lock()
			return
		}
		if !sets[p] {
			rr.mu.Unlock()
			rr.c.Viol("C12/stop/fired-value-never-set", fmt.Sprintf("k%d v%d delivered, never (successfully) set", p.k, p.v), rr.witness(""))
			rr.mu.Lock()
			return
		}
	}
}

// stopSeq: a scripted history (harness ticker or timex.NewFakeTicker), then Stop, then the
// post-Stop clauses.
func stopSeq(c *kit.Case) {
	r := c.R
	n := kit.Choose(r, []int{1, 2, 3, 5, 8, 16})
	keys := r.Range(1, 5)
	seq := genSeq(r, n, keys, r.Range(3, 40), false)
	useFakeTicker = r.Bool()
	rn := newRunner(c, n, seq)
	fake := useFakeTicker
	useFakeTicker = false
	for _, o := range seq {
		rn.apply(o)
		if c.Violated() {
			rn.stop()
			return
		}
	}
	pending := len(rn.model)
	rn.stop()
	if !quiesce(procBaseline) {
		if fn := parkedInWheelOp(); fn != "" {
			c.Viol("C12/stop/blocked-after-stop/"+fn, "goroutine parked in "+fn+" after Stop", rn.witness(""))
			return
		}
		c.Inconclusive("goroutines of a stopped wheel did not finish")
		return
	}
	for _, x := range []struct {
		name string
		err  error
	}{
		{"set", rn.tw.SetTimer(0, 1<<30, interval)},
		{"move", rn.tw.MoveTimer(0, interval)},
		{"remove", rn.tw.RemoveTimer(0)},
		{"drain", rn.tw.Drain(func(k, v any) {
			rn.mu.Lock()
			rn.got = append(rn.got, fired{key: k.(int), val: v.(int)})
			rn.mu.Unlock()
		})},
	} {
		switch {
		case x.err == nil:
			c.Viol("C12/stop/accepted-after-stop/"+x.name, x.name+" returned nil on a wheel whose goroutine has exited after Stop (documented: ErrClosed)", rn.witness(""))
		case !errors.Is(x.err, collection.ErrClosed):
			c.Viol("C12/stop/wrong-error/"+x.name, x.name+" after Stop returned "+x.err.Error()+", documented: ErrClosed", rn.witness(""))
		default:
			c.Obs("ops_after_stop_rejected_with_ErrClosed", 1)
		}
	}
	// ticks offered to a stopped wheel are not taken (harness ticker: nobody receives any more)
	if ht, ok := rn.tk.(*hTicker); ok {
		for i := 0; i < 2*n+2; i++ {
			select {
			case ht.c <- time.Time{}:
				c.Obs("ticks_taken_after_stop", 1)
			default:
			}
			runtime.Gosched()
		}
	}
	quiesce(procBaseline)
	if g := rn.take(); len(g) > 0 {
		c.Viol("C12/stop/fired-after-stop", fmt.Sprintf("k%d delivered after Stop had returned and the wheel's goroutine had exited", g[0].key), rn.witness(""))
	}
	c.Obs("stop_sequences", 1)
	c.Obs("timers_pending_at_stop", int64(pending))
	if fake {
		c.Obs("stop_sequences_on_fake_ticker", 1)
	}
	c.Sig(pending > 0, "stop-seq", n, fake, pending, c.Index)
}

// ctorCase: NewTimingWheel must reject interval <= 0, numSlots <= 0 and a nil execute with an
// error (no panic, no wheel), and accept everything else.
func ctorCase(c *kit.Case) {
	measureBaseline()
	intervals := []time.Duration{0, -1, -time.Millisecond, -time.Hour, time.Duration(-1 << 63), 1, time.Millisecond, time.Hour}
	slots := []int{0, -1, -300, -1 << 62, 1, 2, 300}
	exec := func(k, v any) {}
	type combo struct {
		iv   time.Duration
		n    int
		fn   collection.Execute
		desc string
	}
	var combos []combo
	for _, iv := range intervals {
		for _, n := range slots {
			combos = append(combos, combo{iv, n, exec, "execute"}, combo{iv, n, nil, "nil"})
		}
	}
	for i, cb := range combos {
		if i%8 != c.Index%8 {
			continue
		}
		var bad []string
		if cb.iv <= 0 {
			bad = append(bad, "interval<=0")
		}
		if cb.n <= 0 {
			bad = append(bad, "slots<=0")
		}
		if cb.fn == nil {
			bad = append(bad, "nil-execute")
		}
		class := strings.Join(bad, "+")
		w := map[string]any{"interval": cb.iv.String(), "slots": cb.n, "execute": cb.desc}
		var tw *collection.TimingWheel
		var err error
		panicked := func() (p any) {
			defer func() { p = recover() }()
			tw, err = collection.NewTimingWheel(cb.iv, cb.n, cb.fn)
			return nil
		}()
		c.Evals(1)
		switch {
		case panicked != nil && len(bad) > 0:
			w["panic"] = fmt.Sprint(panicked)
			c.Viol("C12/ctor/panic/"+class, "NewTimingWheel panicked on invalid arguments instead of returning an error", w)
		case panicked != nil:
			w["panic"] = fmt.Sprint(panicked)
			c.Viol("C12/ctor/panic/valid-arguments", "NewTimingWheel panicked on valid arguments", w)
		case len(bad) > 0 && err == nil:
			c.Viol("C12/ctor/accepted/"+class, "NewTimingWheel accepted invalid arguments", w)
		case len(bad) > 0 && tw != nil:
			c.Viol("C12/ctor/wheel-with-error/"+class, "NewTimingWheel returned both an error and a wheel", w)
		case len(bad) == 0 && (err != nil || tw == nil):
			c.Viol("C12/ctor/valid-arguments-rejected", fmt.Sprintf("NewTimingWheel returned (%v, %v) on valid arguments", tw, err), w)
		case len(bad) > 0:
			c.Obs("ctor_invalid_rejected", 1)
		default:
			c.Obs("ctor_valid_accepted", 1)
		}
		if tw != nil {
			// invalid arguments to the operations of a live wheel: outside the statement; only
			// "no panic, returns" is demanded (the kit reports a panic raised inside go-zero)
			tw.SetTimer(nil, 1, time.Second)
			tw.SetTimer(1, 1, 0)
			tw.SetTimer(1, 1, -time.Second)
			tw.MoveTimer(nil, time.Second)
			tw.MoveTimer(1, 0)
			tw.RemoveTimer(nil)
			c.Obs("ops_with_invalid_arguments", 6)
			tw.Stop()
		}
		c.Sig(false, "ctor", cb.iv, cb.n, cb.desc)
	}
	quiesce(procBaseline)
}

func realFamilies(t *testing.T) {
	kit.Run(t, "C12", "ctor", 8, ctorCase)
	kit.Run(t, "C12", "stop-seq", kit.N(400, 12000), stopSeq)
	kit.Run(t, "C12", "stop-race", kit.N(400, 12000), func(c *kit.Case) { stopRace(c, false) })
	kit.Run(t, "C12", "stop-race-real", kit.N(96, 3000), func(c *kit.Case) { stopRace(c, true) })
	kit.Run(t, "C12", "real", kit.N(192, 6000), realCase)
}
