package c12

// Panicking DRAIN callbacks.
//
// "Drain delivers each pending timer exactly once": the delivery is the call of the function
// passed to Drain with that key/value. What the user's function does afterwards - return or panic -
// is its own business; a panic for key k must not prevent the delivery of the other pending timers,
// a drained timer never fires afterwards, timers set after the Drain fire exactly once at their due
// tick, and every operation issued afterwards returns. go-zero runs the drain function through a
// threading.TaskRunner with a fixed number of workers (const drainWorkers, read from the source
// below), from the wheel's own goroutine: the histories here make the function panic for none, a
// few, exactly as many as, one more than, more than twice as many as there are workers, or all of
// 10..60 pending timers - chosen by key or by order of arrival -, together with panicking execute
// callbacks, several Drains per history (timers set between them) and operations after each Drain.
//
//   drain-panic / drain-panic-fake   hand-driven ticker / timex.NewFakeTicker, exact reference model
//   real-drain-panic                 collection.NewTimingWheel on its real ticker, necessary conditions
//   drain-panic-escape               a panic of a user callback must not leave go-zero's goroutine:
//                                    decided in a child process (the only place where an escaped
//                                    panic can be observed without taking the monitor down with it)
//
// "Every operation returns" is decided by state, never by elapsed time: the case goroutine makes the
// calls itself (the kit's stuck-case detector reports a call that never returns), and while it
// waits a watcher looks at the goroutine dump for the one situation that can be decided at once:
// every goroutine that has a TaskRunner frame is parked in TaskRunner.Schedule's channel send -
// nobody is left who could free a slot (see runnerDeadlock).

import (
	"fmt"
	"os"
	"os/exec"
	"reflect"
	"regexp"
	"runtime"
	"sort"
	"strconv"
	"strings"
	"sync"
	"testing"
	"time"

	"github.com/zeromicro/go-zero/core/collection"
	"github.com/zeromicro/go-zero/core/stores/cache"

	"verifharness/kit"
)

// ---------------------------------------------------------------- worker counts, from the source

var (
	workersOnce  sync.Once
	drainWorkers = 8 // fallbacks = the values of the pinned commit
	cleanWorkers = 5
	workersRead  int
)

func sourceOf(fn any) string {
	f := runtime.FuncForPC(reflect.ValueOf(fn).Pointer())
	if f == nil {
		return ""
	}
	file, _ := f.FileLine(f.Entry())
	return file
}

func constFrom(file, name string) (int, bool) {
	b, err := os.ReadFile(file)
	if err != nil {
		return 0, false
	}
	m := regexp.MustCompile(`(?m)^\s*(?:const\s+)?` + name + `\s*=\s*(\d+)\s*$`).FindSubmatch(b)
	if m == nil {
		return 0, false
	}
	v, err := strconv.Atoi(string(m[1]))
	return v, err == nil && v > 0 && v < 1000
}

// readWorkers reads `const drainWorkers` (core/collection/timingwheel.go) and `cleanWorkers`
// (core/stores/cache/cleaner.go) from the very source files the test binary was built from.
func readWorkers() {
	workersOnce.Do(func() {
		if v, ok := constFrom(sourceOf(collection.NewTimingWheel), "drainWorkers"); ok {
			drainWorkers = v
			workersRead++
		}
		if v, ok := constFrom(sourceOf(cache.AddCleanTask), "cleanWorkers"); ok {
			cleanWorkers = v
			workersRead++
		}
		kit.Obs("worker_counts_read_from_source", int64(workersRead))
	})
}

// ---------------------------------------------------------------- plans

// drainPlan says for which calls the function passed to one Drain panics (after it has recorded
// the delivery).
type drainPlan struct {
	Mode string // none | first (the first N calls, in order of arrival) | keys (N of the pending keys) | all
	N    int
	Seed uint64 // keys: which ones (a permutation of the sorted pending keys drawn from this seed)
	// the function passed to Drain sets the timer of the key it was called with again (what the
	// cache cleaner's clean() does for a task that failed), before it panics if it does
	Re     string // "" | first | keys | all
	ReN    int
	ReSeed uint64
	ReMax  int // re-armed with 1..ReMax ticks (per key, from ReSeed)
}

func (p *drainPlan) String() string {
	if p == nil {
		return "fn never panics"
	}
	s := ""
	switch {
	case p.Mode == "none" || p.Mode == "all" || p.Mode == "":
		s = "fn panics for " + p.Mode
		if p.Mode == "" {
			s = "fn panics for none"
		}
	case p.Mode == "first":
		s = fmt.Sprintf("fn panics for the first %d calls", p.N)
	default:
		s = fmt.Sprintf("fn panics for %d of the pending keys (seed %d)", p.N, p.Seed)
	}
	switch p.Re {
	case "":
	case "all":
		s += fmt.Sprintf("; fn sets its key again (1..%d ticks, seed %d) in every call", p.ReMax, p.ReSeed)
	case "first":
		s += fmt.Sprintf("; fn sets its key again (1..%d ticks, seed %d) in the first %d calls", p.ReMax, p.ReSeed, p.ReN)
	default:
		s += fmt.Sprintf("; fn sets its key again (1..%d ticks, seed %d) for %d of the pending keys", p.ReMax, p.ReSeed, p.ReN)
	}
	return s
}

// rearm: predicate (key, index of arrival) -> ticks (0: the function does not touch the wheel).
func (p *drainPlan) rearm(model map[int]*mtimer) func(key, idx int) int {
	if p == nil || p.Re == "" {
		return nil
	}
	steps := func(key int) int {
		return 1 + int(kit.NewRand(p.ReSeed^uint64(key)*0x9E3779B97F4A7C15).Intn(p.ReMax))
	}
	sel := (&drainPlan{Mode: p.Re, N: p.ReN, Seed: p.ReSeed}).resolve(model)
	return func(key, idx int) int {
		if sel != nil && sel(key, idx) {
			return steps(key)
		}
		return 0
	}
}

// resolve turns the plan into a predicate over (key, index of arrival) for the timers pending now.
func (p *drainPlan) resolve(model map[int]*mtimer) func(key, idx int) bool {
	if p == nil || p.Mode == "none" || p.Mode == "" {
		return nil
	}
	switch p.Mode {
	case "all":
		return func(int, int) bool { return true }
	case "first":
		return func(_, idx int) bool { return idx < p.N }
	}
	keys := make([]int, 0, len(model))
	for k := range model {
		keys = append(keys, k)
	}
	sort.Ints(keys)
	chosen := map[int]bool{}
	for i, j := range kit.NewRand(p.Seed).Perm(len(keys)) {
		if i >= p.N {
			break
		}
		chosen[keys[j]] = true
	}
	return func(key, _ int) bool { return chosen[key] }
}

// drainStats: what the planned Drains of one history observed.
type drainStats struct {
	planned, withPanics, geW, gtW, gt2W, all, none int64
	pending, panics                               int64
	maxPending                                    int
	reDrains, reCalls, reGeW                      int64
}

func (s *drainStats) addRe(rearms int) {
	if rearms > 0 {
		s.reDrains++
		s.reCalls += int64(rearms)
	}
	if rearms >= drainWorkers {
		s.reGeW++
	}
}

func (s *drainStats) add(p *drainPlan, pending, panics int) {
	s.planned++
	s.pending += int64(pending)
	s.panics += int64(panics)
	if pending > s.maxPending {
		s.maxPending = pending
	}
	switch {
	case panics == 0:
		s.none++
	default:
		s.withPanics++
	}
	if panics >= drainWorkers {
		s.geW++
	}
	if panics > drainWorkers {
		s.gtW++
	}
	if panics > 2*drainWorkers {
		s.gt2W++
	}
	if panics > 0 && panics == pending {
		s.all++
	}
}

func (s *drainStats) obs(c *kit.Case, prefix string) {
	for _, x := range []struct {
		k string
		n int64
	}{
		{"drains_with_planned_fn", s.planned}, {"drains_fn_panicked", s.withPanics}, {"drains_fn_never_panicked", s.none},
		{"drains_fn_panics_ge_workers", s.geW}, {"drains_fn_panics_gt_workers", s.gtW}, {"drains_fn_panics_gt_2x_workers", s.gt2W},
		{"drains_fn_panicked_for_all_pending", s.all}, {"pending_at_drains_with_planned_fn", s.pending},
		{"drains_fn_set_its_key_again", s.reDrains}, {"drain_fn_calls_that_set_their_key_again", s.reCalls},
		{"drains_fn_set_its_key_again_ge_workers_times", s.reGeW},
	} {
		if x.n > 0 {
			c.Obs(prefix+x.k, x.n)
		}
	}
}

// panicClass: coarse class of a panic count relative to the drain's worker count (violation keys).
func panicClass(panics int) string {
	switch {
	case panics == 0:
		return "fn-never-panicked"
	case panics < drainWorkers:
		return "fn-panics<workers"
	}
	return "fn-panics>=workers"
}

// genPlan: class 0..7 fixes the number of panicking calls relative to the worker count W.
func genPlan(r *kit.Rand, class, pending int) *drainPlan {
	W := drainWorkers
	p := &drainPlan{Mode: "keys", Seed: r.Uint64() >> 1}
	if r.Bool() {
		p.Mode = "first"
	}
	switch class {
	case 0:
		return &drainPlan{Mode: "none"}
	case 1:
		p.N = W - 1
	case 2:
		p.N = W
	case 3:
		p.N = W + 1
	case 4:
		p.N = 2*W + 1
	case 5:
		return &drainPlan{Mode: "all"}
	case 6:
		p.N = r.Range(1, pending)
	default:
		p.N = 2 * W
	}
	if p.N < 1 {
		p.N = 1
	}
	return p
}

// genRearm adds "the function sets its key again" to a plan. big: as many calls as the Drain has
// workers, or more (on go-zero as pinned every such Drain ends in the known deadlock
// C12/drain/missing/drain-fn-calls-the-wheel); else fewer than workers.
func genRearm(r *kit.Rand, p *drainPlan, big bool, maxSteps int) {
	W := drainWorkers
	p.ReSeed = r.Uint64() >> 1
	p.ReMax = maxSteps
	p.Re = "keys"
	if r.Bool() {
		p.Re = "first"
	}
	if big {
		switch r.Pick(1, 1, 1, 1) {
		case 0:
			p.ReN = W
		case 1:
			p.ReN = W + 1
		case 2:
			p.ReN = 2*W + 1
		default:
			p.Re = "all"
		}
		return
	}
	p.ReN = r.Range(1, W-1)
}

// wantPending: how many timers must be pending so that the plan's N panics are followed by at
// least one more delivery (a Drain that loses its slots is noticed by the deliveries behind them).
func wantPending(r *kit.Rand, p *drainPlan) int {
	t := r.Range(10, 60)
	if p != nil && (p.Mode == "first" || p.Mode == "keys") && t < p.N+2 {
		t = p.N + r.Range(2, 12)
	}
	if p != nil && (p.Re == "first" || p.Re == "keys") && t < p.ReN+2 {
		t = p.ReN + r.Range(2, 12)
	}
	return t
}

// ---------------------------------------------------------------- deciding "parked for ever" by state

func allStacks() string {
	buf := make([]byte, 1<<18)
	for {
		n := runtime.Stack(buf, true)
		if n < len(buf) {
			return string(buf[:n])
		}
		buf = make([]byte, 2*len(buf))
	}
}

// deadlock: a state, read off ONE (atomic, stop-the-world) goroutine dump, from which the
// goroutines involved can never move again.
type deadlock struct {
	Kind  string   // slots-lost | fn-waits-for-the-wheel
	Where string   // go-zero callers of TaskRunner.Schedule
	Dump  string
	ids   []string // slots-lost: goroutines parked for ever (the other kind unwinds once the wheel is stopped)
}

// dlScope: what the case knows about its own wheel.
type dlScope struct {
	wheel   string   // %p of the wheel the case drives
	callers []string // functions (prefixes) whose calls of SetTimer/MoveTimer/RemoveTimer/Drain target that wheel
}

func (r *runner) scope() dlScope {
	return dlScope{wheel: fmt.Sprintf("%p", r.tw), callers: []string{"verifharness/c12.(*runner).drainDeliver"}}
}

func (rr *realRun) scope() dlScope {
	return dlScope{wheel: fmt.Sprintf("%p", rr.tw), callers: []string{"verifharness/c12.(*realRun).do"}}
}

// findDeadlock considers every goroutine that has a threading.(*TaskRunner) frame (workers, and
// goroutines inside Schedule: the only ones that hold, or are about to use, a slot of a runner).
//
//	slots-lost              at least one of them is parked in the channel send of TaskRunner.Schedule
//	                        (it waits for a free slot) and ALL of them are. A slot is only ever given
//	                        back by a worker in its deferred cleanup; if every goroutine that could do
//	                        so is itself waiting for a slot, no slot is ever freed.
//	fn-waits-for-the-wheel  the run goroutine of the case's wheel is parked in that channel send
//	                        (called from drainAll), and every other one is parked either there as
//	                        well, or in the select of SetTimer/MoveTimer/RemoveTimer/Drain called
//	                        from a function that is known to address this very wheel: the drain's
//	                        workers wait for the wheel's loop, which waits for a worker to finish.
//
// On code that is free of these defects neither state can be observed: a receive from the full slot
// channel makes a blocked sender runnable in the same critical section, and a wheel whose loop is
// in its select serves a pending operation at once. One dump decides; no time enters the verdict.
func findDeadlock(dump string, sc dlScope) *deadlock {
	const fr = "threading.(*TaskRunner)"
	const mod = "github.com/zeromicro/go-zero/"
	callers := map[string]bool{}
	var sched, ops []string
	wheelParked := false
	for _, blk := range strings.Split(dump, "\n\n") {
		if !strings.Contains(blk, fr) {
			continue
		}
		lines := strings.Split(strings.TrimSpace(blk), "\n")
		if len(lines) < 2 || !strings.HasPrefix(lines[0], "goroutine ") {
			continue
		}
		hdr := lines[0]
		id := strings.Fields(hdr)[1]
		leakMu.Lock()
		old := knownParked[id]
		leakMu.Unlock()
		if old {
			continue // found parked for ever by an earlier case of this process (goroutine ids are never reused)
		}
		state := ""
		if i, j := strings.Index(hdr, "["), strings.LastIndex(hdr, "]"); i >= 0 && j > i {
			state = hdr[i+1 : j]
		}
		inner, caller := "", ""
		for _, ln := range lines[1:] {
			if strings.HasPrefix(ln, "\t") || strings.HasPrefix(ln, "created by ") {
				continue
			}
			if strings.HasPrefix(ln, "runtime.") || strings.HasPrefix(ln, "runtime/") || strings.HasPrefix(ln, "sync.") || strings.HasPrefix(ln, "internal/") {
				continue
			}
			name := ln
			if k := strings.LastIndex(name, "("); k > 0 {
				name = name[:k]
			}
			if inner == "" {
				inner = name
				continue
			}
			caller = name
			break
		}
		switch {
		case strings.HasPrefix(state, "chan send") && inner == mod+"core/threading.(*TaskRunner).Schedule":
			sched = append(sched, id)
			callers[strings.TrimPrefix(caller, mod)] = true
			if sc.wheel != "" && strings.Contains(blk, "collection.(*TimingWheel).run("+sc.wheel) && strings.Contains(blk, "collection.(*TimingWheel).drainAll(") {
				wheelParked = true
			}
		case strings.HasPrefix(state, "select") && isWheelOp(strings.TrimPrefix(inner, mod)) && hasPrefixIn(caller, sc.callers):
			ops = append(ops, id)
		default:
			return nil
		}
	}
	var cs []string
	for c := range callers {
		cs = append(cs, c)
	}
	sort.Strings(cs)
	switch {
	case len(sched) == 0:
		return nil
	case len(ops) == 0:
		return &deadlock{Kind: "slots-lost", Where: strings.Join(cs, " + "), Dump: dump, ids: sched}
	case wheelParked:
		return &deadlock{Kind: "fn-waits-for-the-wheel", Where: strings.Join(cs, " + "), Dump: dump}
	}
	return nil
}

func isWheelOp(fn string) bool {
	for _, op := range []string{"SetTimer", "MoveTimer", "RemoveTimer", "Drain"} {
		if fn == "core/collection.(*TimingWheel)."+op {
			return true
		}
	}
	return false
}

func hasPrefixIn(s string, ps []string) bool {
	for _, p := range ps {
		if strings.HasPrefix(s, p) {
			return true
		}
	}
	return false
}

// syncWatched runs wait() - a synchronous call into the wheel - on the calling goroutine. While it
// is under way a watcher inspects goroutine dumps (first after 20 ms, then with growing pauses:
// the pauses only pace the polling); when a dump shows a deadlock it calls release() (Stop of the
// wheel: the pending call returns ErrClosed) and the verdict is returned. After about twenty
// seconds of polling the watcher parks itself, so that the kit's stuck-case detector - which wants
// a process in which nothing moves - stays in charge of every other way of never returning.
func syncWatched(sc dlScope, wait func(), release func()) *deadlock {
	stop := make(chan struct{})
	out := make(chan *deadlock, 1)
	go func() {
		pause := 20 * time.Millisecond
		for i := 0; i < 48; i++ {
			select {
			case <-stop:
				out <- nil
				return
			case <-time.After(pause):
			}
			if pause < 500*time.Millisecond {
				pause *= 2
			}
			if d := findDeadlock(allStacks(), sc); d != nil {
				leaked(d.ids)
				release()
				<-stop
				out <- d
				return
			}
		}
		<-stop
		out <- nil
	}()
	wait()
	close(stop)
	return <-out
}

// leaked: these goroutines are parked for ever; they join the baseline of the goroutine census so
// that the remaining cases of this process can still attribute callbacks to ticks, and later
// dumps ignore them.
func leaked(ids []string) {
	leakMu.Lock()
	for _, id := range ids {
		if !knownParked[id] {
			knownParked[id] = true
			procBaseline++
		}
	}
	leakMu.Unlock()
}

var (
	leakMu      sync.Mutex
	knownParked = map[string]bool{}
)

// quiesceRunner is quiesce() that also recognises a deadlock (goroutines that will never finish)
// instead of waiting for them.
func quiesceRunner(sc dlScope, target int) (bool, *deadlock) {
	for i := 0; i < 2000000; i++ {
		if runtime.NumGoroutine() <= target {
			// runtime.NumGoroutine sums per-P counters without stopping the world: while workers
			// are being started and are exiting on several Ps it can read too low for a moment.
			// A drain is exactly that, so the census is confirmed by one atomic dump.
			if wheelIdle(allStacks()) {
				return true, nil
			}
			kit.Obs("goroutine_census_read_low_during_a_drain_caught_by_the_dump", 1)
		}
		switch {
		case i < 200:
			runtime.Gosched()
		default:
			time.Sleep(20 * time.Microsecond)
		}
		if i >= 2000 && i%2000 == 0 {
			if d := findDeadlock(allStacks(), sc); d != nil {
				leaked(d.ids)
				return false, d
			}
		}
	}
	return false, nil
}

// wheelIdle: no goroutine (other than those known to be parked for ever) is inside a task runner,
// a drain or the delivery of a tick's timers.
func wheelIdle(dump string) bool {
	for _, blk := range strings.Split(dump, "\n\n") {
		if !strings.Contains(blk, "threading.(*TaskRunner)") && !strings.Contains(blk, "collection.(*TimingWheel).drainAll") &&
			!strings.Contains(blk, "collection.(*TimingWheel).runTasks") {
			continue
		}
		f := strings.Fields(blk)
		if len(f) > 1 && f[0] == "goroutine" {
			leakMu.Lock()
			old := knownParked[f[1]]
			leakMu.Unlock()
			if old {
				continue
			}
		}
		return false
	}
	return true
}

// settleWatched: sync (the wheel's loop is back in its select), then quiescence; nil, true = done.
func settleWatched(sc dlScope, target int, sync func(), release func()) (*deadlock, bool) {
	if d := syncWatched(sc, sync, release); d != nil {
		return d, false
	}
	ok, d := quiesceRunner(sc, target)
	if d != nil {
		release()
	}
	return d, ok
}

// deadlockKey: violation key and sentence for a deadlock found while a Drain was under way.
func deadlockKey(d *deadlock) (key, what string) {
	if d.Kind == "slots-lost" {
		return "C12/drain/missing/stuck-in-TaskRunner.Schedule", "every goroutine that has a TaskRunner frame is parked in TaskRunner.Schedule (called from " + d.Where + ") waiting for a slot that no live goroutine holds"
	}
	return "C12/drain/missing/drain-fn-calls-the-wheel", "the wheel's goroutine is parked in TaskRunner.Schedule inside drainAll waiting for a free drain worker, while every drain worker is parked in an operation on that same wheel (issued by the function passed to Drain), which only the wheel's goroutine can serve"
}

// ---------------------------------------------------------------- scripted families

// drainPanicCase generates the history online (it needs to know how many timers are pending).
func drainPanicCase(c *kit.Case, fake, reenter bool) {
	readWorkers()
	r := c.R
	n := kit.Choose(r, []int{1, 2, 3, 5, 6, 8, 16, 31, 64})
	execPanics := r.Chance(0.5)
	poisonKeys = nil
	if execPanics {
		// execute callbacks of these keys panic as well (timers that fire at a tick of the history)
		poisonKeys = map[int]bool{}
		for k := 0; k < 200; k++ {
			if r.Chance(0.3) {
				poisonKeys[k] = true
			}
		}
	}
	useFakeTicker = fake
	rn := newRunner(c, n, nil)
	defer func() {
		rn.stop()
		useFakeTicker, poisonKeys = false, nil
	}()
	do := func(o op) bool {
		rn.seq = append(rn.seq, o)
		rn.apply(o)
		return !c.Violated()
	}
	steps := func() int {
		switch r.Pick(3, 2, 3, 2) {
		case 0:
			return r.Range(1, n+1)
		case 1:
			return kit.Choose(r, delaysFor(n))
		case 2:
			return r.Range(1, 5*n+1)
		}
		return r.Range(2, 6)
	}
	pendingKey := func() int {
		ks := make([]int, 0, len(rn.model))
		for k := range rn.model {
			ks = append(ks, k)
		}
		if len(ks) == 0 {
			return 0
		}
		sort.Ints(ks)
		return kit.Choose(r, ks)
	}
	for i, m := 0, r.Range(0, 2*n+1); i < m; i++ { // the wheel has moved / wrapped before the first timer is set
		if !do(op{K: opTick}) {
			return
		}
	}
	rounds := r.Range(1, 3)
	nextKey := 0
	var drainedKeys []int
	opsAfter, firesAfter, setsAfter := int64(0), int64(0), int64(0)
	afterPanickingDrain := false
	for round := 0; round < rounds; round++ {
		class := c.Index % 8
		if round > 0 {
			class = r.Intn(8)
		}
		plan := genPlan(r, class, 60)
		if reenter {
			genRearm(r, plan, c.Index%4 == 0 && round == 0, 3*n+2)
		}
		target := wantPending(r, plan)
		// A: arm timers (in later rounds also on keys an earlier Drain has delivered)
		for len(rn.model) < target {
			k := nextKey
			if len(drainedKeys) > 0 && r.Chance(0.5) {
				k, drainedKeys = drainedKeys[len(drainedKeys)-1], drainedKeys[:len(drainedKeys)-1]
			} else {
				nextKey++
			}
			if !do(op{K: opSet, Key: k, Steps: steps()}) {
				return
			}
			if afterPanickingDrain {
				opsAfter++
				setsAfter++
			}
		}
		// B: a few moves / re-sets / removes / ticks (some timers fire, some of their callbacks panic)
		for i, m := 0, r.Range(0, 8); i < m; i++ {
			var o op
			switch r.Pick(35, 30, 20, 15) {
			case 0:
				o = op{K: opTick}
			case 1:
				o = op{K: opMove, Key: pendingKey(), Steps: steps()}
			case 2:
				o = op{K: opSet, Key: pendingKey(), Steps: steps()}
			default:
				o = op{K: opRemove, Key: pendingKey()}
			}
			before := rn.fires
			if !do(o) {
				return
			}
			if afterPanickingDrain {
				opsAfter++
				firesAfter += rn.fires - before
			}
		}
		// C: top up, so that the panicking calls are followed by further deliveries
		min := 10
		if plan.Mode == "first" || plan.Mode == "keys" {
			if plan.N+2 > min {
				min = plan.N + 2
			}
		}
		for len(rn.model) < min {
			if !do(op{K: opSet, Key: nextKey, Steps: r.Range(2, 3*n+2)}) {
				return
			}
			nextKey++
		}
		if plan.Mode == "first" || plan.Mode == "keys" {
			if plan.N >= len(rn.model) {
				plan.N = len(rn.model) - 1
			}
		}
		if (plan.Re == "first" || plan.Re == "keys") && plan.ReN+2 > len(rn.model) {
			for len(rn.model) < plan.ReN+2 {
				if !do(op{K: opSet, Key: nextKey, Steps: r.Range(2, 3*n+2)}) {
					return
				}
				nextKey++
			}
		}
		for k := range rn.model {
			drainedKeys = append(drainedKeys, k)
		}
		sort.Ints(drainedKeys)
		before := rn.dstat.panics
		if !do(op{K: opDrain, DP: plan}) {
			return
		}
		if rn.dstat.panics > before || (reenter && rn.dstat.reCalls > 0) {
			afterPanickingDrain = true
		}
		// D: operations after the Drain: drained keys are set again / moved (no pending timer: no
		// effect) / removed, new keys are set, ticks
		for i, m := 0, r.Range(1, 8); i < m; i++ {
			var o op
			dk := nextKey
			if len(drainedKeys) > 0 {
				dk = kit.Choose(r, drainedKeys)
			}
			switch r.Pick(35, 10, 15, 10, 30) {
			case 0:
				o = op{K: opSet, Key: dk, Steps: steps()}
			case 1:
				o = op{K: opSet, Key: nextKey, Steps: steps()}
				nextKey++
			case 2:
				o = op{K: opMove, Key: dk, Steps: steps()}
			case 3:
				o = op{K: opRemove, Key: dk}
			default:
				o = op{K: opTick}
			}
			before := rn.fires
			if !do(o) {
				return
			}
			if afterPanickingDrain {
				opsAfter++
				firesAfter += rn.fires - before
				if o.K == opSet {
					setsAfter++
				}
			}
		}
	}
	terminal := r.Chance(0.3)
	if terminal {
		plan := genPlan(r, r.Intn(8), 60)
		if reenter && r.Bool() {
			genRearm(r, plan, false, 3*n+2) // the timers it sets fire after the terminal Drain, nothing else does
		}
		for len(rn.model) < 10 {
			if !do(op{K: opSet, Key: nextKey, Steps: r.Range(2, 3*n+2)}) {
				return
			}
			nextKey++
		}
		if (plan.Mode == "first" || plan.Mode == "keys") && plan.N >= len(rn.model) {
			plan.N = len(rn.model) - 1
		}
		if (plan.Re == "first" || plan.Re == "keys") && plan.ReN >= len(rn.model) {
			plan.ReN = len(rn.model) - 1
		}
		rn.seq = append(rn.seq, op{K: opDrain, DP: plan})
		rn.plan = plan
		rn.drain()
	} else {
		before := rn.fires
		rn.flush()
		if afterPanickingDrain {
			firesAfter += rn.fires - before
		}
	}
	if c.Violated() {
		return
	}
	fam := "drain_panic_"
	c.Obs("sequences", 1)
	c.Obs("ops", int64(len(rn.seq)))
	c.Obs("ticks", int64(rn.ticks))
	c.Obs("firings", rn.fires)
	c.Obs("rearms_of_pending_timer", rn.rearms)
	if rn.drains > 0 {
		c.Obs("mid_sequence_drains", rn.drains)
	}
	if fake {
		c.Obs("fake_ticker_sequences", 1)
		c.Obs("fake_ticker_ticks", int64(rn.ticks))
	}
	c.Obs(fam+"histories", 1)
	if reenter {
		c.Obs("drain_reenter_histories", 1)
	}
	if execPanics {
		c.Obs(fam+"histories_with_panicking_execute_callbacks_too", 1)
	}
	if rn.dstat.planned > 1 {
		c.Obs(fam+"histories_with_several_drains", 1)
	}
	rn.dstat.obs(c, "")
	c.Obs("ops_after_a_drain_whose_fn_panicked", opsAfter)
	c.Obs("timers_set_after_a_drain_whose_fn_panicked", setsAfter)
	c.Obs("firings_after_a_drain_whose_fn_panicked", firesAfter)
	sig := []any{"drain-panic", n, fake, reenter, terminal, execPanics}
	for _, o := range rn.seq {
		sig = append(sig, o.String())
	}
	c.Sig((rn.dstat.withPanics > 0 || rn.dstat.reCalls > 0) && opsAfter > 0, sig...)
	if c.Index < 2 {
		c.Sample("drain-panic", 2, map[string]any{"slots": n, "fake_ticker": fake, "drain_workers": drainWorkers, "execute_callbacks_panic_too": execPanics,
			"drains": rn.dlog, "terminal_drain": terminal, "ops": seqStrings(rn.seq)})
	}
}

// ---------------------------------------------------------------- real wheel

// realDrainPanicCase: collection.NewTimingWheel (real ticker). 10..60 timers, most of them with
// delays long enough to be still pending, then a Drain whose function panics as planned. Decided
// without a deadline: once the Drain call has returned, a following synchronous no-op has returned
// (the wheel's loop is back in its select: drainAll has handed over every pending timer) and the
// goroutine count is back at the baseline (every drain worker and every callback has finished),
// every value whose Set returned before the Drain was called - and that was not replaced or removed
// since - has been delivered exactly once: fired before the Drain or handed to the drain function.
// Timers set after the Drain are judged by the sentinel rounds of the "real" family.
func realDrainPanicCase(c *kit.Case, reenter bool) {
	readWorkers()
	r := c.R
	rr := &realRun{c: c, ticker: "timex.NewTicker (real)"}
	rr.I = time.Duration(kit.Choose(r, []int{2, 3})) * time.Millisecond
	rr.n = kit.Choose(r, []int{4, 8, 16, 32, 64})
	if r.Chance(0.4) {
		rr.poison = map[int]bool{}
		for k := 0; k < 200; k++ {
			if r.Chance(0.3) {
				rr.poison[k] = true
			}
		}
		c.Obs("histories_with_panicking_callbacks", 1)
	}
	measureBaseline()
	if !quiesce(procBaseline) {
		c.Inconclusive("goroutine count did not return to the process baseline")
		return
	}
	rr.start = time.Now()
	tw, err := collection.NewTimingWheel(rr.I, rr.n, rr.callback)
	if err != nil {
		c.Viol("C12/ctor/valid-arguments-rejected", "NewTimingWheel returned "+err.Error(), map[string]any{"interval": rr.I.String(), "slots": rr.n})
		return
	}
	rr.tw = tw
	var once sync.Once
	stop := func() { once.Do(tw.Stop) }
	parked := false
	defer func() {
		stop()
		if !parked {
			quiesce(procBaseline)
		}
	}()
	plans := map[int]*drainPlan{}
	resolved := map[int]func(key, idx int) bool{}
	rearms := map[int]func(key, idx int) int{}
	rr.drainPoison = func(nth, key, idx int) bool {
		f := resolved[nth]
		return f != nil && f(key, idx)
	}
	rr.drainRearm = func(nth, key, idx int) int {
		if f := rearms[nth]; f != nil {
			return f(key, idx)
		}
		return 0
	}
	rr.drainClosed = map[int]bool{}
	must := func(o *rop) bool {
		if o.err != nil {
			c.Viol("C12/api-error/"+o.Kind, o.Kind+" returned "+o.err.Error()+" on a running wheel", rr.witness(""))
			return false
		}
		return true
	}
	long := func() int { return r.Range(40, 120) }
	rounds := r.Range(1, 3)
	nextKey := 0
	var st drainStats
	var dlog []string
	opsAfter := int64(0)
	var live map[int]bool // keys that may hold a pending timer (for the plan "keys")
	live = map[int]bool{}
	for round := 0; round < rounds; round++ {
		class := c.Index % 8
		if round > 0 {
			class = r.Intn(8)
		}
		plan := genPlan(r, class, 60)
		if reenter {
			genRearm(r, plan, c.Index%4 == 0 && round == 0, rr.n+4)
		}
		target := wantPending(r, plan)
		for i := 0; i < target; i++ {
			k := nextKey
			if nextKey > 0 && r.Chance(0.3) {
				k = r.Intn(nextKey) // a key used before: pending, fired or drained
			} else {
				nextKey++
			}
			s := long()
			if r.Chance(0.1) {
				s = r.Range(1, 4) // fires before the Drain, more likely than not (its callback may panic)
			}
			if !must(rr.do("case", opSet, k, s, 0)) {
				return
			}
			live[k] = true
			if round > 0 {
				opsAfter++
			}
		}
		for i, m := 0, r.Range(0, 6); i < m; i++ {
			k := r.Intn(nextKey)
			switch r.Pick(50, 25, 25) {
			case 0:
				if !must(rr.do("case", opMove, k, long(), 0)) {
					return
				}
			case 1:
				if !must(rr.do("case", opSet, k, long(), 0)) {
					return
				}
				live[k] = true
			default:
				if !must(rr.do("case", opRemove, k, 0, 0)) {
					return
				}
				delete(live, k)
			}
		}
		if r.Chance(0.3) {
			time.Sleep(time.Duration(r.Range(1, 6)) * rr.I)
		}
		// resolve the plan over the keys that may be pending (a key that has fired meanwhile simply
		// is not delivered by the Drain: the plan then panics for fewer calls, which is counted)
		m := map[int]*mtimer{}
		for k := range live {
			m[k] = nil
		}
		if (plan.Mode == "first" || plan.Mode == "keys") && plan.N >= len(m) {
			plan.N = len(m) - 1
		}
		if (plan.Re == "first" || plan.Re == "keys") && plan.ReN >= len(m) {
			plan.ReN = len(m) - 1
		}
		nth := rr.drains + 1
		rr.mu.Lock()
		plans[nth], resolved[nth], rearms[nth] = plan, plan.resolve(m), plan.rearm(m)
		rr.mu.Unlock()
		d := rr.do("case", opDrain, 0, 0, 0)
		if !must(d) {
			return
		}
		dl, ok := settleWatched(rr.scope(), procBaseline+1, func() { rr.do("case", opRemove, -1, 0, 0) }, stop)
		if dl == nil && !ok {
			c.Inconclusive("real wheel: drain workers / callback goroutines did not finish")
			return
		}
		rr.mu.Lock()
		rr.drainClosed[nth] = true
		resets := rr.drainResets[nth]
		rr.mu.Unlock()
		calls, panics := rr.drainCalls(nth)
		st.add(plan, calls, panics)
		st.addRe(resets)
		dlog = append(dlog, fmt.Sprintf("Drain %d: %s: %d calls of the drain function, %d of them panicked, %d set their key again", nth, plan, calls, panics, resets))
		if dl != nil {
			parked = dl.Kind == "slots-lost"
			key, how := deadlockKey(dl)
			w := rr.witness(how)
			w["drains_whose_function_panics"] = dlog
			w["goroutine_dump"] = dl.Dump
			c.Viol(key, fmt.Sprintf("Drain never completes on the real wheel: after %d calls of the drain function (%d panicked, %d called SetTimer on the wheel) %s; the wheel serves no further operation", calls, panics, resets, how), w)
			if !parked {
				// stopped: the parked operations return ErrClosed and the drain unwinds - or loses its slots on the way
				if ok, d2 := quiesceRunner(dlScope{}, procBaseline); !ok {
					parked = true
					if d2 == nil {
						c.Inconclusive("the goroutines of a stopped wheel did not finish")
					}
				}
			}
			return
		}
		if !rr.drainComplete(d, panics, dlog) {
			return
		}
		live = map[int]bool{}
		c.Obs("real_drains", 1)
		// operations after the Drain (each returns: made by the case goroutine)
		for i, m := 0, r.Range(1, 6); i < m; i++ {
			k := r.Intn(nextKey + 1)
			var o *rop
			switch r.Pick(60, 20, 20) {
			case 0:
				o = rr.do("case", opSet, k, r.Range(1, rr.n+4), 0)
				live[k] = true
			case 1:
				o = rr.do("case", opMove, k, r.Range(1, rr.n+4), 0)
			default:
				o = rr.do("case", opRemove, k, 0, 0)
				delete(live, k)
			}
			if !must(o) {
				return
			}
			if k >= nextKey {
				nextKey = k + 1
			}
			if panics > 0 {
				opsAfter++
			}
		}
	}
	// everything armed before the last Drain is off the wheel (decided above): the sentinel only
	// has to outlast what was armed afterwards
	rr.mu.Lock()
	rr.maxSteps = 1
	da := rr.lastDrainB()
	for _, o := range rr.ops {
		if o.Kind != "drain" && o.B > da && o.Steps > rr.maxSteps {
			rr.maxSteps = o.Steps
		}
	}
	rr.mu.Unlock()
	settled := rr.settle()
	if c.Violated() {
		return
	}
	rr.judge(settled)
	if c.Violated() {
		return
	}
	rr.mu.Lock()
	nops, nf := len(rr.ops), len(rr.fires)
	rr.mu.Unlock()
	c.Obs("real_wheels", 1)
	c.Obs("real_ops", int64(nops))
	c.Obs("real_deliveries", int64(nf))
	if settled {
		c.Obs("real_histories_settled", 1)
	}
	c.Obs("real_drain_panic_histories", 1)
	if reenter {
		c.Obs("real_drain_reenter_histories", 1)
	}
	st.obs(c, "real_")
	c.Obs("real_drain_fn_calls", st.pending)
	c.Obs("real_ops_after_a_drain_whose_fn_panicked", opsAfter)
	c.Sig((st.withPanics > 0 || st.reDrains > 0) && nf > 1, "real-drain-panic", reenter, rr.I, rr.n, rounds, st.geW, st.gtW, st.gt2W, st.reDrains, c.Index)
	if c.Index < 1 {
		w := rr.witness(fmt.Sprintf("settled=%v", settled))
		w["drains_whose_function_panics"] = dlog
		c.Sample("real-drain-panic", 1, w)
	}
}

// lastDrainB: when the last Drain was called (operations begun later are not affected by it).
func (rr *realRun) lastDrainB() time.Duration {
	var b time.Duration
	for _, o := range rr.ops {
		if o.Kind == "drain" && o.B > b {
			b = o.B
		}
	}
	return b
}

// drainCalls: calls of the drain function of the nth Drain, and how many of them panicked.
func (rr *realRun) drainCalls(nth int) (calls, panics int) {
	rr.mu.Lock()
	defer rr.mu.Unlock()
	for _, f := range rr.fires {
		if f.Drain == nth {
			calls++
		}
	}
	return calls, rr.drainPanics[nth]
}

// drainComplete: the Drain d has returned, the loop has served an operation after it and every
// goroutine it started has finished (see realDrainPanicCase). All operations of these histories
// are made by the case goroutine, one after the other.
func (rr *realRun) drainComplete(d *rop, panics int, dlog []string) bool {
	rr.mu.Lock()
	ops := append([]*rop(nil), rr.ops...)
	fires := append([]rfire(nil), rr.fires...)
	rr.mu.Unlock()
	type kv struct{ k, v int }
	count := map[kv]int{}
	for _, f := range fires {
		count[kv{f.Key, f.Val}]++
	}
	last := map[int]*rop{}
	for _, o := range ops {
		if o.err != nil || o.Key < 0 || o.Key >= sentinelBase || o.A > d.B {
			continue
		}
		if o.Kind == "set" || o.Kind == "remove" {
			last[o.Key] = o
		}
	}
	keys := make([]int, 0, len(last))
	for k := range last {
		keys = append(keys, k)
	}
	sort.Ints(keys)
	for _, k := range keys {
		o := last[k]
		if o.Kind != "set" {
			continue
		}
		switch n := count[kv{k, o.Val}]; {
		case n == 0:
			w := rr.witness(fmt.Sprintf("k%d v%d", k, o.Val))
			w["drains_whose_function_panics"] = dlog
			rr.c.Viol("C12/real/drain/missing/"+panicClass(panics), fmt.Sprintf("k%d v%d was set before Drain was called and neither replaced nor removed; the Drain has completed (a later operation was served, every goroutine has finished), yet the value was neither fired nor handed to the drain function", k, o.Val), w)
			return false
		case n > 1:
			rr.c.Viol("C12/real/duplicate/around-drain", fmt.Sprintf("k%d v%d was delivered %d times", k, o.Val, n), rr.witness(""))
			return false
		}
		rr.c.Obs("real_values_delivered_exactly_once_by_drain_time", 1)
	}
	return true
}

// ---------------------------------------------------------------- escaped panics (child process)

const (
	probeEnv       = "VERIF_C12_PROBE"
	probeDrainMsg  = "c12 probe: poisoned drain callback"
	probeExecMsg   = "c12 probe: poisoned execute callback"
	probeOKLine    = "C12PROBE-OK"
	probeStuckLine = "C12PROBE-STUCK"
)

// TestMain: with VERIF_C12_PROBE set this binary is the child of a drain-panic-escape case.
func TestMain(m *testing.M) {
	if spec := os.Getenv(probeEnv); spec != "" {
		probeMain(spec)
		os.Exit(0)
	}
	os.Exit(m.Run())
}

// probeMain: spec = slots,pending,drainPanics,execPanics. One wheel on a hand-driven ticker;
// execPanics timers fire at the first tick with a panicking callback, then `pending` timers are
// drained by a function that panics for drainPanics of them. If go-zero lets one of these panics
// leave its goroutine the process dies with the panic message on stderr.
func probeMain(spec string) {
	var n, pending, dp, ep int
	fmt.Sscanf(spec, "%d,%d,%d,%d", &n, &pending, &dp, &ep)
	tk := &hTicker{c: make(chan time.Time)}
	var mu sync.Mutex
	fired, drained := 0, 0
	tw, err := collection.NewTimingWheelWithTicker(interval, n, func(k, v any) {
		mu.Lock()
		fired++
		mu.Unlock()
		panic(probeExecMsg)
	}, tk)
	if err != nil {
		fmt.Println("C12PROBE-ERR", err)
		os.Exit(4)
	}
	done := make(chan struct{})
	go func() {
		defer close(done)
		for i := 0; i < ep; i++ {
			tw.SetTimer(1000+i, i, interval)
		}
		for i := 0; i < pending; i++ {
			tw.SetTimer(i, i, time.Duration(2+i%(3*n))*interval)
		}
		if ep > 0 {
			tk.c <- time.Time{}
			tw.RemoveTimer(-1)
		}
		tw.Drain(func(k, v any) {
			mu.Lock()
			drained++
			mu.Unlock()
			if k.(int) < dp {
				panic(probeDrainMsg)
			}
		})
		tw.RemoveTimer(-1)
		for i := 0; i < 5000; i++ {
			mu.Lock()
			ok := fired >= ep && drained >= pending
			mu.Unlock()
			if ok {
				break
			}
			time.Sleep(time.Millisecond)
		}
	}()
	select {
	case <-done:
	case <-time.After(45 * time.Second):
		fmt.Println(probeStuckLine)
		os.Exit(0)
	}
	mu.Lock()
	defer mu.Unlock()
	fmt.Printf("%s fired=%d drained=%d\n", probeOKLine, fired, drained)
}

func escapeProbeCase(c *kit.Case) {
	r := c.R
	n0 := runtime.NumGoroutine()
	defer func() {
		// the goroutines os/exec used are gone before the next case takes its goroutine baseline
		if !quiesce(n0) {
			c.Inconclusive("escape probe: helper goroutines did not finish")
		}
	}()
	n := kit.Choose(r, []int{1, 3, 8, 16})
	pending := r.Range(10, 30)
	dp := r.Range(1, 3)
	ep := 0
	if c.Index%2 == 1 {
		ep = r.Range(1, 3)
	}
	spec := fmt.Sprintf("%d,%d,%d,%d", n, pending, dp, ep)
	cmd := exec.Command(os.Args[0], "-test.run", "^$", "-test.timeout", "0")
	for _, e := range os.Environ() {
		if strings.HasPrefix(e, "VERIF_OUT=") || strings.HasPrefix(e, "VERIF_STUCK_S=") || strings.HasPrefix(e, "GORACE=") {
			continue
		}
		cmd.Env = append(cmd.Env, e)
	}
	cmd.Env = append(cmd.Env, probeEnv+"="+spec, "GOTRACEBACK=all")
	type res struct {
		out []byte
		err error
	}
	ch := make(chan res, 1)
	go func() {
		o, err := cmd.CombinedOutput()
		ch <- res{o, err}
	}()
	var rs res
	select {
	case rs = <-ch:
	case <-time.After(120 * time.Second):
		if cmd.Process != nil {
			cmd.Process.Kill()
		}
		<-ch
		c.Inconclusive("escape probe: the child process did not finish within the 120 s watchdog")
		return
	}
	out := string(rs.out)
	w := map[string]any{"slots": n, "pending_timers": pending, "drain_fn_panics_for_keys_below": dp, "timers_with_panicking_execute_callback": ep, "child_output_tail": tailLines(out, 60)}
	escaped := func(msg string) bool {
		for _, ln := range strings.Split(out, "\n") {
			if strings.HasPrefix(ln, "panic: ") && strings.Contains(ln, msg) && !strings.Contains(ln, "[recovered]") {
				return true
			}
		}
		return false
	}
	switch {
	case escaped(probeDrainMsg):
		c.Viol("C12/drain/callback-panic-kills-process", "a panic of the function passed to Drain was not contained by go-zero: it left the goroutine that called the function and took the process down; the remaining pending timers were never delivered", w)
	case escaped(probeExecMsg):
		c.Viol("C12/execute-callback-panic-kills-process", "a panic of a timer's execute callback was not contained by go-zero: it took the process down (the other timers never fire)", w)
	case rs.err == nil && strings.Contains(out, probeOKLine):
		want := fmt.Sprintf("%s fired=%d drained=%d", probeOKLine, ep, pending)
		if !strings.Contains(out, want) {
			c.Viol("C12/drain/missing/child-process", "in the child process the Drain did not deliver every pending timer exactly once (or a timer did not fire exactly once): want "+want, w)
			return
		}
		c.Obs("escape_probes_child_survived_panicking_callbacks", 1)
		c.Obs("escape_probe_drain_fn_panics", int64(dp))
		c.Obs("escape_probe_execute_panics", int64(ep))
	case rs.err == nil && strings.Contains(out, probeStuckLine):
		c.Inconclusive("escape probe: the child's operations did not return within its watchdog (decided by the in-process families)")
	default:
		c.Inconclusive(fmt.Sprintf("escape probe: child ended with %v and no recognisable output: %s", rs.err, tailLines(out, 5)))
	}
	c.Sig(false, "escape-probe", spec)
}

func tailLines(s string, n int) string {
	lines := strings.Split(strings.TrimRight(s, "\n"), "\n")
	if len(lines) > n {
		lines = lines[len(lines)-n:]
	}
	return strings.Join(lines, "\n")
}

func drainPanicFamilies(t *testing.T) {
	kit.Run(t, "C12", "drain-panic", kit.N(320, 12000), func(c *kit.Case) { drainPanicCase(c, false, false) })
	kit.Run(t, "C12", "drain-panic-fake", kit.N(128, 4000), func(c *kit.Case) { drainPanicCase(c, true, false) })
	kit.Run(t, "C12", "drain-reenter", kit.N(192, 6000), func(c *kit.Case) { drainPanicCase(c, false, true) })
	kit.Run(t, "C12", "drain-reenter-fake", kit.N(64, 2000), func(c *kit.Case) { drainPanicCase(c, true, true) })
	kit.Run(t, "C12", "real-drain-panic", kit.N(64, 2000), func(c *kit.Case) { realDrainPanicCase(c, false) })
	kit.Run(t, "C12", "real-drain-reenter", kit.N(32, 1000), func(c *kit.Case) { realDrainPanicCase(c, true) })
}

// escapeFamily runs first in the test function: a go-zero that lets a callback's panic escape takes
// the process down in the first family with panicking callbacks, and the verdict must be in by then.
func escapeFamily(t *testing.T) {
	kit.Run(t, "C12", "drain-panic-escape", kit.N(16, 64), escapeProbeCase)
}
