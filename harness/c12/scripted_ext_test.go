package c12

// Further scripted (logical tick) families: the same reference-model monitor as in c12_test.go,
//   - driven through go-zero's own timex.NewFakeTicker instead of the harness ticker,
//   - with callbacks that call SetTimer/MoveTimer/RemoveTimer on the wheel that called them,
//   - with operations outside the statement's domain (delays below one interval) on separate keys,
//     about which nothing is asserted except that the other keys are not disturbed.

import (
	"fmt"
	"testing"
	"time"

	"verifharness/kit"
)

// genSeq draws a random operation sequence (same shape as the "random" family).
func genSeq(r *kit.Rand, n, keys, L int, fractions bool) []op {
	seq := make([]op, 0, L)
	for i := 0; i < L; i++ {
		var o op
		switch r.Pick(30, 25, 8, 37) {
		case 0:
			o = op{K: opSet}
		case 1:
			o = op{K: opMove}
		case 2:
			o = op{K: opRemove}
		default:
			o = op{K: opTick}
		}
		o.Key = r.Intn(keys)
		if o.K == opSet || o.K == opMove {
			o.Steps = genSteps(r, n)
			if fractions && r.Chance(0.2) {
				o.Frac = time.Duration(r.Range(1, int(interval)-1))
			}
		}
		seq = append(seq, o)
	}
	return seq
}

func genSteps(r *kit.Rand, n int) int {
	switch r.Pick(3, 3, 2, 2) {
	case 0:
		return r.Range(1, n+1)
	case 1:
		return kit.Choose(r, delaysFor(n))
	case 2:
		return r.Range(1, 5*n+1)
	}
	return r.Range(1, 3)
}

func seqStrings(seq []op) []string {
	s := make([]string, len(seq))
	for i, o := range seq {
		s[i] = o.String()
	}
	return s
}

func genPoison(r *kit.Rand, keys int) map[int]bool {
	p := map[int]bool{}
	for k := 0; k < keys; k++ {
		if r.Chance(0.4) {
			p[k] = true
		}
	}
	return p
}

// genScript: about half of the keys get a callback that operates on the wheel.
func genScript(r *kit.Rand, n, keys int) map[int]cbAct {
	sc := map[int]cbAct{}
	for k := 0; k < keys; k++ {
		if !r.Chance(0.55) {
			continue
		}
		a := cbAct{Key: r.Intn(keys), Steps: genSteps(r, n)}
		switch r.Pick(30, 20, 30, 20) {
		case 0:
			a.K, a.Key = opSet, k // re-arm itself (what the cache cleaner does for a retry)
		case 1:
			a.K = opSet
		case 2:
			a.K = opMove
		default:
			a.K = opRemove
		}
		sc[k] = a
	}
	return sc
}

func scriptedExtFamilies(t *testing.T) {
	// ---- the scripted histories through timex.NewFakeTicker
	useFakeTicker = true
	{
		const n, keys, L, batch = 3, 1, 3, 500
		al := alphabet(n, keys)
		total := 1
		for i := 0; i < L; i++ {
			total *= len(al)
		}
		fam := fmt.Sprintf("fake-exh-n%d-k%d-L%d", n, keys, L)
		kit.Run(t, "C12", fam, (total+batch-1)/batch, func(c *kit.Case) {
			lo, hi := c.Index*batch, (c.Index+1)*batch
			if hi > total {
				hi = total
			}
			for idx := lo; idx < hi && !c.Violated(); idx++ {
				seq := make([]op, L)
				x := idx
				for i := L - 1; i >= 0; i-- {
					seq[i] = al[x%len(al)]
					x /= len(al)
				}
				runSeq(c, n, seq, false)
				c.Evals(1)
			}
		})
	}
	kit.Run(t, "C12", "fake-random", kit.N(500, 20000), func(c *kit.Case) {
		r := c.R
		n := kit.Choose(r, []int{1, 2, 3, 4, 5, 7, 8, 16, 31})
		keys := r.Range(1, 8)
		seq := genSeq(r, n, keys, r.Range(5, 80), true)
		drain := r.Chance(0.3)
		if r.Chance(0.3) {
			poisonKeys = genPoison(r, keys)
			c.Obs("histories_with_panicking_callbacks", 1)
		}
		runSeq(c, n, seq, drain)
		poisonKeys = nil
		if c.Index < 1 {
			c.Sample("fake-random", 1, map[string]any{"slots": n, "keys": keys, "drain": drain, "ticker": "timex.NewFakeTicker", "ops": seqStrings(seq)})
		}
	})
	// Done/Wait of the fake ticker, used the way go-zero's own tests use them: the callback
	// announces the firing with Done(), the test picks it up with Wait(). Necessary conditions
	// only: with no Done() outstanding Wait can end in its timeout only (an error); after the
	// timer's callback called Done(), Wait returns nil (bounded wait = watchdog).
	kit.Run(t, "C12", "fake-done-wait", kit.N(24, 400), func(c *kit.Case) {
		fakeDoneWait(c)
	})
	useFakeTicker = false

	// ---- callbacks that operate on the wheel they are called by
	for _, fake := range []bool{false, true} {
		fam := "cb-rearm"
		cnt := kit.N(700, 30000)
		if fake {
			fam, cnt = "cb-rearm-fake", kit.N(200, 8000)
		}
		useFakeTicker = fake
		kit.Run(t, "C12", fam, cnt, func(c *kit.Case) {
			r := c.R
			n := kit.Choose(r, []int{1, 2, 3, 4, 5, 7, 8, 16})
			keys := r.Range(1, 6)
			seq := genSeq(r, n, keys, r.Range(5, 80), false)
			cbScript = genScript(r, n, keys)
			cbBudget = r.Range(2, 40)
			if r.Chance(0.3) {
				poisonKeys = genPoison(r, keys) // the callback operates on the wheel, then panics
				c.Obs("histories_with_panicking_callbacks", 1)
			}
			drain := r.Chance(0.2)
			runSeq(c, n, seq, drain)
			if len(cbScript) > 0 {
				c.Obs("histories_with_callback_scripts", 1)
			}
			if c.Index < 2 {
				sc := map[string]string{}
				for k, a := range cbScript {
					sc[fmt.Sprintf("k%d", k)] = a.String()
				}
				c.Sample(fam, 2, map[string]any{"slots": n, "keys": keys, "drain": drain, "callback_script": sc, "callback_budget": cbBudget, "ops": seqStrings(seq)})
			}
			cbScript, cbBudget, poisonKeys = nil, 0, nil
		})
	}
	useFakeTicker = false
	// bounded-exhaustive with a fixed script: k0's callback re-arms k0 one revolution later,
	// k1's callback moves k0 by two ticks
	{
		const n, keys, L, batch = 3, 2, 3, 1000
		al := alphabet(n, keys)
		total := 1
		for i := 0; i < L; i++ {
			total *= len(al)
		}
		kit.Run(t, "C12", "cb-exh-n3-k2-L3", (total+batch-1)/batch, func(c *kit.Case) {
			lo, hi := c.Index*batch, (c.Index+1)*batch
			if hi > total {
				hi = total
			}
			for idx := lo; idx < hi && !c.Violated(); idx++ {
				seq := make([]op, L)
				x := idx
				for i := L - 1; i >= 0; i-- {
					seq[i] = al[x%len(al)]
					x /= len(al)
				}
				cbScript = map[int]cbAct{0: {K: opSet, Key: 0, Steps: n}, 1: {K: opMove, Key: 0, Steps: 2}}
				cbBudget = 3
				runSeq(c, n, seq, false)
				c.Evals(1)
			}
			cbScript, cbBudget = nil, 0
		})
	}

	// ---- delays below one interval on separate ("wild") keys: outside the statement's domain,
	// nothing is asserted about those keys; every other key must follow the model exactly
	kit.Run(t, "C12", "subinterval", kit.N(300, 10000), func(c *kit.Case) {
		r := c.R
		n := kit.Choose(r, []int{1, 2, 3, 5, 8, 16})
		keys := r.Range(1, 5)
		seq := genSeq(r, n, keys, r.Range(5, 70), true)
		wild := 0
		for i := range seq {
			if seq[i].K == opTick || !r.Chance(0.3) {
				continue
			}
			seq[i].Key = wildBase + r.Intn(3)
			if seq[i].K != opRemove && r.Chance(0.7) {
				seq[i].Steps = 0
				seq[i].Frac = time.Duration(r.Range(1, int(interval)-1))
				wild++
			}
		}
		runSeq(c, n, seq, r.Chance(0.3))
		c.Obs("ops_with_delay_below_one_interval", int64(wild))
		if c.Index < 1 {
			c.Sample("subinterval", 1, map[string]any{"slots": n, "keys": keys, "ops": seqStrings(seq)})
		}
	})
}

// fakeDoneWait: one wheel on a fake ticker, a handful of timers whose callback calls Done().
func fakeDoneWait(c *kit.Case) {
	r := c.R
	n := kit.Choose(r, []int{1, 2, 3, 5, 8})
	steps := r.Range(1, 2*n+1)
	rounds := r.Range(1, 4)
	useFakeTicker = true
	rn := newRunner(c, n, nil)
	defer rn.stop()
	ft := rn.tk.(fTicker)
	// no Done() outstanding: Wait has nothing but its timeout to return with
	if err := ft.Wait(time.Duration(r.Range(1, 3)) * time.Millisecond); err == nil {
		c.Viol("C12/fake-ticker/wait-nil-without-done", "FakeTicker.Wait returned nil although Done() had not been called", map[string]any{"slots": n})
		return
	}
	c.Obs("fake_wait_timeouts", 1)
	for round := 0; round < rounds && !c.Violated(); round++ {
		// the harness calls Done() once it has seen the firing, then Wait() must see it
		rn.seq = append(rn.seq, op{K: opSet, Key: 0, Steps: steps})
		rn.apply(op{K: opSet, Key: 0, Steps: steps})
		for i := 0; i < steps && !c.Violated(); i++ {
			rn.seq = append(rn.seq, op{K: opTick})
			before := rn.fires
			rn.tick()
			if rn.fires > before {
				// Done() from a helper goroutine, Wait() here: the way go-zero's own tests pair
				// them; holds for a buffered as well as for a rendezvous implementation of Done.
				// With a Done() under way the timeout of Wait is a mere watchdog.
				doneRet := make(chan struct{})
				go func() {
					ft.Done()
					close(doneRet)
				}()
				err := ft.Wait(time.Minute)
				select {
				case <-doneRet:
				case <-time.After(time.Minute):
					c.Inconclusive("FakeTicker.Done did not return within the watchdog")
					return
				}
				if err != nil {
					c.Inconclusive("FakeTicker.Wait ran into its one-minute timeout although Done() was under way: " + err.Error())
					return
				}
				c.Obs("fake_done_wait_pairs", 1)
			}
		}
	}
	if !c.Violated() {
		rn.flush()
	}
	c.Obs("fake_ticker_sequences", 1)
	c.Obs("fake_ticker_ticks", int64(rn.ticks))
	c.Sig(false, "fake-done-wait", n, steps, rounds)
}
