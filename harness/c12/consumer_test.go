package c12

// The two consumers named by the property's anchors, on their own production wheels (real 1 s
// ticker, 300 slots): the cache cleaner (core/stores/cache.AddCleanTask) and the in-memory cache
// (core/collection.Cache). For both "every set timer fires exactly once" reads: every clean task
// runs (exactly once while it succeeds), every cached key expires. Decided without deadlines by
// tick counting, as on the real wheel (real_test.go): all these timers are set with a delay of one
// tick, so a sentinel set LATER cannot be due at an EARLIER tick; once the sentinel's effect has
// been observed and the process is quiescent again, a timer set before it that has not fired is
// missing. Only the sentinel itself is waited for with a watchdog (-> inconclusive).

import (
	"errors"
	"fmt"
	"runtime"
	"sync"
	"testing"
	"time"

	"github.com/zeromicro/go-zero/core/collection"
	"github.com/zeromicro/go-zero/core/stores/cache"

	"verifharness/kit"
)

type cleanTask struct {
	id       int
	keys     []string
	failures int // fails that many times before it succeeds
	runs     []time.Duration
	added    time.Duration
}

// waitFor polls cond with a watchdog; false = watchdog.
func waitFor(cond func() bool, d time.Duration) bool {
	deadline := time.Now().Add(d)
	for !cond() {
		if time.Now().After(deadline) {
			return false
		}
		time.Sleep(2 * time.Millisecond)
	}
	return true
}

func cleanerCase(c *kit.Case) {
	r := c.R
	measureBaseline()
	if !quiesce(procBaseline) {
		c.Inconclusive("goroutine count did not return to the process baseline")
		return
	}
	start := time.Now()
	var mu sync.Mutex
	m := r.Range(4, 16)
	lists := [][]string{}
	for i := 0; i < r.Range(1, 4); i++ {
		var ks []string
		for j := 0; j < r.Range(1, 3); j++ {
			ks = append(ks, fmt.Sprintf("c12:%d:%d:k%d", c.Index, i, j))
		}
		lists = append(lists, ks)
	}
	withRetry := c.Index%4 == 0 // one retry costs five more ticks (5 s): only some cases
	tasks := make([]*cleanTask, m)
	add := func(t *cleanTask) {
		t.added = time.Since(start)
		cache.AddCleanTask(func() error {
			mu.Lock()
			defer mu.Unlock()
			t.runs = append(t.runs, time.Since(start))
			if len(t.runs) <= t.failures {
				return errors.New("c12: clean task fails on purpose")
			}
			return nil
		}, t.keys...)
	}
	for i := range tasks {
		t := &cleanTask{id: i, keys: kit.Choose(r, lists)}
		if withRetry && i == 0 {
			t.failures = 1
		}
		tasks[i] = t
		add(t)
		if r.Chance(0.2) {
			time.Sleep(time.Duration(r.Range(1, 300)) * time.Millisecond)
		}
	}
	witness := func(extra string) map[string]any {
		mu.Lock()
		defer mu.Unlock()
		var ts []string
		for _, t := range tasks {
			ts = append(ts, fmt.Sprintf("task %d keys=%v fails_first=%d added=%v runs=%v", t.id, t.keys, t.failures, t.added, t.runs))
		}
		return map[string]any{"tasks_in_order_of_AddCleanTask": ts, "detail": extra}
	}
	runsOf := func(t *cleanTask) int {
		mu.Lock()
		defer mu.Unlock()
		return len(t.runs)
	}
	sameKeys := func(t *cleanTask) string {
		for _, o := range tasks {
			if o != t && fmt.Sprint(o.keys) == fmt.Sprint(t.keys) {
				return "same-keys-as-another-task"
			}
		}
		return "keys-of-its-own"
	}
	// sentinel: a task on keys of its own added after all the others (one tick like them)
	sentinel := &cleanTask{id: -1, keys: []string{fmt.Sprintf("c12:%d:sentinel", c.Index)}}
	add(sentinel)
	if !waitFor(func() bool { return runsOf(sentinel) >= 1 }, 90*time.Second) {
		c.Inconclusive("cleaner: the sentinel task did not run within the 90 s watchdog")
		return
	}
	if !quiesce(procBaseline) {
		c.Inconclusive("cleaner: worker goroutines did not finish")
		return
	}
	for _, t := range tasks {
		switch n := runsOf(t); {
		case n == 0:
			c.Viol("C12/consumer-cleaner/task-never-ran/"+sameKeys(t), fmt.Sprintf("clean task %d was never run although a task added later (same delay) has run and all workers have finished", t.id), witness(""))
			return
		case n > 1:
			c.Viol("C12/consumer-cleaner/task-ran-twice/"+sameKeys(t), fmt.Sprintf("clean task %d ran %d times within one tick", t.id, n), witness(""))
			return
		}
	}
	c.Obs("cleaner_tasks_run_exactly_once", int64(len(tasks)))
	if withRetry {
		// tasks[0] has failed and - the process being quiescent - its worker has re-armed it five
		// ticks later. A second sentinel that fails once is added now: it is re-armed (five ticks
		// as well) after tasks[0] was, so once the sentinel's retry has run the retry of tasks[0]
		// must have run - exactly one more time, as it succeeds now.
		sentinel = &cleanTask{id: -2, keys: []string{fmt.Sprintf("c12:%d:sentinel2", c.Index)}, failures: 1}
		add(sentinel)
		if !waitFor(func() bool { return runsOf(sentinel) >= 2 }, 120*time.Second) {
			c.Inconclusive("cleaner: the sentinel's retry did not run within the 120 s watchdog")
			return
		}
		if !quiesce(procBaseline) {
			c.Inconclusive("cleaner: worker goroutines did not finish")
			return
		}
		t := tasks[0]
		mu.Lock()
		runs := append([]time.Duration(nil), t.runs...)
		mu.Unlock()
		switch {
		case len(runs) < 2:
			c.Viol("C12/consumer-cleaner/retry-never-ran/"+sameKeys(t), "a failed clean task was not retried although the retry of a task that failed later has run", witness(""))
			return
		case len(runs) > 2:
			c.Viol("C12/consumer-cleaner/retry-ran-twice/"+sameKeys(t), fmt.Sprintf("a clean task that failed once ran %d times", len(runs)), witness(""))
			return
		case runs[1]-runs[0] < (5-slackTicks)*time.Second:
			c.Viol("C12/consumer-cleaner/retry-early", fmt.Sprintf("the retry (5 ticks of 1 s) ran %v after the failed attempt", runs[1]-runs[0]), witness(""))
			return
		}
		for _, o := range tasks[1:] {
			if n := runsOf(o); n != 1 {
				c.Viol("C12/consumer-cleaner/task-ran-twice/"+sameKeys(o), fmt.Sprintf("clean task %d ran %d times", o.id, n), witness(""))
				return
			}
		}
		c.Obs("cleaner_retries_run_exactly_once", 1)
	}
	c.Obs("cleaner_histories", 1)
	c.Sig(len(lists) < m, "cleaner", m, len(lists), withRetry, c.Index)
	if c.Index < 1 {
		c.Sample("consumer-cleaner", 1, witness(""))
	}
}

// cacheCase: a collection.Cache with an LRU limit. Keys are set, evicted by the limit and set again
// in one burst; in the end every key that is still resident must expire.
//
// The expiry is 5 s (jittered by the cache to 4.75..5.25 s = 4 or 5 ticks of its 1 s wheel), so
// that no key can expire within one second of its Set (4 ticks minus the 3 ticks of phase slack,
// see real_test.go): a burst that took less than a second on the monotonic clock did not overlap
// any expiry callback. (An expiry callback that overlaps a Set of the same key is a different
// story - Cache.Del cancels the timer after it has released the lock - and is not what this family
// is about: slower bursts are counted and not judged.) The sentinel is set last with 7 s (6 or 7
// ticks), hence is due no earlier than any key of the burst.
func cacheCase(c *kit.Case) {
	r := c.R
	if cleanerRunnerDead {
		// consumer-cleaner-panic found the cleaner's task runner without a free slot and nobody to free
		// one (reported there): every tick of the cleaner's wheel now parks another goroutine, so the
		// goroutine census this case relies on has no baseline any more
		c.Inconclusive("cache: the goroutine census has no baseline (goroutines of the cache cleaner are parked for ever, see consumer-cleaner-panic)")
		return
	}
	measureBaseline()
	if !quiesce(procBaseline) {
		c.Inconclusive("goroutine count did not return to the process baseline")
		return
	}
	type sub struct {
		ch     *collection.Cache
		limit  int
		nkeys  int
		hist   []string
		t0     time.Time
		burst  time.Duration
		judged bool
	}
	// several caches per case: their expiries are waited for together
	subs := make([]*sub, 6)
	base := procBaseline
	// the caches own goroutines (wheel, statistics loop) that cannot be stopped from outside the
	// package: they join the baseline of the goroutine census
	defer func() { procBaseline = base }()
	for i := range subs {
		sb := &sub{limit: r.Range(1, 3)}
		sb.nkeys = sb.limit + r.Range(1, 3)
		ch, err := collection.NewCache(5*time.Second, collection.WithLimit(sb.limit), collection.WithName(fmt.Sprintf("c12-%d-%d", c.Index, i)))
		if err != nil {
			c.Viol("C12/consumer-cache/new", err.Error(), nil)
			return
		}
		sb.ch = ch
		base = runtime.NumGoroutine()
		subs[i] = sb
		sets := r.Range(20, 120)
		val := 0
		sb.t0 = time.Now()
		for j := 0; j < sets; j++ {
			k := fmt.Sprintf("k%d", r.Intn(sb.nkeys))
			if j >= sets-2*sb.nkeys {
				// tail: round robin over all keys, so that each key that is resident in the end
				// was evicted shortly before it was set again
				k = fmt.Sprintf("k%d", j%sb.nkeys)
			}
			val++
			ch.Set(k, val)
			sb.hist = append(sb.hist, fmt.Sprintf("Set(%s,%d)", k, val))
		}
		ch.SetWithExpire("sentinel", -1, 7*time.Second)
		sb.hist = append(sb.hist, "SetWithExpire(sentinel,-1,7s)")
		sb.burst = time.Since(sb.t0)
		if sb.burst >= time.Second {
			c.Obs("cache_bursts_too_slow_to_judge", 1)
			continue
		}
		sb.judged = true
		c.Obs("cache_sets", int64(sets))
	}
	gone := func(sb *sub, k string) bool {
		_, ok := sb.ch.Get(k)
		return !ok
	}
	for _, sb := range subs {
		if !sb.judged {
			continue
		}
		if !waitFor(func() bool { return gone(sb, "sentinel") }, 120*time.Second) {
			c.Inconclusive("cache: the sentinel key did not expire within the 120 s watchdog")
			return
		}
	}
	if !quiesce(base) {
		c.Inconclusive("cache: expiry goroutines did not finish")
		return
	}
	for _, sb := range subs {
		if !sb.judged {
			continue
		}
		for i := 0; i < sb.nkeys; i++ {
			k := fmt.Sprintf("k%d", i)
			if !gone(sb, k) {
				c.Viol("C12/consumer-cache/key-never-expires", fmt.Sprintf("%s is still cached although a key set later with a longer expiry has expired and every expiry callback has finished", k),
					map[string]any{"limit": sb.limit, "expire": "5s", "history": sb.hist, "burst_took": sb.burst.String(), "sentinel_expired_after": time.Since(sb.t0).String()})
				return
			}
		}
		c.Obs("cache_histories", 1)
		c.Sig(true, "cache", sb.limit, sb.nkeys, len(sb.hist), c.Index)
	}
	if c.Index < 1 {
		c.Sample("consumer-cache", 1, map[string]any{"limit": subs[0].limit, "keys": subs[0].nkeys, "history": subs[0].hist})
	}
}

func consumerFamilies(t *testing.T) {
	kit.Run(t, "C12", "consumer-cleaner", kit.N(32, 600), cleanerCase)
	kit.Run(t, "C12", "consumer-cleaner-panic", kit.N(16, 320), cleanerPanicCase) // consumer_panic_test.go
	kit.Run(t, "C12", "consumer-cache", kit.N(16, 320), cacheCase)
}
