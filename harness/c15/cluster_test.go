package c15

// Families "cache-cluster" and "kv-store" (extension of the C15 check): the two users of the
// ring that put nodes and weights on it - cache.New(ClusterConf, ...) and kv.NewStore(KvConf).
//
// The dispatchers are built through the PUBLIC constructors from configurations of
// (redis node, weight) over six in-process miniredis servers, and the only thing observed is
// where keys go: a pre-hook on every miniredis records which probe keys arrive at which server
// (cache: one multi-key Del is grouped by go-zero into one DEL per node, so a whole probe set
// costs one round trip per node; kv: one single-key command per probe key).
//
// A case is a chain of configurations; each step is one reconfiguration and the statement's
// clause for it is applied to the observed key -> server mapping before/after:
//   add-node    : a key whose server changed now goes to the added node
//   remove-node : a key whose server changed went to the removed node before
//   reweight    : a key whose server changed goes to or went to the reweighted node
//   dup-reweight: the same, expressed as a second entry for a node already in the list
//                 (the later entry re-adds the node), and the result must equal the
//                 configuration that lists the node once with the new weight
//   reorder     : same (node, weight) set in another order -> identical mapping
//   rebuild     : same configuration built again -> identical mapping
// and always: every key arrives at exactly one server, which is a node of the configuration.
// Weights follow four styles (percent with 100s, relative small integers, all below 100, above
// 100) plus the occasional 0 / negative weight next to positive ones, so that reconfigurations
// that change the heaviest weight of the configuration are frequent (counter
// cluster_steps_heaviest_weight_changed).
//
// Transport trouble is never a verdict: a key that arrives at no server without go-zero
// reporting it, or at two servers (a late retry), or a command error makes the case
// inconclusive. Keys are unique per case, so a late retry cannot leak into another case.

import (
	"errors"
	"fmt"
	"os"
	"strconv"
	"strings"
	"sync"

	"github.com/alicebob/miniredis/v2"
	"github.com/alicebob/miniredis/v2/server"
	"github.com/zeromicro/go-zero/core/stores/cache"
	"github.com/zeromicro/go-zero/core/stores/kv"
	"github.com/zeromicro/go-zero/core/stores/redis"
	"github.com/zeromicro/go-zero/core/syncx"

	"verifharness/kit"
)

const (
	nServers  = 6
	keyPrefix = "vk15:"
)

type rsrv struct {
	mr   *miniredis.Miniredis
	addr string
	name string // r0..r5: stable name used in witnesses and signatures
	mu   sync.Mutex
	seen map[string]int
}

func (s *rsrv) hook(_ *server.Peer, _ string, args ...string) bool {
	for _, a := range args {
		if strings.HasPrefix(a, keyPrefix) {
			s.mu.Lock()
			s.seen[a]++
			s.mu.Unlock()
		}
	}
	return false // not handled here: miniredis executes the command
}

func (s *rsrv) reset() {
	s.mu.Lock()
	s.seen = map[string]int{}
	s.mu.Unlock()
}

func (s *rsrv) saw(k string) bool {
	s.mu.Lock()
	defer s.mu.Unlock()
	return s.seen[k] > 0
}

var (
	srvOnce sync.Once
	srvs    []*rsrv
)

// servers starts the six miniredis instances of this process. Preferably on addresses that
// are a pure function of the shard (127.15.<shard>.<n>:6379), so that a case replays to the
// same ring; if such an address is taken (another run of this check on the machine) a free
// port on 127.0.0.1 is used instead - every verdict is a comparison within one process.
func servers() []*rsrv {
	srvOnce.Do(func() {
		shard, _ := strconv.Atoi(os.Getenv("VERIF_SHARD"))
		if only := kit.GetEnv().Only; only != "" {
			// replay of one case: use the addresses of the shard the case ran on
			// (index mod the shard count of props/C15.json: 8 quick, 16 thorough)
			if i := strings.LastIndex(only, "/"); i >= 0 {
				if idx, err := strconv.Atoi(only[i+1:]); err == nil {
					shard = idx % 8
					if kit.Thorough() {
						shard = idx % 16
					}
				}
			}
		}
		for i := 0; i < nServers; i++ {
			s := &rsrv{mr: miniredis.NewMiniRedis(), name: "r" + strconv.Itoa(i), seen: map[string]int{}}
			if err := s.mr.StartAddr(fmt.Sprintf("127.15.%d.%d:6379", shard%250, i+1)); err != nil {
				s.mr = miniredis.NewMiniRedis()
				if err := s.mr.Start(); err != nil {
					panic("c15: cannot start miniredis: " + err.Error())
				}
				kit.Obs("cluster_servers_on_fallback_address", 1)
			}
			s.addr = s.mr.Addr()
			s.mr.Server().SetPreHook(s.hook)
			srvs = append(srvs, s)
		}
	})
	return srvs
}

type cnode struct {
	Srv    int `json:"server"`
	Weight int `json:"weight"`
}

type cconf []cnode

func (cc cconf) String() string {
	var sb strings.Builder
	sb.WriteString("{")
	for i, n := range cc {
		if i > 0 {
			sb.WriteString(" ")
		}
		fmt.Fprintf(&sb, "r%d:%d", n.Srv, n.Weight)
	}
	sb.WriteString("}")
	return sb.String()
}

func (cc cconf) clusterConf() cache.ClusterConf {
	ss := servers()
	var out cache.ClusterConf
	for _, n := range cc {
		out = append(out, cache.NodeConf{
			RedisConf: redis.RedisConf{Host: ss[n.Srv].addr, Type: redis.NodeType, NonBlock: true},
			Weight:    n.Weight,
		})
	}
	return out
}

// total as go-zero counts it (negative weights count 0): must stay positive, or New is fatal.
func (cc cconf) total() int {
	t := 0
	for _, n := range cc {
		if n.Weight > 0 {
			t += n.Weight
		}
	}
	return t
}

func (cc cconf) heaviest() int {
	m := 0
	for i, n := range cc {
		if i == 0 || n.Weight > m {
			m = n.Weight
		}
	}
	return m
}

func (cc cconf) has(srv int) bool {
	for _, n := range cc {
		if n.Srv == srv {
			return true
		}
	}
	return false
}

func (cc cconf) clone() cconf { return append(cconf(nil), cc...) }

var errC15NotFound = errors.New("c15: not found")

var (
	statOnce sync.Once
	cstat    *cache.Stat
)

// one Stat per process: every NewStat starts a reporting goroutine that never ends
func clusterStat() *cache.Stat {
	statOnce.Do(func() { cstat = cache.NewStat("verif-c15") })
	return cstat
}

// router observes where a dispatcher sends keys. owner[i] = server index, -1 = go-zero reported
// that it has no node for the key; ok=false: the transport misbehaved (inconclusive).
type router interface {
	route(keys []string) (owner []int, why string, ok bool)
	crossCheck(c *kit.Case, keys []string, owner []int) (viol string, why string, ok bool)
}

func collect(keys []string, missing map[string]bool) (owner []int, why string, ok bool) {
	ss := servers()
	owner = make([]int, len(keys))
	for i, k := range keys {
		owner[i] = -2
		for si, s := range ss {
			if s.saw(k) {
				if owner[i] != -2 {
					return nil, fmt.Sprintf("key %q arrived at two servers (%s and %s): late retry", k, ss[owner[i]].name, s.name), false
				}
				owner[i] = si
			}
		}
		if owner[i] == -2 {
			if missing[k] {
				owner[i] = -1
				continue
			}
			return nil, fmt.Sprintf("key %q arrived at no server and go-zero reported nothing", k), false
		}
	}
	return owner, "", true
}

func resetAll() {
	for _, s := range servers() {
		s.reset()
	}
}

type cacheRouter struct{ c cache.Cache }

func (cr cacheRouter) route(keys []string) ([]int, string, bool) {
	resetAll()
	missing := map[string]bool{}
	if err := cr.c.Del(keys...); err != nil {
		// cacheCluster.Del reports the keys it has no node for: `key "<k>" not found`
		msg := err.Error()
		found := false
		for _, k := range keys {
			if strings.Contains(msg, strconv.Quote(k)+" not found") {
				missing[k], found = true, true
			}
		}
		if errors.Is(err, errC15NotFound) && len(keys) == 1 {
			missing[keys[0]], found = true, true
		}
		if !found {
			return nil, "Del returned " + firstN(msg, 200), false
		}
	}
	return collect(keys, missing)
}

// crossCheck: Set and Get of a few keys must arrive where Del of the same key arrived.
func (cr cacheRouter) crossCheck(c *kit.Case, keys []string, owner []int) (string, string, bool) {
	n := 0
	for i := 0; i < len(keys) && n < 6; i += len(keys)/6 + 1 {
		n++
		if owner[i] < 0 {
			continue
		}
		k := keys[i]
		for _, op := range []string{"Set", "Get", "Take"} {
			resetAll()
			var err error
			var got int
			switch op {
			case "Set":
				err = cr.c.Set(k, i)
			case "Get":
				err = cr.c.Get(k, &got)
				if err == nil && got != i {
					return "", fmt.Sprintf("Get(%q) = %d after Set %d", k, got, i), false
				}
			default:
				err = cr.c.Take(&got, k, func(v any) error { *(v.(*int)) = i; return nil })
			}
			if err != nil {
				return "", op + " returned " + firstN(err.Error(), 200), false
			}
			o, why, ok := collect([]string{k}, nil)
			if !ok {
				return "", op + ": " + why, false
			}
			c.Obs("cluster_cross_operation_routes", 1)
			if o[0] != owner[i] {
				return fmt.Sprintf("%s(%q) went to r%d, Del of the same key on the same dispatcher went to r%d", op, k, o[0], owner[i]), "", true
			}
		}
	}
	return "", "", true
}

type kvRouter struct{ s kv.Store }

// one single-key command per probe key (key i always gets command i mod len, so the redis
// type of a key never changes); redis.Nil (empty list / missing field) is a normal answer
type kvOp struct {
	name string
	fn   func(s kv.Store, k string) error
}

func e1[T any](_ T, err error) error { return err }

var kvOps = []kvOp{
	{"Set", func(s kv.Store, k string) error { return s.Set(k, "v") }},
	{"Get", func(s kv.Store, k string) error { return e1(s.Get(k)) }},
	{"Exists", func(s kv.Store, k string) error { return e1(s.Exists(k)) }},
	{"Incr", func(s kv.Store, k string) error { return e1(s.Incr(k)) }},
	{"Hset", func(s kv.Store, k string) error { return s.Hset(k, "f", "v") }},
	{"Sadd", func(s kv.Store, k string) error { return e1(s.Sadd(k, "m")) }},
	{"Llen", func(s kv.Store, k string) error { return e1(s.Llen(k)) }},
	{"Ttl", func(s kv.Store, k string) error { return e1(s.Ttl(k)) }},
	{"Del", func(s kv.Store, k string) error { return e1(s.Del(k)) }},
	{"Setnx", func(s kv.Store, k string) error { return e1(s.Setnx(k, "v")) }},
	{"Hget", func(s kv.Store, k string) error { return e1(s.Hget(k, "f")) }},
	{"Zadd", func(s kv.Store, k string) error { return e1(s.Zadd(k, 1, "m")) }},
	{"Decr", func(s kv.Store, k string) error { return e1(s.Decr(k)) }},
	{"Incrby", func(s kv.Store, k string) error { return e1(s.Incrby(k, 3)) }},
	{"Decrby", func(s kv.Store, k string) error { return e1(s.Decrby(k, 2)) }},
	{"Expire", func(s kv.Store, k string) error { return s.Expire(k, 1000) }},
	{"Setex", func(s kv.Store, k string) error { return s.Setex(k, "v", 1000) }},
	{"SetnxEx", func(s kv.Store, k string) error { return e1(s.SetnxEx(k, "v", 1000)) }},
	{"GetSet", func(s kv.Store, k string) error { return e1(s.GetSet(k, "w")) }},
	{"Hexists", func(s kv.Store, k string) error { return e1(s.Hexists(k, "f")) }},
	{"Hgetall", func(s kv.Store, k string) error { return e1(s.Hgetall(k)) }},
	{"Hincrby", func(s kv.Store, k string) error { return e1(s.Hincrby(k, "n", 1)) }},
	{"Hlen", func(s kv.Store, k string) error { return e1(s.Hlen(k)) }},
	{"Hsetnx", func(s kv.Store, k string) error { return e1(s.Hsetnx(k, "f", "v")) }},
	{"Hmset", func(s kv.Store, k string) error { return s.Hmset(k, map[string]string{"a": "1"}) }},
	{"Hdel", func(s kv.Store, k string) error { return e1(s.Hdel(k, "f")) }},
	{"Lpush", func(s kv.Store, k string) error { return e1(s.Lpush(k, "x")) }},
	{"Rpush", func(s kv.Store, k string) error { return e1(s.Rpush(k, "x")) }},
	{"Lrange", func(s kv.Store, k string) error { return e1(s.Lrange(k, 0, -1)) }},
	{"Lpop", func(s kv.Store, k string) error { return e1(s.Lpop(k)) }},
	{"Scard", func(s kv.Store, k string) error { return e1(s.Scard(k)) }},
	{"Sismember", func(s kv.Store, k string) error { return e1(s.Sismember(k, "m")) }},
	{"Smembers", func(s kv.Store, k string) error { return e1(s.Smembers(k)) }},
	{"Srem", func(s kv.Store, k string) error { return e1(s.Srem(k, "m")) }},
	{"Pfadd", func(s kv.Store, k string) error { return e1(s.Pfadd(k, "e")) }},
	{"Pfcount", func(s kv.Store, k string) error { return e1(s.Pfcount(k)) }},
	{"Zcard", func(s kv.Store, k string) error { return e1(s.Zcard(k)) }},
	{"Zincrby", func(s kv.Store, k string) error { return e1(s.Zincrby(k, 2, "m")) }},
	{"Zrange", func(s kv.Store, k string) error { return e1(s.Zrange(k, 0, -1)) }},
	{"Zrem", func(s kv.Store, k string) error { return e1(s.Zrem(k, "m")) }},
	{"Zcount", func(s kv.Store, k string) error { return e1(s.Zcount(k, 0, 10)) }},
	{"Eval", func(s kv.Store, k string) error { return e1(s.Eval("return redis.call('EXISTS', KEYS[1])", k)) }},
}

func (kr kvRouter) op(i int, k string) error {
	err := kvOps[i%len(kvOps)].fn(kr.s, k)
	if errors.Is(err, redis.Nil) {
		err = nil
	}
	return err
}

func (kr kvRouter) route(keys []string) ([]int, string, bool) {
	resetAll()
	missing := map[string]bool{}
	for i, k := range keys {
		if err := kr.op(i, k); err != nil {
			if errors.Is(err, kv.ErrNoRedisNode) {
				missing[k] = true
				continue
			}
			return nil, kvOps[i%len(kvOps)].name + " returned " + firstN(err.Error(), 200), false
		}
	}
	return collect(keys, missing)
}

// crossCheck: another command on the same key must arrive at the same server.
func (kr kvRouter) crossCheck(c *kit.Case, keys []string, owner []int) (string, string, bool) {
	n := 0
	for i := 0; i < len(keys) && n < 8; i += len(keys)/8 + 1 {
		n++
		if owner[i] < 0 {
			continue
		}
		resetAll()
		if _, err := kr.s.Persist(keys[i]); err != nil {
			return "", "Persist returned " + firstN(err.Error(), 200), false
		}
		o, why, ok := collect([]string{keys[i]}, nil)
		if !ok {
			return "", "Persist: " + why, false
		}
		c.Obs("cluster_cross_operation_routes", 1)
		if o[0] != owner[i] {
			return fmt.Sprintf("Persist(%q) went to r%d, %s of the same key on the same store went to r%d", keys[i], o[0], kvOps[i%len(kvOps)].name, owner[i]), "", true
		}
	}
	return "", "", true
}

func firstN(s string, n int) string {
	if len(s) > n {
		return s[:n] + "..."
	}
	return s
}

var weightStyles = []string{"percent", "relative", "below-100", "above-100"}

func pickWeight(r *kit.Rand, style string) int {
	switch style {
	case "percent":
		if r.Bool() {
			return 100
		}
		return r.Range(1, 100)
	case "relative":
		return kit.Choose(r, []int{1, 2, 3, 4, 5, 10, 20})
	case "below-100":
		return kit.Choose(r, []int{50, 50, 25, 10, 60, 75, 33})
	default:
		return kit.Choose(r, []int{100, 150, 200, 300, 1000, 101})
	}
}

type cstep struct {
	Kind   string `json:"step"`
	Node   int    `json:"node"` // server index concerned (-1: none)
	Conf   string `json:"conf"`
	Moved  int    `json:"keys_moved"`
	conf   cconf
	equals cconf // for dup-reweight: the configuration it must equal
}

// nextConf derives the next configuration. The returned node is the one the step is about.
func nextConf(r *kit.Rand, cur cconf, style string) (kind string, node int, next cconf, equals cconf) {
	for try := 0; try < 50; try++ {
		next = cur.clone()
		switch r.Pick(28, 22, 22, 8, 10, 10) {
		case 0: // add a node that is not in the configuration
			var free []int
			for s := 0; s < nServers; s++ {
				if !cur.has(s) {
					free = append(free, s)
				}
			}
			if len(free) == 0 {
				continue
			}
			node = kit.Choose(r, free)
			w := pickWeight(r, style)
			if r.Chance(0.08) {
				w = kit.Choose(r, []int{0, -1})
			}
			at := r.Intn(len(next) + 1)
			next = append(next[:at:at], append(cconf{{node, w}}, next[at:]...)...)
			kind = "add-node"
		case 1: // remove one
			if len(cur) < 2 {
				continue
			}
			at := r.Intn(len(cur))
			node = cur[at].Srv
			next = append(next[:at:at], next[at+1:]...)
			kind = "remove-node"
		case 2: // change one weight
			at := r.Intn(len(cur))
			node = cur[at].Srv
			w := pickWeight(r, style)
			if r.Chance(0.1) {
				w = kit.Choose(r, []int{0, -1, 100, 1})
			}
			if w == cur[at].Weight {
				continue
			}
			next[at].Weight = w
			kind = "reweight"
		case 3: // list a node of the configuration a second time, with another weight
			at := r.Intn(len(cur))
			node = cur[at].Srv
			w := pickWeight(r, style)
			if w == cur[at].Weight {
				continue
			}
			next = append(next, cnode{node, w})
			equals = cur.clone()
			equals[at].Weight = w
			kind = "dup-reweight"
		case 4:
			if len(cur) < 2 {
				continue
			}
			p := r.Perm(len(cur))
			same := true
			for i, j := range p {
				next[i] = cur[j]
				if i != j {
					same = false
				}
			}
			if same {
				continue
			}
			node, kind = -1, "reorder"
		default:
			node, kind = -1, "rebuild"
		}
		// one entry per node only, except for the dup step itself (cur may not contain dups)
		if next.total() <= 0 || (equals != nil && equals.total() <= 0) {
			continue
		}
		return kind, node, next, equals
	}
	return "rebuild", -1, cur.clone(), nil
}

// dedup: a configuration that lists a node twice is continued as the one that lists it once
// with the later weight (what the dup step has just been checked to equal).
func dedup(cc cconf) cconf {
	var out cconf
	for _, n := range cc {
		found := false
		for i := range out {
			if out[i].Srv == n.Srv {
				out[i].Weight = n.Weight
				found = true
			}
		}
		if !found {
			out = append(out, n)
		}
	}
	return out
}

func runCluster(c *kit.Case, ctor string, nKeys int) {
	r := c.R
	ss := servers()
	for _, s := range ss {
		s.mr.FlushAll()
	}
	style := kit.Choose(r, weightStyles)
	build := func(cc cconf) router {
		c.Obs("cluster_configs_built", 1)
		if ctor == "kv.NewStore" {
			return kvRouter{kv.NewStore(cc.clusterConf())}
		}
		return cacheRouter{cache.New(cc.clusterConf(), syncx.NewSingleFlight(), clusterStat(), errC15NotFound)}
	}
	keys := make([]string, nKeys)
	for i := range keys {
		switch i % 3 {
		case 0:
			keys[i] = keyPrefix + strconv.Itoa(c.Index) + ":user/" + strconv.Itoa(i)
		case 1:
			keys[i] = keyPrefix + strconv.Itoa(c.Index) + ":" + strconv.Itoa(i*7919)
		default:
			keys[i] = keyPrefix + strconv.Itoa(c.Index) + ":cache:order:id:" + strconv.Itoa(i) + ":" + strconv.Itoa(i%17)
		}
	}
	// initial configuration: 1-4 nodes
	var cur cconf
	for {
		cur = nil
		for _, s := range r.Perm(nServers)[:r.Range(1, 4)] {
			w := pickWeight(r, style)
			if r.Chance(0.05) {
				w = 0
			}
			cur = append(cur, cnode{s, w})
		}
		if cur.total() > 0 {
			break
		}
	}
	var steps []cstep
	witness := func() map[string]any {
		addrs := map[string]string{}
		for _, s := range ss {
			addrs[s.name] = s.addr
		}
		return map[string]any{"constructor": ctor, "weight_style": style, "initial": cur.String(), "steps": steps, "servers": addrs, "keys": nKeys, "key_0": keys[0]}
	}
	observe := func(cc cconf, what string) ([]int, bool) {
		rt := build(cc)
		owner, why, ok := rt.route(keys)
		if !ok {
			c.Inconclusive(what + " " + cc.String() + ": " + why)
			return nil, false
		}
		c.Obs("cluster_keys_routed", int64(len(keys)))
		class := ctor
		for i, o := range owner {
			if o == -1 {
				c.Viol("C15/cluster/membership/no-node-for-key/"+class, fmt.Sprintf("%s%s has nodes with positive weight but reported no node for key %q", ctor, cc, keys[i]), witness())
				return nil, false
			}
			if !cc.has(o) {
				c.Viol("C15/cluster/membership/key-sent-to-non-member/"+class, fmt.Sprintf("%s%s sent key %q to %s, which is not in the configuration", ctor, cc, keys[i], ss[o].name), witness())
				return nil, false
			}
		}
		if viol, why, ok := rt.crossCheck(c, keys, owner); !ok {
			c.Inconclusive(what + " " + cc.String() + ": " + why)
			return nil, false
		} else if viol != "" {
			c.Viol("C15/cluster/route-differs-between-operations/"+ctor, viol+" ("+cc.String()+")", witness())
			return nil, false
		}
		return owner, true
	}
	prev, ok := observe(cur, "initial")
	if !ok {
		return
	}
	nSteps := r.Range(2, 5)
	nontrivial := false
	sig := []any{"cluster", ctor, style, cur.String()}
	for s := 0; s < nSteps && !c.Violated(); s++ {
		kind, node, next, equals := nextConf(r, cur, style)
		st := cstep{Kind: kind, Node: node, Conf: next.String(), conf: next, equals: equals}
		steps = append(steps, st)
		now, ok := observe(next, kind)
		if !ok {
			return
		}
		hv := "heaviest-weight-unchanged"
		if cur.heaviest() != next.heaviest() {
			hv = "heaviest-weight-changed"
			c.Obs("cluster_steps_heaviest_weight_changed", 1)
		}
		moved := 0
		for i := range keys {
			if now[i] == prev[i] {
				continue
			}
			moved++
			if c.Violated() {
				continue
			}
			desc := fmt.Sprintf("%s: %s -> %s: key %q moved from %s to %s", ctor, cur, next, keys[i], ss[prev[i]].name, ss[now[i]].name)
			switch kind {
			case "add-node":
				if now[i] != node {
					c.Viol("C15/cluster/add-node-moves-other-keys/"+ctor+"/"+hv, desc+" although only "+ss[node].name+" was added", witness())
				}
			case "remove-node":
				if prev[i] != node {
					c.Viol("C15/cluster/remove-node-moves-other-keys/"+ctor+"/"+hv, desc+" although only "+ss[node].name+" was removed", witness())
				}
			case "reweight", "dup-reweight":
				if now[i] != node && prev[i] != node {
					c.Viol("C15/cluster/"+kind+"-moves-unrelated-keys/"+ctor+"/"+hv, desc+" although only the weight of "+ss[node].name+" changed", witness())
				}
			default: // reorder, rebuild
				c.Viol("C15/cluster/"+kind+"-changes-mapping/"+ctor, desc+" although the set of (node, weight) is the same", witness())
			}
		}
		steps[len(steps)-1].Moved = moved
		c.Obs("cluster_keys_moved", int64(moved))
		c.Obs("cluster_steps_"+kind, 1)
		c.Obs("cluster_steps", 1)
		if kind == "add-node" || kind == "remove-node" || kind == "reweight" || kind == "dup-reweight" {
			nontrivial = true
		}
		if kind == "dup-reweight" && !c.Violated() {
			ref, ok := observe(equals, "dup-reweight-reference")
			if !ok {
				return
			}
			for i := range keys {
				if ref[i] != now[i] {
					c.Viol("C15/cluster/dup-reweight-differs-from-single-entry/"+ctor, fmt.Sprintf("%s: key %q goes to %s with %s but to %s with %s", ctor, keys[i], ss[now[i]].name, next, ss[ref[i]].name, equals), witness())
					break
				}
			}
			next = dedup(next)
		}
		sig = append(sig, kind, next.String())
		prev, cur = now, next
	}
	c.Sig(nontrivial, sig...)
	c.Obs("cluster_chains", 1)
	if ctor == "kv.NewStore" {
		c.Obs("cluster_chains_kv", 1)
	} else {
		c.Obs("cluster_chains_cache", 1)
	}
	if c.Index < 2 {
		c.Sample("cluster/"+ctor, 2, witness())
	}
}

func clusterKeys(quick, thorough int) int {
	if kit.Thorough() {
		return thorough
	}
	return quick
}
