package c15

// Families "repr-kinds" and "weak-hash" (extension of the C15 check).
//
// repr-kinds: the ring identifies a node by lang.Repr(node). The node values of this family
// come from every kind lang.Repr distinguishes (all signed/unsigned/float kinds, bool, []byte,
// error, fmt.Stringer with value and pointer receivers, pointers to those, nil pointers, named
// types, structs), with values picked so that a plausible formatting slip makes two DISTINCT
// nodes collide (float64s that differ only beyond float32 precision, uint64 above 2^63 next to
// the int64 of the same bit pattern, int8(-1) next to uint8(255), float32(1.1) next to
// float64(float32(1.1)), []byte("1") next to "[49]" ...).
//
// Which nodes are distinct ring members is decided by an INDEPENDENT rendering (indep below:
// strconv with the right bit size / fmt for named types and structs - never lang.Repr), so a
// node set is distinct by construction under today's Repr, and a collision that a change of
// lang.Repr introduces shows up as a violation of the ring's own clauses (nodes evict each
// other: history dependence, removed-node / disruption failures) instead of being absorbed by
// the generator. Values that legitimately have the same rendering today (1, uint(1), 1.0, "1",
// []byte("1"), *int -> 1) are VARIANTS of one ring member: an op may use any variant.
// The oracle is the one of the string families (membership, minimal disruption, history
// independence); the format of Repr itself is not judged.
//
// weak-hash: NewCustomConsistentHash with weak but legal hash functions (constant, length,
// byte sum mod 61, first byte, 8 bits of fnv) and with two strong ones built from go-zero's
// own hash.Md5 / hash.Md5Hex. Only the clauses that do not depend on hash quality are
// asserted: membership (member-only, none iff no virtual node), removed node never returned,
// history independence. Nothing is asserted about disruption or balance.

import (
	"encoding/binary"
	"errors"
	"fmt"
	"hash/fnv"
	"math"
	"sort"
	"strconv"
	"strings"

	"github.com/zeromicro/go-zero/core/hash"
	"github.com/zeromicro/go-zero/core/lang"

	"verifharness/kit"
)

// ---------------------------------------------------------------- node types

type (
	pstr  struct{ s string } // Stringer with pointer receiver
	perr  struct{ s string } // error with pointer receiver
	verr  struct{ s string } // error with value receiver
	both  struct{ x string } // Stringer AND error (value receivers), different texts
	plain struct {           // no methods: rendered by fmt
		A string
		B int
	}
	myID  int64
	myU   uint16
	myF   float64
	myS   string
	myB   []byte
	myBoo bool
)

func (p *pstr) String() string { return p.s }
func (p *perr) Error() string  { return p.s }
func (e verr) Error() string   { return e.s }
func (b both) String() string  { return "S:" + b.x }
func (b both) Error() string   { return "E:" + b.x }

// indep renders a node/key value the way the unchanged lang.Repr does, WITHOUT calling it:
// by a closed type switch over exactly the types this file generates. Unknown types (only
// possible if the ring returns something that was never added) get a marker.
func indep(v any) string {
	switch x := v.(type) {
	case nil:
		return ""
	case string:
		return x
	case bool:
		if x {
			return "true"
		}
		return "false"
	case int:
		return strconv.FormatInt(int64(x), 10)
	case int8:
		return strconv.FormatInt(int64(x), 10)
	case int16:
		return strconv.FormatInt(int64(x), 10)
	case int32:
		return strconv.FormatInt(int64(x), 10)
	case int64:
		return strconv.FormatInt(x, 10)
	case uint:
		return strconv.FormatUint(uint64(x), 10)
	case uint8:
		return strconv.FormatUint(uint64(x), 10)
	case uint16:
		return strconv.FormatUint(uint64(x), 10)
	case uint32:
		return strconv.FormatUint(uint64(x), 10)
	case uint64:
		return strconv.FormatUint(x, 10)
	case float32:
		return strconv.FormatFloat(float64(x), 'f', -1, 32)
	case float64:
		return strconv.FormatFloat(x, 'f', -1, 64)
	case []byte:
		return string(x)
	// Stringers (checked before anything else by Repr, also through one pointer level)
	case strNode:
		return x.name
	case *strNode:
		return x.name
	case **strNode:
		return (**x).name
	case *pstr:
		return x.s
	case both:
		return "S:" + x.x
	case *both:
		return "S:" + x.x
	case **both:
		// not a Stringer itself; dereferenced to a both VALUE, whose error arm comes first
		return "E:" + (**x).x
	case verr:
		return x.s
	case *verr:
		return x.s
	case *perr:
		// Repr dereferences the pointer; the struct VALUE has no Error method (pointer
		// receiver), so it is rendered by fmt like any struct. The same holds for errors.New.
		return "{" + x.s + "}"
	// pointers: dereferenced while non-nil
	case *int:
		if x == nil {
			return "<nil>"
		}
		return indep(*x)
	case **int:
		return indep(*x)
	case *bool:
		return indep(*x)
	case *string:
		return indep(*x)
	case *float64:
		return indep(*x)
	case *float32:
		return indep(*x)
	case *uint64:
		return indep(*x)
	case *int64:
		return indep(*x)
	case *[]byte:
		return indep(*x)
	case *plain:
		return indep(*x)
	// named types and structs: no arm of their own in Repr, rendered by fmt
	case plain:
		return "{" + x.A + " " + strconv.Itoa(x.B) + "}"
	case myID:
		return fmt.Sprint(int64(x))
	case myU:
		return fmt.Sprint(uint16(x))
	case myF:
		return fmt.Sprint(float64(x))
	case myS:
		return string(x)
	case myB:
		return fmt.Sprint([]byte(x))
	case myBoo:
		return fmt.Sprint(bool(x))
	case error: // errors.New values: *errors.errorString, see *perr
		return "{" + x.Error() + "}"
	}
	return "\x00unknown-type:" + fmt.Sprintf("%T", v)
}

// kindGroup is the coarse class of a node value used in violation keys.
func kindGroup(v any) string {
	switch v.(type) {
	case nil:
		return "nil"
	case string:
		return "string"
	case bool:
		return "bool"
	case int, int8, int16, int32, int64:
		return "int"
	case uint, uint8, uint16, uint32, uint64:
		return "uint"
	case float32, float64:
		return "float"
	case []byte:
		return "bytes"
	case strNode, *strNode, **strNode, *pstr, both, *both:
		return "stringer"
	case *perr, **both, verr, *verr:
		return "error"
	case *int, **int, *bool, *string, *float64, *float32, *uint64, *int64, *[]byte, *plain:
		return "pointer"
	case plain:
		return "struct"
	case myID, myU, myF, myS, myB, myBoo:
		return "named-type"
	case error:
		return "error"
	}
	return "other"
}

func kindClass(vs ...any) string {
	set := map[string]bool{}
	for _, v := range vs {
		set[kindGroup(v)] = true
	}
	ks := make([]string, 0, len(set))
	for k := range set {
		ks = append(ks, k)
	}
	sort.Strings(ks)
	return "nodes-of-kind-" + strings.Join(ks, "+")
}

func ptr[T any](v T) *T { return &v }

// ---------------------------------------------------------------- catalogue

// A cluster is a group of node values that are close to each other under some formatting slip.
var kindClusters = func() map[string][]any {
	ip := ptr(5)
	f01, f02 := 0.1, 0.2 // summed at run time: 0.30000000000000004
	bv := both{"x"}
	bp := &bv
	sp := &strNode{"str-pp"}
	return map[string][]any{
		// differ only beyond float32 precision (JSON-decoded ids), plus same-member variants
		"f64-beyond-f32": {float64(20230000), float64(20230001), float64(20230002), float64(20230003), float64(20230004),
			"20230002", ptr(float64(20230003)), int64(20230004), myF(20230001), myF(20230002)},
		"f64-2pow24": {float64(16777216), float64(16777217), float64(16777218), float64(16777219), float32(16777216), 16777217,
			float64(123456789), float64(123456790), float64(123456791), uint32(123456789)},
		"fractions": {float64(0.1), float64(float32(0.1)), float32(0.1), float64(1.1), float32(1.1), float64(float32(1.1)),
			float64(0.3), f01 + f02, float64(1e-7), float64(1.0000001e-7), float64(1e21), float64(1e21) * (1 + 1e-12),
			math.Copysign(0, -1), float64(0), 0, math.Inf(1), math.Inf(-1), float64(2.5), float32(2.5), float64(-2.5), float32(-2.5),
			ptr(float32(1.1)), "0.1", float64(1.0) / 3, float64(float32(1.0) / 3), float32(1.0) / 3},
		"big-unsigned": {uint64(1) << 63, uint64(math.MaxUint64), uint64(1)<<63 + 1, int64(math.MinInt64), int64(math.MaxInt64),
			int64(-1), -1, uint(1)<<63 + 5, "9223372036854775808", uint32(math.MaxUint32), int32(-1), uint32(1) << 31, int32(math.MinInt32),
			int64(math.MaxUint32), int64(1) << 31, ptr(uint64(math.MaxUint64)), ptr(int64(math.MinInt64)), uint64(math.MaxInt64), int64(math.MinInt64) + 1},
		"small-signed": {int8(-1), uint8(255), int8(-128), uint8(128), int16(-1), uint16(65535), int16(-32768), uint16(32768),
			255, "-1", 128, int8(127), uint8(127), myU(65535), myID(-1), myID(255), int32(-128), -32768, 65535},
		"one-ish": {1, uint(1), float64(1), float32(1), "1", true, "true", false, "false", 0, "0", uint8(0), ptr(1), []byte("1"), "[49]",
			ptr(true), myBoo(true), myBoo(false), int8(1), uint64(1), int64(1), "1.0", "+1", "01", float64(10), 10, "10", 100, "100", float64(100)},
		"bytes-text": {[]byte("node-b"), "node-b", []byte{0xff, 0xfe, 'x'}, "[110 111 100 101 45 98]", []byte(""), "", myB("node-b"), myB{1, 2},
			"[1 2]", []byte{1, 2}, ptr([]byte("node-b2")), "node-b2", myS("named-s"), "named-s", myS("node-b"), []byte("node-b1"), []byte("node-b10")},
		"err-stringer": {errors.New("node-e"), "node-e", "{node-e}", &perr{"node-pe"}, "node-pe", verr{"node-ve"}, &verr{"node-ve"}, "node-ve", verr{"str-1"}, bv, bp, &bp, "S:x", "E:x", both{"y"}, "S:y",
			strNode{"str-1"}, &strNode{"str-1"}, &sp, "str-pp", &pstr{"pstr-1"}, "pstr-1", strNode{"str-10"}, &pstr{"str-10"}, errors.New("str-1"), strNode{""}, errors.New("E:y")},
		"ptr-named-struct": {ip, &ip, 5, myID(5), myID(6), "6", ptr("sp"), "sp", (*int)(nil), "<nil>", plain{"a", 1}, &plain{"a", 1},
			plain{"a", 2}, "{a 1}", plain{"", 0}, "{ 0}", myF(5), myF(0.5), float64(0.5), myU(5), myU(6), ptr(int64(7)), 7, ptr(float64(7.5)), float32(7.5)},
	}
}()

var kindClusterNames = func() []string {
	ns := make([]string, 0, len(kindClusters))
	for k := range kindClusters {
		ns = append(ns, k)
	}
	sort.Strings(ns)
	return ns
}()

// An entry is one ring member by today's Repr: an id (independent rendering) with all the
// generated values that render to it.
type entry struct {
	id       string
	variants []any
}

func entriesOf(vals []any) []entry {
	idx := map[string]int{}
	var es []entry
	for _, v := range vals {
		id := indep(v)
		i, ok := idx[id]
		if !ok {
			i = len(es)
			idx[id] = i
			es = append(es, entry{id: id})
		}
		es[i].variants = append(es[i].variants, v)
	}
	return es
}

func describe(v any) string {
	return fmt.Sprintf("%T(%s)", v, strconv.Quote(indep(v)))
}

// probesExt: lookup keys of every kind as well (a key is only ever rendered and hashed).
func probesExt(n int) []any {
	ps := make([]any, 0, n)
	for i := 0; i < n; i++ {
		switch i % 12 {
		case 0:
			ps = append(ps, i*7919+13)
		case 1:
			ps = append(ps, "key:"+strconv.Itoa(i*31)+":"+strconv.Itoa(i))
		case 2:
			ps = append(ps, strNode{"user/" + strconv.Itoa(i)})
		case 3:
			ps = append(ps, float64(20230000+i)+0.25)
		case 4:
			ps = append(ps, uint64(1)<<63+uint64(i)*977)
		case 5:
			ps = append(ps, []byte("blob-"+strconv.Itoa(i)))
		case 6:
			ps = append(ps, -int64(i)*104729-1)
		case 7:
			ps = append(ps, errors.New("err-key-"+strconv.Itoa(i)))
		case 8:
			ps = append(ps, ptr(i*3+1))
		case 9:
			ps = append(ps, float32(i)+0.5)
		case 10:
			ps = append(ps, &pstr{"pk/" + strconv.Itoa(i)})
		default:
			ps = append(ps, uint16(i))
		}
	}
	// a few fixed odd keys
	odd := []any{nil, true, false, "", (*int)(nil), plain{"k", 1}, myID(77), math.Inf(1)}
	for i, o := range odd {
		if i < len(ps) {
			ps[len(ps)-1-i] = o
		}
	}
	return ps
}

// ---------------------------------------------------------------- engine

type eopRec struct {
	Op       string
	Node     string // independent id
	As       string // Go type of the variant used
	Replicas int
	Weight   int
}

type emember struct {
	node     any
	replicas int
}

type clauseSet struct {
	disruption bool
}

type snap struct {
	ids  []string
	vals []any
}

const noneID = "\x00none"

func snapshotIndep(h *hash.ConsistentHash, ps []any) snap {
	s := snap{ids: make([]string, len(ps)), vals: make([]any, len(ps))}
	for i, p := range ps {
		v, ok := h.Get(p)
		if !ok {
			s.ids[i] = noneID
		} else {
			s.ids[i] = indep(v)
			s.vals[i] = v
		}
	}
	return s
}

// runEntriesHistory: a random history over the entries of pool on a ring made by newRing; the
// oracle of runHistory with node identity by the independent rendering. classOf maps the node
// values involved in a failure to the input class of the violation key.
func runEntriesHistory(c *kit.Case, pool []entry, baseRep int, newRing func() *hash.ConsistentHash, cl clauseSet,
	ps []any, classOf func(vs ...any) string, extra map[string]any, obsPrefix string) (hist []eopRec, nontrivial bool) {
	r := c.R
	h := newRing()
	model := map[string]emember{}
	removedEver := map[string]bool{}
	nOps := r.Range(1, 30)
	prev := snapshotIndep(h, ps)
	w := func() map[string]any {
		m := map[string]any{"base_replicas": baseRep, "history": hist}
		for k, v := range extra {
			m[k] = v
		}
		return m
	}
	present := func() []string {
		ks := make([]string, 0, len(model))
		for k := range model {
			ks = append(ks, k)
		}
		sort.Strings(ks)
		return ks
	}
	for step := 0; step < nOps && !c.Violated(); step++ {
		var e entry
		if pr := present(); len(pr) > 0 && r.Chance(0.45) {
			id := kit.Choose(r, pr)
			for _, x := range pool {
				if x.id == id {
					e = x
				}
			}
		} else {
			e = kit.Choose(r, pool)
		}
		node := kit.Choose(r, e.variants)
		_, existed := model[e.id]
		rec := eopRec{Node: e.id, As: fmt.Sprintf("%T", node)}
		switch r.Pick(32, 18, 18, 32) {
		case 0:
			h.Add(node)
			model[e.id] = emember{node, baseRep}
			rec.Op, rec.Replicas = "Add", baseRep
		case 1:
			rep := r.Range(1, 220)
			if r.Chance(0.12) {
				rep = kit.Choose(r, []int{0, 0, -1, -100})
			}
			h.AddWithReplicas(node, rep)
			eff := rep
			if eff > baseRep {
				eff = baseRep
			}
			if eff < 0 {
				eff = 0
			}
			model[e.id] = emember{node, eff}
			rec.Op, rec.Replicas = "AddWithReplicas", eff
		case 2:
			wt := r.Range(1, 100)
			if r.Chance(0.15) {
				wt = kit.Choose(r, []int{0, 0, 100, 101, 150})
			}
			h.AddWithWeight(node, wt)
			eff := baseRep * wt / 100
			if eff > baseRep {
				eff = baseRep
			}
			model[e.id] = emember{node, eff}
			rec.Op, rec.Replicas, rec.Weight = "AddWithWeight", eff, wt
		default:
			h.Remove(node)
			delete(model, e.id)
			removedEver[e.id] = true
			rec.Op = "Remove"
		}
		hist = append(hist, rec)
		if existed {
			nontrivial = true
		}
		cur := snapshotIndep(h, ps)
		c.Obs(obsPrefix+"probe_lookups", int64(len(ps)))
		if m, ok := model[e.id]; ok && m.replicas == 0 {
			c.Obs(obsPrefix+"zero_replica_adds", 1)
		}

		// (a) membership
		effective := 0
		groups := map[string]int{}
		for _, m := range model {
			if m.replicas > 0 {
				effective++
				groups[kindGroup(m.node)]++
			}
		}
		if groups["float"] >= 2 {
			c.Obs(obsPrefix+"steps_with_2plus_float_nodes_on_ring", 1)
		}
		if groups["int"] >= 1 && groups["uint"] >= 1 {
			c.Obs(obsPrefix+"steps_with_signed_and_unsigned_nodes_on_ring", 1)
		}
		if len(groups) >= 4 {
			c.Obs(obsPrefix+"steps_with_4plus_node_kinds_on_ring", 1)
		}
		for i, o := range cur.ids {
			if o == noneID {
				if effective > 0 {
					c.Viol("C15/membership/none-on-nonempty-ring/"+classOf(node), fmt.Sprintf("Get(%s) returned no node although the ring has %d nodes with replicas", describe(ps[i]), effective), w())
					break
				}
				continue
			}
			m, ok := model[o]
			if !ok {
				kind := "non-member-returned"
				if removedEver[o] {
					kind = "removed-node-returned"
				}
				c.Viol("C15/membership/"+kind+"/"+classOf(cur.vals[i]), fmt.Sprintf("Get(%s) returned %s which is not in the ring", describe(ps[i]), describe(cur.vals[i])), w())
				break
			} else if m.replicas == 0 {
				c.Viol("C15/membership/zero-replica-node-returned/"+classOf(cur.vals[i]), fmt.Sprintf("Get(%s) returned %s which has 0 virtual nodes", describe(ps[i]), describe(cur.vals[i])), w())
				break
			}
		}

		// (c) minimal disruption across this op
		moved := 0
		for i := range cur.ids {
			if cur.ids[i] == prev.ids[i] {
				continue
			}
			moved++
			if !cl.disruption {
				continue
			}
			switch {
			case rec.Op == "Remove":
				if prev.ids[i] != rec.Node {
					c.Viol("C15/disruption-remove/"+classOf(node), fmt.Sprintf("Remove(%s) moved probe %s from %s to %s", describe(node), describe(ps[i]), describe(prev.vals[i]), describe(cur.vals[i])), w())
				}
			case !existed:
				if cur.ids[i] != rec.Node {
					c.Viol("C15/disruption-add/"+classOf(node), fmt.Sprintf("%s(%s) of a new node moved probe %s from %s to %s", rec.Op, describe(node), describe(ps[i]), describe(prev.vals[i]), describe(cur.vals[i])), w())
				}
			default:
				if cur.ids[i] != rec.Node && prev.ids[i] != rec.Node {
					c.Viol("C15/disruption-readd/"+classOf(node), fmt.Sprintf("re-adding %s moved probe %s from %s to %s", describe(node), describe(ps[i]), describe(prev.vals[i]), describe(cur.vals[i])), w())
				}
			}
			if c.Violated() {
				break
			}
		}
		c.Obs(obsPrefix+"probes_moved", int64(moved))
		prev = cur

		// (b) history independence: rebuild from the final set, sorted and shuffled
		if !c.Violated() && (step == nOps-1 || r.Chance(0.3)) {
			ids := present()
			orders := [][]string{ids}
			sh := make([]string, len(ids))
			for i, j := range r.Perm(len(ids)) {
				sh[i] = ids[j]
			}
			orders = append(orders, sh)
			for oi, ord := range orders {
				h2 := newRing()
				for _, k := range ord {
					h2.AddWithReplicas(model[k].node, model[k].replicas)
				}
				ref := snapshotIndep(h2, ps)
				diff, first := 0, -1
				// the node that owns most of the differing probes on either ring names the class
				share := map[string]int{}
				var most any
				mostID := ""
				for i := range ref.ids {
					if ref.ids[i] != cur.ids[i] {
						diff++
						if first < 0 {
							first = i
						}
						for _, o := range []struct {
							id string
							v  any
						}{{cur.ids[i], cur.vals[i]}, {ref.ids[i], ref.vals[i]}} {
							if o.id == noneID {
								continue
							}
							share[o.id]++
							if mostID == "" || share[o.id] > share[mostID] || (share[o.id] == share[mostID] && o.id < mostID) {
								mostID, most = o.id, o.v
							}
						}
					}
				}
				c.Obs(obsPrefix+"rebuild_comparisons", 1)
				if diff > 0 {
					c.Viol("C15/history-dependence/"+classOf(most),
						fmt.Sprintf("%d of %d probes map differently on the ring reached by the history and on a ring built from the same final node set (order %d: %q); e.g. %s -> %s vs %s",
							diff, len(ps), oi, ord, describe(ps[first]), describe(cur.vals[first]), describe(ref.vals[first])), w())
					break
				}
			}
		}
	}
	return hist, nontrivial
}

// ---------------------------------------------------------------- family repr-kinds

func runKinds(c *kit.Case, nProbes int) {
	r := c.R
	// 2-4 clusters per case
	perm := r.Perm(len(kindClusterNames))
	k := r.Range(2, 4)
	var vals []any
	var used []string
	for _, pi := range perm[:k] {
		used = append(used, kindClusterNames[pi])
		vals = append(vals, kindClusters[kindClusterNames[pi]]...)
	}
	sort.Strings(used)
	pool := entriesOf(vals)
	// reach audit of lang.Repr: how often today's Repr and the independent rendering agree
	// (informational: the format of Repr is not part of the property)
	for _, v := range vals {
		if lang.Repr(v) == indep(v) {
			c.Obs("kinds_repr_agrees_with_independent_rendering", 1)
		} else {
			c.Obs("kinds_repr_differs_from_independent_rendering", 1)
		}
	}
	baseRep := 100
	newRing := func() *hash.ConsistentHash { return hash.NewConsistentHash() }
	if r.Chance(0.4) {
		baseRep = kit.Choose(r, []int{100, 120, 200})
		newRing = func() *hash.ConsistentHash { return hash.NewCustomConsistentHash(baseRep, nil) }
	}
	hist, nontrivial := runEntriesHistory(c, pool, baseRep, newRing, clauseSet{disruption: true}, probesExt(nProbes), kindClass,
		map[string]any{"clusters": used}, "kinds_")
	kinds := map[string]bool{}
	sig := []any{"kinds", baseRep}
	for _, o := range hist {
		sig = append(sig, o.Op, o.Node, o.As, o.Replicas)
		kinds[o.As] = true
	}
	c.Sig(nontrivial, sig...)
	c.Obs("kinds_histories", 1)
	c.Obs("kinds_ops", int64(len(hist)))
	c.Obs("kinds_node_types_used", int64(len(kinds)))
	if c.Index < 2 {
		c.Sample("repr-kinds", 2, map[string]any{"clusters": used, "base_replicas": baseRep, "history": hist})
	}
}

// ---------------------------------------------------------------- family weak-hash

type namedHash struct {
	name string
	fn   hash.Func
}

var customHashes = []namedHash{
	{"constant", func(d []byte) uint64 { return 42 }},
	{"length", func(d []byte) uint64 { return uint64(len(d)) }},
	{"byte-sum-mod-61", func(d []byte) uint64 {
		var s uint64
		for _, b := range d {
			s += uint64(b)
		}
		return s % 61
	}},
	{"first-byte", func(d []byte) uint64 {
		if len(d) == 0 {
			return 0
		}
		return uint64(d[0])
	}},
	{"fnv-low-8-bits", func(d []byte) uint64 {
		f := fnv.New32a()
		f.Write(d)
		return uint64(f.Sum32() & 0xff)
	}},
	{"last-two-bytes", func(d []byte) uint64 {
		var s uint64
		for i := len(d) - 2; i < len(d); i++ {
			if i >= 0 {
				s = s<<8 | uint64(d[i])
			}
		}
		return s
	}},
	{"md5-high-64", func(d []byte) uint64 { return binary.BigEndian.Uint64(hash.Md5(d)[:8]) }},
	{"md5hex-low-60", func(d []byte) uint64 {
		hx := hash.Md5Hex(d)
		v, err := strconv.ParseUint(hx[len(hx)-15:], 16, 64)
		if err != nil {
			panic("Md5Hex did not return hex digits: " + hx)
		}
		return v
	}},
}

func runWeakHash(c *kit.Case, nProbes int) {
	r := c.R
	nh := customHashes[c.Index%len(customHashes)]
	names := []string{"alpha", "bravo", "charlie", "delta", "10.0.0.1:6379", "10.0.0.2:6379", "x", "", "7", "42",
		"node1", "node10", "node11", "n", "n1", "n11", "1", "10", "11", "ab", "ba"}
	var vals []any
	for _, n := range names {
		vals = append(vals, n)
		if v, err := strconv.Atoi(n); err == nil {
			vals = append(vals, v)
		}
		if n != "" && r.Chance(0.3) {
			vals = append(vals, strNode{n})
		}
	}
	pool := entriesOf(vals)
	baseRep := kit.Choose(r, []int{100, 100, 130})
	newRing := func() *hash.ConsistentHash { return hash.NewCustomConsistentHash(baseRep, nh.fn) }
	class := "weak-custom-hash"
	if strings.HasPrefix(nh.name, "md5") {
		class = "md5-custom-hash"
	}
	hist, nontrivial := runEntriesHistory(c, pool, baseRep, newRing, clauseSet{disruption: false}, probesExt(nProbes),
		func(...any) string { return class }, map[string]any{"hash_func": nh.name}, "custom_hash_")
	sig := []any{"weak", nh.name, baseRep}
	for _, o := range hist {
		sig = append(sig, o.Op, o.Node, o.As, o.Replicas)
	}
	c.Sig(nontrivial, sig...)
	c.Obs("custom_hash_histories", 1)
	c.Obs("custom_hash_ops", int64(len(hist)))
	if c.Index < len(customHashes) && c.Index%3 == 0 {
		c.Sample("weak-hash", 3, map[string]any{"hash_func": nh.name, "base_replicas": baseRep, "history": hist})
	}
}
