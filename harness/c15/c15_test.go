// Package c15: consistent hashing — member-only, history-independent, minimally
// disruptive (DESIGN.md §4 C15). Metamorphic oracle, no re-implementation of the ring.
package c15

import (
	"fmt"
	"sort"
	"strconv"
	"strings"
	"testing"

	"github.com/zeromicro/go-zero/core/hash"
	"github.com/zeromicro/go-zero/core/lang"
	"github.com/zeromicro/go-zero/core/logx"

	"verifharness/kit"
)

type strNode struct{ name string }

func (s strNode) String() string { return s.name }

type opRec struct {
	Op       string
	Node     string // repr
	Kind     string // string int stringer
	Replicas int    // effective replicas after the op (adds)
	Weight   int
}

type member struct {
	node     any
	replicas int
}

func mkNode(r *kit.Rand, name string) (any, string) {
	if n, err := strconv.Atoi(name); err == nil && r.Bool() {
		return n, "int"
	}
	if r.Chance(0.25) {
		return strNode{name}, "stringer"
	}
	return name, "string"
}

func isDigits(s string) bool {
	if s == "" {
		return false
	}
	for _, ch := range s {
		if ch < '0' || ch > '9' {
			return false
		}
	}
	return true
}

// prefixRelated: the virtual-node keys repr+itoa(i) of the two names can coincide.
func prefixRelated(a, b string) bool {
	if len(a) > len(b) {
		a, b = b, a
	}
	return a != b && strings.HasPrefix(b, a) && isDigits(b[len(a):])
}

func hasPrefixPair(names []string) bool {
	for i := range names {
		for j := i + 1; j < len(names); j++ {
			if prefixRelated(names[i], names[j]) {
				return true
			}
		}
	}
	return false
}

func probes(n int) []any {
	ps := make([]any, 0, n)
	for i := 0; i < n; i++ {
		switch i % 3 {
		case 0:
			ps = append(ps, i*7919+13)
		case 1:
			ps = append(ps, "key:"+strconv.Itoa(i*31)+":"+strconv.Itoa(i))
		default:
			ps = append(ps, strNode{"user/" + strconv.Itoa(i)})
		}
	}
	return ps
}

func snapshot(h *hash.ConsistentHash, ps []any) []string {
	out := make([]string, len(ps))
	for i, p := range ps {
		v, ok := h.Get(p)
		if !ok {
			out[i] = "\x00none"
		} else {
			out[i] = lang.Repr(v)
		}
	}
	return out
}

func runHistory(c *kit.Case, related bool, nProbes int) {
	r := c.R
	class := "unrelated-node-names"
	var pool []string
	if related {
		class = "ring-has-prefix-related-node-names"
		pool = []string{"node1", "node10", "node11", "node111", "n", "n1", "n11", "n2", "1", "10", "11", "localhost:80", "localhost:8080", "localhost:808"}
	} else {
		pool = []string{"alpha", "bravo", "charlie", "delta", "echo", "foxtrot", "10.0.0.1:6379", "10.0.0.2:6379", "10.0.1.1:6379", "cache-a", "cache-b", "7", "42", "x"}
	}
	baseRep := 100
	var h *hash.ConsistentHash
	if r.Chance(0.5) {
		baseRep = kit.Choose(r, []int{100, 120, 150, 200})
		h = hash.NewCustomConsistentHash(baseRep, nil)
	} else {
		h = hash.NewConsistentHash()
	}
	ps := probes(nProbes)
	model := map[string]member{}
	var hist []opRec
	nOps := r.Range(1, 30)
	removedEver := map[string]bool{}
	prev := snapshot(h, ps)
	w := func() map[string]any {
		return map[string]any{"base_replicas": baseRep, "history": hist}
	}
	for step := 0; step < nOps && !c.Violated(); step++ {
		name := kit.Choose(r, pool)
		var rec opRec
		before := map[string]member{}
		for k, v := range model {
			before[k] = v
		}
		switch r.Pick(30, 20, 20, 30) {
		case 0:
			node, kind := mkNode(r, name)
			h.Add(node)
			model[name] = member{node, baseRep}
			rec = opRec{Op: "Add", Node: name, Kind: kind, Replicas: baseRep}
		case 1:
			node, kind := mkNode(r, name)
			rep := r.Range(1, 220)
			h.AddWithReplicas(node, rep)
			eff := rep
			if eff > baseRep {
				eff = baseRep
			}
			model[name] = member{node, eff}
			rec = opRec{Op: "AddWithReplicas", Node: name, Kind: kind, Replicas: eff}
		case 2:
			node, kind := mkNode(r, name)
			wt := r.Range(1, 100)
			h.AddWithWeight(node, wt)
			model[name] = member{node, baseRep * wt / 100}
			rec = opRec{Op: "AddWithWeight", Node: name, Kind: kind, Weight: wt, Replicas: baseRep * wt / 100}
		default:
			node, kind := mkNode(r, name)
			h.Remove(node)
			delete(model, name)
			removedEver[name] = true
			rec = opRec{Op: "Remove", Node: name, Kind: kind}
		}
		hist = append(hist, rec)
		cur := snapshot(h, ps)
		c.Obs("ops", 1)
		c.Obs("probe_lookups", int64(len(ps)))

		// (a) membership
		effective := 0
		for _, m := range model {
			if m.replicas > 0 {
				effective++
			}
		}
		for i, o := range cur {
			if o == "\x00none" {
				if effective > 0 {
					c.Viol("C15/membership/none-on-nonempty-ring/"+class, fmt.Sprintf("Get(%v) returned no node although the ring has %d nodes with replicas", ps[i], effective), w())
					break
				}
				continue
			}
			m, ok := model[o]
			if !ok {
				kind := "non-member-returned"
				if removedEver[o] {
					kind = "removed-node-returned"
				}
				c.Viol("C15/membership/"+kind+"/"+class, fmt.Sprintf("Get(%v) returned %q which is not in the ring", ps[i], o), w())
				break
			} else if m.replicas == 0 {
				c.Viol("C15/membership/zero-replica-node-returned/"+class, fmt.Sprintf("Get(%v) returned %q which has 0 virtual nodes", ps[i], o), w())
				break
			}
		}

		// (c) minimal disruption across this op
		moved := 0
		for i := range cur {
			if cur[i] == prev[i] {
				continue
			}
			moved++
			switch rec.Op {
			case "Remove":
				if prev[i] != rec.Node {
					c.Viol("C15/disruption-remove/"+class, fmt.Sprintf("Remove(%s) moved probe %v from %q to %q", rec.Node, ps[i], prev[i], cur[i]), w())
				}
			default:
				_, existed := before[rec.Node]
				if !existed {
					if cur[i] != rec.Node {
						c.Viol("C15/disruption-add/"+class, fmt.Sprintf("%s(%s) of a new node moved probe %v from %q to %q", rec.Op, rec.Node, ps[i], prev[i], cur[i]), w())
					}
				} else if cur[i] != rec.Node && prev[i] != rec.Node {
					c.Viol("C15/disruption-readd/"+class, fmt.Sprintf("re-adding %s moved probe %v from %q to %q", rec.Node, ps[i], prev[i], cur[i]), w())
				}
			}
			if c.Violated() {
				break
			}
		}
		c.Obs("probes_moved", int64(moved))
		prev = cur

		// (b) history independence: rebuild from the final set, sorted and shuffled
		if !c.Violated() && (step == nOps-1 || r.Chance(0.3)) {
			names := make([]string, 0, len(model))
			for k := range model {
				names = append(names, k)
			}
			sort.Strings(names)
			orders := [][]string{names}
			sh := make([]string, len(names))
			for i, j := range r.Perm(len(names)) {
				sh[i] = names[j]
			}
			orders = append(orders, sh)
			for oi, ord := range orders {
				h2 := hash.NewCustomConsistentHash(baseRep, nil)
				for _, k := range ord {
					h2.AddWithReplicas(model[k].node, model[k].replicas)
				}
				ref := snapshot(h2, ps)
				diff := 0
				first := -1
				for i := range ref {
					if ref[i] != cur[i] {
						diff++
						if first < 0 {
							first = i
						}
					}
				}
				c.Obs("rebuild_comparisons", 1)
				if diff > 0 {
					c.Viol("C15/history-dependence/"+class,
						fmt.Sprintf("%d of %d probes map differently on the ring reached by the history and on a ring built from the same final node set (order %d: %v); e.g. %v -> %q vs %q",
							diff, len(ps), oi, ord, ps[first], cur[first], ref[first]), w())
					break
				}
			}
		}
	}
	names := make([]string, 0, len(model))
	for k := range model {
		names = append(names, k)
	}
	sort.Strings(names)
	sig := []any{related, baseRep}
	for _, o := range hist {
		sig = append(sig, o.Op, o.Node, o.Replicas)
	}
	// non-trivial: the history removed or re-added a node that was present
	nontrivial := false
	seen := map[string]bool{}
	for _, o := range hist {
		if seen[o.Node] {
			nontrivial = true
		}
		if o.Op != "Remove" {
			seen[o.Node] = true
		}
	}
	c.Sig(nontrivial, sig...)
	c.Obs("histories", 1)
	if c.Index < 2 {
		c.Sample(class, 2, map[string]any{"base_replicas": baseRep, "history": hist, "final_nodes": names})
	}
	if related && !hasPrefixPair(pool) {
		panic("pool not prefix related")
	}
}

func TestVerifC15(t *testing.T) {
	logx.Disable()
	np := kit.N(2000, 20000)
	kit.Run(t, "C15", "unrelated", kit.N(300, 15000), func(c *kit.Case) { runHistory(c, false, np) })
	kit.Run(t, "C15", "prefix-related", kit.N(100, 5000), func(c *kit.Case) { runHistory(c, true, np) })
	kit.End()
}
