// Package c15: consistent hashing — member-only, history-independent, minimally
// disruptive (DESIGN.md §4 C15). Metamorphic oracle, no re-implementation of the ring.
package c15

import (
	"fmt"
	"sort"
	"strconv"
	"strings"
	"sync"
	"sync/atomic"
	"testing"

	"github.com/zeromicro/go-zero/core/hash"
	"github.com/zeromicro/go-zero/core/lang"
	"github.com/zeromicro/go-zero/core/logx"

	"verifharness/kit"
)

type strNode struct{ name string }

func (s strNode) String() string { return s.name }

type opRec struct {
	Op       string
	Node     string // repr
	Kind     string // string int stringer
	Replicas int    // effective replicas after the op (adds)
	Weight   int
}

type member struct {
	node     any
	replicas int
}

func mkNode(r *kit.Rand, name string) (any, string) {
	if n, err := strconv.Atoi(name); err == nil && r.Bool() {
		return n, "int"
	}
	if r.Chance(0.25) {
		return strNode{name}, "stringer"
	}
	return name, "string"
}

func isDigits(s string) bool {
	if s == "" {
		return false
	}
	for _, ch := range s {
		if ch < '0' || ch > '9' {
			return false
		}
	}
	return true
}

// prefixRelated: the virtual-node keys repr+itoa(i) of the two names can coincide.
func prefixRelated(a, b string) bool {
	if len(a) > len(b) {
		a, b = b, a
	}
	return a != b && strings.HasPrefix(b, a) && isDigits(b[len(a):])
}

func hasPrefixPair(names []string) bool {
	for i := range names {
		for j := i + 1; j < len(names); j++ {
			if prefixRelated(names[i], names[j]) {
				return true
			}
		}
	}
	return false
}

func probes(n int) []any {
	ps := make([]any, 0, n)
	for i := 0; i < n; i++ {
		switch i % 3 {
		case 0:
			ps = append(ps, i*7919+13)
		case 1:
			ps = append(ps, "key:"+strconv.Itoa(i*31)+":"+strconv.Itoa(i))
		default:
			ps = append(ps, strNode{"user/" + strconv.Itoa(i)})
		}
	}
	return ps
}

func snapshot(h *hash.ConsistentHash, ps []any) []string {
	out := make([]string, len(ps))
	for i, p := range ps {
		v, ok := h.Get(p)
		if !ok {
			out[i] = "\x00none"
		} else {
			out[i] = lang.Repr(v)
		}
	}
	return out
}

func runHistory(c *kit.Case, related bool, nProbes int) {
	r := c.R
	class := "unrelated-node-names"
	var pool []string
	if related {
		class = "ring-has-prefix-related-node-names"
		pool = []string{"node1", "node10", "node11", "node111", "n", "n1", "n11", "n2", "1", "10", "11", "localhost:80", "localhost:8080", "localhost:808"}
	} else {
		pool = []string{"alpha", "bravo", "charlie", "delta", "echo", "foxtrot", "10.0.0.1:6379", "10.0.0.2:6379", "10.0.1.1:6379", "cache-a", "cache-b", "7", "42", "x"}
	}
	baseRep := 100
	var h *hash.ConsistentHash
	if r.Chance(0.5) {
		baseRep = kit.Choose(r, []int{100, 120, 150, 200})
		h = hash.NewCustomConsistentHash(baseRep, nil)
	} else {
		h = hash.NewConsistentHash()
	}
	ps := probes(nProbes)
	model := map[string]member{}
	var hist []opRec
	nOps := r.Range(1, 30)
	removedEver := map[string]bool{}
	prev := snapshot(h, ps)
	w := func() map[string]any {
		return map[string]any{"base_replicas": baseRep, "history": hist}
	}
	for step := 0; step < nOps && !c.Violated(); step++ {
		name := kit.Choose(r, pool)
		var rec opRec
		before := map[string]member{}
		for k, v := range model {
			before[k] = v
		}
		switch r.Pick(30, 20, 20, 30) {
		case 0:
			node, kind := mkNode(r, name)
			h.Add(node)
			model[name] = member{node, baseRep}
			rec = opRec{Op: "Add", Node: name, Kind: kind, Replicas: baseRep}
		case 1:
			node, kind := mkNode(r, name)
			rep := r.Range(1, 220)
			if r.Chance(0.12) {
				rep = kit.Choose(r, []int{0, 0, -1, -100})
			}
			h.AddWithReplicas(node, rep)
			eff := rep
			if eff > baseRep {
				eff = baseRep
			}
			if eff < 0 {
				eff = 0
			}
			model[name] = member{node, eff}
			if eff == 0 {
				c.Obs("zero_replica_adds", 1)
			}
			rec = opRec{Op: "AddWithReplicas", Node: name, Kind: kind, Replicas: eff}
		case 2:
			node, kind := mkNode(r, name)
			wt := r.Range(1, 100)
			if r.Chance(0.15) {
				wt = kit.Choose(r, []int{0, 0, 100, 101, 150})
			}
			h.AddWithWeight(node, wt)
			eff := baseRep * wt / 100
			if eff > baseRep {
				eff = baseRep
			}
			model[name] = member{node, eff}
			if eff == 0 {
				c.Obs("zero_replica_adds", 1)
			}
			rec = opRec{Op: "AddWithWeight", Node: name, Kind: kind, Weight: wt, Replicas: eff}
		default:
			node, kind := mkNode(r, name)
			h.Remove(node)
			delete(model, name)
			removedEver[name] = true
			rec = opRec{Op: "Remove", Node: name, Kind: kind}
		}
		hist = append(hist, rec)
		cur := snapshot(h, ps)
		c.Obs("ops", 1)
		c.Obs("probe_lookups", int64(len(ps)))

		// (a) membership
		effective := 0
		for _, m := range model {
			if m.replicas > 0 {
				effective++
			}
		}
		for i, o := range cur {
			if o == "\x00none" {
				if effective > 0 {
					c.Viol("C15/membership/none-on-nonempty-ring/"+class, fmt.Sprintf("Get(%v) returned no node although the ring has %d nodes with replicas", ps[i], effective), w())
					break
				}
				continue
			}
			m, ok := model[o]
			if !ok {
				kind := "non-member-returned"
				if removedEver[o] {
					kind = "removed-node-returned"
				}
				c.Viol("C15/membership/"+kind+"/"+class, fmt.Sprintf("Get(%v) returned %q which is not in the ring", ps[i], o), w())
				break
			} else if m.replicas == 0 {
				c.Viol("C15/membership/zero-replica-node-returned/"+class, fmt.Sprintf("Get(%v) returned %q which has 0 virtual nodes", ps[i], o), w())
				break
			}
		}

		// (c) minimal disruption across this op
		moved := 0
		for i := range cur {
			if cur[i] == prev[i] {
				continue
			}
			moved++
			switch rec.Op {
			case "Remove":
				if prev[i] != rec.Node {
					c.Viol("C15/disruption-remove/"+class, fmt.Sprintf("Remove(%s) moved probe %v from %q to %q", rec.Node, ps[i], prev[i], cur[i]), w())
				}
			default:
				_, existed := before[rec.Node]
				if !existed {
					if cur[i] != rec.Node {
						c.Viol("C15/disruption-add/"+class, fmt.Sprintf("%s(%s) of a new node moved probe %v from %q to %q", rec.Op, rec.Node, ps[i], prev[i], cur[i]), w())
					}
				} else if cur[i] != rec.Node && prev[i] != rec.Node {
					c.Viol("C15/disruption-readd/"+class, fmt.Sprintf("re-adding %s moved probe %v from %q to %q", rec.Node, ps[i], prev[i], cur[i]), w())
				}
			}
			if c.Violated() {
				break
			}
		}
		c.Obs("probes_moved", int64(moved))
		prev = cur

		// (b) history independence: rebuild from the final set, sorted and shuffled
		if !c.Violated() && (step == nOps-1 || r.Chance(0.3)) {
			names := make([]string, 0, len(model))
			for k := range model {
				names = append(names, k)
			}
			sort.Strings(names)
			orders := [][]string{names}
			sh := make([]string, len(names))
			for i, j := range r.Perm(len(names)) {
				sh[i] = names[j]
			}
			orders = append(orders, sh)
			for oi, ord := range orders {
				h2 := hash.NewCustomConsistentHash(baseRep, nil)
				for _, k := range ord {
					h2.AddWithReplicas(model[k].node, model[k].replicas)
				}
				ref := snapshot(h2, ps)
				diff := 0
				first := -1
				for i := range ref {
					if ref[i] != cur[i] {
						diff++
						if first < 0 {
							first = i
						}
					}
				}
				c.Obs("rebuild_comparisons", 1)
				if diff > 0 {
					c.Viol("C15/history-dependence/"+class,
						fmt.Sprintf("%d of %d probes map differently on the ring reached by the history and on a ring built from the same final node set (order %d: %v); e.g. %v -> %q vs %q",
							diff, len(ps), oi, ord, ps[first], cur[first], ref[first]), w())
					break
				}
			}
		}
	}
	names := make([]string, 0, len(model))
	for k := range model {
		names = append(names, k)
	}
	sort.Strings(names)
	sig := []any{related, baseRep}
	for _, o := range hist {
		sig = append(sig, o.Op, o.Node, o.Replicas)
	}
	// non-trivial: the history removed or re-added a node that was present
	nontrivial := false
	seen := map[string]bool{}
	for _, o := range hist {
		if seen[o.Node] {
			nontrivial = true
		}
		if o.Op != "Remove" {
			seen[o.Node] = true
		}
	}
	c.Sig(nontrivial, sig...)
	c.Obs("histories", 1)
	if c.Index < 2 {
		c.Sample(class, 2, map[string]any{"base_replicas": baseRep, "history": hist, "final_nodes": names})
	}
	if related && !hasPrefixPair(pool) {
		panic("pool not prefix related")
	}
}

// runConcurrent: G goroutines mutate DISJOINT sets of nodes of one ring concurrently (each
// goroutine's ops on its own nodes are sequential, so the final node set is determined whatever
// the interleaving) while readers call Get. At quiescence the ring must map every probe exactly
// like a ring built from scratch from the final node set ("the mapping depends only on the
// current set of nodes"), and no reader may have seen a node that never was in the ring.
func runConcurrent(c *kit.Case, nProbes int) {
	r := c.R
	related := r.Bool()
	class := "unrelated-node-names"
	pool := []string{"alpha", "bravo", "charlie", "delta", "echo", "foxtrot", "golf", "hotel", "india", "juliet", "kilo", "lima", "mike", "10.0.0.1:6379", "10.0.0.2:6379", "x"}
	if related {
		class = "ring-has-prefix-related-node-names"
		pool = []string{"node1", "node10", "node11", "node111", "n", "n1", "n11", "n2", "1", "10", "11", "12", "localhost:80", "localhost:8080", "localhost:808", "node2"}
	}
	baseRep := kit.Choose(r, []int{100, 100, 150})
	h := hash.NewCustomConsistentHash(baseRep, nil)
	G := kit.Choose(r, []int{2, 3, 4, 8})
	type cop struct {
		Op   string
		Node string
		Rep  int
	}
	plans := make([][]cop, G)
	final := map[string]int{} // name -> replicas (present) ; absent = removed
	all := map[string]bool{}
	perm := r.Perm(len(pool))
	for g := 0; g < G; g++ {
		var mine []string
		for i, pi := range perm {
			if i%G == g {
				mine = append(mine, pool[pi])
			}
		}
		n := r.Range(3, 14)
		for i := 0; i < n; i++ {
			name := kit.Choose(r, mine)
			all[name] = true
			switch r.Pick(35, 25, 40) {
			case 0:
				plans[g] = append(plans[g], cop{"Add", name, baseRep})
				final[name] = baseRep
			case 1:
				rep := r.Range(1, baseRep)
				plans[g] = append(plans[g], cop{"AddWithReplicas", name, rep})
				final[name] = rep
			default:
				plans[g] = append(plans[g], cop{"Remove", name, 0})
				delete(final, name)
			}
		}
	}
	// pre-populate with half of the pool so that removes have something to remove
	for i, pi := range perm {
		if i%2 == 0 {
			h.Add(pool[pi])
			all[pool[pi]] = true
			if _, touched := final[pool[pi]]; !touched {
				removedLater := false
				for g := range plans {
					for _, o := range plans[g] {
						if o.Node == pool[pi] {
							removedLater = true // its fate is decided by the plan
						}
					}
				}
				if !removedLater {
					final[pool[pi]] = baseRep
				}
			}
		}
	}
	ps := probes(nProbes)
	start := make(chan struct{})
	done := make(chan struct{})
	var wg sync.WaitGroup
	var badMu sync.Mutex
	var bad []string
	overl := kit.Gauge{}
	var maxOverlap int64
	for g := 0; g < G; g++ {
		wg.Add(1)
		go func(plan []cop) {
			defer wg.Done()
			<-start
			for _, o := range plan {
				if v := overl.Enter(); v > 1 {
					atomic.StoreInt64(&maxOverlap, 1)
				}
				switch o.Op {
				case "Add":
					h.Add(o.Node)
				case "AddWithReplicas":
					h.AddWithReplicas(o.Node, o.Rep)
				default:
					h.Remove(o.Node)
				}
				overl.Exit()
			}
		}(plans[g])
	}
	var rwg sync.WaitGroup
	for k := 0; k < 2; k++ {
		rwg.Add(1)
		go func(k int) {
			defer rwg.Done()
			<-start
			for i := 0; ; i++ {
				select {
				case <-done:
					return
				default:
				}
				v, ok := h.Get(ps[(i*7+k)%len(ps)])
				if ok && !all[lang.Repr(v)] {
					badMu.Lock()
					bad = append(bad, lang.Repr(v))
					badMu.Unlock()
				}
			}
		}(k)
	}
	close(start)
	wg.Wait()
	close(done)
	rwg.Wait()
	w := map[string]any{"base_replicas": baseRep, "plans": plans, "final": final}
	if len(bad) > 0 {
		c.Viol("C15/concurrent/non-member-returned/"+class, fmt.Sprintf("a concurrent Get returned %q which never was in the ring", bad[0]), w)
	}
	names := make([]string, 0, len(final))
	for k := range final {
		names = append(names, k)
	}
	sort.Strings(names)
	h2 := hash.NewCustomConsistentHash(baseRep, nil)
	for _, k := range names {
		h2.AddWithReplicas(k, final[k])
	}
	cur, ref := snapshot(h, ps), snapshot(h2, ps)
	diff, first := 0, -1
	for i := range ref {
		if ref[i] != cur[i] {
			diff++
			if first < 0 {
				first = i
			}
		}
	}
	if diff > 0 {
		c.Viol("C15/concurrent/final-ring-differs/"+class,
			fmt.Sprintf("after concurrent Add/Remove of disjoint node sets finished, %d of %d probes map differently from a ring built from the final node set %v; e.g. %v -> %q vs %q",
				diff, len(ps), names, ps[first], cur[first], ref[first]), w)
	}
	c.Obs("conc_histories", 1)
	if atomic.LoadInt64(&maxOverlap) == 1 {
		c.Obs("conc_histories_with_overlapping_mutations", 1)
	}
	sig := []any{"conc", related, baseRep, G}
	for g := range plans {
		for _, o := range plans[g] {
			sig = append(sig, g, o.Op, o.Node, o.Rep)
		}
	}
	c.Sig(atomic.LoadInt64(&maxOverlap) == 1, sig...)
	if c.Index < 1 {
		c.Sample("concurrent", 1, w)
	}
}

func TestVerifC15(t *testing.T) {
	logx.Disable()
	np := kit.N(2000, 20000)
	kit.Run(t, "C15", "unrelated", kit.N(300, 15000), func(c *kit.Case) { runHistory(c, false, np) })
	kit.Run(t, "C15", "prefix-related", kit.N(200, 8000), func(c *kit.Case) { runHistory(c, true, np) })
	kit.Run(t, "C15", "concurrent", kit.N(300, 10000), func(c *kit.Case) { runConcurrent(c, np/4) })
	kit.Run(t, "C15", "repr-kinds", kit.N(260, 6000), func(c *kit.Case) { runKinds(c, np) })
	kit.Run(t, "C15", "weak-hash", kit.N(128, 3000), func(c *kit.Case) { runWeakHash(c, 300) })
	kit.Run(t, "C15", "cache-cluster", kit.N(160, 3000), func(c *kit.Case) { runCluster(c, "cache.New", clusterKeys(1200, 3000)) })
	kit.Run(t, "C15", "kv-store", kit.N(64, 1000), func(c *kit.Case) { runCluster(c, "kv.NewStore", clusterKeys(180, 400)) })
	kit.End()
}
