package c16

// Values of every kind for the Cache / Ring histories, and the kind-aware comparison the harness
// uses for them (third round).
//
// The statement says "returns the latest value set for a key": for a reference kind (pointer, map,
// channel, func, slice) the latest value is THAT reference, so results are compared by identity; for
// the other kinds by a deep comparison that treats NaN as equal to itself (bit pattern) and walks
// structs / arrays field by field. The harness never applies `==` to two `any`s that came out of a
// collection (for a dynamic type that is not comparable `==` panics, and NaN != NaN).

import (
	"fmt"
	"math"
	"reflect"
	"strings"

	"verifharness/kit"
)

// cval is one value handed to go-zero.
type cval struct {
	v     any
	kind  string // fine-grained kind, e.g. "bytes", "nan", "ptr"
	class string // coarse class used in observation counters and violation keys
	repr  string // printable, free of addresses (the signature of a history hashes it)
	rel   string // "", "same-value-again", "equal-not-identical"
}

func (x cval) String() string {
	if x.rel != "" {
		return x.repr + "[" + x.rel + "]"
	}
	return x.repr
}

// structs stored by value
type (
	cvPlain struct { // comparable
		A int
		B string
	}
	cvTagged struct { // not comparable: slice field
		ID   int
		Tags []string
	}
	cvNested struct { // not comparable: map field inside an embedded array of structs
		ID int
		In [1]struct{ M map[string]int }
	}
)

// value classes (coarse)
const (
	clScalar       = "comparable-scalar"     // int, string, bool, finite float, +-Inf, comparable struct/array
	clNaN          = "nan"                   // NaN (NaN != NaN)
	clNil          = "nil"                   // untyped nil
	clZero         = "typed-nil-or-zero"     // typed nil pointer/slice/map/func/chan, 0, "", false
	clReference    = "comparable-reference"  // pointer, channel
	clUncomparable = "uncomparable"          // []byte, slice, map, func, struct with a slice/map field
)

var cvKinds = []string{
	"int", "string", "float", "bool", "nil",
	"nan", "+inf", "-inf",
	"zero-int", "empty-string", "false", "nil-ptr", "nil-bytes", "nil-map", "nil-func", "nil-chan",
	"ptr", "ptr-struct", "chan",
	"bytes", "empty-bytes", "slice", "map", "func", "struct-slice", "struct-map", "slice-of-slices",
	"struct-plain", "array",
}

// mkFresh builds a fresh value of the given kind, identified by id.
func mkFresh(kind string, id int) cval {
	mk := func(v any, class, repr string) cval { return cval{v: v, kind: kind, class: class, repr: repr} }
	switch kind {
	case "int":
		return mk(id, clScalar, fmt.Sprintf("int(%d)", id))
	case "string":
		return mk(fmt.Sprintf("v%d", id), clScalar, fmt.Sprintf("%q", fmt.Sprintf("v%d", id)))
	case "float":
		return mk(float64(id)+0.5, clScalar, fmt.Sprintf("float64(%d.5)", id))
	case "bool":
		return mk(true, clScalar, "true")
	case "nil":
		return mk(nil, clNil, "nil")
	case "nan":
		// a NaN of its own: the payload carries the id, compared by bit pattern
		return mk(math.Float64frombits(0x7ff8000000000000|uint64(id&0xffff)), clNaN, fmt.Sprintf("NaN(payload %d)", id&0xffff))
	case "+inf":
		return mk(math.Inf(1), clScalar, "+Inf")
	case "-inf":
		return mk(math.Inf(-1), clScalar, "-Inf")
	case "zero-int":
		return mk(0, clZero, "int(0)")
	case "empty-string":
		return mk("", clZero, `""`)
	case "false":
		return mk(false, clZero, "false")
	case "nil-ptr":
		return mk((*int)(nil), clZero, "(*int)(nil)")
	case "nil-bytes":
		return mk([]byte(nil), clZero, "[]byte(nil)")
	case "nil-map":
		return mk(map[string]int(nil), clZero, "map[string]int(nil)")
	case "nil-func":
		return mk((func() int)(nil), clZero, "(func() int)(nil)")
	case "nil-chan":
		return mk((chan int)(nil), clZero, "(chan int)(nil)")
	case "ptr":
		p := new(int)
		*p = id
		return mk(p, clReference, fmt.Sprintf("ptr#%d(&int(%d))", id, id))
	case "ptr-struct":
		return mk(&cvTagged{ID: id, Tags: []string{"t"}}, clReference, fmt.Sprintf("ptr#%d(&cvTagged{%d,[t]})", id, id))
	case "chan":
		return mk(make(chan int, 1), clReference, fmt.Sprintf("chan#%d", id))
	case "bytes":
		return mk([]byte(fmt.Sprintf("b%d", id)), clUncomparable, fmt.Sprintf("bytes#%d(%q)", id, fmt.Sprintf("b%d", id)))
	case "empty-bytes":
		return mk([]byte{}, clUncomparable, fmt.Sprintf("bytes#%d(empty)", id))
	case "slice":
		return mk([]int{id, id + 1, id + 2}, clUncomparable, fmt.Sprintf("slice#%d([%d %d %d])", id, id, id+1, id+2))
	case "map":
		return mk(map[string]int{"id": id}, clUncomparable, fmt.Sprintf("map#%d(map[id:%d])", id, id))
	case "func":
		return mk(func() int { return id }, clUncomparable, fmt.Sprintf("func#%d", id))
	case "struct-slice":
		return mk(cvTagged{ID: id, Tags: []string{"a", "b"}}, clUncomparable, fmt.Sprintf("cvTagged#%d{%d,[a b]}", id, id))
	case "struct-map":
		var s cvNested
		s.ID = id
		s.In[0].M = map[string]int{"id": id}
		return mk(s, clUncomparable, fmt.Sprintf("cvNested#%d{%d,[{map[id:%d]}]}", id, id, id))
	case "slice-of-slices":
		return mk([][]string{{"x"}, nil, {fmt.Sprint(id)}}, clUncomparable, fmt.Sprintf("slices#%d([[x] [] [%d]])", id, id))
	case "struct-plain":
		return mk(cvPlain{A: id, B: "p"}, clScalar, fmt.Sprintf("cvPlain{%d,p}", id))
	case "array":
		return mk([2]int{id, -id}, clScalar, fmt.Sprintf("[2]int{%d,%d}", id, -id))
	}
	panic("c16: unknown value kind " + kind)
}

// mkEqualTwin returns a value that is equal to x (same content) but not identical to it: another
// pointer to an equal pointee, another backing array / map with the same elements. For kinds where
// that makes no difference (scalars) it is simply the same value again; ok=false where no such twin
// exists (func, chan, nil kinds).
func mkEqualTwin(x cval, id int) (cval, bool) {
	t := x
	t.rel = "equal-not-identical"
	switch x.kind {
	case "int", "float", "bool", "+inf", "-inf", "zero-int", "false", "struct-plain", "array", "nan":
		return t, true
	case "string", "empty-string":
		t.v = strings.Clone(x.v.(string)) // another string header, same content
		return t, true
	case "ptr":
		p := new(int)
		*p = *(x.v.(*int))
		t.v, t.repr = p, fmt.Sprintf("ptr#%d(&int(%d))", id, *p)
		return t, true
	case "ptr-struct":
		o := x.v.(*cvTagged)
		t.v, t.repr = &cvTagged{ID: o.ID, Tags: append([]string(nil), o.Tags...)}, fmt.Sprintf("ptr#%d(&cvTagged{%d,%v})", id, o.ID, o.Tags)
		return t, true
	case "bytes":
		o := x.v.([]byte)
		t.v, t.repr = append([]byte(nil), o...), fmt.Sprintf("bytes#%d(%q)", id, string(o))
		return t, true
	case "slice":
		o := x.v.([]int)
		t.v, t.repr = append([]int(nil), o...), fmt.Sprintf("slice#%d(%v)", id, o)
		return t, true
	case "map":
		o := x.v.(map[string]int)
		m := make(map[string]int, len(o))
		for k, v := range o {
			m[k] = v
		}
		t.v, t.repr = m, fmt.Sprintf("map#%d(%v)", id, o)
		return t, true
	case "struct-slice":
		o := x.v.(cvTagged)
		t.v, t.repr = cvTagged{ID: o.ID, Tags: append([]string(nil), o.Tags...)}, fmt.Sprintf("cvTagged#%d{%d,%v}", id, o.ID, o.Tags)
		return t, true
	}
	return cval{}, false
}

// mkVal draws the next value of a history: mostly a fresh value of a random kind; with some
// probability the SAME value as prev again, or a value equal but not identical to prev.
func mkVal(r *kit.Rand, id int, prev *cval) cval {
	if prev != nil {
		switch r.Pick(70, 12, 18) {
		case 1:
			s := *prev
			s.rel = "same-value-again"
			return s
		case 2:
			if t, ok := mkEqualTwin(*prev, id); ok {
				return t
			}
		}
	}
	// half of the values are plain scalars as before, the other half is spread over all kinds
	if r.Chance(0.35) {
		return mkFresh(kit.Choose(r, []string{"int", "int", "string", "nil"}), id)
	}
	return mkFresh(kit.Choose(r, cvKinds), id)
}

// isRefKind: values whose identity (not only their content) is what "the latest value" means.
func isRefKind(x any) bool {
	if x == nil {
		return false
	}
	switch reflect.TypeOf(x).Kind() {
	case reflect.Ptr, reflect.Map, reflect.Chan, reflect.Func, reflect.Slice, reflect.UnsafePointer:
		return true
	}
	return false
}

// sameVal: is `got` the value `want`? Identity for reference kinds, bit pattern for floats, field by
// field for structs and arrays. Never panics, never uses == on interfaces holding arbitrary types.
func sameVal(got, want any) bool {
	if got == nil || want == nil { // comparing an interface with the nil literal is always safe
		return got == nil && want == nil
	}
	a, b := reflect.ValueOf(got), reflect.ValueOf(want)
	if a.Type() != b.Type() {
		return false
	}
	return sameRV(a, b)
}

func sameRV(a, b reflect.Value) bool {
	switch a.Kind() {
	case reflect.Bool:
		return a.Bool() == b.Bool()
	case reflect.Int, reflect.Int8, reflect.Int16, reflect.Int32, reflect.Int64:
		return a.Int() == b.Int()
	case reflect.Uint, reflect.Uint8, reflect.Uint16, reflect.Uint32, reflect.Uint64, reflect.Uintptr:
		return a.Uint() == b.Uint()
	case reflect.Float32, reflect.Float64:
		return math.Float64bits(a.Float()) == math.Float64bits(b.Float())
	case reflect.Complex64, reflect.Complex128:
		x, y := a.Complex(), b.Complex()
		return math.Float64bits(real(x)) == math.Float64bits(real(y)) && math.Float64bits(imag(x)) == math.Float64bits(imag(y))
	case reflect.String:
		return a.String() == b.String()
	case reflect.Func:
		if a.IsNil() || b.IsNil() {
			return a.IsNil() && b.IsNil()
		}
		// closures of one func literal share their code pointer: the funcs this harness stores return their identity
		if a.CanInterface() && b.CanInterface() {
			fa, ok1 := a.Interface().(func() int)
			fb, ok2 := b.Interface().(func() int)
			if ok1 && ok2 {
				return fa() == fb()
			}
		}
		return a.Pointer() == b.Pointer()
	case reflect.Ptr, reflect.Chan, reflect.Map, reflect.UnsafePointer:
		return a.Pointer() == b.Pointer()
	case reflect.Slice:
		if a.IsNil() != b.IsNil() || a.Len() != b.Len() || a.Cap() != b.Cap() {
			return false
		}
		return a.Pointer() == b.Pointer()
	case reflect.Interface:
		if a.IsNil() || b.IsNil() {
			return a.IsNil() && b.IsNil()
		}
		if a.Elem().Type() != b.Elem().Type() {
			return false
		}
		return sameRV(a.Elem(), b.Elem())
	case reflect.Array:
		for i := 0; i < a.Len(); i++ {
			if !sameRV(a.Index(i), b.Index(i)) {
				return false
			}
		}
		return true
	case reflect.Struct:
		for i := 0; i < a.NumField(); i++ {
			if !sameRV(a.Field(i), b.Field(i)) {
				return false
			}
		}
		return true
	}
	return false
}

// descr describes a value that came out of a collection, without addresses.
func descr(x any) string {
	if x == nil {
		return "nil"
	}
	v := reflect.ValueOf(x)
	switch v.Kind() {
	case reflect.Func:
		if f, ok := x.(func() int); ok && f != nil {
			return fmt.Sprintf("func#%d", f())
		}
		return fmt.Sprintf("%T", x)
	case reflect.Chan:
		if v.IsNil() {
			return fmt.Sprintf("(%T)(nil)", x)
		}
		return fmt.Sprintf("%T(some channel)", x)
	case reflect.Ptr:
		if v.IsNil() {
			return fmt.Sprintf("(%T)(nil)", x)
		}
		return "&" + descr(v.Elem().Interface())
	case reflect.Float32, reflect.Float64:
		if f := v.Float(); f != f {
			return fmt.Sprintf("NaN(payload %d)", math.Float64bits(f)&0xffff)
		}
	case reflect.Slice, reflect.Map:
		if v.IsNil() {
			return fmt.Sprintf("%T(nil)", x)
		}
	}
	return fmt.Sprintf("%T(%v)", x, x)
}

// descrAll describes a []any element by element.
func descrAll(xs []any) string {
	parts := make([]string, len(xs))
	for i, x := range xs {
		parts[i] = descr(x)
	}
	return "[" + strings.Join(parts, ", ") + "]"
}

// valStats counts what kinds of values a history stored.
type valStats struct {
	byClass      map[string]int64
	same, twins  int64
	refCompares  int64 // retrieved values compared by identity
	deepCompares int64 // retrieved values compared by the kind-aware deep comparison
}

func (s *valStats) note(x cval) {
	if s.byClass == nil {
		s.byClass = map[string]int64{}
	}
	s.byClass[x.class]++
	switch x.rel {
	case "same-value-again":
		s.same++
	case "equal-not-identical":
		s.twins++
	}
}

func (s *valStats) compared(want any) {
	if isRefKind(want) {
		s.refCompares++
	} else {
		s.deepCompares++
	}
}

func (s *valStats) obs(c *kit.Case, prefix string) {
	c.Obs(prefix+"_values_comparable_scalar", s.byClass[clScalar])
	c.Obs(prefix+"_values_nan", s.byClass[clNaN])
	c.Obs(prefix+"_values_untyped_nil", s.byClass[clNil])
	c.Obs(prefix+"_values_typed_nil_or_zero", s.byClass[clZero])
	c.Obs(prefix+"_values_pointer_or_channel", s.byClass[clReference])
	c.Obs(prefix+"_values_of_uncomparable_dynamic_type", s.byClass[clUncomparable])
	c.Obs(prefix+"_values_same_value_set_again", s.same)
	c.Obs(prefix+"_values_equal_but_not_identical_to_previous", s.twins)
	c.Obs(prefix+"_results_compared_by_identity", s.refCompares)
	c.Obs(prefix+"_results_compared_by_kind_aware_deep_comparison", s.deepCompares)
}

func (s *valStats) allClasses() bool {
	return s.byClass[clNaN] > 0 && s.byClass[clUncomparable] > 0 && s.byClass[clReference] > 0 && s.byClass[clZero] > 0
}
