package c16

import (
	"errors"
	"fmt"
	"testing"
	"time"

	"github.com/zeromicro/go-zero/core/collection"

	"verifharness/kit"
)

// ---------------------------------------------------------------- Cache (black-box)
//
// Model: map + recency list. "Use" = Set/SetWithExpire, a Get that hits, a Take
// that hits or loads successfully. With a limit L>0 inserting a new key into a
// full cache evicts the least recently used one. The expiry is hours away, so no
// entry expires during a history (expiry is the white-box part's business).

const cacheFarExpiry = 6 * time.Hour

type cacheModel struct {
	limit int
	data  map[string]cval
	order []string          // most recently used first (limit > 0 only)
	gone  map[string]string // why a key is absent: deleted | evicted
	// statistics
	evictions, recencyMattered int64
	insertSeq                  map[string]int
	seq                        int
}

func newCacheModel(limit int) *cacheModel {
	return &cacheModel{limit: limit, data: map[string]cval{}, gone: map[string]string{}, insertSeq: map[string]int{}}
}

func (m *cacheModel) touch(k string) {
	if m.limit <= 0 {
		return
	}
	for i, x := range m.order {
		if x == k {
			copy(m.order[1:i+1], m.order[:i])
			m.order[0] = k
			return
		}
	}
	m.order = append([]string{k}, m.order...)
}

func (m *cacheModel) get(k string) (cval, bool) {
	v, ok := m.data[k]
	if ok {
		m.touch(k)
	}
	return v, ok
}

func (m *cacheModel) set(k string, v cval) (evicted string) {
	if _, ok := m.data[k]; !ok {
		m.seq++
		m.insertSeq[k] = m.seq
	}
	m.data[k] = v
	delete(m.gone, k)
	m.touch(k)
	if m.limit > 0 && len(m.order) > m.limit {
		victim := m.order[len(m.order)-1]
		m.order = m.order[:len(m.order)-1]
		// would plain insertion order have chosen the same victim?
		oldest := victim
		for x := range m.data {
			if x != k && m.insertSeq[x] < m.insertSeq[oldest] {
				oldest = x
			}
		}
		if oldest != victim {
			m.recencyMattered++
		}
		m.evictions++
		delete(m.data, victim)
		m.gone[victim] = "evicted"
		return victim
	}
	return ""
}

func (m *cacheModel) del(k string) {
	if _, ok := m.data[k]; ok {
		m.gone[k] = "deleted"
	}
	delete(m.data, k)
	for i, x := range m.order {
		if x == k {
			m.order = append(m.order[:i], m.order[i+1:]...)
			break
		}
	}
}

func (m *cacheModel) why(k string) string {
	if w, ok := m.gone[k]; ok {
		return w
	}
	return "never-set"
}

type cacheRun struct {
	c     *kit.Case
	m     *cacheModel
	cache *collection.Cache
	rec   *rec
	keys  []string
	nextV int
	bad   bool
	r     *kit.Rand // source of the value kinds (nil: plain integers, every 17th value nil)
	last  *cval     // the value stored most recently under any key
	vs    valStats
	// stats
	takeHits, takeLoads, takeFails, gets int64
}

func (cr *cacheRun) wit(extra map[string]any) map[string]any {
	w := cr.rec.witness(extra)
	w["limit"] = cr.m.limit
	w["model_lru_order_most_recent_first"] = append([]string(nil), cr.m.order...)
	return w
}

func (cr *cacheRun) viol(key, what string) {
	cr.bad = true
	cr.c.Viol(key, what, cr.wit(nil))
}

func (cr *cacheRun) get(k string) bool {
	cr.rec.op("Get(" + k + ")")
	cr.gets++
	wantV, wantOK := cr.m.get(k)
	gotV, gotOK := cr.cache.Get(k)
	switch {
	case wantOK && !gotOK:
		cr.viol("C16/cache/get/live-key-missing", fmt.Sprintf("Get(%s) missed; the key was set to %v and was neither deleted nor due for LRU eviction (limit %d)", k, wantV, cr.m.limit))
	case !wantOK && gotOK:
		cr.viol("C16/cache/get/dead-key-present/"+cr.m.why(k), fmt.Sprintf("Get(%s) returned %s although the key is %s", k, descr(gotV), cr.m.why(k)))
	case wantOK && !sameVal(gotV, wantV.v):
		cr.viol("C16/cache/get/not-latest-value"+valClassSuffix(wantV), fmt.Sprintf("Get(%s) returned %s, latest value set is %v (reference kinds are compared by identity)", k, descr(gotV), wantV))
	}
	if wantOK {
		cr.vs.compared(wantV.v)
	}
	return gotOK
}

// valClassSuffix keeps the established keys for plain comparable scalars and names the class of the value otherwise.
func valClassSuffix(v cval) string {
	if v.class == clScalar || v.class == clNil {
		return ""
	}
	return "/value-kind=" + v.class
}

// newVal draws the next value to store under k: a fresh one of some kind, the same value the key (or the
// key written before) holds, or a value equal but not identical to it.
func (cr *cacheRun) newVal(k string) cval {
	cr.nextV++
	var v cval
	if cr.r == nil {
		v = mkFresh("int", cr.nextV)
		if cr.nextV%17 == 0 {
			v = mkFresh("nil", cr.nextV) // a nil value is a value
		}
	} else {
		prev := cr.last
		if cur, ok := cr.m.data[k]; ok && cr.r.Chance(0.7) {
			prev = &cur
		}
		v = mkVal(cr.r, cr.nextV, prev)
	}
	cr.vs.note(v)
	cr.last = &v
	return v
}

func (cr *cacheRun) set(k string, withExpire bool) {
	v := cr.newVal(k)
	if withExpire {
		cr.rec.opf("SetWithExpire(%s,%v,%v)", k, v, cacheFarExpiry+time.Hour)
		cr.cache.SetWithExpire(k, v.v, cacheFarExpiry+time.Hour)
	} else {
		cr.rec.opf("Set(%s,%v)", k, v)
		cr.cache.Set(k, v.v)
	}
	cr.m.set(k, v)
}

func (cr *cacheRun) del(k string) {
	cr.rec.op("Del(" + k + ")")
	cr.cache.Del(k)
	cr.m.del(k)
}

var errLoad = errors.New("c16: loader failed")

func (cr *cacheRun) take(k string, fail bool) {
	loadV := cr.newVal(k)
	cr.rec.opf("Take(%s, loader=>%s)", k, map[bool]string{false: loadV.String(), true: "error"}[fail])
	calls := 0
	gotV, gotErr := cr.cache.Take(k, func() (any, error) {
		calls++
		if fail {
			return nil, errLoad
		}
		return loadV.v, nil
	})
	wantV, hit := cr.m.get(k)
	switch {
	case hit:
		cr.takeHits++
		switch {
		case calls > 0:
			cr.viol("C16/cache/take/loader-called-on-hit", fmt.Sprintf("Take(%s) called the loader %d time(s) although the key is cached with %v", k, calls, wantV))
		case gotErr != nil:
			cr.viol("C16/cache/take/error-on-hit", fmt.Sprintf("Take(%s) returned error %v on a cached key", k, gotErr))
		case !sameVal(gotV, wantV.v):
			cr.viol("C16/cache/take/not-latest-value"+valClassSuffix(wantV), fmt.Sprintf("Take(%s) returned %s, latest value set is %v (reference kinds are compared by identity)", k, descr(gotV), wantV))
		}
		cr.vs.compared(wantV.v)
	case calls != 1:
		cr.viol("C16/cache/take/loader-calls-on-miss", fmt.Sprintf("Take(%s) on a %s key called the loader %d times, want exactly once", k, cr.m.why(k), calls))
	case fail:
		cr.takeFails++
		if gotErr == nil {
			cr.viol("C16/cache/take/load-error-swallowed", fmt.Sprintf("Take(%s): the loader failed but Take returned (%s, nil)", k, descr(gotV)))
		}
		// nothing may have been cached (on a correct cache this Get misses and changes nothing)
		if !cr.bad {
			if v, ok := cr.cache.Get(k); ok {
				cr.viol("C16/cache/take/failed-load-cached", fmt.Sprintf("Take(%s): the loader failed, yet the key is cached afterwards with %s", k, descr(v)))
			}
		}
	default:
		cr.takeLoads++
		if gotErr != nil || !sameVal(gotV, loadV.v) {
			cr.viol("C16/cache/take/wrong-result-after-load"+valClassSuffix(loadV), fmt.Sprintf("Take(%s): loader returned %v, Take returned (%s, %v)", k, loadV, descr(gotV), gotErr))
		}
		cr.vs.compared(loadV.v)
		cr.m.set(k, loadV)
	}
}

// sweep reads every key of the universe (in random order; the model is promoted
// in the same order) and so compares the complete content, and the size bound.
func (cr *cacheRun) sweep(r *kit.Rand) {
	present := 0
	for _, i := range r.Perm(len(cr.keys)) {
		if cr.bad {
			return
		}
		if cr.get(cr.keys[i]) {
			present++
		}
	}
	if cr.m.limit > 0 && present > cr.m.limit && !cr.bad {
		cr.viol("C16/cache/over-limit", fmt.Sprintf("%d keys present with limit %d", present, cr.m.limit))
	}
}

func cacheHistory(c *kit.Case, r *kit.Rand, sample bool) {
	limit := kit.Choose(r, []int{0, 1, 1, 2, 2, 3, 3, 4, 5, 8, 16})
	nkeys := limit + r.Range(1, 4)
	if limit == 0 {
		nkeys = r.Range(1, 6)
	}
	if r.Chance(0.15) {
		nkeys = r.Range(1, limit+1) // never overflows
	}
	var opts []collection.CacheOption
	if limit > 0 || r.Bool() {
		opts = append(opts, collection.WithLimit(limit))
	}
	if r.Chance(0.2) {
		opts = append(opts, collection.WithName("c16"))
	}
	cache, err := collection.NewCache(cacheFarExpiry, opts...)
	if err != nil {
		c.Viol("C16/cache/new-error", err.Error(), map[string]any{"limit": limit})
		return
	}
	cr := &cacheRun{c: c, m: newCacheModel(limit), cache: cache, rec: newRec(400), r: r}
	for i := 0; i < nkeys; i++ {
		cr.keys = append(cr.keys, fmt.Sprintf("k%d", i))
	}
	defer func() {
		if p := recover(); p != nil {
			cr.viol("C16/cache/panic", fmt.Sprintf("Cache panicked: %v", p))
		}
	}()
	L := r.Range(10, 160)
	// op weights vary per history so that some are Get-heavy (recency matters) and some Set-heavy (evictions)
	wSet, wGet, wDel, wTake, wSweep := r.Range(10, 50), r.Range(10, 50), r.Range(2, 15), r.Range(5, 30), r.Range(1, 4)
	for i := 0; i < L && !cr.bad; i++ {
		k := kit.Choose(r, cr.keys)
		switch r.Pick(wSet, wGet, wDel, wTake, wSweep) {
		case 0:
			cr.set(k, r.Chance(0.2))
		case 1:
			cr.get(k)
		case 2:
			cr.del(k)
		case 3:
			cr.take(k, r.Chance(0.3))
		default:
			cr.sweep(r)
		}
	}
	if !cr.bad {
		cr.sweep(r)
	}
	c.Obs("cache_histories", 1)
	c.Obs("cache_ops", int64(cr.rec.total))
	c.Obs("cache_model_evictions", cr.m.evictions)
	c.Obs("cache_evictions_where_recency_not_insertion_order_chose_the_victim", cr.m.recencyMattered)
	c.Obs("cache_take_hits_loader_not_called", cr.takeHits)
	c.Obs("cache_take_misses_loaded", cr.takeLoads)
	c.Obs("cache_take_misses_loader_failed", cr.takeFails)
	c.Obs("cache_gets_compared", cr.gets)
	cr.vs.obs(c, "cache")
	// non-trivial: the LRU victim of some eviction differed from the insertion-order victim, or (no limit) a
	// failed load was followed by further operations
	nontrivial := cr.m.recencyMattered > 0 || (limit == 0 && cr.takeFails > 0 && cr.takeHits > 0)
	c.Sig(nontrivial, "cache", limit, nkeys, cr.rec.h)
	if sample {
		c.Sample("cache", 2, cr.wit(map[string]any{"evictions": cr.m.evictions, "recency_mattered": cr.m.recencyMattered}))
	}
}

func cacheFamilies(t *testing.T) {
	const b = 10
	kit.Run(t, "C16", "cache-random", kit.N(400, 3200), func(c *kit.Case) {
		for h := 0; h < b && !c.Violated(); h++ {
			cacheHistory(c, c.R, c.Index == 0 && h < 2)
		}
		c.Evals(b)
	})
	kit.Run(t, "C16", "cache-conctake", kit.N(80, 1600), concTakeCase)
}
