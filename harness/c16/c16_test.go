// Package c16: in-memory collections of core/collection against sequential
// reference models (DESIGN.md §4 C16).
//
// Every history is a sequence of public-API calls on a fresh object; after every
// call the result is compared with an obviously-correct slice/map model stepped
// in lock-step. RollingWindow runs under the virtual clock (timex hook), so time
// steps land exactly on, 1 ns before and 1 ns after bucket boundaries. The Cache
// is used here with an expiry that is hours away (limit/LRU/Take/Del only); expiry
// itself is decided in ticks by the white-box part
// (whitebox/core/collection/zz_verif_c16_test.go).
//
// Third round: the Cache families store values of every kind (values_test.go) and compare results by
// identity / kind-aware deep comparison; alias_test.go scribbles on and retains every slice returned
// by Ring.Take and Set.Keys*.
//
// Nothing here depends on wall-clock time; all histories are sequential (the
// statement is about sequences).
package c16

import (
	"fmt"
	"testing"

	"github.com/zeromicro/go-zero/core/logx"

	"verifharness/kit"
)

// rec records one history: a rolling hash of everything that was done (the
// signature) and the operations themselves (all of them for small histories, the
// first and the last ones for the long SafeMap histories).
type rec struct {
	h     uint64
	head  []string
	tail  []string
	total int
	keep  int
}

func newRec(keep int) *rec { return &rec{h: 14695981039346656037, keep: keep} }

func (r *rec) mix(s string) {
	for i := 0; i < len(s); i++ {
		r.h ^= uint64(s[i])
		r.h *= 1099511628211
	}
	r.h ^= 0xff
	r.h *= 1099511628211
}

func (r *rec) op(s string) {
	r.total++
	r.mix(s)
	if len(r.head) < r.keep {
		r.head = append(r.head, s)
		return
	}
	if len(r.tail) >= 2*r.keep {
		r.tail = append(r.tail[:0], r.tail[r.keep:]...)
	}
	r.tail = append(r.tail, s)
}

func (r *rec) opf(format string, a ...any) { r.op(fmt.Sprintf(format, a...)) }

func (r *rec) witness(extra map[string]any) map[string]any {
	w := map[string]any{"ops_total": r.total, "ops": r.head}
	if len(r.tail) > 0 {
		t := r.tail
		if len(t) > r.keep {
			t = t[len(t)-r.keep:]
		}
		w["ops_skipped_between"] = r.total - len(r.head) - len(t)
		w["ops_last"] = t
		w["note"] = "the case is deterministic: re-run it with the replay command to get the full sequence"
	}
	for k, v := range extra {
		w[k] = v
	}
	return w
}

func TestVerifC16(t *testing.T) {
	logx.Disable()

	rollingWindowFamilies(t)
	cacheFamilies(t)
	safeMapFamilies(t)
	queueFamilies(t)
	ringFamilies(t)
	setFamilies(t)
	extFamilies(t)
	aliasFamilies(t)

	kit.End()
}
