package c16

import (
	"fmt"
	"testing"
	"time"

	"github.com/zeromicro/go-zero/core/collection"

	"verifharness/kit"
)

// ---------------------------------------------------------------- RollingWindow
//
// Model: bucket k covers [t0+k·interval, t0+(k+1)·interval) where t0 is the
// (virtual) time of construction; a value added at time t belongs to bucket
// floor((t-t0)/interval). At time t, cur = floor((t-t0)/interval) and Reduce must
// visit exactly the values of the buckets in (cur-size, cur] — without cur when
// IgnoreCurrentBucket is configured. The verdict is taken on the totals (sum and
// number of the visited values); values are distinct powers of two, so the sum
// identifies the visited set.

type rwCfg struct {
	Size     int
	Interval time.Duration
	Ignore   bool
	Float    bool
	T0Off    time.Duration // construction time = VClockStart + T0Off (so that t0 is not a multiple of the interval)
}

const (
	rwAdd = iota
	rwAdv
	rwReduce
)

type rwOp struct {
	K    int
	Step time.Duration
}

type rwWin interface {
	add(v uint64)
	reduce() (sum uint64, count int64, visited int)
}

type rwInt struct {
	w *collection.RollingWindow[int64, *collection.Bucket[int64]]
}

func (x rwInt) add(v uint64) { x.w.Add(int64(v)) }
func (x rwInt) reduce() (uint64, int64, int) {
	var s, n int64
	vis := 0
	x.w.Reduce(func(b *collection.Bucket[int64]) { s += b.Sum; n += b.Count; vis++ })
	return uint64(s), n, vis
}

type rwFloat struct {
	w *collection.RollingWindow[float64, *collection.Bucket[float64]]
}

func (x rwFloat) add(v uint64) { x.w.Add(float64(v)) }
func (x rwFloat) reduce() (uint64, int64, int) {
	var s float64
	var n int64
	vis := 0
	x.w.Reduce(func(b *collection.Bucket[float64]) { s += b.Sum; n += b.Count; vis++ })
	return uint64(s), n, vis
}

func newRW(cfg rwCfg) rwWin {
	if cfg.Float {
		var opts []collection.RollingWindowOption[float64, *collection.Bucket[float64]]
		if cfg.Ignore {
			opts = append(opts, collection.IgnoreCurrentBucket[float64, *collection.Bucket[float64]]())
		}
		return rwFloat{collection.NewRollingWindow[float64, *collection.Bucket[float64]](
			func() *collection.Bucket[float64] { return new(collection.Bucket[float64]) }, cfg.Size, cfg.Interval, opts...)}
	}
	var opts []collection.RollingWindowOption[int64, *collection.Bucket[int64]]
	if cfg.Ignore {
		opts = append(opts, collection.IgnoreCurrentBucket[int64, *collection.Bucket[int64]]())
	}
	return rwInt{collection.NewRollingWindow[int64, *collection.Bucket[int64]](
		func() *collection.Bucket[int64] { return new(collection.Bucket[int64]) }, cfg.Size, cfg.Interval, opts...)}
}

type rwAdded struct {
	idx int64
	v   uint64
}

type rwStats struct {
	reduces, mixed, onB, beforeB, afterB, gapSm1, gapS, gapSp1 int64
}

func rwWitness(cfg rwCfg, ops []rwOp, upto int, every bool) map[string]any {
	s := make([]string, 0, upto+1)
	var t time.Duration
	nadd := 0
	for i := 0; i <= upto && i < len(ops); i++ {
		switch ops[i].K {
		case rwAdd:
			s = append(s, fmt.Sprintf("Add(2^%d)", nadd%40))
			nadd++
		case rwAdv:
			t += ops[i].Step
			s = append(s, fmt.Sprintf("Advance(%dns => t0+%dns = bucket %d + %dns)", int64(ops[i].Step), int64(t), int64(t/cfg.Interval), int64(t%cfg.Interval)))
		default:
			s = append(s, "Reduce")
		}
	}
	return map[string]any{"size": cfg.Size, "interval_ns": int64(cfg.Interval), "ignore_current": cfg.Ignore, "float64": cfg.Float,
		"t0":                            fmt.Sprintf("virtual clock %dns + %dns", int64(kit.VClockStart), int64(cfg.T0Off)),
		"reduce_checked_after_every_op": every, "ops": s}
}

// runRW executes one history; every: Reduce is also checked after every op.
// Returns whether the history was non-trivial (some Reduce had to leave out an
// added value and to visit another one).
func runRW(c *kit.Case, vc *kit.VClock, cfg rwCfg, ops []rwOp, every bool, st *rwStats) (nontrivial bool) {
	vc.Set(kit.VClockStart + cfg.T0Off)
	t0 := vc.Now()
	var w rwWin
	var adds []rwAdded
	nadd := 0
	at := 0
	defer func() {
		if p := recover(); p != nil {
			c.Viol("C16/rollingwindow/panic", fmt.Sprintf("RollingWindow panicked: %v", p), rwWitness(cfg, ops, at, every))
		}
	}()
	w = newRW(cfg)
	check := func() bool {
		now := vc.Now() - t0
		cur := int64(now / cfg.Interval)
		var wantSum uint64
		var wantN int64
		for _, a := range adds {
			if a.idx > cur-int64(cfg.Size) && a.idx <= cur && !(cfg.Ignore && a.idx == cur) {
				wantSum += a.v
				wantN++
			}
		}
		gotSum, gotN, vis := w.reduce()
		st.reduces++
		if wantN > 0 && wantN < int64(len(adds)) {
			st.mixed++
			nontrivial = true
		}
		if len(adds) > 0 {
			switch cur - adds[len(adds)-1].idx {
			case int64(cfg.Size) - 1:
				st.gapSm1++
			case int64(cfg.Size):
				st.gapS++
			case int64(cfg.Size) + 1:
				st.gapSp1++
			}
		}
		if gotSum == wantSum && gotN == wantN && vis <= cfg.Size {
			return true
		}
		kind := "wrong-values"
		switch {
		case vis > cfg.Size:
			kind = "more-buckets-than-size"
		case gotN > wantN:
			kind = "stale-values-visited"
		case gotN < wantN:
			kind = "live-values-missed"
		}
		mode := "with-current"
		if cfg.Ignore {
			mode = "ignore-current"
		}
		wit := rwWitness(cfg, ops, at, every)
		wit["now_bucket"] = cur
		wit["now_offset_in_bucket_ns"] = int64(now % cfg.Interval)
		wit["want_sum"], wit["want_count"] = wantSum, wantN
		wit["got_sum"], wit["got_count"], wit["buckets_visited"] = gotSum, gotN, vis
		var live []string
		for i, a := range adds {
			live = append(live, fmt.Sprintf("add#%d value=%d bucket=%d", i, a.v, a.idx))
		}
		wit["all_adds"] = live
		c.Viol("C16/rollingwindow/reduce/"+kind+"/"+mode,
			fmt.Sprintf("Reduce at bucket %d (size %d, ignoreCurrent=%v) visited sum=%d count=%d in %d buckets; the values added in buckets (%d,%d] total sum=%d count=%d",
				cur, cfg.Size, cfg.Ignore, gotSum, gotN, vis, cur-int64(cfg.Size), cur, wantSum, wantN), wit)
		return false
	}
	for i, o := range ops {
		at = i
		switch o.K {
		case rwAdd:
			v := uint64(1) << uint(nadd%40)
			nadd++
			w.add(v)
			adds = append(adds, rwAdded{int64((vc.Now() - t0) / cfg.Interval), v})
		case rwAdv:
			vc.Advance(o.Step)
			switch (vc.Now() - t0) % cfg.Interval {
			case 0:
				st.onB++
			case cfg.Interval - 1:
				st.beforeB++
			case 1:
				st.afterB++
			}
		case rwReduce:
			if !check() {
				return
			}
			continue
		}
		if every && !check() {
			return
		}
	}
	at = len(ops) - 1
	check()
	return
}

func (st *rwStats) flush(c *kit.Case, histories int64) {
	c.Obs("rw_histories", histories)
	c.Obs("rw_reduces_checked", st.reduces)
	c.Obs("rw_reduces_some_values_expired_some_live", st.mixed)
	c.Obs("rw_advances_landing_on_bucket_boundary", st.onB)
	c.Obs("rw_advances_landing_1ns_before_boundary", st.beforeB)
	c.Obs("rw_advances_landing_1ns_after_boundary", st.afterB)
	c.Obs("rw_reduces_last_add_size_minus_1_buckets_ago", st.gapSm1)
	c.Obs("rw_reduces_last_add_size_buckets_ago", st.gapS)
	c.Obs("rw_reduces_last_add_size_plus_1_buckets_ago", st.gapSp1)
}

func rwSig(c *kit.Case, nontrivial bool, cfg rwCfg, ops []rwOp, every bool) {
	r := newRec(0)
	for _, o := range ops {
		r.h ^= uint64(o.K)*0x9E3779B97F4A7C15 + uint64(o.Step)
		r.h *= 1099511628211
	}
	c.Sig(nontrivial, "rw", cfg.Size, int64(cfg.Interval), cfg.Ignore, cfg.Float, int64(cfg.T0Off), every, r.h)
}

// rwStep draws one time step; since = time since the last bucket boundary.
func rwStep(r *kit.Rand, cfg rwCfg, since time.Duration) time.Duration {
	iv, sz := cfg.Interval, time.Duration(cfg.Size)
	switch r.Pick(4, 8, 8, 8, 6, 6, 6, 4, 10, 22, 6) {
	case 0:
		return 0
	case 1:
		return iv - 1
	case 2:
		return iv
	case 3:
		return iv + 1
	case 4:
		return (sz - 1) * iv
	case 5:
		return sz * iv
	case 6:
		return (sz + 1) * iv
	case 7:
		if r.Chance(0.2) {
			return time.Duration(r.Range(100000, 1000000))*iv + time.Duration(r.Int63n(int64(iv)))
		}
		return time.Duration(r.Range(cfg.Size+2, 1000))*iv + time.Duration(r.Int63n(int64(iv)))
	case 8:
		return time.Duration(r.Int63n(int64(iv)))
	case 9:
		// land on / 1 ns before / 1 ns after the boundary m buckets ahead
		m := kit.Choose(r, []int{1, 1, cfg.Size - 1, cfg.Size, cfg.Size + 1, 2})
		if m < 1 {
			m = 1
		}
		eps := time.Duration(r.Range(-1, 1))
		d := time.Duration(m)*iv - since + eps
		if d < 0 {
			d = 0
		}
		return d
	default:
		return 1
	}
}

func rollingWindowFamilies(t *testing.T) {
	vc := kit.InstallVClock()
	defer kit.UninstallVClock()

	// ---- bounded-exhaustive: every sequence of exactly L symbols, Reduce checked after every symbol.
	// interval = 4 ns so that 1 ns steps walk through a bucket and across its boundary.
	type ex struct {
		size int
		L    int
	}
	exs := []ex{{1, 6}, {2, 5}, {3, 5}, {4, 5}}
	if kit.Thorough() {
		exs = []ex{{1, 7}, {2, 7}, {3, 6}, {4, 6}, {5, 6}}
	}
	const iv = 4 * time.Nanosecond
	const batch = 1000
	for _, e := range exs {
		for _, ignore := range []bool{false, true} {
			steps := []time.Duration{1, iv - 1, iv}
			seen := map[time.Duration]bool{1: true, iv - 1: true, iv: true}
			for _, d := range []time.Duration{time.Duration(e.size-1) * iv, time.Duration(e.size) * iv, time.Duration(e.size+1) * iv} {
				if d > 0 && !seen[d] {
					seen[d] = true
					steps = append(steps, d)
				}
			}
			al := []rwOp{{K: rwAdd}}
			for _, d := range steps {
				al = append(al, rwOp{K: rwAdv, Step: d})
			}
			total := 1
			for i := 0; i < e.L; i++ {
				total *= len(al)
			}
			cfg := rwCfg{Size: e.size, Interval: iv, Ignore: ignore}
			fam := fmt.Sprintf("rw-exh-size%d-ignore%v-L%d", e.size, ignore, e.L)
			kit.Run(t, "C16", fam, (total+batch-1)/batch, func(c *kit.Case) {
				lo, hi := c.Index*batch, (c.Index+1)*batch
				if hi > total {
					hi = total
				}
				var st rwStats
				seq := make([]rwOp, e.L)
				for idx := lo; idx < hi && !c.Violated(); idx++ {
					x := idx
					for i := e.L - 1; i >= 0; i-- {
						seq[i] = al[x%len(al)]
						x /= len(al)
					}
					cfg.Float = idx%2 == 1
					cfg.T0Off = time.Duration(idx % 5)
					nt := runRW(c, vc, cfg, seq, true, &st)
					rwSig(c, nt, cfg, seq, true)
				}
				c.Evals(int64(hi - lo))
				st.flush(c, int64(hi-lo))
				if c.Index == 0 {
					c.Sample("rollingwindow-exhaustive", 1, map[string]any{"family": fam, "size": e.size, "interval_ns": int64(iv), "ignore_current": ignore,
						"alphabet": fmt.Sprintf("Add + Advance by %v ns", steps), "length": e.L, "sequences": total})
				}
			})
		}
	}

	// ---- random histories
	const rb = 25
	kit.Run(t, "C16", "rw-random", kit.N(400, 8000), func(c *kit.Case) {
		r := c.R
		var st rwStats
		for h := 0; h < rb && !c.Violated(); h++ {
			cfg := rwCfg{
				Size:     kit.Choose(r, []int{1, 2, 3, 3, 4, 5, 8, 10, 40}),
				Interval: kit.Choose(r, []time.Duration{1, 3, 1000, 250 * time.Millisecond, time.Second, 10 * time.Second}),
				Ignore:   r.Bool(),
				Float:    r.Bool(),
			}
			if r.Chance(0.7) {
				cfg.T0Off = time.Duration(r.Int63n(3 * int64(cfg.Interval)))
			}
			every := r.Chance(0.6)
			L := r.Range(5, 90)
			ops := make([]rwOp, 0, L)
			var now time.Duration
			for i := 0; i < L; i++ {
				switch r.Pick(40, 45, 15) {
				case 0:
					ops = append(ops, rwOp{K: rwAdd})
				case 1:
					d := rwStep(r, cfg, now%cfg.Interval)
					now += d
					ops = append(ops, rwOp{K: rwAdv, Step: d})
				default:
					ops = append(ops, rwOp{K: rwReduce})
				}
			}
			nt := runRW(c, vc, cfg, ops, every, &st)
			rwSig(c, nt, cfg, ops, every)
			if c.Index == 0 && h < 2 {
				c.Sample("rollingwindow-random", 2, rwWitness(cfg, ops, len(ops)-1, every))
			}
		}
		c.Evals(rb)
		st.flush(c, rb)
	})
}
