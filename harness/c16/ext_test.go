package c16

// Extensions of the C16 black-box check (second round):
//
//   - set-mixed: managed sets (NewSet) that receive values of several dynamic types
//     through Add / AddInt / AddInt64 / AddUint / AddUint64 / AddStr in one history,
//     sets that are emptied and reused for another type, every typed Keys* accessor,
//     Contains/Remove with values of a type that is (not) stored. Model: the
//     mathematical set over the Go values that were added (map[any]bool): the
//     unchanged code logs a type mismatch on a managed set and stores the value all
//     the same; 1, int64(1), uint(1), "1" are four different elements.
//   - queue-exhaustive: every Put/Take sequence of a fixed length on queues with
//     initial sizes -3, 0, 1, 2, 3, 4 (growth and wrap-around boundaries), Empty
//     compared after every step.
//   - ring-boundary: a fresh Ring(n) after exactly 0, 1, n-1, n, n+1, 2n-1, 2n, 2n+1,
//     3n-1, 3n, 3n+1, 4n, 4n+1 Adds; the first Take ever made on it, and a second one.
//   - constructor-guards: NewRing / NewRollingWindow with a size below 1 panic by
//     design; only observed (the statement is silent), nothing is demanded.
//   - cache-small-limit: limits 1-3, keys set again right after the LRU evicted
//     them, loaders that fail and loaders that panic (nothing may be cached by
//     them and the next Take of the key must call its loader again), Del of
//     absent keys.
//   - safemap-split: histories that leave more than 10 000 deletions behind with
//     both generations populated, then Range stopped at every position around the
//     border between the generations, and Range callbacks that read the map
//     (Get/Size) while it is being ranged.
//   - cache-statloop (thorough only): a cache that is used for more than a minute
//     of wall-clock time, so that its statistics loop runs; nothing is demanded of
//     the statistics, the model comparison simply goes on afterwards.

import (
	"fmt"
	"testing"
	"time"

	"github.com/zeromicro/go-zero/core/collection"

	"verifharness/kit"
)

// ---------------------------------------------------------------- Set: several types in one managed set

var mixTypeNames = []string{"int", "int64", "uint", "uint64", "string"}

func mixTypeOf(x any) string {
	switch x.(type) {
	case int:
		return "int"
	case int64:
		return "int64"
	case uint:
		return "uint"
	case uint64:
		return "uint64"
	case string:
		return "string"
	}
	return "other"
}

// mixValue returns the i-th value (i in [0,4)) of the given type name.
func mixValue(tp string, i int) any {
	switch tp {
	case "int":
		return i - 1
	case "int64":
		return int64(i - 1)
	case "uint":
		return uint(i)
	case "uint64":
		return uint64(i)
	case "string":
		return []string{"", "0", "1", "a"}[i%4]
	}
	// values of types the managed set has no name for
	return []any{1.5, true, [2]int{1, 2}, struct{ A int }{1}}[i%4]
}

func mixUniverse() []any {
	var u []any
	for _, tp := range append(append([]string{}, mixTypeNames...), "other") {
		for i := 0; i < 4; i++ {
			u = append(u, mixValue(tp, i))
		}
	}
	return u
}

// mixAddTyped adds xs (all of type tp, one of the five named types) through the typed adder.
func mixAddTyped(s *collection.Set, tp string, xs []any) {
	switch tp {
	case "int":
		ii := make([]int, len(xs))
		for i, x := range xs {
			ii[i] = x.(int)
		}
		s.AddInt(ii...)
	case "int64":
		ii := make([]int64, len(xs))
		for i, x := range xs {
			ii[i] = x.(int64)
		}
		s.AddInt64(ii...)
	case "uint":
		ii := make([]uint, len(xs))
		for i, x := range xs {
			ii[i] = x.(uint)
		}
		s.AddUint(ii...)
	case "uint64":
		ii := make([]uint64, len(xs))
		for i, x := range xs {
			ii[i] = x.(uint64)
		}
		s.AddUint64(ii...)
	case "string":
		ii := make([]string, len(xs))
		for i, x := range xs {
			ii[i] = x.(string)
		}
		s.AddStr(ii...)
	default:
		s.Add(xs...)
	}
}

func mixTypedKeys(s *collection.Set, tp string) []any {
	var out []any
	switch tp {
	case "int":
		for _, k := range s.KeysInt() {
			out = append(out, k)
		}
	case "int64":
		for _, k := range s.KeysInt64() {
			out = append(out, k)
		}
	case "uint":
		for _, k := range s.KeysUint() {
			out = append(out, k)
		}
	case "uint64":
		for _, k := range s.KeysUint64() {
			out = append(out, k)
		}
	case "string":
		for _, k := range s.KeysStr() {
			out = append(out, k)
		}
	}
	return out
}

func setMixedHistory(c *kit.Case, r *kit.Rand, sample bool) {
	rc := newRec(400)
	universe := mixUniverse()
	model := map[any]bool{}
	managed := r.Chance(0.8)
	latched := "" // statistics only: the type a managed set named first (the code keeps it for ever)
	typesHeld := func() int {
		seen := map[string]bool{}
		for k := range model {
			seen[mixTypeOf(k)] = true
		}
		return len(seen)
	}
	everSeveral, reused, emptied := false, false, false
	class := func() string {
		switch {
		case !managed:
			return "unmanaged-set"
		case reused:
			return "managed-set-reused-for-another-type-after-emptied"
		case everSeveral:
			return "managed-set-holding-several-types"
		}
		return "managed-set-one-type"
	}
	bad := false
	viol := func(kind, what string) {
		bad = true
		c.Viol("C16/set/"+kind+"/"+class(), what, rc.witness(map[string]any{"managed": managed, "type_named_first": latched}))
	}
	defer func() {
		if p := recover(); p != nil {
			viol("panic", fmt.Sprintf("Set panicked: %v", p))
		}
	}()
	var s *collection.Set
	if managed {
		s = collection.NewSet()
		rc.op("NewSet()")
	} else {
		s = collection.NewUnmanagedSet()
		rc.op("NewUnmanagedSet()")
	}
	modelKeys := func(tp string) []any {
		out := []any{}
		for k := range model {
			if tp == "" || mixTypeOf(k) == tp {
				out = append(out, k)
			}
		}
		return out
	}
	var containsForeignPresent, removesForeignPresent, containsNeverStoredType, typedKeysCompared, foreignAdds, reuses, sweeps int64
	noteAdd := func(x any) {
		tp := mixTypeOf(x)
		if latched == "" && tp != "other" {
			latched = tp
		}
		if tp != latched {
			foreignAdds++
			if emptied && managed {
				if !reused {
					reuses++
				}
				reused = true
			}
		}
		model[x] = true
		if typesHeld() > 1 {
			everSeveral = true
		}
	}
	checkCount := func() {
		if got := s.Count(); got != len(model) && !bad {
			viol("count-mismatch", fmt.Sprintf("Count() = %d, the set has %d elements %v", got, len(model), sortedRepr(modelKeys(""))))
		}
	}
	checkKeys := func() {
		if got, want := sortedRepr(s.Keys()), sortedRepr(modelKeys("")); !eqStrings(got, want) {
			viol("keys-mismatch", fmt.Sprintf("Keys() = %v, the set is %v", got, want))
			return
		}
		for _, tp := range mixTypeNames {
			typedKeysCompared++
			if got, want := sortedRepr(mixTypedKeys(s, tp)), sortedRepr(modelKeys(tp)); !eqStrings(got, want) {
				viol("typed-keys-mismatch", fmt.Sprintf("Keys accessor for %s = %v, the %s elements of the set are %v (whole set %v)", tp, got, tp, want, sortedRepr(modelKeys(""))))
				return
			}
		}
	}
	contains := func(x any) {
		if model[x] && mixTypeOf(x) != latched {
			containsForeignPresent++
		}
		if !model[x] && len(modelKeys(mixTypeOf(x))) == 0 && len(model) > 0 {
			containsNeverStoredType++
		}
		if got := s.Contains(x); got != model[x] && !bad {
			viol("contains-mismatch", fmt.Sprintf("Contains(%T:%v) = %v, the set is %v", x, x, got, sortedRepr(modelKeys(""))))
		}
	}
	sweep := func() {
		sweeps++
		for _, i := range r.Perm(len(universe)) {
			if bad {
				return
			}
			contains(universe[i])
		}
		if !bad {
			checkKeys()
		}
	}
	remove := func(x any) {
		rc.opf("Remove(%T:%v)", x, x)
		if model[x] && mixTypeOf(x) != latched {
			removesForeignPresent++
		}
		s.Remove(x)
		delete(model, x)
		checkCount()
		if !bad {
			if s.Contains(x) {
				viol("contains-mismatch", fmt.Sprintf("Contains(%T:%v) = true right after Remove of that value", x, x))
			}
		}
	}
	phases := r.Range(1, 4)
	for ph := 0; ph < phases && !bad; ph++ {
		home := kit.Choose(r, mixTypeNames)
		foreignP := kit.Choose(r, []float64{0, 0.1, 0.3, 0.6})
		L := r.Range(4, 40)
		for i := 0; i < L && !bad; i++ {
			switch r.Pick(35, 20, 25, 8, 4) {
			case 0: // add
				tp := home
				if r.Chance(foreignP) {
					tp = kit.Choose(r, append(append([]string{}, mixTypeNames...), "other"))
				}
				n := r.Range(1, 3)
				xs := make([]any, n)
				for j := range xs {
					xs[j] = mixValue(tp, r.Intn(4))
				}
				if tp != "other" && r.Chance(0.6) {
					rc.opf("Add%s(%v)", tp, sortedRepr(xs))
					mixAddTyped(s, tp, xs)
				} else {
					if r.Chance(0.3) { // one generic Add carrying values of two types
						xs = append(xs, mixValue(kit.Choose(r, mixTypeNames), r.Intn(4)))
					}
					rc.opf("Add(%v)", sortedRepr(xs))
					s.Add(xs...)
				}
				for _, x := range xs {
					noteAdd(x)
				}
				checkCount()
				for _, x := range xs {
					if !bad {
						contains(x)
					}
				}
			case 1:
				x := kit.Choose(r, universe)
				if !model[x] && r.Chance(0.7) { // prefer a value that is present
					for _, i := range r.Perm(len(universe)) {
						if model[universe[i]] {
							x = universe[i]
							break
						}
					}
				}
				remove(x)
			case 2:
				x := kit.Choose(r, universe)
				rc.opf("Contains(%T:%v)", x, x)
				contains(x)
			case 3:
				rc.op("Keys(), KeysInt(), KeysInt64(), KeysUint(), KeysUint64(), KeysStr()")
				checkKeys()
			default:
				rc.op("Contains(every value of the universe), Keys*()")
				sweep()
			}
		}
		if bad {
			break
		}
		if r.Chance(0.6) {
			// empty the set completely; a managed set keeps the type it named first
			rc.op("-- remove every element")
			for _, i := range r.Perm(len(universe)) {
				if model[universe[i]] && !bad {
					remove(universe[i])
				}
			}
			if !bad {
				emptied = emptied || latched != ""
				sweep()
			}
		}
	}
	if !bad {
		sweep()
	}
	c.Obs("setmix_histories", 1)
	c.Obs("setmix_ops", int64(rc.total))
	c.Obs("setmix_adds_of_value_of_other_type_than_named_first", foreignAdds)
	c.Obs("setmix_contains_of_present_value_of_other_type_than_named_first", containsForeignPresent)
	c.Obs("setmix_removes_of_present_value_of_other_type_than_named_first", removesForeignPresent)
	c.Obs("setmix_contains_of_value_whose_type_is_not_stored", containsNeverStoredType)
	c.Obs("setmix_managed_sets_reused_for_another_type_after_emptied", reuses)
	c.Obs("setmix_typed_keys_comparisons", typedKeysCompared)
	c.Obs("setmix_full_membership_sweeps", sweeps)
	// non-trivial: a managed set held values of several types, and a present value of another type than the one named
	// first was looked up and removed
	c.Sig(managed && everSeveral && containsForeignPresent > 0 && removesForeignPresent > 0, "set-mixed", managed, rc.h)
	if sample {
		c.Sample("set-mixed", 1, rc.witness(map[string]any{"managed": managed, "type_named_first": latched}))
	}
}

// ---------------------------------------------------------------- Queue: every Put/Take sequence of length L

func queueExhaustive(c *kit.Case, size int, L int, from, to uint32) {
	var growths, wraps, emptyTakesFollowed, seqs int64
	for bits := from; bits < to && !c.Violated(); bits++ {
		func() {
			ops := make([]byte, 0, L)
			witness := func() map[string]any {
				return map[string]any{"initial_size": size, "sequence(P=Put next integer,T=Take,E? after each)": string(ops), "length": L}
			}
			cl := "size>=1"
			if size < 1 {
				cl = "size<1"
			}
			bad := false
			viol := func(kind, what string) {
				bad = true
				c.Viol("C16/queue/"+kind+"/"+cl, what, witness())
			}
			defer func() {
				if p := recover(); p != nil {
					viol("panic", fmt.Sprintf("Queue panicked: %v", p))
				}
			}()
			q := collection.NewQueue(size)
			var model []any
			capacity, step := size, size // statistics only
			if capacity < 1 {
				capacity, step = 1, 1
			}
			head := 0 // statistics only: position of the oldest element in a buffer of `capacity`
			next := 0
			grew, wrapped, emptyTake := false, false, false
			if !q.Empty() {
				viol("empty-mismatch", "Empty() = false on a new queue")
			}
			for i := 0; i < L && !bad; i++ {
				if bits>>uint(i)&1 == 1 {
					ops = append(ops, 'P')
					next++
					var v any = next
					if next%7 == 0 {
						v = nil
					}
					if emptyTake {
						emptyTakesFollowed++
						emptyTake = false
					}
					if len(model) == capacity {
						grew = true
						growths++
						capacity += step
						head = 0
					}
					if head+len(model) >= capacity { // this Put writes in front of the oldest element
						wrapped = true
					}
					q.Put(v)
					model = append(model, v)
				} else {
					ops = append(ops, 'T')
					if emptyTake {
						emptyTakesFollowed++
						emptyTake = false
					}
					got, ok := q.Take()
					switch {
					case len(model) == 0:
						emptyTake = true
						if ok || got != nil {
							viol("take-from-empty", fmt.Sprintf("Take() on an empty queue returned (%v,%v)", got, ok))
						}
					case !ok:
						viol("take-lost-elements", fmt.Sprintf("Take() reported empty with %d elements queued", len(model)))
					case got != model[0]:
						viol("take-order", fmt.Sprintf("Take() returned %v, the oldest queued element is %v (queued: %v)", got, model[0], model))
					}
					if len(model) > 0 {
						model = model[1:]
						head = (head + 1) % capacity
					}
				}
				if !bad {
					if got := q.Empty(); got != (len(model) == 0) {
						viol("empty-mismatch", fmt.Sprintf("Empty() = %v with %d elements queued", got, len(model)))
					}
				}
			}
			// drain: everything still queued comes out in order, then the queue reports empty
			for !bad {
				ops = append(ops, 'T')
				got, ok := q.Take()
				if len(model) == 0 {
					if ok {
						viol("take-from-empty", fmt.Sprintf("Take() on an empty queue returned (%v,true)", got))
					}
					break
				}
				if !ok {
					viol("take-lost-elements", fmt.Sprintf("Take() reported empty with %d elements queued", len(model)))
				} else if got != model[0] {
					viol("take-order", fmt.Sprintf("Take() returned %v, the oldest queued element is %v", got, model[0]))
				}
				model = model[1:]
			}
			if wrapped {
				wraps++
			}
			seqs++
			c.Sig(grew && wrapped, "queue-ex", size, L, bits)
		}()
	}
	c.Evals(seqs)
	c.Obs("queue_exhaustive_sequences", seqs)
	c.Obs("queue_exhaustive_model_growths", growths)
	c.Obs("queue_exhaustive_sequences_with_wrap_around", wraps)
	c.Obs("queue_exhaustive_take_on_empty_followed_by_another_operation", emptyTakesFollowed)
}

// ---------------------------------------------------------------- Cache: limits 1-3, re-set after eviction, panicking loaders

type loaderPanic struct{ n int }

func (cr *cacheRun) takePanic(k string) (propagated bool) {
	cr.nextV++
	token := loaderPanic{cr.nextV}
	cr.rec.opf("Take(%s, loader=>panic)", k)
	calls := 0
	var gotV any
	var gotErr error
	var pv any
	func() {
		defer func() { pv = recover() }()
		gotV, gotErr = cr.cache.Take(k, func() (any, error) {
			calls++
			panic(token)
		})
	}()
	if pv != nil && pv != any(token) {
		cr.viol("C16/cache/panic", fmt.Sprintf("Take(%s) panicked with %v (not the loader's panic)", k, pv))
		return false
	}
	wantV, hit := cr.m.get(k)
	switch {
	case hit:
		cr.takeHits++
		switch {
		case calls > 0:
			cr.viol("C16/cache/take/loader-called-on-hit", fmt.Sprintf("Take(%s) called the loader %d time(s) although the key is cached with %v", k, calls, wantV))
		case gotErr != nil:
			cr.viol("C16/cache/take/error-on-hit", fmt.Sprintf("Take(%s) returned error %v on a cached key", k, gotErr))
		case !sameVal(gotV, wantV.v):
			cr.viol("C16/cache/take/not-latest-value"+valClassSuffix(wantV), fmt.Sprintf("Take(%s) returned %s, latest value set is %v (reference kinds are compared by identity)", k, descr(gotV), wantV))
		}
		cr.vs.compared(wantV.v)
	case calls != 1:
		cr.viol("C16/cache/take/loader-calls-on-miss", fmt.Sprintf("Take(%s) on a %s key called the loader %d times, want exactly once", k, cr.m.why(k), calls))
	default:
		// the loader panicked: no value was produced, so none may be cached (on a correct cache this Get misses and changes nothing)
		if v, ok := cr.cache.Get(k); ok {
			cr.viol("C16/cache/take/failed-load-cached", fmt.Sprintf("Take(%s): the loader panicked, yet the key is cached afterwards with %s", k, descr(v)))
		}
		return pv != nil
	}
	return false
}

func cacheSmallLimitHistory(c *kit.Case, r *kit.Rand, sample bool) {
	limit := kit.Choose(r, []int{1, 1, 2, 2, 3})
	nkeys := limit + r.Range(1, 2)
	opts := []collection.CacheOption{collection.WithLimit(limit)}
	if r.Chance(0.3) {
		opts = append(opts, collection.WithName(fmt.Sprintf("c16-small-%d", limit)))
	}
	cache, err := collection.NewCache(cacheFarExpiry, opts...)
	if err != nil {
		c.Viol("C16/cache/new-error", err.Error(), map[string]any{"limit": limit})
		return
	}
	cr := &cacheRun{c: c, m: newCacheModel(limit), cache: cache, rec: newRec(400), r: r}
	for i := 0; i < nkeys; i++ {
		cr.keys = append(cr.keys, fmt.Sprintf("k%d", i))
	}
	defer func() {
		if p := recover(); p != nil {
			cr.viol("C16/cache/panic", fmt.Sprintf("Cache panicked: %v", p))
		}
	}()
	var resets, delsAbsent, panics, panicsPropagated, takesAfterPanic int64
	lastVictim := ""
	set := func(k string) {
		before := cr.m.evictions
		victimBefore := ""
		if len(cr.m.order) > 0 {
			victimBefore = cr.m.order[len(cr.m.order)-1]
		}
		if k == lastVictim && lastVictim != "" {
			resets++
		}
		cr.set(k, r.Chance(0.2))
		lastVictim = ""
		if cr.m.evictions > before {
			lastVictim = victimBefore
		}
	}
	L := r.Range(15, 140)
	for i := 0; i < L && !cr.bad; i++ {
		k := kit.Choose(r, cr.keys)
		switch r.Pick(18, 26, 14, 7, 9, 9, 6, 8, 3) {
		case 0:
			set(k)
		case 1: // bring back the key the LRU evicted last (else: a key that is absent, if any)
			k2 := lastVictim
			if k2 == "" {
				for _, x := range cr.keys {
					if _, ok := cr.m.data[x]; !ok {
						k2 = x
						break
					}
				}
			}
			if k2 == "" {
				k2 = k
			}
			set(k2)
		case 2:
			cr.get(k)
		case 3:
			cr.del(k)
		case 4: // Del of a key that is not there (never set, deleted or evicted), incl. keys outside the universe
			k2 := fmt.Sprintf("absent%d", r.Intn(3))
			for _, x := range cr.keys {
				if _, ok := cr.m.data[x]; !ok && r.Bool() {
					k2 = x
					break
				}
			}
			delsAbsent++
			cr.del(k2)
		case 5:
			cr.take(k, false)
		case 6:
			cr.take(k, true)
		case 7:
			_, hit := cr.m.data[k]
			if cr.takePanic(k) {
				panicsPropagated++
			}
			if !hit && !cr.bad {
				panics++
				if r.Chance(0.6) {
					// the key is still a miss: this Take must call its loader, and must not wait for the one that panicked
					takesAfterPanic++
					cr.take(k, r.Chance(0.2))
				}
			}
		default:
			cr.sweep(r)
		}
	}
	if !cr.bad {
		cr.sweep(r)
	}
	c.Obs("cachesmall_histories", 1)
	c.Obs("cachesmall_ops", int64(cr.rec.total))
	c.Obs("cachesmall_model_evictions", cr.m.evictions)
	c.Obs("cachesmall_sets_of_the_key_evicted_by_the_previous_set", resets)
	c.Obs("cachesmall_dels_of_absent_key", delsAbsent)
	c.Obs("cachesmall_take_misses_loader_panicked", panics)
	c.Obs("cachesmall_take_loader_panic_reached_the_caller", panicsPropagated)
	c.Obs("cachesmall_takes_of_same_key_right_after_panicked_load", takesAfterPanic)
	c.Obs("cachesmall_take_misses_loader_failed", cr.takeFails)
	c.Obs("cachesmall_take_hits_loader_not_called", cr.takeHits)
	cr.vs.obs(c, "cachesmall")
	// non-trivial: a key came back right after its eviction and a loader panicked on a miss
	c.Sig(resets > 0 && panics > 0, "cache-small", limit, nkeys, cr.rec.h)
	if sample {
		c.Sample("cache-small-limit", 1, cr.wit(map[string]any{"evictions": cr.m.evictions, "resets_after_eviction": resets}))
	}
}

// cacheStatLoop keeps one cache in use for more than a minute of wall-clock time (thorough tier only), so that the
// cache's statistics loop runs at least once while hits and misses are being counted. The statement does not
// constrain the statistics; the model comparison simply continues (a panic in the loop would end the child).
func cacheStatLoop(c *kit.Case) {
	r := c.R
	limit := kit.Choose(r, []int{0, 2})
	cache, err := collection.NewCache(cacheFarExpiry, collection.WithLimit(limit), collection.WithName("c16-stat"))
	if err != nil {
		c.Viol("C16/cache/new-error", err.Error(), nil)
		return
	}
	cr := &cacheRun{c: c, m: newCacheModel(limit), cache: cache, rec: newRec(200), r: r}
	for i := 0; i < limit+3; i++ {
		cr.keys = append(cr.keys, fmt.Sprintf("k%d", i))
	}
	defer func() {
		if p := recover(); p != nil {
			cr.viol("C16/cache/panic", fmt.Sprintf("Cache panicked: %v", p))
		}
	}()
	start := time.Now()
	rounds := int64(0)
	for time.Since(start) < 65*time.Second && !cr.bad { // not a verdict threshold: only how long the cache is kept busy
		for i := 0; i < 20 && !cr.bad; i++ {
			k := kit.Choose(r, cr.keys)
			switch r.Pick(3, 4, 1, 2) {
			case 0:
				cr.set(k, false)
			case 1:
				cr.get(k)
			case 2:
				cr.del(k)
			default:
				cr.take(k, r.Chance(0.3))
			}
		}
		rounds++
		time.Sleep(500 * time.Millisecond)
	}
	if !cr.bad {
		cr.sweep(r)
	}
	c.Obs("cache_statloop_minutes_survived", 1)
	c.Obs("cache_statloop_rounds", rounds)
	c.Sig(false, "cache-statloop", limit)
}

// ---------------------------------------------------------------- SafeMap: both generations populated, Range stopped anywhere, reads inside Range

// rangeNested compares a full Range and reads the map from inside the callback (a map may be read while it is ranged).
func (s *smRun) rangeNested(every int) (nested int64) {
	s.ops++
	s.ranges++
	s.rec.opf("Range(all; Get+Size from inside the callback at every %d-th pair)", every)
	seen := make(map[any]bool, len(s.model))
	n := 0
	s.m.Range(func(k, v any) bool {
		want, ok := s.model[k]
		switch {
		case seen[k]:
			s.viol("range/key-visited-twice", fmt.Sprintf("Range visited key %v twice", k))
		case !ok:
			s.viol("range/absent-key-visited", fmt.Sprintf("Range visited %v=%v; the key was deleted or never set", k, v))
		case v != want:
			s.viol("range/not-latest-value", fmt.Sprintf("Range visited %v=%v, latest value set is %v", k, v, want))
		}
		seen[k] = true
		n++
		if !s.bad && n%every == 0 {
			nested++
			if got, gok := s.m.Get(k); !gok || got != want {
				s.viol("range/get-inside-callback", fmt.Sprintf("Get(%v) from inside the Range callback returned (%v,%v), the map holds %v", k, got, gok, want))
			} else if sz := s.m.Size(); sz != len(s.model) {
				s.viol("range/size-inside-callback", fmt.Sprintf("Size() from inside the Range callback = %d, the map holds %d entries", sz, len(s.model)))
			}
		}
		return !s.bad
	})
	if !s.bad && len(seen) != len(s.model) {
		for k := range s.model {
			if !seen[k] {
				s.viol("range/live-key-not-visited", fmt.Sprintf("Range visited %d of %d entries; e.g. key %v was not visited", len(seen), len(s.model), k))
				break
			}
		}
	}
	return nested
}

func safeMapSplit(c *kit.Case, r *kit.Rand) {
	s := &smRun{c: c, m: collection.NewSafeMap(), model: map[any]any{}, rec: newRec(80), shape: "split-generations"}
	b := &smBig{smRun: s, r: r, pos: map[int]int{}}
	defer func() {
		if p := recover(); p != nil {
			s.viol("panic", fmt.Sprintf("SafeMap panicked: %v", p))
		}
	}()
	// > 10 000 effective deletions with more than 1 000 entries left: from then on new keys go to the second generation
	ins := 11001 + r.Range(1, 600)
	b.phase("insert-fresh", ins)
	b.phase(kit.Choose(r, []string{"delete-live", "delete-live-front"}), 10001+r.Range(0, 3))
	// statistics only (never used for a verdict): how many live keys the first generation holds if the documented
	// routing rule is followed - keys written after the 10 001st deletion live in the second one
	oldSet := make(map[int]bool, len(b.live))
	for _, k := range b.live {
		oldSet[k] = true
	}
	old := len(oldSet)
	young := 0
	var stops, stopsBeyondFirst, stopsAtBorder, nestedReads, nestedRanges int64
	stopAt := func(n int) {
		if n < 1 {
			n = 1
		}
		stops++
		if n > old && n <= len(s.model) && young > 0 {
			stopsBeyondFirst++
		}
		if n == old || n == old+1 {
			stopsAtBorder++
		}
		s.rangeStop(n)
	}
	rounds := r.Range(6, 14)
	for i := 0; i < rounds && !s.bad; i++ {
		g := r.Range(1, 25)
		b.phase("insert-fresh", g)
		young += g
		if r.Chance(0.5) && len(b.live) > 0 { // overwrite live keys: an old one moves to the second generation
			n := r.Range(1, 10)
			for j := 0; j < n && !s.bad; j++ {
				k := b.live[r.Intn(len(b.live))]
				if oldSet[k] {
					delete(oldSet, k)
					old--
					young++
				}
				b.set(smKey(k))
			}
		}
		for _, n := range []int{1, old - 1, old, old + 1, old + 2, old + young/2, len(s.model) - 1, len(s.model), len(s.model) + 1} {
			if !s.bad && r.Chance(0.7) {
				stopAt(n)
			}
		}
		if !s.bad {
			stopAt(r.Range(1, len(s.model)+1))
		}
		if !s.bad && r.Chance(0.5) {
			nestedRanges++
			nestedReads += s.rangeNested(r.Range(1, 97))
		}
	}
	// shrink the first generation below 1 000 entries: it is merged, and the map is one generation again
	if !s.bad {
		target := r.Range(900, 999)
		b.prog = append(b.prog, fmt.Sprintf("delete-first-generation-keys(until %d are left)", target))
		for k := 1; k <= ins && old > target && !s.bad; k++ {
			if oldSet[k] {
				b.del(smKey(k))
				b.dropLive(k)
				delete(oldSet, k)
				old--
			}
		}
		old, young = len(s.model), 0 // one generation again
		for _, n := range []int{1, 2, len(s.model) / 2, len(s.model) - 1, len(s.model), len(s.model) + 1} {
			if !s.bad {
				stopAt(n)
			}
		}
		if !s.bad {
			nestedRanges++
			nestedReads += s.rangeNested(r.Range(1, 31))
		}
		b.phase("mix", r.Range(200, 1200))
		if !s.bad {
			stopAt(r.Range(1, len(s.model)+1))
		}
	}
	c.Obs("safemap_split_histories", 1)
	c.Obs("safemap_ops", s.ops)
	c.Obs("safemap_full_range_comparisons", s.ranges)
	c.Obs("safemap_split_range_stops", stops)
	c.Obs("safemap_split_range_stops_beyond_the_first_generation", stopsBeyondFirst)
	c.Obs("safemap_split_range_stops_at_the_generation_border", stopsAtBorder)
	c.Obs("safemap_split_ranges_with_reads_inside_callback", nestedRanges)
	c.Obs("safemap_split_reads_inside_range_callback", nestedReads)
	c.Sig(s.dels > 10000 && stopsBeyondFirst > 0 && nestedReads > 0, "safemap-split", s.rec.h)
	if c.Index == 0 {
		c.Sample("safemap-split", 1, map[string]any{"phases": b.prog, "ops": s.ops, "effective_deletions": s.dels, "range_stops": stops})
	}
}

// ---------------------------------------------------------------- registration

func extFamilies(t *testing.T) {
	const sb = 25
	kit.Run(t, "C16", "set-mixed", kit.N(160, 3200), func(c *kit.Case) {
		for h := 0; h < sb && !c.Violated(); h++ {
			setMixedHistory(c, c.R, c.Index == 0 && h == 0)
		}
		c.Evals(sb)
	})

	// every Put/Take sequence of length L for six size parameters, in blocks of 256 sequences per case
	L := kit.N(12, 15)
	sizes := []int{-3, 0, 1, 2, 3, 4}
	blocks := (1 << uint(L)) / 256
	kit.Run(t, "C16", "queue-exhaustive", len(sizes)*blocks, func(c *kit.Case) {
		size := sizes[c.Index/blocks]
		blk := uint32(c.Index % blocks)
		queueExhaustive(c, size, L, blk*256, (blk+1)*256)
	})

	kit.Run(t, "C16", "ring-boundary", kit.N(64, 300), func(c *kit.Case) {
		n := c.Index + 1
		var evals, folded int64
		for _, m := range []int{0, 1, n - 1, n, n + 1, 2*n - 1, 2 * n, 2*n + 1, 3*n - 1, 3 * n, 3*n + 1, 4 * n, 4*n + 1} {
			if m < 0 || c.Violated() {
				continue
			}
			rc := newRec(20)
			func() {
				defer func() {
					if p := recover(); p != nil {
						c.Viol("C16/ring/panic", fmt.Sprintf("Ring panicked: %v", p), rc.witness(map[string]any{"n": n, "adds": m}))
					}
				}()
				ring := collection.NewRing(n)
				added := make([]any, 0, m)
				for i := 0; i < m; i++ {
					ring.Add(i)
					added = append(added, i)
				}
				rc.opf("NewRing(%d); %d x Add(0..%d); Take(); Take()", n, m, m-1)
				// the first Take ever made on this ring, and a second one (Take must not consume anything)
				if ringCheck(c, n, added, ring.Take(), rc) {
					ringCheck(c, n, added, ring.Take(), rc)
				}
				evals++
				if m >= 2*n {
					folded++
				}
			}()
		}
		c.Evals(evals)
		c.Obs("ring_boundary_rings", evals)
		c.Obs("ring_takes_compared", 2*evals)
		c.Obs("ring_boundary_first_take_after_index_fold_back", folded)
		c.Sig(true, "ring-boundary", n)
	})

	// constructors that refuse a size below 1 by panicking (documented design): observed, nothing demanded
	kit.Run(t, "C16", "constructor-guards", 1, func(c *kit.Case) {
		try := func(name string, f func()) {
			defer func() {
				if p := recover(); p != nil {
					c.Obs("constructor_refused_size_below_1_by_panic", 1)
					c.Sample("constructor-guards", 4, map[string]any{"call": name, "panic": fmt.Sprint(p)})
					return
				}
				c.Obs("constructor_accepted_size_below_1", 1)
			}()
			f()
		}
		for _, n := range []int{0, -1, -40} {
			n := n
			try(fmt.Sprintf("NewRing(%d)", n), func() { collection.NewRing(n) })
			try(fmt.Sprintf("NewRollingWindow(size=%d)", n), func() {
				collection.NewRollingWindow[int64, *collection.Bucket[int64]](
					func() *collection.Bucket[int64] { return new(collection.Bucket[int64]) }, n, time.Second)
			})
		}
		c.Evals(6)
		c.Sig(false, "constructor-guards")
	})

	const cb = 10
	kit.Run(t, "C16", "cache-small-limit", kit.N(200, 2400), func(c *kit.Case) {
		for h := 0; h < cb && !c.Violated(); h++ {
			cacheSmallLimitHistory(c, c.R, c.Index == 0 && h == 0)
		}
		c.Evals(cb)
	})

	kit.Run(t, "C16", "safemap-split", kit.N(24, 240), func(c *kit.Case) {
		safeMapSplit(c, c.R)
	})

	if kit.Thorough() {
		kit.Run(t, "C16", "cache-statloop", 2, cacheStatLoop)
	}
}
