package c16

import (
	"fmt"
	"testing"

	"github.com/zeromicro/go-zero/core/collection"

	"verifharness/kit"
)

// ---------------------------------------------------------------- SafeMap
//
// Model: a Go map. After every operation the touched key is read back and Size
// is compared; Range is compared completely (every pair exactly once, nothing
// else; order is unspecified and not compared) at random points and at the end
// of every phase. Long histories are built from phases sized around SafeMap's
// internal thresholds (10 000 deletions, 1 000 remaining entries) so that both
// generation switches happen with and without entries left in each generation.

type smRun struct {
	c     *kit.Case
	m     *collection.SafeMap
	model map[any]any
	rec   *rec
	bad   bool
	dels  int64 // effective deletions so far (key was present)
	nextV int
	shape string
	// statistics
	ops, ranges, setsLiveAfter10k, getsAfter10k int64
}

func (s *smRun) class() string {
	if s.dels >= 10000 {
		return "after-10000-deletions"
	}
	return "before-10000-deletions"
}

func (s *smRun) viol(kind, what string) {
	s.bad = true
	s.c.Viol("C16/safemap/"+kind+"/"+s.class(), what, s.rec.witness(map[string]any{
		"shape": s.shape, "effective_deletions_so_far": s.dels, "model_size": len(s.model)}))
}

func (s *smRun) checkKey(k any) {
	want, wok := s.model[k]
	got, gok := s.m.Get(k)
	if s.dels >= 10000 {
		s.getsAfter10k++
	}
	switch {
	case wok && !gok:
		s.viol("get/live-key-missing", fmt.Sprintf("Get(%v) found nothing; the map holds %v", k, want))
	case !wok && gok:
		s.viol("get/absent-key-present", fmt.Sprintf("Get(%v) returned %v; the key was deleted or never set", k, got))
	case wok && got != want:
		s.viol("get/not-latest-value", fmt.Sprintf("Get(%v) returned %v, latest value set is %v", k, got, want))
	}
	if !s.bad {
		if sz := s.m.Size(); sz != len(s.model) {
			s.viol("size", fmt.Sprintf("Size() = %d, the map holds %d entries", sz, len(s.model)))
		}
	}
}

func (s *smRun) set(k any) {
	s.nextV++
	s.ops++
	s.rec.opf("Set(%#v,%d)", k, s.nextV)
	if _, live := s.model[k]; live && s.dels >= 10000 {
		s.setsLiveAfter10k++
	}
	s.m.Set(k, s.nextV)
	s.model[k] = s.nextV
	s.checkKey(k)
}

func (s *smRun) del(k any) {
	s.ops++
	s.rec.opf("Del(%#v)", k)
	if _, ok := s.model[k]; ok {
		s.dels++
	}
	s.m.Del(k)
	delete(s.model, k)
	s.checkKey(k)
}

func (s *smRun) get(k any) {
	s.ops++
	s.rec.opf("Get(%#v)", k)
	s.checkKey(k)
}

func (s *smRun) rangeAll() {
	s.ops++
	s.ranges++
	s.rec.op("Range(all)")
	seen := make(map[any]bool, len(s.model))
	s.m.Range(func(k, v any) bool {
		want, ok := s.model[k]
		switch {
		case seen[k]:
			s.viol("range/key-visited-twice", fmt.Sprintf("Range visited key %v twice", k))
		case !ok:
			s.viol("range/absent-key-visited", fmt.Sprintf("Range visited %v=%v; the key was deleted or never set", k, v))
		case v != want:
			s.viol("range/not-latest-value", fmt.Sprintf("Range visited %v=%v, latest value set is %v", k, v, want))
		}
		seen[k] = true
		return !s.bad
	})
	if !s.bad && len(seen) != len(s.model) {
		for k := range s.model {
			if !seen[k] {
				s.viol("range/live-key-not-visited", fmt.Sprintf("Range visited %d of %d entries; e.g. key %v was not visited", len(seen), len(s.model), k))
				break
			}
		}
	}
}

// rangeStop: f returns false at the n-th call; Range must stop there.
func (s *smRun) rangeStop(n int) {
	s.ops++
	s.rec.opf("Range(stop at call %d)", n)
	calls := 0
	s.m.Range(func(k, v any) bool {
		calls++
		if want, ok := s.model[k]; !ok || want != v {
			s.viol("range/absent-or-stale-pair-visited", fmt.Sprintf("Range visited %v=%v, model has (%v,%v)", k, v, want, ok))
		}
		return calls < n
	})
	want := n
	if len(s.model) < n {
		want = len(s.model)
	}
	if !s.bad && calls != want {
		s.viol("range/stop-ignored", fmt.Sprintf("Range called f %d times, want %d (f returned false at call %d, %d entries)", calls, want, n, len(s.model)))
	}
}

func smKey(i int) any {
	switch i % 4 {
	case 2:
		return fmt.Sprintf("s%d", i)
	case 3:
		return int64(i)
	}
	return i
}

func safeMapSmall(c *kit.Case, r *kit.Rand, sample bool) {
	s := &smRun{c: c, m: collection.NewSafeMap(), model: map[any]any{}, rec: newRec(300), shape: "small-random"}
	defer func() {
		if p := recover(); p != nil {
			s.viol("panic", fmt.Sprintf("SafeMap panicked: %v", p))
		}
	}()
	u := r.Range(1, 12)
	L := r.Range(10, 220)
	for i := 0; i < L && !s.bad; i++ {
		k := smKey(r.Intn(u))
		switch r.Pick(40, 20, 25, 8, 7) {
		case 0:
			s.set(k)
		case 1:
			s.get(k)
		case 2:
			s.del(k)
		case 3:
			s.rangeAll()
		default:
			s.rangeStop(r.Range(1, u+1))
		}
	}
	if !s.bad {
		s.rangeAll()
	}
	c.Obs("safemap_small_histories", 1)
	c.Obs("safemap_ops", s.ops)
	c.Obs("safemap_full_range_comparisons", s.ranges)
	// non-trivial: overwrote, deleted and re-inserted keys and compared a full Range
	c.Sig(s.dels >= 3 && s.ranges >= 2, "safemap-small", u, s.rec.h)
	if sample {
		c.Sample("safemap-small", 1, s.rec.witness(nil))
	}
}

// ---- long histories

type smBig struct {
	*smRun
	r     *kit.Rand
	live  []int       // keys currently present (as ints; the map key is smKey(i))
	pos   map[int]int // index into live
	fresh int
	prog  []string
}

func (b *smBig) addLive(i int) {
	if _, ok := b.pos[i]; ok {
		return
	}
	b.pos[i] = len(b.live)
	b.live = append(b.live, i)
}

func (b *smBig) dropLive(i int) {
	p, ok := b.pos[i]
	if !ok {
		return
	}
	last := b.live[len(b.live)-1]
	b.live[p] = last
	b.pos[last] = p
	b.live = b.live[:len(b.live)-1]
	delete(b.pos, i)
}

func (b *smBig) phase(name string, n int) {
	b.prog = append(b.prog, fmt.Sprintf("%s(%d)", name, n))
	b.rec.mix(name)
	for i := 0; i < n && !b.bad; i++ {
		switch name {
		case "insert-fresh":
			b.fresh++
			b.set(smKey(b.fresh))
			b.addLive(b.fresh)
		case "delete-live":
			if len(b.live) == 0 {
				return
			}
			k := b.live[b.r.Intn(len(b.live))]
			b.del(smKey(k))
			b.dropLive(k)
		case "delete-live-front":
			if len(b.live) == 0 {
				return
			}
			k := b.live[0]
			b.del(smKey(k))
			b.dropLive(k)
		case "delete-absent":
			b.del(smKey(-1 - b.r.Intn(1000)))
		case "overwrite-live":
			if len(b.live) == 0 {
				return
			}
			b.set(smKey(b.live[b.r.Intn(len(b.live))]))
		case "churn":
			b.fresh++
			b.set(smKey(b.fresh))
			b.del(smKey(b.fresh))
		case "get-live":
			if len(b.live) == 0 {
				return
			}
			b.get(smKey(b.live[b.r.Intn(len(b.live))]))
		case "mix":
			switch b.r.Pick(30, 25, 25, 15, 5) {
			case 0:
				b.fresh++
				b.set(smKey(b.fresh))
				b.addLive(b.fresh)
			case 1:
				if len(b.live) > 0 {
					b.set(smKey(b.live[b.r.Intn(len(b.live))]))
				}
			case 2:
				if len(b.live) > 0 {
					k := b.live[b.r.Intn(len(b.live))]
					b.del(smKey(k))
					b.dropLive(k)
				}
			case 3:
				if len(b.live) > 0 {
					b.get(smKey(b.live[b.r.Intn(len(b.live))]))
				}
			default:
				b.del(smKey(-1 - b.r.Intn(1000)))
			}
			if i%1500 == 1499 {
				b.rangeAll()
			}
		}
	}
	if !b.bad {
		b.rangeAll()
		if b.r.Chance(0.3) {
			b.rangeStop(b.r.Range(1, 5))
		}
	}
}

func safeMapBig(c *kit.Case, r *kit.Rand, shape int) {
	s := &smRun{c: c, m: collection.NewSafeMap(), model: map[any]any{}, rec: newRec(60)}
	b := &smBig{smRun: s, r: r, pos: map[int]int{}}
	defer func() {
		if p := recover(); p != nil {
			s.viol("panic", fmt.Sprintf("SafeMap panicked: %v", p))
		}
	}()
	near := func() int { return kit.Choose(r, []int{-2, -1, 0, 1, 2, 3, 10, 400}) }
	switch shape % 4 {
	case 0, 1:
		// reach "more than 10 000 deletions with >= 1 000 (or just < 1 000) entries left", then work on both generations
		s.shape = "new-generation"
		ins := 11000 + r.Range(0, 2500)
		del := 10000 + near()
		if r.Chance(0.25) {
			ins = 10000 + r.Range(990, 1010) // remaining lands around the 1 000 threshold
		}
		b.phase("insert-fresh", ins)
		b.phase(kit.Choose(r, []string{"delete-live", "delete-live-front"}), del)
		b.phase("overwrite-live", r.Range(1, 1500))
		b.phase("insert-fresh", r.Range(1, 1500))
		b.phase("get-live", 300)
		b.phase("mix", r.Range(500, 3000))
		if shape%4 == 1 {
			// overflow the second generation's deletion counter while the first one still holds >= 1 000 entries
			s.shape = "new-generation-deletion-overflow"
			b.phase("churn", 10000+near()-int(0))
			b.phase("overwrite-live", r.Range(1, 800))
			b.phase("mix", r.Range(500, 2500))
		}
		// shrink until the old generation is merged
		b.phase("delete-live", r.Range(500, 2500))
		b.phase("mix", r.Range(500, 2500))
		b.phase("delete-live-front", len(b.live))
		b.phase("insert-fresh", r.Range(1, 50))
	case 2:
		// few entries, many deletions: the switch happens as soon as the counter reaches the threshold; repeat
		s.shape = "repeated-switches"
		for cyc := 0; cyc < 3 && !s.bad; cyc++ {
			b.phase("insert-fresh", r.Range(1, 1200))
			b.phase("churn", 10000+near()-len(b.live)/2)
			b.phase("delete-absent", r.Range(1, 50))
			b.phase("overwrite-live", r.Range(1, 300))
			b.phase("delete-live", r.Range(0, len(b.live)))
			b.phase("mix", r.Range(100, 1500))
		}
	default:
		s.shape = "random-phases"
		sizes := []int{1, 10, 500, 999, 1000, 1001, 2500, 5000, 9999, 10000, 10001}
		names := []string{"insert-fresh", "insert-fresh", "delete-live", "delete-live-front", "delete-absent", "overwrite-live", "churn", "mix", "get-live"}
		for s.ops < 40000 && !s.bad {
			b.phase(kit.Choose(r, names), kit.Choose(r, sizes))
		}
	}
	c.Obs("safemap_big_histories", 1)
	c.Obs("safemap_ops", s.ops)
	c.Obs("safemap_full_range_comparisons", s.ranges)
	c.Obs("safemap_big_effective_deletions", s.dels)
	c.Obs("safemap_big_sets_of_live_key_after_10000_deletions", s.setsLiveAfter10k)
	c.Obs("safemap_big_reads_after_10000_deletions", s.getsAfter10k)
	// non-trivial: more than 10 000 effective deletions happened and live keys were overwritten afterwards
	c.Sig(s.dels > 10000 && s.setsLiveAfter10k > 0, "safemap-big", s.shape, s.rec.h)
	if c.Index < 2 {
		c.Sample("safemap-big", 2, map[string]any{"shape": s.shape, "phases": b.prog, "ops": s.ops, "effective_deletions": s.dels})
	}
}

func safeMapFamilies(t *testing.T) {
	const sb = 25
	kit.Run(t, "C16", "safemap-small", kit.N(120, 2400), func(c *kit.Case) {
		for h := 0; h < sb && !c.Violated(); h++ {
			safeMapSmall(c, c.R, c.Index == 0 && h == 0)
		}
		c.Evals(sb)
	})
	kit.Run(t, "C16", "safemap-big", kit.N(120, 2000), func(c *kit.Case) {
		safeMapBig(c, c.R, c.Index)
	})
}
