package c16

// Third round: what a caller does with a RESULT, and what later operations do to it.
//
// The statement's models have value semantics ("Ring keeps the last n elements in order", "Set as a
// mathematical set"): the slice an operation hands back is the caller's. Operations of
// core/collection that return a container (read from the code): Ring.Take ([]any), Set.Keys ([]any),
// Set.KeysInt/KeysInt64/KeysUint/KeysUint64/KeysStr (typed slices). On the unchanged tree each of them
// builds a fresh slice per call. Queue.Take, Cache.Get/Take and SafeMap.Get/Range hand back single
// stored values (the very value the caller stored: reference semantics of the VALUE are the caller's
// own, nothing to check); RollingWindow.Reduce hands its callback the bucket objects the caller's own
// newBucket function created ("runs fn on all buckets"): that is internal storage handed out by
// design, nothing is demanded of it (family rw-reduce-buckets only observes it).
//
//   - SCRIBBLE: after a returned container was compared with the model, the caller overwrites all of
//     its elements / reverses it / appends to it / truncates it and appends / clears it. The same
//     accessor is called again at once (no operation in between) and the history continues: every
//     later result must still match the model.
//     Key: C16/<type>/result-aliases-internal-state/mutation-visible-in-later-result
//   - RETAIN: every returned container is kept together with a copy of its elements taken at return
//     time (after the scribble, if any); after every later operation all retained containers must
//     still equal their copies.
//     Key: C16/<type>/result-aliases-internal-state/retained-result-changed-by-later-op

import (
	"fmt"
	"reflect"
	"testing"
	"time"

	"github.com/zeromicro/go-zero/core/collection"

	"verifharness/kit"
)

// scribble is what the caller writes into a []any it got back; never stored in a collection.
type scribble struct{ n int }

const (
	scribbleInt = -777000000
	scribbleStr = "scribbled-by-the-caller-"
)

// scribbleValue: the i-th sentinel of the given element type.
func scribbleValue(t reflect.Type, i int) reflect.Value {
	switch t.Kind() {
	case reflect.Int, reflect.Int64:
		return reflect.ValueOf(int64(scribbleInt - i)).Convert(t)
	case reflect.Uint, reflect.Uint64:
		return reflect.ValueOf(uint64(-(scribbleInt - i))).Convert(t)
	case reflect.String:
		return reflect.ValueOf(fmt.Sprintf("%s%d", scribbleStr, i)).Convert(t)
	}
	v := reflect.New(t).Elem() // interface element type
	v.Set(reflect.ValueOf(scribble{i}))
	return v
}

func isScribble(v reflect.Value) bool {
	switch v.Kind() {
	case reflect.Int, reflect.Int64:
		return v.Int() <= scribbleInt+1000000 && v.Int() > scribbleInt-1000000
	case reflect.Uint, reflect.Uint64:
		return v.Uint() >= uint64(-scribbleInt)-1000000 && v.Uint() < uint64(-scribbleInt)+1000000
	case reflect.String:
		return len(v.String()) >= len(scribbleStr) && v.String()[:len(scribbleStr)] == scribbleStr
	case reflect.Interface:
		if v.IsNil() {
			return false
		}
		_, ok := v.Interface().(scribble)
		return ok
	}
	return false
}

// hasScribble: does the slice (of any element type) hold a value only the caller's scribbling can have put there?
func hasScribble(slice any) bool {
	v := reflect.ValueOf(slice)
	if !v.IsValid() || v.Kind() != reflect.Slice {
		return false
	}
	for i := 0; i < v.Len(); i++ {
		if isScribble(v.Index(i)) {
			return true
		}
	}
	return false
}

var scribbleKinds = []string{"overwrite-every-element", "reverse", "append", "truncate-then-append", "clear-to-zero-values", "overwrite-first", "reslice-to-capacity-and-overwrite"}

// scribbleOn does to the slice what a caller that owns it may do; returns the caller's slice afterwards.
func scribbleOn(slice any, how string, seq *int) any {
	v := reflect.ValueOf(slice)
	if !v.IsValid() || v.Kind() != reflect.Slice {
		return slice
	}
	et := v.Type().Elem()
	next := func() reflect.Value { *seq++; return scribbleValue(et, *seq) }
	switch how {
	case "overwrite-every-element":
		for i := 0; i < v.Len(); i++ {
			v.Index(i).Set(next())
		}
	case "overwrite-first":
		if v.Len() > 0 {
			v.Index(0).Set(next())
		}
	case "reverse":
		for i, j := 0, v.Len()-1; i < j; i, j = i+1, j-1 {
			a, b := reflect.New(et).Elem(), reflect.New(et).Elem()
			a.Set(v.Index(i))
			b.Set(v.Index(j))
			v.Index(i).Set(b)
			v.Index(j).Set(a)
		}
	case "append":
		if v.IsNil() {
			v = reflect.MakeSlice(v.Type(), 0, 0)
		}
		v = reflect.Append(v, next(), next())
	case "truncate-then-append":
		if !v.IsNil() {
			v = reflect.Append(v.Slice(0, 0), next())
		}
	case "clear-to-zero-values":
		for i := 0; i < v.Len(); i++ {
			v.Index(i).Set(reflect.Zero(et))
		}
	case "reslice-to-capacity-and-overwrite":
		if !v.IsNil() {
			v = v.Slice(0, v.Cap())
			for i := 0; i < v.Len(); i++ {
				v.Index(i).Set(next())
			}
		}
	}
	return v.Interface()
}

// retainedResult is a container the caller kept, with a copy of its elements made when it was kept.
type retainedResult struct {
	what string
	got  any   // the slice itself
	snap []any // its elements at that time (element identities, not deep copies: the elements are the caller's values)
}

func snapshot(slice any) []any {
	v := reflect.ValueOf(slice)
	if !v.IsValid() || v.Kind() != reflect.Slice {
		return nil
	}
	out := make([]any, v.Len())
	for i := range out {
		out[i] = v.Index(i).Interface()
	}
	return out
}

// unchanged: does the retained slice still hold exactly the elements it held when it was kept?
func (rr *retainedResult) unchanged() (bool, string) {
	now := snapshot(rr.got)
	if len(now) != len(rr.snap) {
		return false, fmt.Sprintf("length %d, was %d", len(now), len(rr.snap))
	}
	for i := range now {
		if !sameVal(now[i], rr.snap[i]) {
			return false, fmt.Sprintf("element %d is now %s, was %s", i, descr(now[i]), descr(rr.snap[i]))
		}
	}
	return true, ""
}

type retainer struct {
	kept      []*retainedResult
	max       int
	checks    int64
	keptTotal int64
}

func (rt *retainer) keep(what string, got any) {
	rt.keptTotal++
	rt.kept = append(rt.kept, &retainedResult{what: what, got: got, snap: snapshot(got)})
	if len(rt.kept) > rt.max {
		// drop one from the middle: the oldest ones stay (they see the most later operations)
		i := rt.max / 2
		rt.kept = append(rt.kept[:i], rt.kept[i+1:]...)
	}
}

// check returns the first retained container that changed, if any.
func (rt *retainer) check() (*retainedResult, string) {
	for _, rr := range rt.kept {
		rt.checks++
		if ok, how := rr.unchanged(); !ok {
			return rr, how
		}
	}
	return nil, ""
}

// ---------------------------------------------------------------- Ring

func ringAliasHistory(c *kit.Case, r *kit.Rand, sample bool) {
	n := kit.Choose(r, []int{1, 2, 3, 4, 5, 8, 13})
	rc := newRec(300)
	bad := false
	var added []cval
	var vs valStats
	class := func() string {
		switch {
		case len(added) >= 2*n:
			return "index-folded-back"
		case len(added) > n:
			return "wrapped"
		case len(added) == n:
			return "exactly-full"
		}
		return "not-yet-full"
	}
	wit := func(extra map[string]any) map[string]any {
		w := rc.witness(map[string]any{"n": n, "adds": len(added)})
		for k, v := range extra {
			w[k] = v
		}
		return w
	}
	viol := func(key, what string, extra map[string]any) {
		bad = true
		c.Viol(key, what, wit(extra))
	}
	defer func() {
		if p := recover(); p != nil {
			viol("C16/ring/panic", fmt.Sprintf("Ring panicked: %v", p), nil)
		}
	}()
	ring := collection.NewRing(n)
	rt := &retainer{max: 10}
	seq := 0
	scribbled := false
	var takes, scribbles, probes, takesBeforeWrapKept, addsAfterKeptBeforeWrap, folded int64
	scribblesByKind := map[string]int64{}
	want := func() []cval {
		w := added
		if len(w) > n {
			w = w[len(w)-n:]
		}
		return w
	}
	// compare a Take result with the model; afterScribble: no operation since the caller scribbled on the previous result
	compare := func(got []any, afterScribble bool) {
		w := want()
		ok := len(got) == len(w)
		for i := 0; ok && i < len(w); i++ {
			ok = sameVal(got[i], w[i].v)
			vs.compared(w[i].v)
		}
		if ok {
			return
		}
		msg := fmt.Sprintf("Ring(%d) after %d Adds: Take() = %s, the last %d added in order are %v", n, len(added), descrAll(got), n, w)
		if afterScribble || (scribbled && hasScribble(got)) {
			viol("C16/ring/result-aliases-internal-state/mutation-visible-in-later-result",
				msg+" - the caller had overwritten / reordered / appended to a slice returned by an earlier Take; that must not change the ring", map[string]any{"ring_state": class()})
			return
		}
		viol("C16/ring/take-mismatch/"+class(), msg, nil)
	}
	checkRetained := func(op string) {
		if bad {
			return
		}
		if rr, how := rt.check(); rr != nil {
			viol("C16/ring/result-aliases-internal-state/retained-result-changed-by-later-op",
				fmt.Sprintf("a slice returned by %s changed after %s: %s (held %s when it was returned)", rr.what, op, how, descrAll(rr.snap)), map[string]any{"ring_state": class()})
		}
	}
	L := r.Range(3, 6*n+10)
	pAdd := kit.Choose(r, []float64{0.4, 0.55, 0.7})
	keptBeforeWrap := false
	for i := 0; i < L && !bad; i++ {
		if r.Chance(pAdd) {
			var prev *cval
			if len(added) > 0 {
				prev = &added[len(added)-1]
			}
			v := mkVal(r, i, prev)
			vs.note(v)
			rc.opf("Add(%v)", v)
			ring.Add(v.v)
			added = append(added, v)
			if keptBeforeWrap {
				addsAfterKeptBeforeWrap++
			}
			checkRetained(fmt.Sprintf("Add #%d", len(added)))
			continue
		}
		takes++
		if len(added) >= 2*n {
			folded++
		}
		got := ring.Take()
		what := fmt.Sprintf("Take() after %d Adds", len(added))
		compare(got, false)
		if bad {
			break
		}
		var kept any = got
		if r.Chance(0.55) {
			how := kit.Choose(r, scribbleKinds)
			rc.opf("Take(); caller: %s", how)
			kept = scribbleOn(got, how, &seq)
			scribbled = true
			scribbles++
			scribblesByKind[how]++
			// the same question again, nothing happened to the ring in between
			probes++
			compare(ring.Take(), true)
		} else {
			rc.op("Take()")
		}
		if bad {
			break
		}
		rt.keep(what, kept)
		if len(added) <= n {
			takesBeforeWrapKept++
			keptBeforeWrap = true
		}
		checkRetained(what)
	}
	if !bad {
		rc.op("Take()")
		compare(ring.Take(), false)
		checkRetained("the last Take()")
	}
	c.Obs("ringalias_histories", 1)
	c.Obs("ringalias_ops", int64(rc.total))
	c.Obs("ringalias_takes_compared", takes+probes+1)
	c.Obs("ringalias_takes_after_index_fold_back", folded)
	c.Obs("ringalias_results_scribbled_then_same_accessor_called_again", scribbles)
	for _, k := range scribbleKinds {
		c.Obs("ringalias_scribble_"+k, scribblesByKind[k])
	}
	c.Obs("ringalias_results_retained", rt.keptTotal)
	c.Obs("ringalias_results_retained_from_a_ring_that_had_not_wrapped", takesBeforeWrapKept)
	c.Obs("ringalias_adds_after_a_result_was_retained_from_a_ring_that_had_not_wrapped", addsAfterKeptBeforeWrap)
	c.Obs("ringalias_retained_result_comparisons", rt.checks)
	vs.obs(c, "ringalias")
	// non-trivial: a result taken before the ring wrapped was scribbled on and retained, and the ring wrapped afterwards
	c.Sig(scribbles > 0 && takesBeforeWrapKept > 0 && len(added) > n && addsAfterKeptBeforeWrap > 0, "ring-alias", n, rc.h)
	if sample {
		c.Sample("ring-alias", 1, wit(nil))
	}
}

// ---------------------------------------------------------------- Set

type setAccessor struct {
	name string
	tp   string // "" = all elements
	call func(s *collection.Set) any
}

var setAccessors = []setAccessor{
	{"Keys()", "", func(s *collection.Set) any { return s.Keys() }},
	{"KeysInt()", "int", func(s *collection.Set) any { return s.KeysInt() }},
	{"KeysInt64()", "int64", func(s *collection.Set) any { return s.KeysInt64() }},
	{"KeysUint()", "uint", func(s *collection.Set) any { return s.KeysUint() }},
	{"KeysUint64()", "uint64", func(s *collection.Set) any { return s.KeysUint64() }},
	{"KeysStr()", "string", func(s *collection.Set) any { return s.KeysStr() }},
}

func setAliasHistory(c *kit.Case, r *kit.Rand, sample bool) {
	rc := newRec(300)
	universe := mixUniverse()
	model := map[any]bool{}
	managed := r.Chance(0.5)
	// a managed set keeps to one type in half of the histories (the everyday use), else types are mixed
	home := kit.Choose(r, mixTypeNames)
	foreignP := 0.0
	if !managed || r.Chance(0.5) {
		foreignP = kit.Choose(r, []float64{0.2, 0.5, 0.8})
	}
	several := false
	class := func() string {
		switch {
		case !managed:
			return "unmanaged-set"
		case several:
			return "managed-set-holding-several-types"
		}
		return "managed-set-one-type"
	}
	bad := false
	viol := func(key, what string) {
		bad = true
		c.Viol(key, what, rc.witness(map[string]any{"managed": managed, "set_class": class()}))
	}
	defer func() {
		if p := recover(); p != nil {
			viol("C16/set/panic/"+class(), fmt.Sprintf("Set panicked: %v", p))
		}
	}()
	var s *collection.Set
	if managed {
		s = collection.NewSet()
		rc.op("NewSet()")
	} else {
		s = collection.NewUnmanagedSet()
		rc.op("NewUnmanagedSet()")
	}
	modelKeys := func(tp string) []any {
		out := []any{}
		for k := range model {
			if tp == "" || mixTypeOf(k) == tp {
				out = append(out, k)
			}
		}
		return out
	}
	rt := &retainer{max: 12}
	seq := 0
	scribbled := false
	var keysCalls, scribbles, probes, nonEmptyScribbled, mutationsAfterKeep int64
	scribblesByKind := map[string]int64{}
	compare := func(a setAccessor, got any, afterScribble bool) {
		gk, wk := sortedRepr(snapshot(got)), sortedRepr(modelKeys(a.tp))
		if eqStrings(gk, wk) {
			return
		}
		msg := fmt.Sprintf("%s = %v, the set holds %v", a.name, gk, wk)
		if a.tp != "" {
			msg = fmt.Sprintf("%s = %v, the %s elements of the set are %v (whole set %v)", a.name, gk, a.tp, wk, sortedRepr(modelKeys("")))
		}
		if afterScribble || (scribbled && hasScribble(got)) {
			viol("C16/set/result-aliases-internal-state/mutation-visible-in-later-result",
				msg+" - the caller had overwritten / reordered / appended to a slice returned by an earlier Keys call; that must not change the set")
			return
		}
		kind := "typed-keys-mismatch"
		if a.tp == "" {
			kind = "keys-mismatch"
		}
		viol("C16/set/"+kind+"/"+class(), msg)
	}
	checkRetained := func(op string) {
		if bad {
			return
		}
		if rr, how := rt.check(); rr != nil {
			viol("C16/set/result-aliases-internal-state/retained-result-changed-by-later-op",
				fmt.Sprintf("the slice returned by %s changed after %s: %s (held %s when it was returned)", rr.what, op, how, descrAll(rr.snap)))
		}
	}
	typesHeld := func() int {
		seen := map[string]bool{}
		for k := range model {
			seen[mixTypeOf(k)] = true
		}
		return len(seen)
	}
	L := r.Range(6, 60)
	for i := 0; i < L && !bad; i++ {
		switch r.Pick(35, 20, 45) {
		case 0: // add
			tp := home
			if r.Chance(foreignP) {
				tp = kit.Choose(r, append(append([]string{}, mixTypeNames...), "other"))
			}
			nx := r.Range(1, 3)
			xs := make([]any, nx)
			for j := range xs {
				xs[j] = mixValue(tp, r.Intn(4))
			}
			if tp != "other" && r.Chance(0.6) {
				rc.opf("Add%s(%v)", tp, sortedRepr(xs))
				mixAddTyped(s, tp, xs)
			} else {
				rc.opf("Add(%v)", sortedRepr(xs))
				s.Add(xs...)
			}
			for _, x := range xs {
				model[x] = true
			}
			if typesHeld() > 1 {
				several = true
			}
			if len(rt.kept) > 0 {
				mutationsAfterKeep++
			}
			checkRetained("Add")
		case 1: // remove, preferring a present value
			x := kit.Choose(r, universe)
			if !model[x] && r.Chance(0.7) {
				for _, j := range r.Perm(len(universe)) {
					if model[universe[j]] {
						x = universe[j]
						break
					}
				}
			}
			rc.opf("Remove(%T:%v)", x, x)
			s.Remove(x)
			delete(model, x)
			if len(rt.kept) > 0 {
				mutationsAfterKeep++
			}
			checkRetained("Remove")
		default:
			a := kit.Choose(r, setAccessors)
			if r.Chance(0.5) { // prefer an accessor that has something to return
				for _, j := range r.Perm(len(setAccessors)) {
					if len(modelKeys(setAccessors[j].tp)) > 0 {
						a = setAccessors[j]
						break
					}
				}
			}
			keysCalls++
			got := a.call(s)
			what := fmt.Sprintf("%s (operation #%d)", a.name, rc.total+1)
			compare(a, got, false)
			if bad {
				break
			}
			kept := got
			if r.Chance(0.6) {
				how := kit.Choose(r, scribbleKinds)
				rc.opf("%s; caller: %s", a.name, how)
				if reflect.ValueOf(got).Len() > 0 {
					nonEmptyScribbled++
				}
				kept = scribbleOn(got, how, &seq)
				scribbled = true
				scribbles++
				scribblesByKind[how]++
				probes++
				compare(a, a.call(s), true)
			} else {
				rc.op(a.name)
			}
			if bad {
				break
			}
			rt.keep(what, kept)
			checkRetained(what)
		}
		if !bad {
			if got := s.Count(); got != len(model) {
				viol("C16/set/count-mismatch/"+class(), fmt.Sprintf("Count() = %d, the set has %d elements %v", got, len(model), sortedRepr(modelKeys(""))))
			}
		}
	}
	if !bad {
		for _, a := range setAccessors {
			if !bad {
				compare(a, a.call(s), false)
			}
		}
		checkRetained("the final Keys calls")
		for _, x := range universe {
			if !bad && s.Contains(x) != model[x] {
				viol("C16/set/contains-mismatch/"+class(), fmt.Sprintf("Contains(%T:%v) = %v, the set is %v", x, x, !model[x], sortedRepr(modelKeys(""))))
			}
		}
	}
	c.Obs("setalias_histories", 1)
	c.Obs("setalias_ops", int64(rc.total))
	c.Obs("setalias_keys_results_compared", keysCalls+probes+int64(len(setAccessors)))
	c.Obs("setalias_results_scribbled_then_same_accessor_called_again", scribbles)
	c.Obs("setalias_non_empty_results_scribbled", nonEmptyScribbled)
	for _, k := range scribbleKinds {
		c.Obs("setalias_scribble_"+k, scribblesByKind[k])
	}
	c.Obs("setalias_results_retained", rt.keptTotal)
	c.Obs("setalias_adds_and_removes_after_a_result_was_retained", mutationsAfterKeep)
	c.Obs("setalias_retained_result_comparisons", rt.checks)
	// non-trivial: a non-empty result was scribbled on, and the set was changed while results were retained
	c.Sig(nonEmptyScribbled > 0 && mutationsAfterKeep > 0, "set-alias", managed, rc.h)
	if sample {
		c.Sample("set-alias", 1, rc.witness(map[string]any{"managed": managed}))
	}
}

// ---------------------------------------------------------------- RollingWindow: what Reduce hands to its callback (observed only)

// rwReduceBuckets: Reduce "runs fn on all buckets": with B = *Bucket[T] the callback receives the very objects
// the caller's newBucket function created - the window's storage, handed out by design. Nothing is demanded;
// the family records that this is what happens, so that a change of that behaviour shows in the evidence.
func rwReduceBuckets(c *kit.Case) {
	created := map[*collection.Bucket[int64]]bool{}
	w := collection.NewRollingWindow[int64, *collection.Bucket[int64]](func() *collection.Bucket[int64] {
		b := new(collection.Bucket[int64])
		created[b] = true
		return b
	}, 4, time.Hour)
	w.Add(3)
	w.Add(4)
	var own, foreign int64
	w.Reduce(func(b *collection.Bucket[int64]) {
		if created[b] {
			own++
		} else {
			foreign++
		}
	})
	c.Obs("rw_reduce_callback_received_a_bucket_object_created_by_the_callers_newBucket", own)
	c.Obs("rw_reduce_callback_received_some_other_bucket_object", foreign)
	c.Evals(1)
	c.Sig(false, "rw-reduce-buckets")
}

// ---------------------------------------------------------------- registration

func aliasFamilies(t *testing.T) {
	const rb = 25
	kit.Run(t, "C16", "ring-alias", kit.N(120, 2400), func(c *kit.Case) {
		for h := 0; h < rb && !c.Violated(); h++ {
			ringAliasHistory(c, c.R, c.Index == 0 && h == 0)
		}
		c.Evals(rb)
	})
	const sb = 25
	kit.Run(t, "C16", "set-alias", kit.N(120, 2400), func(c *kit.Case) {
		for h := 0; h < sb && !c.Violated(); h++ {
			setAliasHistory(c, c.R, c.Index == 0 && h == 0)
		}
		c.Evals(sb)
	})
	kit.Run(t, "C16", "rw-reduce-buckets", 1, rwReduceBuckets)
}
