package c16

// cache-conctake: "Take calls the loader only on a miss" while several goroutines Take the same
// key. The statement is about sequences; the one thing checked here needs no model of concurrent
// semantics: if a loader is CALLED after another Take of the same key has already RETURNED a loaded
// value (and nothing deleted, evicted or expired the key: fresh cache, one key per round, expiry
// hours away, no limit), the key was cached when the loader was called - not a miss. Stamps come
// from one logical clock; "returned before the loader started" is the only inference drawn.

import (
	"fmt"
	"runtime"
	"sync"
	"sync/atomic"
	"time"

	"github.com/zeromicro/go-zero/core/collection"

	"verifharness/kit"
)

// conctakeErr marks a Take that returned an error (no loader of this family fails).
type conctakeErr struct{ err error }

func concTakeCase(c *kit.Case) {
	r := c.R
	cache, err := collection.NewCache(time.Hour)
	if err != nil {
		c.Viol("C16/cache/new-error", err.Error(), nil)
		return
	}
	rounds := r.Range(20, 60)
	lateLoads, loads, takes := 0, int64(0), int64(0)
	var vs valStats
	for round := 0; round < rounds && lateLoads == 0; round++ {
		key := fmt.Sprintf("c%d-r%d", c.Index, round)
		G := kit.Choose(r, []int{2, 3, 4, 8, 16})
		delays := make([]int, G)
		for i := range delays {
			delays[i] = r.Pick(4, 2, 1, 1) * r.Range(0, 3)
		}
		loaderWork := r.Pick(3, 2, 1)
		var firstRet atomic.Uint64 // stamp of the earliest return of a Take of this key (0 = none yet)
		var nLoads atomic.Int64
		var mu sync.Mutex
		var late []map[string]any
		// every loader run produces a value of its own, of a kind drawn per (round, goroutine): scalars, NaN,
		// pointers, []byte, maps, funcs, structs with slice fields ... (values_test.go); results are matched
		// with the produced values by identity / kind-aware comparison, never with == on interfaces
		var produced []cval
		kinds := make([]string, G)
		for i := range kinds {
			kinds[i] = kit.Choose(r, cvKinds)
			if r.Chance(0.3) {
				kinds[i] = "int"
			}
		}
		wasProduced := func(v any) bool {
			mu.Lock()
			defer mu.Unlock()
			for _, p := range produced {
				if sameVal(v, p.v) {
					return true
				}
			}
			return false
		}
		got := make([]any, G)
		start := make(chan struct{})
		var wg sync.WaitGroup
		for g := 0; g < G; g++ {
			wg.Add(1)
			go func(g int) {
				defer wg.Done()
				<-start
				for i := 0; i < delays[g]; i++ {
					runtime.Gosched()
				}
				inv := kit.Stamp()
				v, err := cache.Take(key, func() (any, error) {
					s := kit.Stamp()
					n := nLoads.Add(1)
					if fr := firstRet.Load(); fr != 0 && fr < s {
						mu.Lock()
						late = append(late, map[string]any{"goroutine": g, "take_invoked_at": inv, "loader_called_at": s, "a_take_of_the_key_had_returned_at": fr})
						mu.Unlock()
					}
					val := mkFresh(kinds[g], g*1000+int(n))
					mu.Lock()
					produced = append(produced, val)
					mu.Unlock()
					for i := 0; i < loaderWork; i++ {
						runtime.Gosched()
					}
					return val.v, nil
				})
				ret := kit.Stamp()
				for {
					cur := firstRet.Load()
					if cur != 0 && cur <= ret {
						break
					}
					if firstRet.CompareAndSwap(cur, ret) {
						break
					}
				}
				if err != nil {
					v = conctakeErr{err}
				}
				got[g] = v
			}(g)
		}
		close(start)
		wg.Wait()
		takes += int64(G)
		loads += nLoads.Load()
		w := map[string]any{"key": key, "goroutines": G, "loader_runs": nLoads.Load(), "results": descrAll(got), "loader_value_kinds": kinds, "values_produced": fmt.Sprint(produced)}
		for _, p := range produced {
			vs.note(p)
		}
		if len(late) > 0 {
			lateLoads += len(late)
			w["late_loader_calls"] = late
			c.Viol("C16/cache/take/loader-called-on-hit/concurrent-takes",
				fmt.Sprintf("Take(%s): a loader was called after another Take of the key had already returned its loaded value (nothing deleted, evicted or expired the key)", key), w)
		}
		for g, v := range got {
			if _, isErr := v.(conctakeErr); isErr || !wasProduced(v) {
				c.Viol("C16/cache/take/result-not-loaded-by-anyone/concurrent-takes", fmt.Sprintf("Take(%s) in goroutine %d returned %s, which no loader of this round produced", key, g, descr(v)), w)
				break
			}
			vs.compared(v)
		}
		if v, ok := cache.Get(key); !ok {
			c.Viol("C16/cache/get/live-key-missing/after-concurrent-takes", fmt.Sprintf("Get(%s) misses right after %d successful Takes", key, G), w)
		} else if !wasProduced(v) {
			c.Viol("C16/cache/get/not-latest-value/after-concurrent-takes", fmt.Sprintf("Get(%s) returned %s, which no loader of this round produced", key, descr(v)), w)
		}
	}
	c.Obs("conctake_rounds", int64(rounds))
	c.Obs("conctake_takes", takes)
	c.Obs("conctake_loader_runs", loads)
	vs.obs(c, "conctake")
	c.Evals(int64(rounds))
	c.Sig(true, "conctake", c.Index)
}
