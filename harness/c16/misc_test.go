package c16

import (
	"fmt"
	"sort"
	"testing"

	"github.com/zeromicro/go-zero/core/collection"

	"verifharness/kit"
)

// ---------------------------------------------------------------- Queue (FIFO)

func queueHistory(c *kit.Case, r *kit.Rand, size int, L int, sample bool) {
	rc := newRec(500)
	var model []any
	capacity := size // model of the growth rule only for the statistics (never for the verdict)
	var growths, puts, takes int64
	bad := false
	viol := func(kind, what string) {
		bad = true
		cl := "size>=1"
		if size == 0 {
			cl = "size=0"
		}
		c.Viol("C16/queue/"+kind+"/"+cl, what, rc.witness(map[string]any{"initial_size": size}))
	}
	defer func() {
		if p := recover(); p != nil {
			viol("panic", fmt.Sprintf("Queue panicked: %v", p))
		}
	}()
	q := collection.NewQueue(size)
	next := 0
	// drift: phases that mostly put / mostly take, so that the queue fills, grows, drains and wraps
	pPut := 0.5
	for i := 0; i < L && !bad; i++ {
		if i%16 == 0 {
			pPut = kit.Choose(r, []float64{0.2, 0.5, 0.5, 0.8, 0.95})
		}
		switch {
		case r.Chance(0.1):
			rc.op("Empty()")
			if got := q.Empty(); got != (len(model) == 0) {
				viol("empty-mismatch", fmt.Sprintf("Empty() = %v with %d elements queued", got, len(model)))
			}
		case r.Chance(pPut):
			next++
			var v any = next
			if next%23 == 0 {
				v = nil
			}
			rc.opf("Put(%v)", v)
			if capacity > 0 && len(model) == capacity {
				growths++
				capacity += size
			}
			q.Put(v)
			puts++
			model = append(model, v)
		default:
			rc.op("Take()")
			got, ok := q.Take()
			takes++
			switch {
			case len(model) == 0:
				if ok || got != nil {
					viol("take-from-empty", fmt.Sprintf("Take() on an empty queue returned (%v,%v)", got, ok))
				}
			case !ok:
				viol("take-lost-elements", fmt.Sprintf("Take() reported empty with %d elements queued", len(model)))
			case got != model[0]:
				viol("take-order", fmt.Sprintf("Take() returned %v, the oldest queued element is %v (queued: %v)", got, model[0], model))
			}
			if len(model) > 0 {
				model = model[1:]
			}
		}
	}
	// drain completely
	for !bad {
		got, ok := q.Take()
		rc.op("Take()")
		if len(model) == 0 {
			if ok {
				viol("take-from-empty", fmt.Sprintf("Take() on an empty queue returned (%v,true)", got))
			}
			break
		}
		if !ok {
			viol("take-lost-elements", fmt.Sprintf("Take() reported empty with %d elements queued", len(model)))
		} else if got != model[0] {
			viol("take-order", fmt.Sprintf("Take() returned %v, the oldest queued element is %v", got, model[0]))
		}
		model = model[1:]
	}
	c.Obs("queue_histories", 1)
	c.Obs("queue_ops", int64(rc.total))
	c.Obs("queue_model_growths", growths)
	// non-trivial: the buffer grew at least once and more elements passed through than the final capacity (wrap-around)
	c.Sig(growths > 0 && puts > int64(capacity) && takes > int64(size), "queue", size, rc.h)
	if sample {
		c.Sample("queue", 1, rc.witness(map[string]any{"initial_size": size, "growths": growths}))
	}
}

func queueFamilies(t *testing.T) {
	const b = 25
	kit.Run(t, "C16", "queue-random", kit.N(100, 2000), func(c *kit.Case) {
		for h := 0; h < b && !c.Violated(); h++ {
			size := kit.Choose(c.R, []int{1, 1, 2, 3, 4, 5, 7, 16, 64})
			queueHistory(c, c.R, size, c.R.Range(10, 400), c.Index == 0 && h == 0)
		}
		c.Evals(b)
	})
	// the smallest size parameter the constructor accepts
	kit.Run(t, "C16", "queue-size0", 1, func(c *kit.Case) {
		queueHistory(c, c.R, 0, 20, false)
	})
}

// ---------------------------------------------------------------- Ring (last n, in order)

func ringCheck(c *kit.Case, n int, added []any, got []any, rc *rec) bool {
	want := added
	if len(want) > n {
		want = want[len(want)-n:]
	}
	ok := len(got) == len(want)
	for i := 0; ok && i < len(want); i++ {
		ok = got[i] == want[i]
	}
	if ok {
		return true
	}
	cl := "not-yet-full"
	switch {
	case len(added) >= 2*n:
		cl = "index-folded-back"
	case len(added) > n:
		cl = "wrapped"
	case len(added) == n:
		cl = "exactly-full"
	}
	c.Viol("C16/ring/take-mismatch/"+cl, fmt.Sprintf("Ring(%d) after %d Adds: Take() = %v, the last %d added in order are %v", n, len(added), got, n, want),
		rc.witness(map[string]any{"n": n, "adds": len(added)}))
	return false
}

func ringFamilies(t *testing.T) {
	// deterministic sweep: every n up to 40 (thorough 200), Take compared after every Add up to 5n+3 Adds
	maxN := kit.N(40, 200)
	kit.Run(t, "C16", "ring-sweep", maxN, func(c *kit.Case) {
		n := c.Index + 1
		rc := newRec(50)
		defer func() {
			if p := recover(); p != nil {
				c.Viol("C16/ring/panic", fmt.Sprintf("Ring panicked: %v", p), rc.witness(map[string]any{"n": n}))
			}
		}()
		ring := collection.NewRing(n)
		var added []any
		if !ringCheck(c, n, added, ring.Take(), rc) {
			return
		}
		for i := 0; i < 5*n+3; i++ {
			rc.opf("Add(%d)", i)
			ring.Add(i)
			added = append(added, i)
			if !ringCheck(c, n, added, ring.Take(), rc) {
				return
			}
		}
		c.Evals(int64(5*n + 3))
		c.Obs("ring_takes_compared", int64(5*n+4))
		c.Obs("ring_takes_after_index_fold_back", int64(3*n+4))
		c.Sig(true, "ring-sweep", n)
	})
	const b = 25
	kit.Run(t, "C16", "ring-random", kit.N(60, 1200), func(c *kit.Case) {
		r := c.R
		for h := 0; h < b && !c.Violated(); h++ {
			n := kit.Choose(r, []int{1, 2, 3, 4, 5, 8, 13})
			rc := newRec(300)
			func() {
				defer func() {
					if p := recover(); p != nil {
						c.Viol("C16/ring/panic", fmt.Sprintf("Ring panicked: %v", p), rc.witness(map[string]any{"n": n}))
					}
				}()
				ring := collection.NewRing(n)
				var added []any
				L := r.Range(1, 8*n+5)
				takes, folded := int64(0), int64(0)
				for i := 0; i < L; i++ {
					if r.Chance(0.7) {
						var v any = i
						if i%11 == 10 {
							v = fmt.Sprintf("s%d", i)
						}
						rc.opf("Add(%v)", v)
						ring.Add(v)
						added = append(added, v)
					} else {
						rc.op("Take()")
						takes++
						if len(added) >= 2*n {
							folded++
						}
						if !ringCheck(c, n, added, ring.Take(), rc) {
							return
						}
					}
				}
				rc.op("Take()")
				if !ringCheck(c, n, added, ring.Take(), rc) {
					return
				}
				c.Obs("ring_takes_compared", takes+1)
				c.Obs("ring_takes_after_index_fold_back", folded)
				c.Sig(len(added) > n && takes > 0, "ring", n, rc.h)
				if c.Index == 0 && h == 0 {
					c.Sample("ring", 1, rc.witness(map[string]any{"n": n}))
				}
			}()
		}
		c.Evals(b)
	})
}

// ---------------------------------------------------------------- Set

// setVariant drives one typed view of collection.Set.
type setVariant struct {
	name string
	mk   func() *collection.Set
	elem func(i int) any
	add  func(s *collection.Set, xs []any)
	keys func(s *collection.Set) []any // the typed Keys* accessor; nil: only Keys()
}

func setVariants() []setVariant {
	toAny := func(n int, f func(i int) any) []any {
		out := make([]any, n)
		for i := range out {
			out[i] = f(i)
		}
		return out
	}
	return []setVariant{
		{"int", collection.NewSet, func(i int) any { return i - 3 },
			func(s *collection.Set, xs []any) {
				ii := make([]int, len(xs))
				for i, x := range xs {
					ii[i] = x.(int)
				}
				s.AddInt(ii...)
			},
			func(s *collection.Set) []any { k := s.KeysInt(); return toAny(len(k), func(i int) any { return k[i] }) }},
		{"int64", collection.NewSet, func(i int) any { return int64(i) - 3 },
			func(s *collection.Set, xs []any) {
				ii := make([]int64, len(xs))
				for i, x := range xs {
					ii[i] = x.(int64)
				}
				s.AddInt64(ii...)
			},
			func(s *collection.Set) []any {
				k := s.KeysInt64()
				return toAny(len(k), func(i int) any { return k[i] })
			}},
		{"uint", collection.NewSet, func(i int) any { return uint(i) },
			func(s *collection.Set, xs []any) {
				ii := make([]uint, len(xs))
				for i, x := range xs {
					ii[i] = x.(uint)
				}
				s.AddUint(ii...)
			},
			func(s *collection.Set) []any {
				k := s.KeysUint()
				return toAny(len(k), func(i int) any { return k[i] })
			}},
		{"uint64", collection.NewSet, func(i int) any { return uint64(i) },
			func(s *collection.Set, xs []any) {
				ii := make([]uint64, len(xs))
				for i, x := range xs {
					ii[i] = x.(uint64)
				}
				s.AddUint64(ii...)
			},
			func(s *collection.Set) []any {
				k := s.KeysUint64()
				return toAny(len(k), func(i int) any { return k[i] })
			}},
		{"string", collection.NewSet, func(i int) any { return fmt.Sprintf("e%d", i) },
			func(s *collection.Set, xs []any) {
				ii := make([]string, len(xs))
				for i, x := range xs {
					ii[i] = x.(string)
				}
				s.AddStr(ii...)
			},
			func(s *collection.Set) []any { k := s.KeysStr(); return toAny(len(k), func(i int) any { return k[i] }) }},
		// generic Add on a managed set, one element type
		{"managed-any-int", collection.NewSet, func(i int) any { return i }, func(s *collection.Set, xs []any) { s.Add(xs...) },
			func(s *collection.Set) []any { k := s.KeysInt(); return toAny(len(k), func(i int) any { return k[i] }) }},
		{"managed-any-float64", collection.NewSet, func(i int) any { return float64(i) / 2 }, func(s *collection.Set, xs []any) { s.Add(xs...) }, nil},
		// unmanaged: element types mixed freely
		{"unmanaged-mixed", collection.NewUnmanagedSet, func(i int) any {
			switch i % 4 {
			case 0:
				return i
			case 1:
				return fmt.Sprintf("e%d", i)
			case 2:
				return int64(i)
			}
			return uint(i)
		}, func(s *collection.Set, xs []any) { s.Add(xs...) }, nil},
	}
}

func sortedRepr(xs []any) []string {
	out := make([]string, len(xs))
	for i, x := range xs {
		out[i] = fmt.Sprintf("%T:%v", x, x)
	}
	sort.Strings(out)
	return out
}

func eqStrings(a, b []string) bool {
	if len(a) != len(b) {
		return false
	}
	for i := range a {
		if a[i] != b[i] {
			return false
		}
	}
	return true
}

func setHistory(c *kit.Case, r *kit.Rand, v setVariant, sample bool) {
	rc := newRec(300)
	model := map[any]bool{}
	bad := false
	viol := func(kind, what string) {
		bad = true
		c.Viol("C16/set/"+kind+"/"+v.name, what, rc.witness(map[string]any{"variant": v.name}))
	}
	defer func() {
		if p := recover(); p != nil {
			viol("panic", fmt.Sprintf("Set panicked: %v", p))
		}
	}()
	s := v.mk()
	u := r.Range(1, 10)
	L := r.Range(5, 120)
	var dupAdds, removesPresent, removesAbsent, keysCompared int64
	modelKeys := func() []any {
		out := make([]any, 0, len(model))
		for k := range model {
			out = append(out, k)
		}
		return out
	}
	checkKeys := func() {
		keysCompared++
		want := sortedRepr(modelKeys())
		if got := sortedRepr(s.Keys()); !eqStrings(got, want) {
			viol("keys-mismatch", fmt.Sprintf("Keys() = %v, the set is %v", got, want))
			return
		}
		if v.keys != nil {
			if got := sortedRepr(v.keys(s)); !eqStrings(got, want) {
				viol("typed-keys-mismatch", fmt.Sprintf("typed Keys accessor = %v, the set is %v", got, want))
			}
		}
		if v.name == "unmanaged-mixed" {
			// the typed accessors partition the mixed set by element type
			var ints, strs []any
			for k := range model {
				switch k.(type) {
				case int:
					ints = append(ints, k)
				case string:
					strs = append(strs, k)
				}
			}
			gi, gs := s.KeysInt(), s.KeysStr()
			ai := make([]any, len(gi))
			for i := range gi {
				ai[i] = gi[i]
			}
			as := make([]any, len(gs))
			for i := range gs {
				as[i] = gs[i]
			}
			if !eqStrings(sortedRepr(ai), sortedRepr(ints)) || !eqStrings(sortedRepr(as), sortedRepr(strs)) {
				viol("typed-keys-mismatch", fmt.Sprintf("KeysInt()=%v KeysStr()=%v, the set is %v", gi, gs, sortedRepr(modelKeys())))
			}
		}
	}
	for i := 0; i < L && !bad; i++ {
		switch r.Pick(40, 25, 25, 10) {
		case 0:
			n := r.Range(1, 3)
			xs := make([]any, n)
			for j := range xs {
				xs[j] = v.elem(r.Intn(u))
				if model[xs[j]] {
					dupAdds++
				}
			}
			rc.opf("Add(%v)", sortedRepr(xs))
			v.add(s, xs)
			for _, x := range xs {
				model[x] = true
			}
		case 1:
			x := v.elem(r.Intn(u))
			rc.opf("Remove(%T:%v)", x, x)
			if model[x] {
				removesPresent++
			} else {
				removesAbsent++
			}
			s.Remove(x)
			delete(model, x)
		case 2:
			x := v.elem(r.Intn(u + 1))
			rc.opf("Contains(%T:%v)", x, x)
			if got := s.Contains(x); got != model[x] {
				viol("contains-mismatch", fmt.Sprintf("Contains(%T:%v) = %v, the set is %v", x, x, got, sortedRepr(modelKeys())))
			}
		default:
			rc.op("Keys()")
			checkKeys()
		}
		if !bad {
			if got := s.Count(); got != len(model) {
				viol("count-mismatch", fmt.Sprintf("Count() = %d, the set has %d elements %v", got, len(model), sortedRepr(modelKeys())))
			}
		}
	}
	if !bad {
		checkKeys()
		for i := 0; i <= u && !bad; i++ {
			x := v.elem(i)
			if got := s.Contains(x); got != model[x] {
				viol("contains-mismatch", fmt.Sprintf("Contains(%T:%v) = %v, the set is %v", x, x, got, sortedRepr(modelKeys())))
			}
		}
	}
	c.Obs("set_histories", 1)
	c.Obs("set_ops", int64(rc.total))
	c.Obs("set_adds_of_present_element", dupAdds)
	c.Obs("set_removes_of_present_element", removesPresent)
	c.Obs("set_removes_of_absent_element", removesAbsent)
	c.Obs("set_keys_comparisons", keysCompared)
	// non-trivial: idempotent add, effective and ineffective remove all occurred
	c.Sig(dupAdds > 0 && removesPresent > 0 && removesAbsent > 0, "set", v.name, u, rc.h)
	if sample {
		c.Sample("set", 1, rc.witness(map[string]any{"variant": v.name}))
	}
}

func setFamilies(t *testing.T) {
	vs := setVariants()
	const b = 24
	kit.Run(t, "C16", "set-random", kit.N(120, 2400), func(c *kit.Case) {
		for h := 0; h < b && !c.Violated(); h++ {
			setHistory(c, c.R, vs[h%len(vs)], c.Index == 0 && h == 0)
		}
		c.Evals(b)
	})
}
