// Extension of the C03 check (round 3): histories the first version never produced.
//
//   - the store FORGETS its scripts while it stays (or becomes again) reachable: SCRIPT FLUSH
//     at quiescent points of healthy phases and inside outages (= a server restart that kept
//     its data). The limiters must go on working: the joint bucket / the per-key counter
//     applies as before;
//   - the store is reachable but answers a script command with something no limiter script
//     returns (simple string, bulk string, array, integer 7 / -1): a third kind of outage.
//     PeriodLimit must report an error (never a verdict), a TokenLimiter instance answers
//     from its private limiter and is held to the local bound;
//   - calls with an already cancelled / expired context mixed into the joint-bucket histories:
//     never a grant unless the script ran, never a token taken from the shared bucket unless
//     the script ran, and the calls that follow are judged by the joint bucket as before (an
//     instance that dropped into rescue mode shows there);
//   - a fault that starts in the middle of a concurrent burst (necessary condition only);
//   - Allow() / AllowCtx(): the wall-clock entry points, sequential, judged by the interval
//     bound with harness-measured wall time (necessary condition only).
//
// The generators of the old families are untouched (their case lists and random streams are
// the same as before); everything here runs in families of its own.
package c03

import (
	"context"
	"errors"
	"fmt"
	"strconv"
	"strings"
	"sync"
	"testing"
	"time"

	"github.com/alicebob/miniredis/v2/server"
	red "github.com/redis/go-redis/v9"
	"github.com/zeromicro/go-zero/core/limit"

	"verifharness/kit"
	"verifharness/kitp"
)

// ---------------------------------------------------------------- garbage replies

const outGarble = "garbage-replies"

var garbageKinds = []string{"simple-string", "bulk-string", "array", "int-7", "int-minus-1"}

func garbageOutage(r *kit.Rand) string { return outGarble + ":" + kit.Choose(r, garbageKinds) }

func garbageKind(kind string) int32 {
	for i, k := range garbageKinds {
		if kind == outGarble+":"+k {
			return int32(i + 1)
		}
	}
	return 1
}

// writeGarbage answers a script command with a well-formed reply that neither limiter script
// can produce (periodscript returns 0/1/2, tokenscript 1 or nil).
func writeGarbage(c *server.Peer, g int32) {
	switch g {
	case 2:
		c.WriteBulk("granted")
	case 3:
		c.WriteLen(2)
		c.WriteInt(1)
		c.WriteInt(1)
	case 4:
		c.WriteInt(7)
	case 5:
		c.WriteInt(-1)
	default:
		c.WriteInline("OK")
	}
}

// isServerReply: the error is an error REPLY of the store (not a network-level failure and
// not one the harness injected).
func isServerReply(err error) bool {
	var re red.Error
	if !errors.As(err, &re) {
		return false
	}
	return !strings.Contains(err.Error(), injectedErr)
}

func replyClass(err error) string {
	f := strings.Fields(err.Error())
	if len(f) == 0 {
		return "empty"
	}
	w := f[0]
	for _, ch := range w {
		if !(ch >= 'A' && ch <= 'Z') {
			return "other"
		}
	}
	return w
}

// ---------------------------------------------------------------- script cache loss

// flushScripts makes the store forget every script (SCRIPT FLUSH over the harness's own
// connection). The redis client's breaker window is emptied first: on the unchanged tree the
// next EVALSHA of a client is answered NOSCRIPT (one breaker failure) before the driver
// falls back to EVAL.
func (w *world) flushScripts() error {
	w.vc.Advance(breakerWindow)
	ctx, cancel := context.WithTimeout(context.Background(), 60*time.Second)
	defer cancel()
	return w.raw.ScriptFlush(ctx).Err()
}

func (w *world) harnessPing() bool {
	ctx, cancel := context.WithTimeout(context.Background(), 60*time.Second)
	defer cancel()
	return w.raw.Ping(ctx).Err() == nil
}

// persistentReplyError: the store is healthy (no fault injected, the harness reaches it) and
// answered the limiter's command with an error reply. One such answer is a store error
// reported as an error; if the very same take keeps failing the limiter never grants the
// first quota requests of a period although nothing is wrong with the store.
func (p *periodCase) persistentReplyError(k *perKey, first error) {
	cls := replyClass(first)
	p.c.Obs("period_reply_errors_with_healthy_store", 1)
	for i := 0; i < 3; i++ {
		if !p.w.harnessPing() {
			p.c.Inconclusive("the harness itself does not reach the store: " + first.Error())
			p.abort = true
			return
		}
		code, err := p.lim.Take(k.name)
		p.sha = p.w.shaSeen.Load()
		p.logf("take %s (again, after an error reply) -> %s err=%v", k.name, cname(code), err)
		if err == nil || !isServerReply(err) {
			p.dirty = true // the retry may have been counted by the store: follow the store
			p.c.Obs("period_reply_error_was_transient", 1)
			if err != nil {
				p.c.Inconclusive("unexpected store error while the store is healthy: " + err.Error())
				p.abort = true
			}
			return
		}
	}
	p.c.Viol("C03/period/errors-although-store-reachable/"+cls,
		fmt.Sprintf("key %s: four takes in a row answered with the store's error reply %q although no fault is injected and the store answers the harness: requests are neither granted nor refused any more", k.name, first), p.witness(""))
	p.abort = true
}

// ---------------------------------------------------------------- PeriodLimit, extended histories

func runPeriodSeqX(c *kit.Case, w *world) {
	r := c.R
	w.reset()
	netFaults := r.Chance(0.35)
	p := newPeriodCase(c, w, netFaults)
	L := r.Range(12, 60)
	flushes, outages := 0, 0
	defer func() {
		if p.outage != "" || w.netDown || w.hookDown.Load() || w.garble.Load() != 0 {
			w.heal(p.st)
		}
	}()
	pickMode := func() int {
		switch r.Pick(10, 1, 1) {
		case 1:
			return ctxCancelled
		case 2:
			return ctxExpired
		}
		return ctxLive
	}
	flush := func(where string) {
		if err := w.flushScripts(); err != nil {
			c.Inconclusive("SCRIPT FLUSH failed: " + err.Error())
			p.abort = true
			return
		}
		flushes++
		p.logf("store forgets its scripts (SCRIPT FLUSH, %s)", where)
		c.Obs("period_script_flushes", 1)
	}
	for i := 0; i < L && !p.abort; i++ {
		switch {
		case p.outage != "":
			switch r.Pick(6, 2, 2, 3) {
			case 0:
				p.takeSeqMode(kit.Choose(r, p.keys), pickMode())
			case 1:
				p.advance(p.pickStep(r))
			case 2:
				if flushes < 3 {
					flush("during the outage")
				}
			default:
				p.logf("store healthy again")
				p.outage = ""
				if !w.heal(p.st) {
					c.Inconclusive("store did not come back for the harness after an outage")
					p.abort = true
				}
				p.reconcile()
				// the first takes after the recovery, on every key
				for _, k := range p.keys {
					if !p.abort {
						p.takeSeqMode(k, ctxLive)
					}
				}
			}
		case outages < 3 && r.Chance(0.09):
			kind := outHook
			switch r.Pick(3, 2, 4) {
			case 1:
				if netFaults {
					kind = outNet
				}
			case 2:
				kind = garbageOutage(r)
			}
			outages++
			p.outage = kind
			w.beginOutage(kind)
			p.logf("store becomes %s", kind)
			c.Obs("period_outages", 1)
			if strings.HasPrefix(kind, outGarble) {
				c.Obs("period_garbage_outages", 1)
			}
		case flushes < 3 && r.Chance(0.07):
			flush("store healthy")
			// whoever asks next must be served as if nothing had happened
			n := r.Range(1, 3)
			k := kit.Choose(r, p.keys)
			for j := 0; j < n && !p.abort; j++ {
				before := w.noScript.Load()
				p.takeSeqMode(k, ctxLive)
				if w.noScript.Load() > before {
					c.Obs("period_takes_answered_noscript_first", 1)
				}
			}
		case r.Chance(0.22):
			p.advance(p.pickStep(r))
		default:
			k := kit.Choose(r, p.keys)
			n := 1
			if r.Chance(0.5) {
				n = r.Range(1, p.quota+3)
			}
			for j := 0; j < n && !p.abort && p.outage == ""; j++ {
				p.takeSeqMode(k, pickMode())
			}
		}
	}
	if p.outage != "" {
		p.outage = ""
		if !w.heal(p.st) {
			c.Inconclusive("store did not come back for the harness after an outage")
		}
	}
	c.Obs("period_boundaries_crossed", p.crossed)
	c.Obs("period_histories", 1)
	c.Obs("period_x_histories", 1)
	nontriv := p.nontriv || (flushes > 0 && p.sawOver)
	c.Sig(nontriv, append([]any{"pseqx", p.period, p.quota, p.align}, toAny(p.log)...)...)
	if c.Index < 2 || (flushes > 0 && outages > 0) {
		c.Sample("period-seq-x", 2, p.witness("sample"))
	}
}

// ---------------------------------------------------------------- TokenLimiter, extended histories

func (t *tokCase) note(f string, a ...any) {
	if t.notes == nil {
		t.notes = map[int]string{}
	}
	i := len(t.recs)
	s := fmt.Sprintf(f, a...)
	if old, ok := t.notes[i]; ok {
		s = old + "; " + s
	}
	t.notes[i] = "   -- " + strings.TrimPrefix(s, "   -- ")
}

func (t *tokCase) flush(where string) bool {
	if err := t.w.flushScripts(); err != nil {
		t.c.Inconclusive("SCRIPT FLUSH failed: " + err.Error())
		t.abort = true
		return false
	}
	t.note("store forgets its scripts (SCRIPT FLUSH, %s)", where)
	t.c.Obs("token_script_flushes", 1)
	return true
}

var ctxModeName = map[int]string{ctxCancelled: "cancelled", ctxExpired: "expired"}

// doneCall performs one sequential AllowNCtx with a context that is already done.
//
// What may be demanded: a grant must be backed by the bucket. If no script ran for this call
// (the harness counts them at the store) nothing was taken from the shared bucket, so a grant
// for n >= 1 hands out tokens that later callers get again. If the driver did send the
// command the script decided, the shared bucket was debited as the script does it, and the
// caller may or may not have seen the answer: only "granted although the bucket lacks n" can
// be told. Whether the instance dropped into rescue mode shows in the calls that follow (they
// are judged by the joint bucket as long as the store has been reachable).
func (t *tokCase) doneCall(inst, n, mode int) {
	if !t.w.quiet(t.sha) {
		t.c.Inconclusive("a script command reached the store between two harness calls (late or re-sent command)")
		t.abort = true
		return
	}
	if mode == ctxExpired {
		t.w.vc.Advance(breakerWindow) // DeadlineExceeded counts as a breaker failure
	}
	before, shaBefore := t.w.evalsExec.Load(), t.w.shaSeen.Load()
	ctx, cancel := doneCtx(mode)
	rec := tokRec{inst: inst, now: t.now, n: n, phase: "done-ctx:" + ctxModeName[mode]}
	rec.call = kit.Stamp()
	rec.granted = t.insts[inst].AllowNCtx(ctx, t.now, n)
	rec.ret = kit.Stamp()
	cancel()
	delta := t.w.evalsExec.Load() - before
	t.sha = t.w.shaSeen.Load()
	t.c.Obs("token_calls", 1)
	t.c.Obs("token_done_ctx_calls", 1)
	if t.sha-shaBefore > 1 {
		rec.class = "store"
		t.recs = append(t.recs, rec)
		t.c.Inconclusive("the redis driver executed the script more than once for a single call (retry)")
		t.abort = true
		return
	}
	switch {
	case t.outage != "" || !t.synced[inst]:
		// the instance may be in rescue mode (its private limiter does not look at the context)
		rec.class = "local"
		t.recs = append(t.recs, rec)
		t.localIdx[inst] = append(t.localIdx[inst], len(t.recs)-1)
		t.c.Obs("token_local_served", 1)
	case delta > 0:
		// the driver sent the command in spite of the done context: the script ran
		rec.class = "store"
		avail := t.model.filled(int64(t.rate), int64(t.burst), rec.now.Unix())
		next, want := t.model.step(int64(t.rate), int64(t.burst), rec.now.Unix(), int64(rec.n))
		t.model = next
		t.recs = append(t.recs, rec)
		t.storeIdx = append(t.storeIdx, len(t.recs)-1)
		t.c.Obs("token_done_ctx_script_ran", 1)
		if rec.granted && !want {
			t.c.Viol("C03/token/joint/granted-but-bucket-lacks-n/"+t.class(),
				fmt.Sprintf("call #%d (instance %d, n=%d, %s context) was granted, but the one bucket shared by all %d instances holds %d tokens at that moment (rate %d, burst %d)",
					len(t.recs)-1, rec.inst, rec.n, ctxModeName[mode], len(t.insts), avail, t.rate, t.burst), t.witness(""))
			t.abort = true
		}
	default:
		rec.class = "void" // no script ran: the shared bucket is as it was
		t.recs = append(t.recs, rec)
		t.c.Obs("token_done_ctx_no_script", 1)
		if rec.granted && rec.n >= 1 {
			t.c.Viol("C03/token/done-ctx/granted-without-debit/"+ctxModeName[mode],
				fmt.Sprintf("call #%d (instance %d, n=%d) carried an already %s context; no script reached the store for it, so nothing was taken from the shared bucket, yet the call was granted (store reachable, instance in sync)",
					len(t.recs)-1, rec.inst, rec.n, ctxModeName[mode]), t.witness(""))
			t.abort = true
		} else if !rec.granted {
			t.c.Obs("token_done_ctx_denied", 1)
		}
	}
}

// drain asks every instance in turn for single tokens until the joint bucket must be dry:
// instances that stopped sharing the bucket show here.
func (t *tokCase) drain(r *kit.Rand, phase string) {
	k := t.burst + 2
	if len(t.insts) > 1 {
		k += t.burst
	}
	for ; k > 0 && !t.abort; k-- {
		t.call(r.Intn(len(t.insts)), 1, phase)
	}
}

func (t *tokCase) pickOutage(r *kit.Rand) string {
	switch r.Pick(3, 2, 4) {
	case 1:
		if t.st == t.w.viaPx {
			return outNet
		}
	case 2:
		return garbageOutage(r)
	}
	return outHook
}

func (t *tokCase) outageX(r *kit.Rand) bool {
	c := t.c
	kind := t.pickOutage(r)
	t.outage = kind
	t.hadOut = true
	t.w.beginOutage(kind)
	for k := range t.synced {
		t.synced[k] = false
	}
	t.note("store becomes %s", kind)
	c.Obs("token_outages", 1)
	if strings.HasPrefix(kind, outGarble) {
		c.Obs("token_garbage_outages", 1)
	}
	flushed := false
	if r.Chance(0.3) {
		flushed = t.flush("at the start of the outage")
	}
	garbledBefore := t.w.garbled.Load()
	t.hammer(r)
	for k := r.Intn(3); k > 0 && !t.abort; k-- {
		t.advance(t.pickStep(r))
		if r.Chance(0.25) {
			t.doneCall(r.Intn(len(t.insts)), t.pickN(r), 1+r.Intn(2))
		} else {
			t.call(r.Intn(len(t.insts)), t.pickN(r), "outage")
		}
	}
	c.Obs("token_garbage_replies", t.w.garbled.Load()-garbledBefore)
	if t.abort {
		return false
	}
	if !flushed && r.Chance(0.4) {
		flushed = t.flush("before the store comes back")
	}
	if r.Chance(0.5) {
		t.advance(t.pickStep(r))
	}
	t.note("store healthy again")
	loadsBefore := t.w.evalFull.Load()
	if !t.endOutage() {
		return false
	}
	if flushed {
		c.Obs("token_recoveries_after_script_loss", 1)
		if t.w.evalFull.Load() > loadsBefore {
			c.Obs("token_script_resent_after_loss", 1)
		}
	}
	t.nontriv = true
	c.Obs("token_recoveries", 1)
	return true
}

func runTokenSeqX(c *kit.Case, w *world) {
	r := c.R
	w.reset()
	t := newTokCase(c, w, r.Chance(0.35))
	t.notes = map[int]string{}
	if r.Bool() {
		ctx, cancel := context.WithCancel(context.Background())
		defer cancel()
		t.liveCtx = ctx
	}
	L := r.Range(12, 50)
	flushes, outages := 0, 0
	for i := 0; i < L && !t.abort; i++ {
		switch {
		case outages < 2 && r.Chance(0.06):
			outages++
			if !t.outageX(r) {
				i = L
			}
			continue
		case flushes < 3 && r.Chance(0.08):
			flushes++
			if !t.flush("store healthy") {
				continue
			}
			before := w.noScript.Load()
			t.drain(r, "after-flush")
			if w.noScript.Load() > before {
				c.Obs("token_calls_answered_noscript_first", w.noScript.Load()-before)
			}
			if t.denied {
				t.nontriv = true
			}
			continue
		case r.Chance(0.12):
			t.doneCall(r.Intn(len(t.insts)), t.pickN(r), 1+r.Intn(2))
			if r.Chance(0.6) {
				t.drain(r, "after-done-ctx")
			}
			continue
		}
		if r.Chance(0.45) {
			t.advance(t.pickStep(r))
		}
		if r.Chance(0.15) {
			for k := 0; k < t.burst+2 && !t.abort; k++ {
				t.call(r.Intn(len(t.insts)), 1, "seq")
			}
			continue
		}
		t.call(r.Intn(len(t.insts)), t.pickN(r), "seq")
	}
	c.Obs("token_x_histories", 1)
	t.finish("tseqx", nil)
	if c.Index < 2 || (flushes > 0 && outages > 0) {
		c.Sample("token-seq-x", 3, t.witness("sample"))
	}
}

// adoptStore makes the model follow the store after calls whose fate the harness cannot know.
func (t *tokCase) adoptStore() {
	tok, err1 := t.w.mr.Get(fmt.Sprintf("{%s}.tokens", t.key))
	ts, err2 := t.w.mr.Get(fmt.Sprintf("{%s}.ts", t.key))
	if err1 != nil || err2 != nil {
		t.model = bucket{tokens: int64(t.burst), ts: 0}
		return
	}
	f, e1 := strconv.ParseFloat(tok, 64)
	s, e2 := strconv.ParseInt(ts, 10, 64)
	if e1 != nil || e2 != nil {
		t.c.Inconclusive("cannot read the bucket state back from the store: " + tok + " / " + ts)
		t.abort = true
		return
	}
	t.model = bucket{tokens: int64(f), ts: s}
	t.c.Obs("token_store_state_adopted", 1)
}

func runTokenConcX(c *kit.Case, w *world) {
	r := c.R
	w.reset()
	t := newTokCase(c, w, r.Chance(0.2))
	t.notes = map[int]string{}
	useCtx := r.Bool()
	liveCtx, cancelLive := context.WithCancel(context.Background())
	defer cancelLive()
	if useCtx {
		t.liveCtx = liveCtx
	}
	bursts := r.Range(1, 4)
	var isigs []any
	flushes := 0
	for b := 0; b < bursts && !t.abort; b++ {
		if b > 0 || r.Bool() {
			t.advance(t.pickStep(r))
			for k := r.Intn(4); k > 0 && !t.abort; k-- {
				if r.Chance(0.25) {
					t.doneCall(r.Intn(len(t.insts)), t.pickN(r), 1+r.Intn(2))
				} else {
					t.call(r.Intn(len(t.insts)), t.pickN(r), "seq")
				}
				if r.Chance(0.3) {
					t.advance(t.pickStep(r))
				}
			}
		}
		if t.abort {
			break
		}
		mode := "none"
		switch r.Pick(5, 4, 3) {
		case 1:
			if flushes < 2 {
				mode = "flush"
			}
		case 2:
			mode = "fault"
		}
		G := r.Range(2, 12)
		if r.Chance(0.3) || mode == "flush" {
			// right after a script loss at most four calls are in flight: each is answered NOSCRIPT
			// once (a breaker failure), and five failures in an empty window make the redis client's
			// breaker start dropping commands on the unchanged tree
			G = r.Range(2, 4)
		}
		type plan struct{ inst, n int }
		plans := make([][]plan, G)
		total, asked := 0, 0
		for g := range plans {
			k := r.Range(1, 3)
			for j := 0; j < k && total < 32; j++ {
				pl := plan{r.Intn(len(t.insts)), t.pickN(r)}
				if r.Chance(0.5) {
					pl.n = 1
				}
				plans[g] = append(plans[g], pl)
				total++
				asked += pl.n
			}
		}
		faultKind := ""
		if mode == "fault" {
			faultKind = outHook
			if r.Chance(0.5) {
				faultKind = outGarble + ":" + kit.Choose(r, garbageKinds[:3])
			}
		}
		spin := r.Intn(4000)
		if mode == "flush" {
			flushes++
			if !t.flush("right before a concurrent burst") {
				break
			}
			isigs = append(isigs, "flush")
		}
		now := t.now
		res := make([][]tokRec, G)
		start := make(chan struct{})
		var wg sync.WaitGroup
		if !w.quiet(t.sha) {
			c.Inconclusive("a script command reached the store between two harness calls (late or re-sent command)")
			t.abort = true
			break
		}
		evBefore, shaBefore, envBefore, nsBefore := w.evalsExec.Load(), w.shaSeen.Load(), w.envErrs.Load(), w.noScript.Load()
		for g := 0; g < G; g++ {
			wg.Add(1)
			go func(g int) {
				defer wg.Done()
				<-start
				for _, pl := range plans[g] {
					rec := tokRec{inst: pl.inst, now: now, n: pl.n, phase: "burst", g: g, class: "store"}
					rec.call = kit.Stamp()
					if useCtx {
						rec.granted = t.insts[pl.inst].AllowNCtx(liveCtx, now, pl.n)
					} else {
						rec.granted = t.insts[pl.inst].AllowN(now, pl.n)
					}
					rec.ret = kit.Stamp()
					res[g] = append(res[g], rec)
				}
			}(g)
		}
		faultDone := make(chan struct{})
		go func() {
			defer close(faultDone)
			if faultKind == "" {
				return
			}
			<-start
			for i := 0; i < spin; i++ {
				_ = kit.Stamp()
			}
			w.beginOutage(faultKind)
		}()
		close(start)
		done := make(chan struct{})
		go func() { wg.Wait(); <-faultDone; close(done) }()
		select {
		case <-done:
		case <-time.After(watchdog):
			c.Inconclusive("concurrent TokenLimiter burst did not finish within the watchdog")
			t.abort = true
			c.Obs("token_histories", 1)
			return
		}
		c.Obs("token_bursts", 1)
		c.Obs("token_calls", int64(total))
		evDelta := w.evalsExec.Load() - evBefore
		t.sha = w.shaSeen.Load()
		var ops []kitp.Op
		var all []kit.Event
		granted := int64(0)
		first := len(t.recs)
		for g := range res {
			for _, rec := range res[g] {
				if faultKind != "" {
					rec.class = "store-or-local"
				}
				t.recs = append(t.recs, rec)
				ops = append(ops, kitp.Op{Client: g, In: tokIn{now.Unix(), int64(rec.n)}, Out: rec.granted, Call: rec.call, Ret: rec.ret})
				all = append(all, kit.Event{S: rec.call, G: g, Op: "inv"}, kit.Event{S: rec.ret, G: g, Op: fmt.Sprintf("ret:%v", rec.granted)})
				if rec.granted {
					granted += int64(rec.n)
				}
			}
		}
		sortEvents(all)
		isigs = append(isigs, kit.InterleavingSig(all, func(e kit.Event) string { return "t" }))
		avail := t.model.filled(int64(t.rate), int64(t.burst), now.Unix())

		if faultKind != "" {
			// The store began to fail somewhere inside the burst. Which calls it still served is
			// not observable, so only a necessary condition is checked: all calls carry the same
			// now (nobody refills), the shared bucket held `avail`, and the private bucket of an
			// instance never holds more than burst.
			t.note("burst below: store became %s while the calls were in flight", faultKind)
			isigs = append(isigs, "fault:"+faultKind)
			c.Obs("token_bursts_with_fault_inside", 1)
			t.hadOut = true
			bound := avail + int64(len(t.insts))*int64(t.burst)
			if granted > bound {
				t.c.Viol("C03/token/conc/fault-inside-burst/over-bound",
					fmt.Sprintf("burst of %d concurrent calls at one instant (calls #%d..#%d) during which the store became %s: %d tokens granted, but the shared bucket held %d and each of the %d instances may add at most its private bucket of %d",
						total, first, len(t.recs)-1, faultKind, granted, avail, len(t.insts), t.burst), t.witness(""))
				t.abort = true
				break
			}
			for k := range t.synced {
				t.synced[k] = false
			}
			if evDelta > 0 && evDelta < int64(total) {
				t.nontriv = true // the fault really split the burst
				c.Obs("token_bursts_split_by_fault", 1)
			}
			// let the store come back, follow its state, and go on
			t.outage = ""
			if !w.heal(t.st) {
				c.Inconclusive("store did not come back for the harness after a burst with a fault inside")
				t.abort = true
				break
			}
			t.adoptStore()
			if t.abort || !t.resync() {
				break
			}
			c.Obs("token_recoveries", 1)
			continue
		}

		if w.envErrs.Load() != envBefore {
			c.Inconclusive("the redis driver reported a network-level error in a fault-free burst")
			t.abort = true
			break
		}
		if w.shaSeen.Load()-shaBefore > int64(total) {
			c.Inconclusive("the redis driver executed the script more often than there were calls in a burst (retry)")
			t.abort = true
			break
		}
		if mode == "flush" {
			c.Obs("token_bursts_after_script_loss", 1)
			c.Obs("token_calls_answered_noscript_first", w.noScript.Load()-nsBefore)
		}
		if evDelta < int64(total) {
			c.Obs("token_synced_call_without_script", int64(total)-evDelta)
		}
		c.Obs("token_store_served", int64(total))
		if int64(asked) > avail && avail > 0 {
			t.nontriv = true
		}
		c.Obs("porcupine_checks", 1)
		switch kitp.Check(tokenModel(t.rate, t.burst, t.model), ops, porcTimeout) {
		case kitp.Illegal:
			what := fmt.Sprintf("burst of %d concurrent calls (calls #%d..#%d, %d tokens asked, %d granted) cannot be explained by one bucket holding %d tokens (rate %d, burst %d) under any order compatible with real time",
				total, first, len(t.recs)-1, asked, granted, avail, t.rate, t.burst)
			t.c.Viol("C03/token/conc/not-linearizable/"+t.class(), what, t.witness(""))
			t.abort = true
		case kitp.Unknown:
			c.Inconclusive("porcupine timed out on a TokenLimiter burst")
			t.abort = true
		}
		if t.abort {
			break
		}
		for i := first; i < len(t.recs); i++ {
			t.storeIdx = append(t.storeIdx, i)
			if t.recs[i].granted {
				c.Obs("token_store_grants", 1)
			} else {
				c.Obs("token_store_denials", 1)
				t.denied = true
			}
		}
		t.model = bucket{tokens: avail - granted, ts: now.Unix()}
	}
	c.Obs("token_x_histories", 1)
	t.finish("tconcx", isigs)
	if c.Index < 2 || (t.nontriv && t.hadOut) {
		c.Sample("token-concurrent-x", 2, t.witness("sample"))
	}
}

// ---------------------------------------------------------------- Allow() / AllowCtx(): wall-clock now

type wallRec struct {
	inst     int
	tb, ta   time.Time
	granted  bool
	how      string
	executed bool
}

// runTokenWall drives the entry points that read the wall clock themselves. The calls are
// sequential (so every instance sees a non-decreasing now, as the quantifier says) and the
// harness brackets each of them with its own clock readings. Only necessary conditions are
// checked: over every interval of calls the grants are at most burst + rate x (ceil(t2) -
// floor(t1)) - jointly while the store is reachable, per instance while it is not - and the
// first `burst` calls on a fresh key are granted while the store is reachable (the bucket
// starts full and time only adds tokens).
func runTokenWall(c *kit.Case, w *world) {
	r := c.R
	w.reset()
	burst := kit.Choose(r, []int{1, 2, 3, 5, 8})
	rate := kit.Choose(r, []int{1, 2, 3, 5})
	nInst := r.Pick(2, 3, 2) + 1
	key := w.key("tw")
	var insts []*limit.TokenLimiter
	for i := 0; i < nInst; i++ {
		insts = append(insts, limit.NewTokenLimiter(rate, burst, w.direct, key))
	}
	down := ""
	switch r.Pick(6, 1, 1) {
	case 1:
		down = outHook
	case 2:
		down = outGarble + ":" + kit.Choose(r, garbageKinds[:3])
	}
	if down != "" {
		w.beginOutage(down)
	}
	live, cancelLive := context.WithCancel(context.Background())
	defer cancelLive()
	calls := 3*(burst+rate) + 10 + r.Intn(20)
	var recs []wallRec
	var log []string
	sha := w.shaSeen.Load()
	broken := ""
	for i := 0; i < calls && broken == ""; i++ {
		inst := r.Intn(nInst)
		how := "Allow"
		switch r.Pick(5, 4, 1, 1) {
		case 1:
			how = "AllowCtx"
		case 2:
			how = "AllowCtx(cancelled)"
		case 3:
			how = "AllowCtx(expired)"
		}
		if !w.quiet(sha) {
			broken = "a script command reached the store between two harness calls (late or re-sent command)"
			break
		}
		if how == "AllowCtx(expired)" {
			w.vc.Advance(breakerWindow)
		}
		execBefore, shaBefore, envBefore := w.evalsExec.Load(), w.shaSeen.Load(), w.envErrs.Load()
		rec := wallRec{inst: inst, how: how}
		rec.tb = time.Now()
		switch how {
		case "Allow":
			rec.granted = insts[inst].Allow()
		case "AllowCtx":
			rec.granted = insts[inst].AllowCtx(live)
		case "AllowCtx(cancelled)":
			ctx, cancel := doneCtx(ctxCancelled)
			rec.granted = insts[inst].AllowCtx(ctx)
			cancel()
		default:
			ctx, cancel := doneCtx(ctxExpired)
			rec.granted = insts[inst].AllowCtx(ctx)
			cancel()
		}
		rec.ta = time.Now()
		sha = w.shaSeen.Load()
		rec.executed = w.evalsExec.Load() > execBefore
		recs = append(recs, rec)
		log = append(log, fmt.Sprintf("#%d inst%d %s at unix %d.%03d..%d.%03d -> %v (script ran: %v)", i, inst, how,
			rec.tb.Unix(), rec.tb.Nanosecond()/1e6, rec.ta.Unix(), rec.ta.Nanosecond()/1e6, rec.granted, rec.executed))
		c.Obs("token_wall_calls", 1)
		if rec.granted {
			c.Obs("token_wall_grants", 1)
		} else {
			c.Obs("token_wall_denials", 1)
		}
		if sha-shaBefore > 1 {
			broken = "the redis driver executed the script more than once for a single call (retry)"
		}
		if down == "" && w.envErrs.Load() != envBefore {
			broken = "the redis driver reported a network-level error although the harness injected no fault"
		}
	}
	witness := func(detail string) map[string]any {
		return map[string]any{"limiter": "TokenLimiter (wall-clock entry points)", "params": map[string]any{"rate": rate, "burst": burst, "instances": nInst, "store": map[bool]string{true: "reachable", false: down}[down == ""]},
			"history": log, "detail": detail}
	}
	if down != "" {
		w.heal(w.direct)
	}
	// leave no instance in rescue mode: its monitor goroutine ends with the first successful ping
	if down != "" && broken == "" {
		deadline := time.Now().Add(30 * time.Second)
		for inst := range insts {
			for {
				before := w.evalsExec.Load()
				tb := time.Now()
				g := insts[inst].Allow()
				ta := time.Now()
				served := w.evalsExec.Load() > before
				if served {
					break // not part of the judged history (the store's bucket starts here)
				}
				recs = append(recs, wallRec{inst: inst, tb: tb, ta: ta, granted: g, how: "Allow"})
				log = append(log, fmt.Sprintf("#%d inst%d Allow (waiting for the instance to notice the recovery) -> %v", len(recs)-1, inst, g))
				if time.Now().After(deadline) {
					broken = "an instance was not served by the store again within 30 s after the store came back"
					break
				}
				time.Sleep(15 * time.Millisecond)
			}
		}
	}
	c.Obs("token_wall_histories", 1)
	if broken != "" {
		c.Inconclusive(broken)
		return
	}
	// the harness's wall clock must have run forward like its monotonic clock (a stepped clock
	// would be seen by go-zero's own time.Now() as well, but not necessarily inside the brackets)
	first, last := recs[0].tb, recs[len(recs)-1].ta
	mono := last.Sub(first)
	wall := time.Duration(last.UnixNano() - first.UnixNano())
	if d := mono - wall; d > 200*time.Millisecond || d < -200*time.Millisecond {
		c.Inconclusive("the wall clock was stepped during the case")
		return
	}
	viol := false
	// (a) done contexts: no grant without the script having run (store reachable only: an instance
	// in rescue mode answers from its private limiter whatever the context says)
	if down == "" {
		for i, rc := range recs {
			if strings.Contains(rc.how, "(") {
				c.Obs("token_wall_done_ctx_calls", 1)
				if rc.granted && !rc.executed {
					mode := strings.TrimSuffix(strings.TrimPrefix(rc.how, "AllowCtx("), ")")
					c.Viol("C03/token/done-ctx/granted-without-debit/"+mode,
						fmt.Sprintf("call #%d: AllowCtx with an already %s context was granted although no script reached the store for it (nothing was taken from the shared bucket)", i, mode), witness(""))
					viol = true
				}
			}
		}
	}
	// (b) the bucket starts full: the first `burst` live calls on the fresh key are granted
	if down == "" && !viol {
		n := 0
		for i, rc := range recs {
			if strings.Contains(rc.how, "(") {
				if rc.executed {
					break // its fate is unknown to the caller
				}
				continue
			}
			n++
			if n > burst {
				break
			}
			if !rc.granted {
				c.Viol("C03/token/wall/denied-but-bucket-holds-n",
					fmt.Sprintf("call #%d is live request no. %d on a fresh key with a reachable store and was denied, but the bucket starts with %d tokens and time only adds tokens", i, n, burst), witness(""))
				viol = true
				break
			}
			c.Obs("token_wall_initial_grants_checked", 1)
		}
	}
	// (c) interval bound
	if !viol {
		groups := [][]int{}
		if down == "" {
			all := make([]int, len(recs))
			for i := range recs {
				all[i] = i
			}
			groups = append(groups, all)
		} else {
			per := make([][]int, nInst)
			for i, rc := range recs {
				per[rc.inst] = append(per[rc.inst], i)
			}
			groups = per
		}
	outer:
		for gi, idxs := range groups {
			for a := 0; a < len(idxs); a++ {
				sum := int64(0)
				for b := a; b < len(idxs); b++ {
					rb := recs[idxs[b]]
					if rb.granted {
						sum++
					}
					secs := rb.ta.Unix() + 1 - recs[idxs[a]].tb.Unix()
					bound := int64(burst) + int64(rate)*secs
					c.Obs("token_wall_intervals_checked", 1)
					if sum > bound {
						if down == "" {
							c.Viol("C03/token/wall/joint-bound", fmt.Sprintf("Allow/AllowCtx: all instances together granted %d requests between call #%d and call #%d, which the harness's clock brackets within %d whole seconds: more than burst + rate*elapsed = %d",
								sum, idxs[a], idxs[b], secs, bound), witness(""))
						} else {
							c.Viol("C03/token/wall/local-bound", fmt.Sprintf("Allow/AllowCtx with the store %s: instance %d granted %d requests between call #%d and call #%d, which the harness's clock brackets within %d whole seconds: more than burst + rate*elapsed = %d",
								down, gi, sum, idxs[a], idxs[b], secs, bound), witness(""))
						}
						viol = true
						break outer
					}
				}
			}
		}
	}
	grants := 0
	for _, rc := range recs {
		if rc.granted {
			grants++
		}
	}
	// non-trivial: the limiter actually refused (more was asked than the bound allows)
	c.Sig(grants < len(recs) && grants > 0, "twall", rate, burst, nInst, down, len(recs), grants, first.Unix()%7)
	if c.Index < 2 {
		c.Sample("token-wall", 2, witness("sample"))
	}
}

// ---------------------------------------------------------------- entry

func runExtFamilies(t *testing.T, w *world) {
	kit.Run(t, "C03", "period-seq-x", kit.N(320, 5000), func(c *kit.Case) { runPeriodSeqX(c, w) })
	kit.Run(t, "C03", "token-seq-x", kit.N(400, 6000), func(c *kit.Case) { runTokenSeqX(c, w) })
	kit.Run(t, "C03", "token-conc-x", kit.N(280, 4000), func(c *kit.Case) { runTokenConcX(c, w) })
	kit.Run(t, "C03", "token-wall", kit.N(120, 1500), func(c *kit.Case) { runTokenWall(c, w) })
}
