// Align() in processes whose local zone is not UTC (target "blackbox-ext").
//
// limit.Align() promises windows aligned "with the local timezone and the start of the day".
// Everything else in this package runs in the zone of the sandbox (UTC), where local and UTC
// windows coincide, and with periods that divide every zone offset. Here the process zone is
// a fixed non-UTC zone (whole-hour, :30 and :45 offsets, east and west) and the periods are an
// hour, six hours and a day.
//
// time.Local is a plain package variable that every time.Now() reads - including the runtime's
// timer callbacks of tickers that go-zero starts in package init functions - so assigning it
// in a running process is a data race (tried: the race detector reports it and sometimes
// crashes). The zone is therefore given to the process the way an operator does it: through
// the TZ environment variable, before the Go runtime starts. The test function re-executes
// its own binary once (execve, same pid, same arguments) with TZ set to an IANA zone without
// daylight saving; time/tzdata is linked in, so no zone files are needed. The zone is a
// function of (seed, case index mod 8), the driver's shard counts (8 and 16) are multiples of
// 8 and a replay runs a single case, hence every child needs exactly one zone; cases whose
// zone is not the zone of the process are skipped (only in hand-started runs with another
// shard count).
//
// Oracle (independent of go-zero's arithmetic and of the time package's zone handling: the
// offset comes from the table below): the first take of a key sets a TTL that must reach the
// end of the LOCAL aligned window, ((unix+offset) mod period), and must not outlive it by
// more than the one second of granularity a whole-second TTL has; both bounds are taken from
// the harness's clock readings before and after the call (skipped when a window boundary was
// crossed in between). Behaviour: with the quota used up, the store's clock is moved to two
// seconds before the end of the local window (still OverQuota) and to two seconds after it
// (a new period: the request is granted).
package c03

import (
	"fmt"
	"os"
	"strconv"
	"strings"
	"syscall"
	"testing"
	"time"
	_ "time/tzdata"

	"github.com/zeromicro/go-zero/core/limit"
	"github.com/zeromicro/go-zero/core/logx"

	"verifharness/kit"
)

type zoneDef struct {
	name string
	tz   string // IANA name, a zone without daylight saving
	off  int    // seconds east of UTC (the oracle's own knowledge, checked against the process at start)
}

var zones = []zoneDef{
	{"CST+08:00", "Asia/Shanghai", 8 * 3600},
	{"COT-05:00", "America/Bogota", -5 * 3600},
	{"IST+05:30", "Asia/Kolkata", 5*3600 + 1800},
	{"MART-09:30", "Pacific/Marquesas", -(9*3600 + 1800)},
	{"NPT+05:45", "Asia/Kathmandu", 5*3600 + 2700},
	{"HST-10:00", "Pacific/Honolulu", -10 * 3600},
	{"ACWST+08:45", "Australia/Eucla", 8*3600 + 2700},
	{"WAT+01:00", "Africa/Lagos", 3600},
}

func zoneFor(index int, seed uint64) zoneDef {
	return zones[(uint64(index)+seed)%uint64(len(zones))]
}

// curZone is the zone this process runs in (nil: the sandbox's own zone, no zone case can run).
var curZone *zoneDef

const zoneEnv = "VERIF_C03_ZONE"

// enterZone makes z the local zone of this process. It does not return if the process image
// has to be replaced.
func enterZone(z zoneDef) {
	if os.Getenv(zoneEnv) != z.name {
		if exe, err := os.Executable(); err == nil {
			env := []string{}
			for _, kv := range os.Environ() {
				if !strings.HasPrefix(kv, "TZ=") && !strings.HasPrefix(kv, zoneEnv+"=") {
					env = append(env, kv)
				}
			}
			env = append(env, "TZ="+z.tz, zoneEnv+"="+z.name)
			_ = syscall.Exec(exe, os.Args, env) // returns only on failure
		}
	}
	if _, off := time.Now().Zone(); off == z.off {
		curZone = &z
		return
	}
	// TZ did not take effect (execve refused, zone unknown to this toolchain's tzdata): assign
	// the variable, once, before any goroutine of this test exists.
	time.Local = time.FixedZone(z.name, z.off)
	curZone = &z
	kit.Obs("zone_set_by_assignment", 1)
}

// zoneWindowLeft: exact time left at t in the aligned window of the given length on a clock
// that is off seconds ahead of UTC.
func zoneWindowLeft(t time.Time, off, period int) time.Duration {
	w := int64(period) * int64(time.Second)
	ns := t.UnixNano() + int64(off)*int64(time.Second)
	m := ns % w
	if m < 0 {
		m += w
	}
	return time.Duration(w - m)
}

func runPeriodZone(c *kit.Case, w *world, seed uint64) {
	r := c.R
	z := zoneFor(c.Index, seed)
	if curZone == nil || z != *curZone {
		// only in hand-started runs whose shard count is not a multiple of 8
		c.Obs("zone_cases_skipped_other_zone", 1)
		return
	}
	if _, off := time.Now().Zone(); off != z.off {
		c.Inconclusive(fmt.Sprintf("the process zone has offset %d, the case needs %s", off, z.name))
		return
	}
	w.reset()
	period := kit.Choose(r, []int{3600, 21600, 86400})
	quota := kit.Choose(r, []int{1, 2, 3, 5})
	prefix := w.key("pz") + ":"
	lim := limit.NewPeriodLimit(period, quota, w.direct, prefix, limit.Align())
	key := "user"
	full := prefix + key
	offMultiple := z.off%period == 0
	cls := "offset-not-a-multiple-of-the-period"
	if offMultiple {
		cls = "offset-multiple-of-the-period"
	}
	var log []string
	logf := func(f string, a ...any) { log = append(log, fmt.Sprintf(f, a...)) }
	witness := func() map[string]any {
		return map[string]any{"limiter": "PeriodLimit", "params": map[string]any{"period_s": period, "quota": quota, "align": true,
			"time.Local": z.name, "offset_s": z.off}, "history": log}
	}
	c.Obs("zone_cases", 1)
	count := 0
	sha := w.shaSeen.Load()
	take := func() (int, bool) {
		if !w.quiet(sha) {
			c.Inconclusive("a script command reached the store between two harness calls (late or re-sent command)")
			return limit.Unknown, false
		}
		envBefore := w.envErrs.Load()
		code, err := lim.Take(key)
		count++
		logf("take #%d -> %s err=%v", count, cname(code), err)
		shaBefore := sha
		sha = w.shaSeen.Load()
		if sha-shaBefore > 1 {
			c.Inconclusive("the redis driver executed the script more than once for a single call (retry)")
			return code, false
		}
		if w.envErrs.Load() != envBefore {
			c.Inconclusive("the redis driver reported a network-level error although the harness injected no fault")
			return code, false
		}
		if err != nil {
			if code != limit.Unknown {
				c.Viol("C03/period/error-with-code/"+cname(code), fmt.Sprintf("Take returned error %q together with code %s", err, cname(code)), witness())
			} else {
				c.Inconclusive("unexpected store error while the store is healthy: " + err.Error())
			}
			return code, false
		}
		return code, true
	}
	expect := func(code, nth int) bool {
		want := expectedCode(nth, quota)
		if code == want {
			return true
		}
		c.Viol(fmt.Sprintf("C03/period/seq/want-%s-got-%s", cname(want), cname(code)),
			fmt.Sprintf("request #%d of the period (quota %d) answered %s, want %s", nth, quota, cname(code), cname(want)), witness())
		return false
	}

	tb := time.Now()
	code, ok := take()
	ta := time.Now()
	if !ok || !expect(code, 1) {
		return
	}
	ttl := w.mr.TTL(full)
	leftB, leftA := zoneWindowLeft(tb, z.off, period), zoneWindowLeft(ta, z.off, period)
	logf("   (TTL %v; local window of %ds on %s ends in %v..%v)", ttl, period, z.name, leftA, leftB)
	if leftA > leftB {
		c.Obs("zone_window_boundary_crossed_during_call", 1)
		c.Sig(false, "pzone-skip", z.name, period)
		return
	}
	c.Obs("zone_ttl_readings", 1)
	if !offMultiple {
		c.Obs("zone_local_window_differs_from_utc_window", 1)
	}
	if ttl < leftA {
		c.Viol("C03/period/align-zone/period-ends-before-the-local-window/"+cls,
			fmt.Sprintf("Align(), time.Local=%s: TTL after the first take is %v, but the local window of %ds still lasts %v: the quota is handed out a second time inside one local window", z.name, ttl, period, leftA), witness())
		return
	}
	if ttl > leftB+time.Second {
		c.Viol("C03/period/align-zone/period-outlives-the-local-window/"+cls,
			fmt.Sprintf("Align(), time.Local=%s: TTL after the first take is %v, but the local window of %ds ends in %v: requests of the next local window are still counted against this one", z.name, ttl, period, leftB), witness())
		return
	}
	c.Obs("zone_ttl_matches_the_local_window", 1)

	// use the quota up
	for n := 2; n <= quota+2; n++ {
		code, ok := take()
		if !ok || !expect(code, n) {
			return
		}
	}
	nth := quota + 2
	if leftA < 6*time.Second {
		c.Obs("zone_too_close_to_the_window_end", 1)
		c.Sig(false, "pzone-short", z.name, period)
		return
	}
	d1 := leftA.Truncate(time.Second) - 2*time.Second
	w.mr.FastForward(d1)
	logf("advance %v (two seconds before the local window ends)", d1)
	code, ok = take()
	if !ok {
		return
	}
	nth++
	if code != limit.OverQuota {
		if code == limit.Allowed || code == limit.HitQuota {
			c.Viol("C03/period/align-zone/second-quota-inside-the-local-window/"+cls,
				fmt.Sprintf("Align(), time.Local=%s: the quota of %d is used up and the local window of %ds has two seconds to go, yet the request is answered %s", z.name, quota, period, cname(code)), witness())
		} else {
			expect(code, nth)
		}
		return
	}
	c.Obs("zone_still_overquota_before_the_window_end", 1)
	d2 := leftB + 2*time.Second - d1
	w.mr.FastForward(d2)
	logf("advance %v (two seconds after the local window ended)", d2)
	code, ok = take()
	if !ok {
		return
	}
	if code == limit.OverQuota {
		c.Viol("C03/period/align-zone/still-refused-after-the-local-window-ended/"+cls,
			fmt.Sprintf("Align(), time.Local=%s: the local window of %ds ended two seconds ago, yet the first request of the new window is answered OverQuota", z.name, period), witness())
		return
	}
	if !expect(code, 1) {
		return
	}
	c.Obs("zone_new_period_after_the_window_end", 1)
	// position of the call inside the window, in eighths: part of what makes cases distinct
	pos := int64(time.Duration(period)*time.Second-leftA) * 8 / int64(time.Duration(period)*time.Second)
	c.Sig(!offMultiple, "pzone", z.name, period, quota, pos)
	if c.Index < 16 && !offMultiple {
		c.Sample("period-zone", 2, witness())
	}
}

// TestVerifC03Ext is the entry of target "blackbox-ext": the zone family and the extended
// histories of ext_test.go, all in a process whose local zone is not UTC (the extended
// PeriodLimit histories use Align() as well; nothing else depends on the zone).
func TestVerifC03Ext(t *testing.T) {
	logx.Disable()
	e := kit.GetEnv()
	first := e.Shard
	if e.Only != "" {
		first = 0
		if j := strings.LastIndex(e.Only, "/"); j >= 0 {
			if i, err := strconv.Atoi(e.Only[j+1:]); err == nil {
				first = i
			}
		}
	}
	enterZone(zoneFor(first, e.Seed)) // first thing: may replace the process image
	w := newWorld(t)
	defer w.close()
	kit.Run(t, "C03", "period-zone", kit.N(160, 2400), func(c *kit.Case) { runPeriodZone(c, w, e.Seed) })
	runExtFamilies(t, w)
	runOutageFamilies(t, w)
	kit.End()
}
