// Package c03: rate limiters never exceed quota (DESIGN.md §4 C03).
//
// The real PeriodLimit / TokenLimiter run against one in-process miniredis per
// child (the Lua scripts execute for real). Everything the oracles use is
// visible at a boundary the harness owns:
//
//   - the limiter results themselves (codes / errors / booleans),
//   - a miniredis pre-hook that counts top-level EVAL/EVALSHA commands (this is
//     how a sequential TokenLimiter call is classified as store-served or
//     locally served without reading private fields) and injects error replies
//     ("store answers with an error"),
//   - a harness-owned TCP proxy in front of miniredis whose listener never goes
//     away ("store unreachable": connections are cut and refused) -- closing
//     miniredis itself would release its port to the other processes on this
//     machine,
//   - miniredis FastForward (TTLs move only with it) kept in lock-step with the
//     `now` handed to AllowN.
//
// A virtual clock sits behind timex so that the redis client's own breaker has
// no wall-clock state: it is advanced 11 s (more than the breaker window) after
// every injected outage. No verdict depends on wall-clock time; real-time waits
// are watchdogs (=> inconclusive) or the bounded poll for the limiter's 100 ms
// recovery ping.
package c03

import (
	"context"
	"crypto/sha1"
	"encoding/hex"
	"errors"
	"fmt"
	"io"
	"net"
	"strconv"
	"strings"
	"sync"
	"sync/atomic"
	"testing"
	"time"

	"github.com/alicebob/miniredis/v2"
	"github.com/alicebob/miniredis/v2/server"
	"github.com/anishathalye/porcupine"
	red "github.com/redis/go-redis/v9"
	"github.com/zeromicro/go-zero/core/limit"
	"github.com/zeromicro/go-zero/core/logx"
	"github.com/zeromicro/go-zero/core/stores/redis"

	"verifharness/kit"
	"verifharness/kitp"
)

const (
	injectedErr   = "ERR verif injected outage"
	breakerWindow = 11 * time.Second
	watchdog      = 120 * time.Second // per concurrent burst; firing => inconclusive
	porcTimeout   = 30 * time.Second
)

// ---------------------------------------------------------------- world

// proxy forwards TCP to miniredis; while down it cuts every connection and
// closes new ones right after accepting them. Its listener stays open for the
// whole process, so the port can never be taken over by somebody else.
type proxy struct {
	ln     net.Listener
	target string
	mu     sync.Mutex
	down   bool
	conns  map[net.Conn]struct{}
}

func newProxy(target string) (*proxy, error) {
	ln, err := net.Listen("tcp", "127.0.0.1:0")
	if err != nil {
		return nil, err
	}
	p := &proxy{ln: ln, target: target, conns: map[net.Conn]struct{}{}}
	go p.serve()
	return p, nil
}

func (p *proxy) addr() string { return p.ln.Addr().String() }

func (p *proxy) serve() {
	for {
		c, err := p.ln.Accept()
		if err != nil {
			return
		}
		p.mu.Lock()
		if p.down {
			p.mu.Unlock()
			c.Close()
			continue
		}
		u, err := net.Dial("tcp", p.target)
		if err != nil {
			p.mu.Unlock()
			c.Close()
			continue
		}
		p.conns[c] = struct{}{}
		p.conns[u] = struct{}{}
		p.mu.Unlock()
		go p.pipe(c, u)
		go p.pipe(u, c)
	}
}

func (p *proxy) pipe(dst, src net.Conn) {
	io.Copy(dst, src)
	dst.Close()
	src.Close()
	p.mu.Lock()
	delete(p.conns, dst)
	delete(p.conns, src)
	p.mu.Unlock()
}

func (p *proxy) setDown(d bool) {
	p.mu.Lock()
	p.down = d
	if d {
		for c := range p.conns {
			c.Close()
		}
		p.conns = map[net.Conn]struct{}{}
	}
	p.mu.Unlock()
}

func (p *proxy) close() {
	p.setDown(true)
	p.ln.Close()
}

type world struct {
	mr     *miniredis.Miniredis
	px     *proxy
	direct *redis.Redis // straight to miniredis
	viaPx  *redis.Redis // through the proxy (network-level outages)
	vc     *kit.VClock

	evalsExec atomic.Int64 // top-level EVAL/EVALSHA handed to miniredis for execution
	evalsRej  atomic.Int64 // top-level EVAL/EVALSHA answered with the injected error
	pongs     atomic.Int64 // PINGs answered by miniredis
	shaSeen   atomic.Int64 // top-level EVALSHA commands received (one per call unless the driver re-sends)
	envErrs   atomic.Int64 // script commands the driver gave up on with a network-level error (not a Redis reply)
	hookDown  atomic.Bool
	netDown   bool
	keySeq    int

	// extension (ext_test.go): what the store knows about scripts, and garbage replies
	raw      *red.Client  // the harness's own plain connection to miniredis (SCRIPT FLUSH / EXISTS)
	cached   sync.Map     // sha1 -> struct{}: scripts the store holds (mirrors miniredis' script cache)
	noScript atomic.Int64 // top-level EVALSHA for a script the store does not hold (answered NOSCRIPT)
	evalFull atomic.Int64 // top-level EVAL (script body sent) handed to miniredis
	garble   atomic.Int32 // != 0: script commands are answered with a reply no script of a limiter produces
	garbled  atomic.Int64 // script commands answered that way
	flushes  atomic.Int64 // SCRIPT FLUSH commands seen

	// outage families (outage_test.go)
	pingOK      atomic.Bool // with hookDown: PING is answered normally, only script commands fail
	sharedClock bool        // the virtual clock belongs to the test function, not to this world
}

func shaOf(script string) string {
	h := sha1.Sum([]byte(script))
	return hex.EncodeToString(h[:])
}

// drvHook sits innermost in the redis client's hook chain and sees the driver's
// final verdict on every command. A script command that ends with a
// network-level error (timeout, reset, refused - anything that is not a reply
// of the server) while the harness injects no fault is trouble of the
// environment (this machine is heavily loaded), never behaviour of a limiter.
type drvHook struct{ w *world }

func (h drvHook) DialHook(next red.DialHook) red.DialHook { return next }

func (h drvHook) ProcessHook(next red.ProcessHook) red.ProcessHook {
	return func(ctx context.Context, cmd red.Cmder) error {
		err := next(ctx, cmd)
		if err != nil && (cmd.Name() == "evalsha" || cmd.Name() == "eval") {
			if _, isReply := err.(red.Error); !isReply && !errors.Is(err, context.Canceled) {
				h.w.envErrs.Add(1)
			}
		}
		return err
	}
}

func (h drvHook) ProcessPipelineHook(next red.ProcessPipelineHook) red.ProcessPipelineHook {
	return next
}

// quiet reports whether no script command reached the store since mark was
// taken and the driver reported no network-level error. A command re-sent by the
// driver after a late reply, or a late command of an abandoned connection, may
// execute between two harness calls; the store then changes behind the model's
// back, which is the driver's at-least-once delivery, not the limiter's
// behaviour.
func (w *world) quiet(mark int64) bool { return w.shaSeen.Load() == mark }

func newWorld(t *testing.T) *world {
	w, err := newWorldWith(nil)
	if err != nil {
		t.Fatalf("%v", err)
	}
	return w
}

// newWorldWith builds a world of its own (miniredis, proxy, clients). vc == nil: the world
// installs (and on close removes) the process-wide virtual clock; otherwise it uses the given one.
func newWorldWith(vc *kit.VClock) (*world, error) {
	mr, err := miniredis.Run()
	if err != nil {
		return nil, fmt.Errorf("miniredis: %v", err)
	}
	w := &world{mr: mr}
	// Only top-level commands are answered with the injected error: commands a
	// Lua script issues through redis.call go through the same dispatcher, and
	// failing those would tear a script apart in a way no Redis server does.
	mr.Server().SetPreHook(func(c *server.Peer, cmd string, args ...string) bool {
		switch cmd {
		case "EVAL", "EVALSHA":
			if cmd == "EVALSHA" {
				w.shaSeen.Add(1)
			}
			if w.hookDown.Load() {
				w.evalsRej.Add(1)
				c.WriteError(injectedErr)
				return true
			}
			if g := w.garble.Load(); g != 0 {
				// the store is reachable but answers something no limiter script returns
				w.evalsRej.Add(1)
				w.garbled.Add(1)
				writeGarbage(c, g)
				return true
			}
			if len(args) > 0 {
				if cmd == "EVALSHA" {
					if _, ok := w.cached.Load(strings.ToLower(args[0])); !ok {
						// miniredis will answer NOSCRIPT: the script does not execute
						w.noScript.Add(1)
						return false
					}
				} else {
					w.evalFull.Add(1)
					w.cached.Store(shaOf(args[0]), struct{}{})
				}
			}
			w.evalsExec.Add(1)
		case "SCRIPT":
			if len(args) > 0 {
				switch strings.ToLower(args[0]) {
				case "flush":
					w.flushes.Add(1)
					w.cached.Range(func(k, _ any) bool { w.cached.Delete(k); return true })
				case "load":
					if len(args) > 1 {
						w.cached.Store(shaOf(args[1]), struct{}{})
					}
				}
			}
		case "PING":
			if w.hookDown.Load() && !w.pingOK.Load() {
				c.WriteError(injectedErr)
				return true
			}
			w.pongs.Add(1)
		}
		return false
	})
	px, err := newProxy(mr.Addr())
	if err != nil {
		mr.Close()
		return nil, fmt.Errorf("proxy: %v", err)
	}
	w.px = px
	w.direct = redis.New(mr.Addr(), redis.WithHook(drvHook{w}))
	w.viaPx = redis.New(px.addr(), redis.WithHook(drvHook{w}))
	w.raw = red.NewClient(&red.Options{Addr: mr.Addr(), MaxRetries: -1, DialTimeout: time.Minute, ReadTimeout: time.Minute, WriteTimeout: time.Minute})
	if vc != nil {
		w.vc, w.sharedClock = vc, true
	} else {
		w.vc = kit.InstallVClock()
	}
	return w, nil
}

func (w *world) close() {
	w.hookDown.Store(false)
	w.pingOK.Store(false)
	w.garble.Store(0)
	w.raw.Close()
	w.px.close()
	w.mr.Close()
	if !w.sharedClock {
		kit.UninstallVClock()
	}
}

func (w *world) key(prefix string) string {
	w.keySeq++
	return prefix + strconv.Itoa(w.keySeq)
}

// reset prepares a clean store and an empty breaker window for the next case.
func (w *world) reset() {
	w.hookDown.Store(false)
	w.pingOK.Store(false)
	w.garble.Store(0)
	if w.netDown {
		w.px.setDown(false)
		w.netDown = false
	}
	w.mr.FlushAll()
	w.vc.Advance(breakerWindow)
}

const (
	outHook = "error-replies"
	outNet  = "unreachable"
)

func (w *world) beginOutage(kind string) {
	switch {
	case kind == outNet:
		w.px.setDown(true)
		w.netDown = true
	case strings.HasPrefix(kind, outGarble):
		w.garble.Store(garbageKind(kind))
	case kind == outEvalOnly:
		w.pingOK.Store(true)
		w.hookDown.Store(true)
	default:
		w.hookDown.Store(true)
	}
}

// heal ends every outage, empties the breaker window and waits (bounded) until
// a harness PING gets through; false => the store did not come back for the
// harness itself (inconclusive, never a verdict).
func (w *world) heal(st *redis.Redis) bool {
	w.hookDown.Store(false)
	w.pingOK.Store(false)
	w.garble.Store(0)
	if w.netDown {
		w.px.setDown(false)
		w.netDown = false
	}
	w.vc.Advance(breakerWindow)
	ok := false
	for i := 0; i < 3000; i++ {
		if st.Ping() {
			ok = true
			break
		}
		w.vc.Advance(breakerWindow)
		time.Sleep(10 * time.Millisecond)
	}
	w.vc.Advance(breakerWindow)
	return ok
}

// ---------------------------------------------------------------- PeriodLimit

var codeName = map[int]string{limit.Unknown: "Unknown", limit.Allowed: "Allowed", limit.HitQuota: "HitQuota", limit.OverQuota: "OverQuota"}

func cname(c int) string {
	if s, ok := codeName[c]; ok {
		return s
	}
	return "code" + strconv.Itoa(c)
}

// expectedCode is the statement: the first quota requests of a period are
// granted, the quota-th flagged HitQuota, all later ones OverQuota.
func expectedCode(nth, quota int) int {
	switch {
	case nth < quota:
		return limit.Allowed
	case nth == quota:
		return limit.HitQuota
	default:
		return limit.OverQuota
	}
}

type perKey struct {
	name    string
	full    string
	active  bool
	count   int
	remain  time.Duration
	grants  int // Allowed+HitQuota seen in the current period (necessary-condition tally)
	hits    int
	periods int
}

type periodCase struct {
	c          *kit.Case
	w          *world
	st         *redis.Redis
	period     int
	quota      int
	align      bool
	callsBegan time.Time // wall clock (monotonic) when the current call / burst began; Align() only
	prefix     string
	lim        *limit.PeriodLimit
	keys       []*perKey
	log        []string
	outage     string // "" healthy
	dirty      bool   // a call whose execution is unknown happened; reconcile with the store
	abort      bool
	crossed    int64
	sawOver    bool
	sha        int64
	nontriv    bool
}

func (p *periodCase) params() map[string]any {
	return map[string]any{"period_s": p.period, "quota": p.quota, "align": p.align, "keys": len(p.keys)}
}

func (p *periodCase) witness(detail string) map[string]any {
	return map[string]any{"limiter": "PeriodLimit", "params": p.params(), "history": p.log, "detail": detail}
}

func (p *periodCase) logf(f string, a ...any) { p.log = append(p.log, fmt.Sprintf(f, a...)) }

func (p *periodCase) advance(d time.Duration) {
	if d <= 0 {
		return
	}
	p.w.mr.FastForward(d)
	p.logf("advance %v", d)
	for _, k := range p.keys {
		if !k.active {
			continue
		}
		k.remain -= d
		if k.remain <= 0 {
			p.endPeriod(k)
			p.crossed++
			if p.sawOver {
				p.nontriv = true
			}
		}
	}
}

func (p *periodCase) endPeriod(k *perKey) {
	k.active, k.count, k.grants, k.hits = false, 0, 0, 0
}

// tally applies the necessary conditions that hold for every period whatever
// happened to the store: never more than quota grants, at most one HitQuota.
func (p *periodCase) tally(k *perKey, code int) {
	switch code {
	case limit.Allowed:
		k.grants++
	case limit.HitQuota:
		k.grants++
		k.hits++
	}
	if k.grants > p.quota {
		p.c.Viol("C03/period/over-quota", fmt.Sprintf("key %s: %d grants within one period, quota is %d", k.name, k.grants, p.quota), p.witness(""))
		p.abort = true
	}
	if k.hits > 1 {
		p.c.Viol("C03/period/hitquota-twice", fmt.Sprintf("key %s: HitQuota answered %d times within one period", k.name, k.hits), p.witness(""))
		p.abort = true
	}
}

// startPeriod is called when a successful take found no running period.
func (p *periodCase) startPeriod(k *perKey) {
	k.active, k.count, k.grants, k.hits = true, 0, 0, 0
	k.periods++
	k.remain = time.Duration(p.period) * time.Second
	ttl := p.w.mr.TTL(k.full)
	p.c.Obs("period_ttl_readings", 1)
	if p.align {
		// Align(): the first period ends on the wall-clock grid, so all that can
		// be said is 1 <= TTL <= period; the period then ends when the store says.
		if ttl < time.Second || ttl > time.Duration(p.period)*time.Second {
			p.c.Viol("C03/period/align-ttl-out-of-range", fmt.Sprintf("Align(): TTL after the first take of a period is %v, want 1s..%ds", ttl, p.period), p.witness(""))
			p.abort = true
			return
		}
		// ... and that the counter must live at least until the wall-clock window ends: the time
		// left in the window, measured now (i.e. after go-zero computed it, so it can only be
		// smaller), is a lower bound of a correct TTL; a shorter TTL ends the period early and the
		// requests in the rest of the window are granted again.
		left := alignedWindowLeft(p.period)
		if into := time.Duration(p.period)*time.Second - left; into < time.Since(p.callsBegan) {
			// a window boundary was crossed since the call(s) began: the TTL may stem from the previous window
			p.c.Obs("period_align_window_boundary_crossed_during_call", 1)
		} else if ttl < left {
			p.c.Viol("C03/period/align-period-ends-before-the-window", fmt.Sprintf("Align(): TTL after the first take is %v but the wall-clock window of %ds still lasts %v", ttl, p.period, left), p.witness(""))
			p.abort = true
			return
		}
		p.c.Obs("period_align_ttl_covers_the_window", 1)
		k.remain = ttl
		p.logf("  (aligned period: TTL %v)", ttl)
	} else if ttl == time.Duration(p.period)*time.Second {
		p.c.Obs("period_ttl_equals_period", 1)
	} else {
		// recorded, not judged here: the end of the period is decided behaviourally
		// (one millisecond before, at and after the expiry the model expects)
		p.c.Obs("period_ttl_differs_from_period", 1)
	}
}

// reconcile is used only after calls whose execution the harness cannot know
// (cut connections, cancelled contexts): the store's counter says how many
// requests it has seen in the running period.
func (p *periodCase) reconcile() {
	if !p.dirty {
		return
	}
	p.dirty = false
	for _, k := range p.keys {
		v, err := p.w.mr.Get(k.full)
		if err != nil {
			if k.active {
				p.c.Obs("period_store_state_adopted", 1)
				p.endPeriod(k)
			}
			continue
		}
		n, _ := strconv.Atoi(v)
		if !k.active || n != k.count {
			p.c.Obs("period_store_state_adopted", 1)
			if !k.active {
				k.active, k.grants, k.hits = true, 0, 0
				k.remain = p.w.mr.TTL(k.full)
				if k.remain <= 0 { // counter without TTL: an errored call created it; behaviour is unspecified by the statement
					p.abort = true
					p.c.Inconclusive("store counter without TTL after a call of unknown fate")
				}
			}
			k.count = n
		}
	}
}

// takeSeq performs one sequential Take and checks it.
func (p *periodCase) takeSeq(k *perKey, cancelled bool) {
	mode := ctxLive
	if cancelled {
		mode = ctxCancelled
	}
	p.takeSeqMode(k, mode)
}

const (
	ctxLive = iota
	ctxCancelled
	ctxExpired
)

// doneCtx returns a context that is already done in the given way.
func doneCtx(mode int) (context.Context, context.CancelFunc) {
	switch mode {
	case ctxCancelled:
		ctx, cancel := context.WithCancel(context.Background())
		cancel()
		return ctx, cancel
	case ctxExpired:
		return context.WithDeadline(context.Background(), time.Now().Add(-time.Hour))
	}
	return context.Background(), func() {}
}

func (p *periodCase) takeSeqMode(k *perKey, mode int) {
	cancelled := mode != ctxLive
	ctx, cancelCtx := doneCtx(mode)
	defer cancelCtx()
	if mode == ctxExpired {
		// an expired deadline counts as a failure in the redis client's breaker: keep its window empty
		p.w.vc.Advance(breakerWindow)
	}
	if p.outage == "" {
		p.reconcile() // before the call: the store's counter must not yet include it
		if p.abort {
			return
		}
	}
	if !p.w.quiet(p.sha) {
		p.c.Inconclusive("a script command reached the store between two harness calls (late or re-sent command)")
		p.abort = true
		return
	}
	shaBefore := p.w.shaSeen.Load()
	p.callsBegan = time.Now()
	code, err := p.lim.TakeCtx(ctx, k.name)
	p.c.Obs("period_takes", 1)
	p.sha = p.w.shaSeen.Load()
	if p.sha-shaBefore > 1 {
		p.logf("take %s -> %s err=%v (script executed more than once)", k.name, cname(code), err)
		p.c.Inconclusive("the redis driver executed the script more than once for a single call (retry)")
		p.abort = true
		return
	}
	tag := ""
	if cancelled {
		tag = " (cancelled ctx)"
		if mode == ctxExpired {
			tag = " (expired ctx)"
		}
		p.c.Obs("period_done_ctx_takes", 1)
	}
	if p.outage != "" {
		tag += " (store " + p.outage + ")"
	}
	p.logf("take %s%s -> %s err=%v", k.name, tag, cname(code), err)
	if err != nil {
		p.c.Obs("period_errors", 1)
		if cancelled {
			p.c.Obs("period_done_ctx_errors", 1)
		}
		if code != limit.Unknown {
			p.c.Viol("C03/period/error-with-code/"+cname(code), fmt.Sprintf("Take returned error %q together with code %s (a store error must never come with a grant/verdict)", err, cname(code)), p.witness(""))
			p.abort = true
			return
		}
		switch {
		case p.outage != "":
			p.c.Obs("period_errors_during_outage", 1)
			if p.outage == outNet {
				p.dirty = true
			}
			if strings.HasPrefix(p.outage, outGarble) && errors.Is(err, limit.ErrUnknownCode) {
				p.c.Obs("period_unknown_code_on_garbage_reply", 1)
			}
		case cancelled:
			p.dirty = true
		case errors.Is(err, limit.ErrUnknownCode):
			p.c.Viol("C03/period/unknown-code-with-healthy-store", "Take answered ErrUnknownCode although the store is reachable and healthy: the request is neither granted nor refused", p.witness(""))
			p.abort = true
		case isServerReply(err):
			p.persistentReplyError(k, err)
		default:
			p.c.Inconclusive("unexpected store error while the store is healthy: " + err.Error())
			p.abort = true
		}
		return
	}
	// no error
	if p.outage != "" {
		p.c.Viol("C03/period/no-error-while-store-down/"+cname(code), fmt.Sprintf("the store is %s but Take returned %s without an error", p.outage, cname(code)), p.witness(""))
		p.abort = true
		return
	}
	if !k.active {
		p.startPeriod(k)
		if p.abort {
			return
		}
	}
	k.count++
	want := expectedCode(k.count, p.quota)
	switch code {
	case limit.Allowed:
		p.c.Obs("period_allowed", 1)
	case limit.HitQuota:
		p.c.Obs("period_hitquota", 1)
	case limit.OverQuota:
		p.c.Obs("period_overquota", 1)
		p.sawOver = true
	}
	if code != want {
		p.c.Viol(fmt.Sprintf("C03/period/seq/want-%s-got-%s", cname(want), cname(code)),
			fmt.Sprintf("key %s: request #%d of the period (quota %d) answered %s, want %s", k.name, k.count, p.quota, cname(code), cname(want)), p.witness(""))
		p.abort = true
		return
	}
	p.tally(k, code)
}

func (p *periodCase) pickStep(r *kit.Rand) time.Duration {
	per := time.Duration(p.period) * time.Second
	var act []*perKey
	for _, k := range p.keys {
		if k.active {
			act = append(act, k)
		}
	}
	if len(act) > 0 && r.Chance(0.6) {
		k := kit.Choose(r, act)
		switch r.Pick(4, 4, 2, 1) {
		case 0:
			return k.remain - time.Millisecond // last instant of the period
		case 1:
			return k.remain // exactly the expiry
		case 2:
			return k.remain + time.Millisecond
		default:
			return k.remain / 2
		}
	}
	switch r.Pick(3, 2, 3, 2, 1) {
	case 0:
		return time.Millisecond
	case 1:
		return 500 * time.Millisecond
	case 2:
		return time.Second
	case 3:
		return per / 2
	default:
		return per
	}
}

func newPeriodCase(c *kit.Case, w *world, netOutages bool) *periodCase {
	r := c.R
	p := &periodCase{c: c, w: w, st: w.direct}
	if netOutages {
		p.st = w.viaPx
	}
	p.period = kit.Choose(r, []int{1, 1, 2, 3, 5, 10, 60, 3600})
	p.quota = kit.Choose(r, []int{0, 1, 1, 2, 2, 3, 5, 8, 13})
	p.align = r.Chance(0.2)
	p.prefix = w.key("pl") + ":"
	var opts []limit.PeriodOption
	if p.align {
		opts = append(opts, limit.Align())
	}
	p.lim = limit.NewPeriodLimit(p.period, p.quota, p.st, p.prefix, opts...)
	nk := r.Pick(6, 3, 1) + 1
	for i := 0; i < nk; i++ {
		n := fmt.Sprintf("k%d", i)
		p.keys = append(p.keys, &perKey{name: n, full: p.prefix + n})
	}
	p.sha = w.shaSeen.Load()
	return p
}

func runPeriodSeq(c *kit.Case, w *world) {
	r := c.R
	w.reset()
	faults := r.Chance(0.35)
	netFaults := faults && r.Chance(0.4)
	p := newPeriodCase(c, w, netFaults)
	L := r.Range(10, 70)
	defer func() {
		if p.outage != "" || w.netDown || w.hookDown.Load() {
			w.heal(p.st)
		}
	}()
	for i := 0; i < L && !p.abort; i++ {
		switch {
		case p.outage != "":
			// inside an outage: a few takes, perhaps time passing, then recovery
			switch r.Pick(6, 2, 3) {
			case 0:
				p.takeSeq(kit.Choose(r, p.keys), false)
			case 1:
				p.advance(p.pickStep(r))
			default:
				p.logf("store healthy again")
				p.outage = ""
				if !w.heal(p.st) {
					c.Inconclusive("store did not come back for the harness after an outage")
					p.abort = true
				}
				p.reconcile()
			}
		case faults && r.Chance(0.08):
			kind := outHook
			if netFaults && r.Bool() {
				kind = outNet
			}
			p.outage = kind
			w.beginOutage(kind)
			p.logf("store becomes %s", kind)
			c.Obs("period_outages", 1)
		case r.Chance(0.25):
			p.advance(p.pickStep(r))
		default:
			// hammer one key for a while so that quotas are actually exceeded
			k := kit.Choose(r, p.keys)
			n := 1
			if r.Chance(0.5) {
				n = r.Range(1, p.quota+3)
			}
			for j := 0; j < n && !p.abort && p.outage == ""; j++ {
				p.takeSeq(k, faults && r.Chance(0.03))
			}
		}
	}
	if p.outage != "" {
		p.outage = ""
		if !w.heal(p.st) {
			c.Inconclusive("store did not come back for the harness after an outage")
		}
	}
	c.Obs("period_boundaries_crossed", p.crossed)
	c.Obs("period_histories", 1)
	c.Sig(p.nontriv, append([]any{"pseq", p.period, p.quota, p.align}, toAny(p.log)...)...)
	if c.Index < 3 || (p.nontriv && faults) {
		c.Sample("period-seq", 3, p.witness("sample"))
	}
}

func toAny(s []string) []any {
	a := make([]any, len(s))
	for i, x := range s {
		a[i] = x
	}
	return a
}

// ---- concurrent takers

type takeRes struct {
	key       int
	code      int
	err       error
	call, ret uint64
	g         int
}

func periodModel(quota, init int) porcupine.Model {
	return porcupine.Model{
		Init: func() any { return init },
		Step: func(state, in, out any) (bool, any) {
			n := state.(int) + 1
			return out.(int) == expectedCode(n, quota), n
		},
		Equal: func(a, b any) bool { return a.(int) == b.(int) },
	}
}

func runPeriodConc(c *kit.Case, w *world) {
	r := c.R
	w.reset()
	p := newPeriodCase(c, w, r.Chance(0.15))
	if p.quota == 0 && r.Chance(0.7) {
		p.quota = r.Range(1, 8)
		p.lim = limit.NewPeriodLimit(p.period, p.quota, p.st, p.prefix, alignOpt(p.align)...)
	}
	netOK := p.st == w.viaPx
	bursts := r.Range(1, 5)
	var isigs []any
	straddled := false
	defer func() {
		if w.netDown || w.hookDown.Load() {
			w.heal(p.st)
		}
	}()
	for b := 0; b < bursts && !p.abort; b++ {
		if b > 0 && r.Chance(0.7) {
			p.advance(p.pickStep(r))
		}
		G := r.Range(2, 16)
		if r.Chance(0.3) {
			G = r.Range(2, 4)
		}
		plans := make([][]int, G)
		total := 0
		for g := range plans {
			n := r.Range(1, 3)
			for j := 0; j < n && total < 40; j++ {
				ki := 0
				if len(p.keys) > 1 && r.Chance(0.3) {
					ki = r.Intn(len(p.keys))
				}
				plans[g] = append(plans[g], ki)
				total++
			}
		}
		mode := "none"
		switch r.Pick(7, 2, 1) {
		case 1:
			mode = outHook
		case 2:
			if netOK {
				mode = outNet
			}
		}
		spin := r.Intn(3000)
		if !w.quiet(p.sha) {
			c.Inconclusive("a script command reached the store between two harness calls (late or re-sent command)")
			p.abort = true
			break
		}
		shaBefore := w.shaSeen.Load()
		res := make([][]takeRes, G)
		start := make(chan struct{})
		var wg sync.WaitGroup
		for g := 0; g < G; g++ {
			wg.Add(1)
			go func(g int) {
				defer wg.Done()
				<-start
				for _, ki := range plans[g] {
					tr := takeRes{key: ki, g: g}
					tr.call = kit.Stamp()
					tr.code, tr.err = p.lim.Take(p.keys[ki].name)
					tr.ret = kit.Stamp()
					res[g] = append(res[g], tr)
				}
			}(g)
		}
		faultDone := make(chan struct{})
		go func() {
			defer close(faultDone)
			if mode == "none" {
				return
			}
			<-start
			for i := 0; i < spin; i++ {
				_ = kit.Stamp()
			}
			if mode == outHook {
				w.hookDown.Store(true)
				for i := 0; i < spin; i++ {
					_ = kit.Stamp()
				}
				w.hookDown.Store(false)
			} else {
				w.px.setDown(true)
				for i := 0; i < spin; i++ {
					_ = kit.Stamp()
				}
				w.px.setDown(false)
			}
		}()
		p.callsBegan = time.Now()
		close(start)
		done := make(chan struct{})
		go func() { wg.Wait(); <-faultDone; close(done) }()
		select {
		case <-done:
		case <-time.After(watchdog):
			c.Inconclusive("concurrent PeriodLimit burst did not finish within the watchdog")
			p.abort = true
			return
		}
		c.Obs("period_bursts", 1)
		p.sha = w.shaSeen.Load()
		if mode == "none" && w.shaSeen.Load()-shaBefore > int64(total) {
			c.Inconclusive("the redis driver executed the script more often than there were calls in a burst (retry)")
			p.abort = true
			break
		}
		if mode != "none" {
			w.vc.Advance(breakerWindow)
			if !w.heal(p.st) {
				c.Inconclusive("store did not come back for the harness after a burst with faults")
				p.abort = true
				break
			}
		}
		p.logf("burst %d: %d goroutines, %d takes, faults=%s", b, G, total, mode)
		// per key evaluation
		byKey := map[int][]takeRes{}
		var all []kit.Event
		for g := range res {
			for _, tr := range res[g] {
				byKey[tr.key] = append(byKey[tr.key], tr)
				all = append(all, kit.Event{S: tr.call, G: g, Op: "inv"}, kit.Event{S: tr.ret, G: g, Op: "ret:" + cname(tr.code)})
				p.logf("  g%d take %s [%d,%d] -> %s err=%v", g, p.keys[tr.key].name, tr.call, tr.ret, cname(tr.code), tr.err)
			}
		}
		sortEvents(all)
		isigs = append(isigs, kit.InterleavingSig(all, func(e kit.Event) string { return "t" }))
		for ki, trs := range byKey {
			k := p.keys[ki]
			c.Obs("period_takes", int64(len(trs)))
			okN := 0
			got := map[int]int{}
			var ops []kitp.Op
			for _, tr := range trs {
				if tr.err != nil {
					c.Obs("period_errors", 1)
					if tr.code != limit.Unknown {
						p.c.Viol("C03/period/error-with-code/"+cname(tr.code), fmt.Sprintf("Take returned error %q together with code %s", tr.err, cname(tr.code)), p.witness(""))
						p.abort = true
					}
					if mode == "none" {
						if errors.Is(tr.err, limit.ErrUnknownCode) {
							p.c.Viol("C03/period/unknown-code-with-healthy-store", "Take answered ErrUnknownCode although the store is reachable and healthy", p.witness(""))
						} else {
							c.Inconclusive("unexpected store error in a fault-free burst: " + tr.err.Error())
						}
						p.abort = true
					}
					continue
				}
				okN++
				got[tr.code]++
				ops = append(ops, kitp.Op{Client: tr.g, In: 0, Out: tr.code, Call: tr.call, Ret: tr.ret})
			}
			if p.abort {
				break
			}
			if okN == 0 {
				continue
			}
			c0 := 0
			if k.active {
				c0 = k.count
			}
			// does the store agree on how many requests it has seen? (it must in
			// fault-free bursts; after faults a call may have executed without its
			// caller learning the answer, then only the necessary conditions apply)
			exact := true
			if mode != "none" {
				v, err := w.mr.Get(k.full)
				n, _ := strconv.Atoi(v)
				if err != nil || n != c0+okN {
					exact = false
					c.Obs("period_store_state_adopted", 1)
					if err != nil {
						p.endPeriod(k)
						continue
					}
					if !k.active {
						p.startPeriod(k)
					}
					k.count = n
					for code, cnt := range got {
						for i := 0; i < cnt; i++ {
							p.tally(k, code)
						}
					}
					continue
				}
			}
			if !k.active {
				p.startPeriod(k)
				if p.abort {
					break
				}
			}
			want := map[int]int{}
			for i := 1; i <= okN; i++ {
				want[expectedCode(c0+i, p.quota)]++
			}
			if c0 < p.quota && c0+okN > p.quota {
				straddled = true
			}
			for code, cnt := range got {
				switch code {
				case limit.Allowed:
					c.Obs("period_allowed", int64(cnt))
				case limit.HitQuota:
					c.Obs("period_hitquota", int64(cnt))
				case limit.OverQuota:
					c.Obs("period_overquota", int64(cnt))
					p.sawOver = true
				}
			}
			if exact && !sameCounts(got, want) {
				p.c.Viol("C03/period/conc/wrong-multiset", fmt.Sprintf("key %s: %d concurrent takes after %d earlier ones (quota %d) answered %s, want %s",
					k.name, okN, c0, p.quota, countsStr(got), countsStr(want)), p.witness(""))
				p.abort = true
				break
			}
			if exact {
				c.Obs("porcupine_checks", 1)
				switch kitp.Check(periodModel(p.quota, c0), ops, porcTimeout) {
				case kitp.Illegal:
					p.c.Viol("C03/period/conc/not-linearizable", fmt.Sprintf("key %s: answers of concurrent takes contradict their real-time order (e.g. OverQuota returned before a later-invoked take was still granted)", k.name), p.witness(""))
					p.abort = true
				case kitp.Unknown:
					c.Inconclusive("porcupine timed out on a PeriodLimit burst")
				}
			}
			k.count = c0 + okN
			for code, cnt := range got {
				for i := 0; i < cnt; i++ {
					p.tally(k, code)
				}
			}
		}
	}
	c.Obs("period_boundaries_crossed", p.crossed)
	c.Obs("period_histories", 1)
	c.Sig(straddled, append([]any{"pconc", p.period, p.quota, p.align}, isigs...)...)
	if c.Index < 2 || straddled {
		c.Sample("period-concurrent", 2, p.witness("sample"))
	}
}

// alignedWindowLeft is the exact time left in the current wall-clock aligned window of the given
// length (aligned in local time, as limit.Align documents it).
func alignedWindowLeft(period int) time.Duration {
	now := time.Now()
	_, offset := now.Zone()
	ns := now.UnixNano() + int64(offset)*int64(time.Second)
	w := int64(period) * int64(time.Second)
	return time.Duration(w - ns%w)
}

func alignOpt(a bool) []limit.PeriodOption {
	if a {
		return []limit.PeriodOption{limit.Align()}
	}
	return nil
}

func sameCounts(a, b map[int]int) bool {
	for _, k := range []int{limit.Unknown, limit.Allowed, limit.HitQuota, limit.OverQuota} {
		if a[k] != b[k] {
			return false
		}
	}
	for k := range a {
		if _, ok := codeName[k]; !ok {
			return false
		}
	}
	return true
}

func countsStr(m map[int]int) string {
	s := ""
	for _, k := range []int{limit.Allowed, limit.HitQuota, limit.OverQuota, limit.Unknown} {
		if m[k] > 0 {
			s += fmt.Sprintf("%s×%d ", cname(k), m[k])
		}
	}
	for k, v := range m {
		if _, ok := codeName[k]; !ok {
			s += fmt.Sprintf("%s×%d ", cname(k), v)
		}
	}
	if s == "" {
		return "nothing"
	}
	return s[:len(s)-1]
}

func sortEvents(e []kit.Event) {
	// insertion sort is fine for <= 100 events
	for i := 1; i < len(e); i++ {
		for j := i; j > 0 && e[j-1].S > e[j].S; j-- {
			e[j-1], e[j] = e[j], e[j-1]
		}
	}
}

// ---------------------------------------------------------------- TokenLimiter

// bucket is the statement's single joint bucket: size burst, refilled with
// rate tokens per whole second, a request for n is granted iff it holds n.
type bucket struct{ tokens, ts int64 }

func (b bucket) filled(rate, burst, now int64) int64 {
	d := now - b.ts
	if d < 0 {
		d = 0
	}
	f := b.tokens + d*rate
	if f > burst || d > (1<<40) {
		f = burst
	}
	return f
}

func (b bucket) step(rate, burst, now, n int64) (bucket, bool) {
	f := b.filled(rate, burst, now)
	ok := f >= n
	if ok {
		f -= n
	}
	return bucket{f, now}, ok
}

type tokRec struct {
	inst    int
	now     time.Time
	n       int
	granted bool
	class   string // store | local
	phase   string
	call    uint64
	ret     uint64
	g       int
}

type tokCase struct {
	c        *kit.Case
	w        *world
	st       *redis.Redis
	rate     int
	burst    int
	key      string
	insts    []*limit.TokenLimiter
	synced   []bool
	now      time.Time
	t0       time.Time
	model    bucket
	recs     []tokRec
	outage   string
	abort    bool
	denied   bool // a store-served denial was seen
	nontriv  bool
	hadOut   bool
	pollN    int
	sha      int64 // shaSeen at the end of the previous call
	storeIdx []int
	localIdx [][]int
	liveCtx  context.Context // ext families: != nil => call() uses AllowNCtx with this (never done) context
	notes    map[int]string  // ext families: events that happened before call #i (shown in the witness)

	// outage families (outage_test.go): outages that last a drawn amount of REAL time
	patience     int         // > 0: resync() decides "stays local" by patience (monitor periods), see resyncPatient
	scenario     string      // which scenario of the batch this is (witness)
	lastOutage   outageInfo  // the outage the instances are recovering from
	outagesLog   []string    // measured real lengths (witness only, not part of the signature)
	noticed      []time.Time // per instance: wall clock of its first locally served call in the current outage
	rejoinLong   bool        // an instance that had been in rescue mode for > 1 s of real time was store-served again
	rejoinLongAt int         // ... first at this call index
}

func (t *tokCase) class() string {
	if t.rate > 2*t.burst {
		return "rate>2burst"
	}
	return "rate<=2burst"
}

func (t *tokCase) params() map[string]any {
	return map[string]any{"rate": t.rate, "burst": t.burst, "instances": len(t.insts), "t0_unix": t.t0.Unix(), "t0_nanos": t.t0.Nanosecond()}
}

func (t *tokCase) hist() []string {
	out := make([]string, 0, len(t.recs))
	for i, r := range t.recs {
		conc := ""
		if r.phase == "burst" {
			conc = fmt.Sprintf(" g%d[%d,%d]", r.g, r.call, r.ret)
		}
		if n, ok := t.notes[i]; ok {
			out = append(out, n)
		}
		out = append(out, fmt.Sprintf("#%d %s inst%d now=t0+%v(unix %d) n=%d -> %v [%s]%s", i, r.phase, r.inst, r.now.Sub(t.t0), r.now.Unix(), r.n, r.granted, r.class, conc))
	}
	if n, ok := t.notes[len(t.recs)]; ok {
		out = append(out, n)
	}
	return out
}

func (t *tokCase) witness(detail string) map[string]any {
	m := map[string]any{"limiter": "TokenLimiter", "params": t.params(), "history": t.hist(), "detail": detail}
	if t.scenario != "" {
		m["scenario"] = t.scenario
		m["outages_real_time"] = t.outagesLog
	}
	return m
}

func (t *tokCase) advance(d time.Duration) {
	if d <= 0 {
		return
	}
	t.now = t.now.Add(d)
	t.w.mr.FastForward(d)
}

func (t *tokCase) fillSecs() int {
	return (t.burst + t.rate - 1) / t.rate
}

func (t *tokCase) pickStep(r *kit.Rand) time.Duration {
	f := time.Duration(t.fillSecs()) * time.Second
	switch r.Pick(3, 2, 2, 4, 2, 2, 2, 1, 1, 1) {
	case 0:
		return 0
	case 1:
		return 300 * time.Millisecond
	case 2:
		return 700 * time.Millisecond
	case 3:
		return time.Second
	case 4:
		return 2 * time.Second
	case 5:
		return f / 2
	case 6:
		return f
	case 7:
		return 2*f - time.Second
	case 8:
		return 2 * f
	default:
		return 2*f + time.Second
	}
}

func (t *tokCase) pickN(r *kit.Rand) int {
	switch r.Pick(8, 8, 2, 1, 1) {
	case 0:
		return 1
	case 1:
		return r.Range(1, t.burst)
	case 2:
		return t.burst
	case 3:
		return t.burst + 1
	default:
		return 0
	}
}

// checkStore compares one store-served sequential call with the joint bucket.
func (t *tokCase) checkStore(idx int) {
	rec := t.recs[idx]
	before := t.model
	next, want := t.model.step(int64(t.rate), int64(t.burst), rec.now.Unix(), int64(rec.n))
	t.model = next
	t.storeIdx = append(t.storeIdx, idx)
	if rec.granted {
		t.c.Obs("token_store_grants", 1)
		if t.denied {
			t.nontriv = true // a grant after the joint bucket had run dry: refill arithmetic decided it
		}
	} else {
		t.c.Obs("token_store_denials", 1)
		t.denied = true
	}
	if rec.granted == want {
		return
	}
	avail := before.filled(int64(t.rate), int64(t.burst), rec.now.Unix())
	dir := "granted-but-bucket-lacks-n"
	if !rec.granted {
		dir = "denied-but-bucket-holds-n"
	}
	t.c.Viol("C03/token/joint/"+dir+"/"+t.class(),
		fmt.Sprintf("call #%d (instance %d, n=%d) was %s, but the one bucket shared by all %d instances holds %d tokens at that moment (rate %d, burst %d)",
			idx, rec.inst, rec.n, map[bool]string{true: "granted", false: "denied"}[rec.granted], len(t.insts), avail, t.rate, t.burst), t.witness(""))
	t.abort = true
}

// call performs one sequential AllowN and classifies it.
func (t *tokCase) call(inst, n int, phase string) (storeServed bool) {
	if !t.w.quiet(t.sha) {
		t.c.Inconclusive("a script command reached the store between two harness calls (late or re-sent command)")
		t.abort = true
		return false
	}
	before, shaBefore, envBefore := t.w.evalsExec.Load(), t.w.shaSeen.Load(), t.w.envErrs.Load()
	rec := tokRec{inst: inst, now: t.now, n: n, phase: phase}
	rec.call = kit.Stamp()
	if t.liveCtx != nil {
		rec.granted = t.insts[inst].AllowNCtx(t.liveCtx, t.now, n) // ext families: same call with a live context
	} else {
		rec.granted = t.insts[inst].AllowN(t.now, n)
	}
	rec.ret = kit.Stamp()
	delta := t.w.evalsExec.Load() - before
	t.sha = t.w.shaSeen.Load()
	t.c.Obs("token_calls", 1)
	if t.outage == "" && t.w.envErrs.Load() != envBefore {
		rec.class = "local"
		t.recs = append(t.recs, rec)
		t.c.Inconclusive("the redis driver reported a network-level error although the harness injected no fault")
		t.abort = true
		return false
	}
	if t.w.shaSeen.Load()-shaBefore > 1 {
		// the redis driver re-sent the command after a late or lost reply: the
		// script ran more than once for one call, which no model of the limiter covers
		rec.class = "store"
		t.recs = append(t.recs, rec)
		t.c.Inconclusive("the redis driver executed the script more than once for a single call (retry)")
		t.abort = true
		return false
	}
	switch {
	case t.outage != "":
		rec.class = "local"
		if delta > 0 {
			// cannot happen with either kind of outage; do not guess
			t.recs = append(t.recs, rec)
			t.c.Inconclusive("a script reached the store although the harness holds it down")
			t.abort = true
			return false
		}
	case delta > 0:
		rec.class = "store"
	case t.synced[inst]:
		// The store has been reachable ever since this instance was last seen
		// being served by it: the statement's joint bucket applies to this call
		// whatever the instance did internally.
		rec.class = "store"
		t.c.Obs("token_synced_call_without_script", 1)
	default:
		rec.class = "local" // recovery not yet noticed by the instance's 100 ms ping
	}
	t.recs = append(t.recs, rec)
	idx := len(t.recs) - 1
	if rec.class == "store" {
		t.synced[inst] = true
		t.c.Obs("token_store_served", 1)
		t.checkStore(idx)
		return true
	}
	t.c.Obs("token_local_served", 1)
	t.localIdx[inst] = append(t.localIdx[inst], idx)
	if t.noticed != nil && t.outage != "" && t.noticed[inst].IsZero() {
		t.noticed[inst] = time.Now()
	}
	return false
}

// localBound: while the store is unreachable each instance enforces
// grants <= burst + rate*elapsed on its own, over every sub-interval.
func (t *tokCase) localBound() {
	for inst, idxs := range t.localIdx {
		for i := 0; i < len(idxs) && !t.abort; i++ {
			sum := 0
			for j := i; j < len(idxs); j++ {
				rj := t.recs[idxs[j]]
				if rj.granted {
					sum += rj.n
				}
				el := rj.now.Sub(t.recs[idxs[i]].now).Seconds()
				bound := float64(t.burst) + float64(t.rate)*el
				eps := 1e-6 * (1 + float64(t.rate)*el)
				if float64(sum) > bound+eps {
					t.c.Viol("C03/token/local-bound", fmt.Sprintf("instance %d, served locally (store unreachable), granted %d tokens between call #%d and call #%d, %.3fs apart: more than burst + rate*elapsed = %.3f",
						inst, sum, idxs[i], idxs[j], el, bound), t.witness(""))
					t.abort = true
					break
				}
			}
		}
	}
}

// jointBound: the derived bound over the store-served calls of all instances,
// in whole seconds as the refill is per whole second.
func (t *tokCase) jointBound() {
	idxs := t.storeIdx
	for i := 0; i < len(idxs) && !t.abort; i++ {
		sum := 0
		for j := i; j < len(idxs); j++ {
			rj := t.recs[idxs[j]]
			if rj.granted {
				sum += rj.n
			}
			el := rj.now.Unix() - t.recs[idxs[i]].now.Unix()
			if int64(sum) > int64(t.burst)+int64(t.rate)*el {
				t.c.Viol("C03/token/joint-bound/"+t.class(), fmt.Sprintf("all instances together granted %d tokens between call #%d and call #%d (%d whole seconds): more than burst + rate*elapsed = %d",
					sum, idxs[i], idxs[j], el, int64(t.burst)+int64(t.rate)*el), t.witness(""))
				t.abort = true
				break
			}
		}
	}
}

// hammer: during an outage every instance is asked for more than a full bucket
// at one instant, so that a limiter which grants on store errors shows.
func (t *tokCase) hammer(r *kit.Rand) {
	for _, inst := range r.Perm(len(t.insts)) {
		if t.abort {
			return
		}
		t.hammerInst(r, inst)
	}
}

func (t *tokCase) hammerInst(r *kit.Rand, inst int) {
	first := r.Range(1, t.burst)
	t.call(inst, first, "outage")
	denials := 0
	for k := 0; k < t.burst+4 && denials < 2 && !t.abort; k++ {
		before := len(t.recs)
		t.call(inst, 1, "outage")
		if !t.recs[before].granted {
			denials++
		}
	}
}

// resync waits (bounded) until every instance is served by the store again.
// Every poll is an ordinary call and is checked like any other.
//
// An instance notices the recovery through its own PING (one every 100 ms until
// the first success). If, after the store came back, miniredis has answered
// far more PINGs than the instances of this case (and of the previous one)
// could need - each needs exactly one - and an instance still answers locally
// in calls invoked after that, it keeps ignoring a store it demonstrably
// reaches: violation. Otherwise a watchdog ends the wait as inconclusive.
func (t *tokCase) resync() bool {
	if t.patience > 0 {
		return t.resyncPatient()
	}
	deadline := time.Now().Add(30 * time.Second)
	pongBase := t.w.pongs.Load()
	enoughPongs := int64(4*len(t.insts) + 8)
	for inst := range t.insts {
		strikes := 0
		for !t.synced[inst] && !t.abort {
			enough := t.w.pongs.Load()-pongBase >= enoughPongs
			if t.call(inst, t.pollN, "resync") {
				break
			}
			t.c.Obs("token_resync_polls", 1)
			if enough {
				strikes++
				if strikes >= 3 {
					t.c.Viol("C03/token/stays-local-after-recovery", fmt.Sprintf("instance %d still answers from its private limiter although the store is reachable again and has answered %d PINGs since (every instance needs one)", inst, t.w.pongs.Load()-pongBase), t.witness(""))
					t.abort = true
					return false
				}
			}
			if time.Now().After(deadline) {
				t.c.Inconclusive("an instance was not served by the store again within 30 s after the store came back")
				t.abort = true
				return false
			}
			time.Sleep(15 * time.Millisecond)
		}
	}
	return !t.abort
}

func (t *tokCase) endOutage() bool {
	t.outage = ""
	if !t.w.heal(t.st) {
		t.c.Inconclusive("store did not come back for the harness after an outage")
		t.abort = true
		return false
	}
	return t.resync()
}

func newTokCase(c *kit.Case, w *world, netOutages bool) *tokCase {
	r := c.R
	t := &tokCase{c: c, w: w, st: w.direct}
	if netOutages {
		t.st = w.viaPx
	}
	switch r.Pick(5, 3, 2) {
	case 0: // ordinary: bucket at least as big as a second's refill
		t.burst = kit.Choose(r, []int{1, 2, 3, 5, 10, 20})
		t.rate = kit.Choose(r, []int{1, 2, 3, 5, 10})
		if t.rate > t.burst {
			t.rate, t.burst = t.burst, t.rate
		}
	case 1: // burst < rate <= 2*burst
		t.burst = kit.Choose(r, []int{1, 2, 3, 5, 10})
		t.rate = r.Range(t.burst, 2*t.burst)
	default: // rate > 2*burst
		t.burst = kit.Choose(r, []int{1, 2, 3, 5})
		t.rate = 2*t.burst + r.Range(1, 2*t.burst+3)
	}
	t.key = w.key("tl")
	n := r.Pick(2, 3, 2, 1) + 1
	for i := 0; i < n; i++ {
		t.insts = append(t.insts, limit.NewTokenLimiter(t.rate, t.burst, t.st, t.key))
		t.synced = append(t.synced, true)
	}
	t.localIdx = make([][]int, n)
	t.t0 = time.Unix(1_700_000_000+int64(r.Intn(100000)), int64(r.Intn(10))*100_000_000)
	t.now = t.t0
	t.model = bucket{tokens: int64(t.burst), ts: 0}
	t.pollN = r.Pick(1, 1)
	t.sha = w.shaSeen.Load()
	return t
}

func (t *tokCase) finish(kind string, extraSig []any) {
	c := t.c
	if t.outage != "" || t.w.netDown || t.w.hookDown.Load() {
		t.outage = ""
		t.w.heal(t.st)
	}
	if !t.abort {
		t.resync() // leave no instance in rescue mode (its ping goroutine ends once it is back)
	}
	if !c.Violated() {
		t.localBound()
		t.jointBound()
	}
	c.Obs("token_histories", 1)
	sig := []any{kind, t.rate, t.burst, len(t.insts), t.t0.Nanosecond()}
	if extraSig != nil {
		sig = append(sig, extraSig...)
	} else {
		for i, r := range t.recs {
			if n, ok := t.notes[i]; ok {
				sig = append(sig, n)
			}
			sig = append(sig, r.inst, r.now.Sub(t.t0), r.n, r.granted, r.class)
		}
	}
	c.Sig(t.nontriv, sig...)
}

func runTokenSeq(c *kit.Case, w *world) {
	r := c.R
	w.reset()
	faults := r.Chance(0.4)
	netFaults := faults && r.Chance(0.4)
	t := newTokCase(c, w, netFaults)
	L := r.Range(10, 60)
	outAt := map[int]string{}
	if faults {
		for k := r.Range(1, 2); k > 0; k-- {
			kind := outHook
			if netFaults && r.Bool() {
				kind = outNet
			}
			outAt[r.Intn(L)] = kind
		}
	}
	for i := 0; i < L && !t.abort; i++ {
		if kind, ok := outAt[i]; ok {
			t.outage = kind
			t.hadOut = true
			w.beginOutage(kind)
			for k := range t.synced {
				t.synced[k] = false
			}
			c.Obs("token_outages", 1)
			t.hammer(r)
			for k := r.Intn(3); k > 0 && !t.abort; k-- {
				t.advance(t.pickStep(r))
				t.call(r.Intn(len(t.insts)), t.pickN(r), "outage")
			}
			if t.abort {
				break
			}
			if r.Chance(0.5) {
				t.advance(t.pickStep(r))
			}
			if !t.endOutage() {
				break
			}
			t.nontriv = true // outage, local service and recovery were all observed
			c.Obs("token_recoveries", 1)
			continue
		}
		if r.Chance(0.45) {
			t.advance(t.pickStep(r))
		}
		inst := r.Intn(len(t.insts))
		n := t.pickN(r)
		if r.Chance(0.15) {
			// drain: ask until the joint bucket is dry
			for k := 0; k < t.burst+2 && !t.abort; k++ {
				t.call(r.Intn(len(t.insts)), 1, "seq")
			}
			continue
		}
		t.call(inst, n, "seq")
	}
	t.finish("tseq", nil)
	if c.Index < 3 || (t.nontriv && t.hadOut) {
		c.Sample("token-seq", 3, t.witness("sample"))
	}
}

type tokIn struct{ now, n int64 }

func tokenModel(rate, burst int, init bucket) porcupine.Model {
	return porcupine.Model{
		Init: func() any { return init },
		Step: func(state, in, out any) (bool, any) {
			i := in.(tokIn)
			ns, ok := state.(bucket).step(int64(rate), int64(burst), i.now, i.n)
			return ok == out.(bool), ns
		},
		Equal: func(a, b any) bool { return a.(bucket) == b.(bucket) },
	}
}

func runTokenConc(c *kit.Case, w *world) {
	r := c.R
	w.reset()
	t := newTokCase(c, w, r.Chance(0.2))
	bursts := r.Range(1, 5)
	var isigs []any
	for b := 0; b < bursts && !t.abort; b++ {
		if r.Chance(0.12) {
			// an outage before the burst: the burst then runs on instances that have
			// been through rescue mode and back
			kind := outHook
			if t.st == w.viaPx && r.Bool() {
				kind = outNet
			}
			t.outage = kind
			t.hadOut = true
			w.beginOutage(kind)
			for k := range t.synced {
				t.synced[k] = false
			}
			c.Obs("token_outages", 1)
			t.hammer(r)
			if t.abort || !t.endOutage() {
				break
			}
			c.Obs("token_recoveries", 1)
			isigs = append(isigs, "outage:"+kind)
		}
		if b > 0 || r.Bool() {
			t.advance(t.pickStep(r))
			for k := r.Intn(4); k > 0 && !t.abort; k-- {
				t.call(r.Intn(len(t.insts)), t.pickN(r), "seq")
				if r.Chance(0.3) {
					t.advance(t.pickStep(r))
				}
			}
		}
		if t.abort {
			break
		}
		G := r.Range(2, 16)
		if r.Chance(0.3) {
			G = r.Range(2, 4)
		}
		type plan struct{ inst, n int }
		plans := make([][]plan, G)
		total, asked := 0, 0
		for g := range plans {
			k := r.Range(1, 3)
			for j := 0; j < k && total < 32; j++ {
				pl := plan{r.Intn(len(t.insts)), t.pickN(r)}
				if r.Chance(0.5) {
					pl.n = 1
				}
				plans[g] = append(plans[g], pl)
				total++
				asked += pl.n
			}
		}
		now := t.now
		res := make([][]tokRec, G)
		start := make(chan struct{})
		var wg sync.WaitGroup
		if !w.quiet(t.sha) {
			c.Inconclusive("a script command reached the store between two harness calls (late or re-sent command)")
			t.abort = true
			break
		}
		evBefore, shaBefore, envBefore := w.evalsExec.Load(), w.shaSeen.Load(), w.envErrs.Load()
		for g := 0; g < G; g++ {
			wg.Add(1)
			go func(g int) {
				defer wg.Done()
				<-start
				for _, pl := range plans[g] {
					rec := tokRec{inst: pl.inst, now: now, n: pl.n, phase: "burst", g: g, class: "store"}
					rec.call = kit.Stamp()
					rec.granted = t.insts[pl.inst].AllowN(now, pl.n)
					rec.ret = kit.Stamp()
					res[g] = append(res[g], rec)
				}
			}(g)
		}
		close(start)
		done := make(chan struct{})
		go func() { wg.Wait(); close(done) }()
		select {
		case <-done:
		case <-time.After(watchdog):
			c.Inconclusive("concurrent TokenLimiter burst did not finish within the watchdog")
			t.abort = true
			c.Obs("token_histories", 1)
			return
		}
		c.Obs("token_bursts", 1)
		c.Obs("token_calls", int64(total))
		evDelta := w.evalsExec.Load() - evBefore
		t.sha = w.shaSeen.Load()
		var ops []kitp.Op
		var all []kit.Event
		granted := int64(0)
		first := len(t.recs)
		for g := range res {
			for _, rec := range res[g] {
				t.recs = append(t.recs, rec)
				ops = append(ops, kitp.Op{Client: g, In: tokIn{now.Unix(), int64(rec.n)}, Out: rec.granted, Call: rec.call, Ret: rec.ret})
				all = append(all, kit.Event{S: rec.call, G: g, Op: "inv"}, kit.Event{S: rec.ret, G: g, Op: fmt.Sprintf("ret:%v", rec.granted)})
				if rec.granted {
					granted += int64(rec.n)
				}
			}
		}
		sortEvents(all)
		isigs = append(isigs, kit.InterleavingSig(all, func(e kit.Event) string { return "t" }))
		if w.envErrs.Load() != envBefore {
			c.Inconclusive("the redis driver reported a network-level error in a fault-free burst")
			t.abort = true
			break
		}
		if w.shaSeen.Load()-shaBefore > int64(total) {
			c.Inconclusive("the redis driver executed the script more often than there were calls in a burst (retry)")
			t.abort = true
			break
		}
		if evDelta < int64(total) {
			// every instance was in sync with a store that stayed reachable: the joint
			// bucket applies to the whole burst whatever the instances did internally
			c.Obs("token_synced_call_without_script", int64(total)-evDelta)
		}
		c.Obs("token_store_served", int64(total))
		avail := t.model.filled(int64(t.rate), int64(t.burst), now.Unix())
		if int64(asked) > avail && avail > 0 {
			t.nontriv = true // contention: not everybody can be served, the interleaving decides who
		}
		c.Obs("porcupine_checks", 1)
		switch kitp.Check(tokenModel(t.rate, t.burst, t.model), ops, porcTimeout) {
		case kitp.Illegal:
			what := fmt.Sprintf("burst of %d concurrent calls (calls #%d..#%d, %d tokens asked, %d granted) cannot be explained by one bucket holding %d tokens (rate %d, burst %d) under any order compatible with real time",
				total, first, len(t.recs)-1, asked, granted, avail, t.rate, t.burst)
			t.c.Viol("C03/token/conc/not-linearizable/"+t.class(), what, t.witness(""))
			t.abort = true
		case kitp.Unknown:
			c.Inconclusive("porcupine timed out on a TokenLimiter burst")
			t.abort = true
		}
		if t.abort {
			break
		}
		for i := first; i < len(t.recs); i++ {
			t.storeIdx = append(t.storeIdx, i)
			if t.recs[i].granted {
				c.Obs("token_store_grants", 1)
			} else {
				c.Obs("token_store_denials", 1)
				t.denied = true
			}
		}
		// all calls of the burst carry the same now: the resulting state does not
		// depend on the order, only on which calls were granted
		t.model = bucket{tokens: avail - granted, ts: now.Unix()}
	}
	t.finish("tconc", isigs)
	if c.Index < 2 || t.nontriv {
		c.Sample("token-concurrent", 2, t.witness("sample"))
	}
}

// ---------------------------------------------------------------- entry

func TestVerifC03(t *testing.T) {
	logx.Disable()
	w := newWorld(t)
	defer w.close()

	kit.Run(t, "C03", "period-seq", kit.N(1000, 15000), func(c *kit.Case) { runPeriodSeq(c, w) })
	kit.Run(t, "C03", "period-conc", kit.N(600, 8000), func(c *kit.Case) { runPeriodConc(c, w) })
	kit.Run(t, "C03", "token-seq", kit.N(1200, 20000), func(c *kit.Case) { runTokenSeq(c, w) })
	kit.Run(t, "C03", "token-conc", kit.N(800, 10000), func(c *kit.Case) { runTokenConc(c, w) })
	kit.End()
}
