// Extension of the C03 check (round 5): how long, in REAL time, the store stays away.
//
// TokenLimiter.waitForRedis is driven by a real ticker (time.NewTicker(pingInterval), 100 ms),
// not by the virtual clock, so what the recovery monitor does depends on the wall-clock length
// of an outage. In the families of c03_test.go / ext_test.go every outage ends as soon as the
// harness has made its local calls, i.e. well within a second of real time. Here the length of
// every outage is drawn from a grid (~150 ms, ~600 ms, ~1.3 s, ~2.5 s, ~4 s; thorough adds ~8 s
// and ~12 s), one to three outage / recovery cycles per history, and the outage begins at
// different points of an instance's life (before it was created, before its first call, after
// healthy calls; instances notice it at once, late, or never).
//
// To keep the wall time bounded the histories ("scenarios") of one kit case run concurrently,
// each against a world of its own (miniredis, proxy, redis clients, hence a breaker of its own);
// the worlds of a process are re-used by the next case. The virtual clock behind timex is shared
// by the whole process: it is only ever advanced (by any scenario, at any time), which does
// nothing but empty breaker windows.
//
// What is demanded (the statement's clause on instances sharing a key and a reachable store):
//
//   - while the store is away, every instance on its own keeps burst + rate x elapsed (as before);
//   - once the store is reachable again the instances must rejoin the shared bucket. This is
//     decided causally: the harness keeps asking the instance (one request per poll, at advancing
//     now) and, between the polls, probes the store itself through the very client (connection
//     pool, breaker) the instance's monitor uses. One unit of patience is spent only when such a
//     probe SUCCEEDED and at least one monitor period has passed since the last unit. If the
//     instance has still not made a script reach the store after 50 units, and again not after a
//     further 100 (doubled patience), it ignores a store that demonstrably answers:
//     C03/token/stays-local-after-recovery/outage<=1s or .../outage>1s (class of the measured
//     real length of the outage). A 240 s watchdog ends the wait as inconclusive;
//   - from the first store-served call of an instance on, all its calls are judged by the one
//     joint bucket again (exactly in sequential phases, porcupine in concurrent bursts) together
//     with the joint interval bound.
//
// The redis client's breaker sits on the virtual clock: the failures of an outage, however long,
// are gone once the harness advances that clock past the breaker window when the store comes
// back, exactly as in the older families.
package c03

import (
	"fmt"
	"runtime/debug"
	"strings"
	"sync"
	"testing"
	"time"

	"github.com/zeromicro/go-zero/core/limit"

	"verifharness/kit"
	"verifharness/kitp"
)

const (
	outEvalOnly     = "scripts-fail-ping-ok" // error replies to script commands only: the monitor's PING succeeds
	monitorPeriod   = 100 * time.Millisecond // the limiter's pingInterval
	outagePatience  = 50                     // units of patience (see resyncPatient), doubled once
	outageWatchdog  = 240 * time.Second      // firing => inconclusive
	longOutage      = time.Second            // class boundary of the violation key / observation counters
	outageBudgetQ   = 6500 * time.Millisecond
	outageBudgetT   = 22 * time.Second
	scenarioWatchdg = 15 * time.Minute
)

type lenClass struct {
	name string
	d    time.Duration
}

var outageGrid = []lenClass{
	{"150ms", 150 * time.Millisecond},
	{"600ms", 600 * time.Millisecond},
	{"1300ms", 1300 * time.Millisecond},
	{"2500ms", 2500 * time.Millisecond},
	{"4000ms", 4000 * time.Millisecond},
	{"8000ms", 8 * time.Second},   // thorough only
	{"12000ms", 12 * time.Second}, // thorough only
}

func gridSize() int {
	if kit.Thorough() {
		return len(outageGrid)
	}
	return 5
}

func outageBudget() time.Duration {
	if kit.Thorough() {
		return outageBudgetT
	}
	return outageBudgetQ
}

type outageInfo struct {
	cycle   int
	kind    string
	planned lenClass
	real    time.Duration
}

func (o outageInfo) class() string {
	if o.real > longOutage {
		return "outage>1s"
	}
	return "outage<=1s"
}

// ---------------------------------------------------------------- rejoining the shared bucket

// resyncPatient waits until every instance is served by the store again; see the file comment
// for how "never" is decided. Every poll is an ordinary call and is checked like any other.
func (t *tokCase) resyncPatient() bool {
	wd := time.Now().Add(outageWatchdog)
	for inst := range t.insts {
		units, need, strikes, polls := 0, t.patience, 0, 0
		lastUnit := time.Now()
		for !t.synced[inst] && !t.abort {
			if t.call(inst, t.pollN, "resync") {
				break
			}
			polls++
			t.c.Obs("token_resync_polls", 1)
			t.c.Obs("outage_rejoin_polls", 1)
			// the harness's own probe: same *redis.Redis, i.e. same connection pool and same breaker
			// as the probe of the instance's monitor
			if t.st.Ping() {
				t.c.Obs("outage_rejoin_harness_probes_ok", 1)
				if time.Since(lastUnit) >= monitorPeriod {
					units++
					lastUnit = time.Now()
				}
			} else {
				t.c.Obs("outage_rejoin_harness_probes_failed", 1)
				t.w.vc.Advance(breakerWindow)
			}
			if units >= need {
				strikes++
				if strikes >= 2 {
					o := t.lastOutage
					t.c.Obs("outage_instances_never_rejoined", 1)
					t.c.Viol("C03/token/stays-local-after-recovery/"+o.class(),
						fmt.Sprintf("instance %d still answers from its private limiter although the store has been reachable again for %d monitor periods in each of which the harness's own probe through the same client succeeded (patience %d, then doubled); the outage (cycle %d, %s) lasted %v of real time",
							inst, units, t.patience, o.cycle, o.kind, o.real.Round(time.Millisecond)), t.witness(""))
					t.abort = true
					return false
				}
				t.note("instance %d: %d monitor periods with a successful probe of the harness and still local; waiting twice as long again", inst, units)
				need = units + 2*t.patience
			}
			if time.Now().After(wd) {
				t.c.Inconclusive(fmt.Sprintf("an instance was not served by the store again within %v after the store came back and the harness's probes did not succeed often enough to decide (%d units)", outageWatchdog, units))
				t.abort = true
				return false
			}
			if polls < 12 {
				time.Sleep(20 * time.Millisecond)
			} else {
				time.Sleep(monitorPeriod)
			}
			t.advance(100 * time.Millisecond) // the next request comes a little later
		}
		if t.abort {
			break
		}
		if t.noticed != nil && !t.noticed[inst].IsZero() {
			t.c.Obs("outage_instances_rejoined", 1)
			if t.lastOutage.real > longOutage {
				t.c.Obs("outage_instances_rejoined_after_more_than_1s", 1)
				if !t.rejoinLong {
					t.rejoinLong, t.rejoinLongAt = true, len(t.recs)
				}
			}
			t.noticed[inst] = time.Time{}
		}
	}
	return !t.abort
}

// deniedAfterLongRejoin is the non-triviality rule of the outage families: an instance that had
// answered locally through an outage of more than a second of real time was store-served again,
// and afterwards the joint bucket ran dry (a store-served call was denied).
func (t *tokCase) deniedAfterLongRejoin() bool {
	if !t.rejoinLong {
		return false
	}
	for _, i := range t.storeIdx {
		if i >= t.rejoinLongAt && !t.recs[i].granted {
			return true
		}
	}
	return false
}

// ---------------------------------------------------------------- plans

type cyclePlan struct {
	class    lenClass
	jitter   time.Duration
	kind     string
	segments int
	notice   []int // per instance: 0 at once (hammered), 1 late (right before the store returns), 2 never
	gap      int   // before the cycle: 0 nothing, 1 a few healthy calls, 2 a short real pause, 3 drain
	lockstep bool  // virtual now follows the planned real time of the segments (else steps of its own)
}

const (
	noticeAtOnce = iota
	noticeLate
	noticeNever
)

// planCycles draws 1..3 outages whose planned real lengths fit the tier's budget. The class of
// the first outage rotates with (case index, slot) so that every class occurs whatever the seed.
func planCycles(r *kit.Rand, rot int, nInst int, net bool) []cyclePlan {
	g := gridSize()
	n := r.Pick(3, 3, 2) + 1
	left := outageBudget()
	var out []cyclePlan
	for i := 0; i < n; i++ {
		ci := r.Intn(g)
		if i == 0 {
			ci = rot % g
		}
		for ci > 0 && outageGrid[ci].d > left {
			ci--
		}
		if outageGrid[ci].d > left {
			break
		}
		cp := cyclePlan{class: outageGrid[ci]}
		left -= cp.class.d
		cp.jitter = time.Duration(r.Range(-40, 40)) * time.Millisecond
		switch r.Pick(4, 4, 2) {
		case 0:
			cp.kind = outHook
		case 1:
			cp.kind = outHook
			if net {
				cp.kind = outNet
			}
		default:
			cp.kind = outEvalOnly
		}
		cp.segments = r.Range(1, 3)
		cp.notice = make([]int, nInst)
		for k := range cp.notice {
			cp.notice[k] = r.Pick(6, 2, 1)
		}
		cp.notice[r.Intn(nInst)] = noticeAtOnce // somebody is in rescue mode for the whole outage
		cp.gap = r.Pick(2, 3, 2, 2)
		cp.lockstep = r.Bool()
		out = append(out, cp)
	}
	return out
}

func sleepUntil(t time.Time) {
	if d := time.Until(t); d > 0 {
		time.Sleep(d)
	}
}

// newOutageCase draws a token case (rate, burst, 1-4 instances on one key; half of them behind the
// proxy so that "unreachable" outages are possible) for one scenario and switches its resync to
// the patience rule.
func newOutageCase(c *kit.Case, w *world, scenario string) (*tokCase, bool) {
	net := c.R.Chance(0.5)
	t := newTokCase(c, w, net)
	t.notes = map[int]string{}
	t.patience = outagePatience
	t.scenario = scenario
	t.noticed = make([]time.Time, len(t.insts))
	return t, net
}

// beginRealOutage starts cycle cyc; returns the wall-clock instant it began.
func (t *tokCase) beginRealOutage(cyc int, cp cyclePlan) time.Time {
	t.outage = cp.kind
	t.hadOut = true
	began := time.Now()
	t.w.beginOutage(cp.kind)
	for k := range t.synced {
		t.synced[k] = false
		t.noticed[k] = time.Time{}
	}
	t.lastOutage = outageInfo{cycle: cyc, kind: cp.kind, planned: cp.class}
	t.note("store becomes %s (outage %d, planned to last about %s of real time)", cp.kind, cyc, cp.class.name)
	t.c.Obs("token_outages", 1)
	t.c.Obs("outage_cycles", 1)
	t.c.Obs("outage_planned_"+cp.class.name, 1)
	t.c.Obs("outage_kind_"+cp.kind, 1)
	return began
}

// endRealOutage lets the store come back and records how long it was away.
func (t *tokCase) endRealOutage(began time.Time) bool {
	o := t.lastOutage
	o.real = time.Since(began)
	t.lastOutage = o
	t.outagesLog = append(t.outagesLog, fmt.Sprintf("outage %d (%s, planned %s): %v", o.cycle, o.kind, o.planned.name, o.real.Round(time.Millisecond)))
	if o.real > longOutage {
		t.c.Obs("outage_real_length_over_1s", 1)
	} else {
		t.c.Obs("outage_real_length_up_to_1s", 1)
	}
	for _, at := range t.noticed {
		if !at.IsZero() && time.Since(at) > longOutage {
			t.c.Obs("outage_instances_in_rescue_mode_for_more_than_1s", 1)
		}
	}
	t.outage = ""
	t.note("store healthy again")
	if !t.w.heal(t.st) {
		t.c.Inconclusive("store did not come back for the harness after an outage")
		t.abort = true
		return false
	}
	return true
}

// ---------------------------------------------------------------- sequential scenarios

func runOutageSeqScenario(c *kit.Case, w *world, scenario string, rot int) {
	r := c.R
	w.reset()
	// 0: healthy calls first; 1: the first outage begins before any call was made; 2: the store
	// is already away when the instances are created
	start := r.Pick(5, 2, 2)
	t, net := newOutageCase(c, w, scenario)
	plans := planCycles(r, rot, len(t.insts), net)
	c.Obs("outage_scenarios", 1)
	c.Obs("outage_seq_scenarios", 1)
	switch start {
	case 0:
		c.Obs("outage_begins_after_healthy_calls", 1)
		for k := r.Range(1, 6); k > 0 && !t.abort; k-- {
			if r.Chance(0.4) {
				t.advance(t.pickStep(r))
			}
			t.call(r.Intn(len(t.insts)), t.pickN(r), "seq")
		}
		if r.Chance(0.4) {
			t.drain(r, "seq")
		}
	case 1:
		c.Obs("outage_begins_before_the_first_call", 1)
	}
	for cyc, cp := range plans {
		if t.abort {
			break
		}
		if cyc > 0 {
			switch cp.gap {
			case 1:
				for k := r.Range(1, 4); k > 0 && !t.abort; k-- {
					t.advance(t.pickStep(r))
					t.call(r.Intn(len(t.insts)), t.pickN(r), "seq")
				}
			case 2:
				time.Sleep(time.Duration(r.Range(30, 160)) * time.Millisecond)
			case 3:
				t.drain(r, "seq")
			}
			if t.abort {
				break
			}
		}
		began := t.beginRealOutage(cyc+1, cp)
		if cyc == 0 {
			if start == 2 {
				// instances born while the store is away
				c.Obs("outage_begins_before_the_instances_exist", 1)
				for i := range t.insts {
					t.insts[i] = limit.NewTokenLimiter(t.rate, t.burst, t.st, t.key)
				}
				t.note("the %d instances are created now, while the store is away", len(t.insts))
			}
		}
		planned := cp.class.d + cp.jitter
		for _, inst := range r.Perm(len(t.insts)) {
			if cp.notice[inst] == noticeAtOnce && !t.abort {
				t.hammerInst(r, inst)
			}
		}
		for s := 1; s <= cp.segments && !t.abort; s++ {
			sleepUntil(began.Add(planned * time.Duration(s) / time.Duration(cp.segments)))
			if cp.lockstep {
				t.advance((planned / time.Duration(cp.segments)).Truncate(time.Millisecond))
			} else if r.Chance(0.7) {
				t.advance(t.pickStep(r))
			}
			// (with scripts-fail-ping-ok the monitor's probe succeeds: every call below finds the
			// instance back on the store, fails there and starts the monitor once more)
			if s < cp.segments || cp.kind == outEvalOnly {
				for k := r.Range(0, 3); k > 0 && !t.abort; k-- {
					inst := r.Intn(len(t.insts))
					if cp.notice[inst] != noticeAtOnce {
						continue
					}
					t.call(inst, t.pickN(r), "outage")
				}
			}
		}
		for inst := range t.insts {
			if cp.notice[inst] == noticeLate && !t.abort {
				t.call(inst, t.pickN(r), "outage")
				if r.Bool() {
					t.call(inst, 1, "outage")
				}
			}
		}
		if t.abort || !t.endRealOutage(began) {
			break
		}
		if !t.resync() {
			break
		}
		c.Obs("token_recoveries", 1)
		c.Obs("outage_recoveries", 1)
		// back on the shared bucket: all instances together must run it dry, and refill it together
		mark := len(t.storeIdx)
		t.drain(r, "after-outage")
		for k := r.Range(0, 3); k > 0 && !t.abort; k-- {
			t.advance(t.pickStep(r))
			t.call(r.Intn(len(t.insts)), t.pickN(r), "after-outage")
		}
		c.Obs("outage_store_served_calls_after_recovery", int64(len(t.storeIdx)-mark))
	}
	t.nontriv = t.deniedAfterLongRejoin()
	c.Obs("token_x_histories", 1)
	t.finish("toutseq", nil)
	if c.Index < 2 && (strings.HasSuffix(scenario, "/0") || strings.HasSuffix(scenario, "/3")) {
		c.Sample("token-outage-seq", 2, t.witness("sample"))
	}
}

// ---------------------------------------------------------------- concurrent scenarios

type burstRes struct {
	first, total, asked int
	granted             int64
	ops                 []kitp.Op
	isig                string
	evDelta, shaDelta   int64
	envErr              bool
	now                 time.Time
}

// fireBurst runs G goroutines calling AllowN on the instances at one now; the records are
// appended with the given class. ok == false: watchdog (inconclusive, case aborted).
func (t *tokCase) fireBurst(r *kit.Rand, maxG int, class string) (*burstRes, bool) {
	c, w := t.c, t.w
	G := r.Range(2, maxG)
	if r.Chance(0.3) {
		G = r.Range(2, 4)
	}
	type plan struct{ inst, n int }
	plans := make([][]plan, G)
	b := &burstRes{now: t.now}
	for g := range plans {
		k := r.Range(1, 3)
		for j := 0; j < k && b.total < 32; j++ {
			pl := plan{r.Intn(len(t.insts)), t.pickN(r)}
			if r.Chance(0.5) {
				pl.n = 1
			}
			plans[g] = append(plans[g], pl)
			b.total++
			b.asked += pl.n
		}
	}
	if !w.quiet(t.sha) {
		c.Inconclusive("a script command reached the store between two harness calls (late or re-sent command)")
		t.abort = true
		return nil, false
	}
	now := t.now
	res := make([][]tokRec, G)
	start := make(chan struct{})
	var wg sync.WaitGroup
	evBefore, shaBefore, envBefore := w.evalsExec.Load(), w.shaSeen.Load(), w.envErrs.Load()
	for g := 0; g < G; g++ {
		wg.Add(1)
		go func(g int) {
			defer wg.Done()
			<-start
			for _, pl := range plans[g] {
				rec := tokRec{inst: pl.inst, now: now, n: pl.n, phase: "burst", g: g, class: class}
				rec.call = kit.Stamp()
				rec.granted = t.insts[pl.inst].AllowN(now, pl.n)
				rec.ret = kit.Stamp()
				res[g] = append(res[g], rec)
			}
		}(g)
	}
	close(start)
	done := make(chan struct{})
	go func() { wg.Wait(); close(done) }()
	select {
	case <-done:
	case <-time.After(watchdog):
		c.Inconclusive("concurrent TokenLimiter burst did not finish within the watchdog")
		t.abort = true
		return nil, false
	}
	c.Obs("token_bursts", 1)
	c.Obs("token_calls", int64(b.total))
	b.evDelta = w.evalsExec.Load() - evBefore
	t.sha = w.shaSeen.Load()
	b.shaDelta = t.sha - shaBefore
	b.envErr = w.envErrs.Load() != envBefore
	b.first = len(t.recs)
	var all []kit.Event
	for g := range res {
		for _, rec := range res[g] {
			t.recs = append(t.recs, rec)
			b.ops = append(b.ops, kitp.Op{Client: g, In: tokIn{now.Unix(), int64(rec.n)}, Out: rec.granted, Call: rec.call, Ret: rec.ret})
			all = append(all, kit.Event{S: rec.call, G: g, Op: "inv"}, kit.Event{S: rec.ret, G: g, Op: fmt.Sprintf("ret:%v", rec.granted)})
			if rec.granted {
				b.granted += int64(rec.n)
			}
		}
	}
	sortEvents(all)
	b.isig = kit.InterleavingSig(all, func(e kit.Event) string { return "t" })
	return b, true
}

// exactBurst: all instances are in sync with a reachable store; porcupine against the one bucket.
func (t *tokCase) exactBurst(r *kit.Rand) (string, bool) {
	c := t.c
	b, ok := t.fireBurst(r, 14, "store")
	if !ok {
		return "", false
	}
	if b.envErr {
		c.Inconclusive("the redis driver reported a network-level error in a fault-free burst")
		t.abort = true
		return "", false
	}
	if b.shaDelta > int64(b.total) {
		c.Inconclusive("the redis driver executed the script more often than there were calls in a burst (retry)")
		t.abort = true
		return "", false
	}
	if b.evDelta < int64(b.total) {
		c.Obs("token_synced_call_without_script", int64(b.total)-b.evDelta)
	}
	c.Obs("token_store_served", int64(b.total))
	avail := t.model.filled(int64(t.rate), int64(t.burst), b.now.Unix())
	c.Obs("porcupine_checks", 1)
	switch kitp.Check(tokenModel(t.rate, t.burst, t.model), b.ops, porcTimeout) {
	case kitp.Illegal:
		what := fmt.Sprintf("burst of %d concurrent calls (calls #%d..#%d, %d tokens asked, %d granted) cannot be explained by one bucket holding %d tokens (rate %d, burst %d) under any order compatible with real time",
			b.total, b.first, len(t.recs)-1, b.asked, b.granted, avail, t.rate, t.burst)
		c.Viol("C03/token/conc/not-linearizable/"+t.class(), what, t.witness(""))
		t.abort = true
	case kitp.Unknown:
		c.Inconclusive("porcupine timed out on a TokenLimiter burst")
		t.abort = true
	}
	if t.abort {
		return "", false
	}
	for i := b.first; i < len(t.recs); i++ {
		t.storeIdx = append(t.storeIdx, i)
		if t.recs[i].granted {
			c.Obs("token_store_grants", 1)
		} else {
			c.Obs("token_store_denials", 1)
			t.denied = true
		}
	}
	t.model = bucket{tokens: avail - b.granted, ts: b.now.Unix()}
	return b.isig, true
}

// localBurst: the store is away; every call of the burst is served by the private limiter of
// its instance (judged by localBound at the end of the history).
func (t *tokCase) localBurst(r *kit.Rand) (string, bool) {
	c := t.c
	b, ok := t.fireBurst(r, 10, "local")
	if !ok {
		return "", false
	}
	if b.evDelta > 0 {
		c.Inconclusive("a script reached the store although the harness holds it down")
		t.abort = true
		return "", false
	}
	for i := b.first; i < len(t.recs); i++ {
		inst := t.recs[i].inst
		t.localIdx[inst] = append(t.localIdx[inst], i)
		if t.noticed[inst].IsZero() {
			t.noticed[inst] = time.Now()
		}
	}
	c.Obs("token_local_served", int64(b.total))
	c.Obs("outage_local_bursts", 1)
	return "L" + b.isig, true
}

// recoveringBurst: the store is back but the harness does not know yet which instance has
// noticed. Which call was served by whom is not observable in a concurrent burst, so only a
// necessary condition is checked (all calls carry one now): the shared bucket held `avail`, and
// no private bucket ever holds more than burst. The model then follows the store.
func (t *tokCase) recoveringBurst(r *kit.Rand) (string, bool) {
	c := t.c
	avail := t.model.filled(int64(t.rate), int64(t.burst), t.now.Unix())
	b, ok := t.fireBurst(r, 10, "store-or-local")
	if !ok {
		return "", false
	}
	c.Obs("outage_bursts_while_rejoining", 1)
	t.note("burst above: the store had just come back, instances may or may not have noticed")
	bound := avail + int64(len(t.insts))*int64(t.burst)
	if b.granted > bound {
		c.Viol("C03/token/conc/burst-while-rejoining/over-bound",
			fmt.Sprintf("burst of %d concurrent calls at one instant (calls #%d..#%d) right after the store came back: %d tokens granted, but the shared bucket held %d and each of the %d instances may add at most its private bucket of %d",
				b.total, b.first, len(t.recs)-1, b.granted, avail, len(t.insts), t.burst), t.witness(""))
		t.abort = true
		return "", false
	}
	if b.evDelta > 0 && b.evDelta < int64(b.total) {
		c.Obs("outage_bursts_served_partly_by_the_store", 1)
	}
	t.adoptStore()
	return "R" + b.isig, !t.abort
}

func runOutageConcScenario(c *kit.Case, w *world, scenario string, rot int) {
	r := c.R
	w.reset()
	t, net := newOutageCase(c, w, scenario)
	plans := planCycles(r, rot, len(t.insts), net)
	c.Obs("outage_scenarios", 1)
	c.Obs("outage_conc_scenarios", 1)
	var isigs []any
	add := func(s string, ok bool) bool {
		if ok {
			isigs = append(isigs, s)
		}
		return ok && !t.abort
	}
	if r.Chance(0.6) {
		c.Obs("outage_begins_after_healthy_calls", 1)
		if r.Bool() {
			t.advance(t.pickStep(r))
		}
		add(t.exactBurst(r))
	} else {
		c.Obs("outage_begins_before_the_first_call", 1)
	}
	for cyc, cp := range plans {
		if t.abort {
			break
		}
		if cyc > 0 && cp.gap == 2 {
			time.Sleep(time.Duration(r.Range(30, 160)) * time.Millisecond)
		}
		began := t.beginRealOutage(cyc+1, cp)
		isigs = append(isigs, "outage:"+cp.kind+":"+cp.class.name)
		planned := cp.class.d + cp.jitter
		if !add(t.localBurst(r)) {
			break
		}
		for s := 1; s <= cp.segments && !t.abort; s++ {
			sleepUntil(began.Add(planned * time.Duration(s) / time.Duration(cp.segments)))
			if cp.lockstep {
				t.advance((planned / time.Duration(cp.segments)).Truncate(time.Millisecond))
			} else if r.Chance(0.7) {
				t.advance(t.pickStep(r))
			}
			if s < cp.segments && r.Chance(0.6) {
				add(t.localBurst(r))
			}
		}
		if t.abort || !t.endRealOutage(began) {
			break
		}
		if r.Chance(0.5) {
			if !add(t.recoveringBurst(r)) {
				break
			}
		}
		if !t.resync() {
			break
		}
		c.Obs("token_recoveries", 1)
		c.Obs("outage_recoveries", 1)
		for k := r.Range(1, 2); k > 0 && !t.abort; k-- {
			if r.Chance(0.7) {
				t.advance(t.pickStep(r))
			}
			if add(t.exactBurst(r)) {
				c.Obs("outage_exact_bursts_after_recovery", 1)
			}
		}
	}
	t.nontriv = t.deniedAfterLongRejoin()
	c.Obs("token_x_histories", 1)
	t.finish("toutconc", isigs)
	if c.Index < 2 && strings.HasSuffix(scenario, "/1") {
		c.Sample("token-outage-conc", 2, t.witness("sample"))
	}
}

// ---------------------------------------------------------------- batches

type worldPool struct {
	vc     *kit.VClock
	worlds []*world
}

func (p *worldPool) get(slot int) (*world, error) {
	for len(p.worlds) <= slot {
		w, err := newWorldWith(p.vc)
		if err != nil {
			return nil, err
		}
		p.worlds = append(p.worlds, w)
	}
	return p.worlds[slot], nil
}

func (p *worldPool) close() {
	for _, w := range p.worlds {
		w.close()
	}
}

// runOutageBatch runs `width` scenarios of one kit case concurrently, each in a world of its
// own and with a Case handle of its own (same id, family, index - a replay re-runs the whole
// batch - and an independent random stream).
func runOutageBatch(c *kit.Case, pool *worldPool, width int, conc bool) {
	c.Evals(int64(width))
	type crash struct {
		v     any
		stack string
	}
	crashes := make([]*crash, width)
	var wg sync.WaitGroup
	for slot := 0; slot < width; slot++ {
		w, err := pool.get(slot)
		if err != nil {
			c.Inconclusive("cannot build a world for a scenario: " + err.Error())
			continue
		}
		sub := &kit.Case{ID: c.ID, Family: c.Family, Index: c.Index, Seed: c.Seed, R: c.R.Split(fmt.Sprintf("scenario-%d", slot))}
		scenario := fmt.Sprintf("%s/%d", c.ID, slot)
		rot := c.Index*width + slot
		wg.Add(1)
		go func(slot int) {
			defer wg.Done()
			defer func() {
				if v := recover(); v != nil {
					crashes[slot] = &crash{v, string(debug.Stack())}
				}
			}()
			if conc {
				runOutageConcScenario(sub, w, scenario, rot)
			} else {
				runOutageSeqScenario(sub, w, scenario, rot)
			}
		}(slot)
	}
	done := make(chan struct{})
	go func() { wg.Wait(); close(done) }()
	select {
	case <-done:
	case <-time.After(scenarioWatchdg):
		c.Inconclusive("a batch of outage scenarios did not finish within its watchdog")
		return
	}
	for slot, cr := range crashes {
		if cr == nil {
			continue
		}
		if i := strings.Index(cr.stack, "panic("); i >= 0 && strings.Contains(cr.stack[i:], "go-zero/core/limit.") {
			c.Viol("C03/panic-in-go-zero/core/limit", fmt.Sprintf("go-zero panicked in scenario %d: %v", slot, cr.v), map[string]any{"panic": fmt.Sprint(cr.v), "stack": cr.stack})
			continue
		}
		panic(fmt.Sprintf("scenario %d: %v\n%s", slot, cr.v, cr.stack))
	}
}

// runOutageFamilies is called by TestVerifC03Ext (target "blackbox-ext") after the other
// extension families: the scenarios spend most of their time asleep, and the children of that
// target have wall time to spare. The virtual clock is the one of the child's main world.
func runOutageFamilies(t *testing.T, w *world) {
	pool := &worldPool{vc: w.vc}
	defer pool.close()
	width := 5
	if kit.Thorough() {
		width = 8
	}
	kit.Run(t, "C03", "token-outage-seq", kit.N(8, 48), func(c *kit.Case) { runOutageBatch(c, pool, width, false) })
	kit.Run(t, "C03", "token-outage-conc", kit.N(4, 24), func(c *kit.Case) { runOutageBatch(c, pool, width, true) })
}
