// Package kitp adapts recorded histories to porcupine (black-box packages only).
package kitp

import (
	"time"

	"github.com/anishathalye/porcupine"
)

// Op is one completed operation with logical call/return stamps.
type Op struct {
	Client int
	In     any
	Out    any
	Call   uint64
	Ret    uint64
}

// Verdict of a linearizability check.
type Verdict int

const (
	Ok Verdict = iota
	Illegal
	Unknown
)

// Check runs porcupine on ops against model with a timeout; Unknown means the
// checker timed out (inconclusive, never a violation).
func Check(model porcupine.Model, ops []Op, timeout time.Duration) Verdict {
	pops := make([]porcupine.Operation, len(ops))
	for i, o := range ops {
		pops[i] = porcupine.Operation{ClientId: o.Client, Input: o.In, Output: o.Out, Call: int64(o.Call), Return: int64(o.Ret)}
	}
	switch porcupine.CheckOperationsTimeout(model, pops, timeout) {
	case porcupine.Ok:
		return Ok
	case porcupine.Illegal:
		return Illegal
	default:
		return Unknown
	}
}
