package c19

// Family "seq-placement": deterministic interleaving placement at every
// store-command boundary of one Acquire / Release call.
//
// The statement's second sentence ("Release frees the key only when called by
// the current holder ... a late release by an expired holder never frees a lock
// that has since been taken by someone else") and the first ("Acquire succeeds
// only if no other instance holds the key unexpired") are claims about what one
// call does to the store AS A WHOLE. Histories that interleave whole calls only
// cannot tell an atomic call from one that looks at the key with one command
// and acts on it with another. This family can: through the client-side hook
// (cliHook, installed with go-zero's public redis.WithHook) a block of whole
// operations of OTHER instances -- typically "FastForward past A's lease;
// B.Acquire()", and variants in which B releases again, B re-acquires, or C
// takes the key after B -- is executed immediately before the k-th store command
// that the call under test issues. The scenario is replayed for k = 0, 1, 2, ...
// until the call ends before reaching its k-th command, so every boundary of the
// call is visited however many commands go-zero uses (one script today; two
// with the EVALSHA->NOSCRIPT->EVAL fallback, which some cases force so that
// boundary 1 is exercised on today's code as well).
//
// Oracle (nothing beyond the statement): the call under test overlaps the
// block, so it may take effect before the block, after it, or between two of
// its operations -- but at ONE point. The results of the call and of every
// block operation, and the store afterwards (holder's id and TTL to the
// millisecond), must equal what the reference model (holder | none, remaining
// lease) yields for at least one such point. Placed before command 0 nothing of
// the call has reached the store yet, so only "after the block" is admissible
// there. After a verdict the history goes on with whole operations under the
// ordinary online oracle (the third instance is refused while the new holder's
// lease runs, the new holder's Release is true, ...).

import (
	"fmt"
	"strings"
	"time"

	"verifharness/kit"
)

const maxPlacementK = 8

type mst struct {
	h   int   // holder, -1 = free
	rem int64 // remaining lease, ms
}

// mstep is the reference model for one whole operation.
func mstep(m mst, in cin, secs []int) (mst, bool) {
	switch in.K {
	case kAcq:
		if m.h < 0 || m.h == in.I {
			return mst{in.I, leaseMs(secs[in.I])}, true
		}
		return m, false
	case kRel:
		if m.h == in.I {
			return mst{-1, 0}, true
		}
		return m, false
	case kFF:
		if m.h >= 0 {
			m.rem -= in.D
			if m.rem <= 0 {
				m = mst{-1, 0}
			}
		}
	}
	return m, true
}

func kLabel(k int, fired bool) string {
	switch {
	case !fired:
		return "no-placement"
	case k >= 3:
		return "placement-before-cmd-3+"
	}
	return fmt.Sprintf("placement-before-cmd-%d", k)
}

func (r *seqRun) knownID(v string) bool {
	for _, id := range r.ids {
		if id == v {
			return true
		}
	}
	return false
}

// placed runs one Acquire/Release of instance a with `block` executed
// immediately before the k-th store command the call issues, and decides it.
// fired=false: the call ended without issuing a k-th command (block not run).
func (r *seqRun) placed(opRel bool, a, k int, block []cin) (fired bool) {
	call := cin{K: kAcq, I: a}
	opname := "Acquire"
	if opRel {
		call.K = kRel
		opname = "Release"
	}
	pre := mst{r.holder, r.rem}
	type bres struct {
		ok  bool
		err error
	}
	var res []bres
	fn := func() {
		for _, op := range block {
			switch op.K {
			case kFF:
				r.s.mr.FastForward(time.Duration(op.D) * time.Millisecond)
				vclock.Advance(goSide(op.D))
				res = append(res, bres{ok: true})
			case kAcq:
				ok, err := r.lk[op.I].Acquire()
				res = append(res, bres{ok, err})
				if err == nil && ok && r.ids[op.I] == "" {
					if v, e := r.s.mr.Get(r.key); e == nil && !r.knownID(v) {
						r.ids[op.I] = v
					}
				}
			case kRel:
				ok, err := r.lk[op.I].Release()
				res = append(res, bres{ok, err})
			}
		}
	}
	r.s.cli.arm(k, fn)
	var ok bool
	var err error
	if opRel {
		ok, err = r.lk[a].Release()
	} else {
		ok, err = r.lk[a].Acquire()
	}
	fired, cmds := r.s.cli.disarm()
	if !fired {
		block = nil
	}
	var lb strings.Builder
	fmt.Fprintf(&lb, "%s(%d){store commands of the call: %v", opname, a, cmds)
	if fired {
		fmt.Fprintf(&lb, "; immediately before command %d:", k)
		for j, op := range block {
			fmt.Fprintf(&lb, " %s", op)
			if op.K != kFF {
				fmt.Fprintf(&lb, "=%v%s", res[j].ok, errStr(res[j].err))
			}
		}
	}
	fmt.Fprintf(&lb, "}=%v%s", ok, errStr(err))
	r.log = append(r.log, lb.String())

	anyErr := err
	for _, b := range res {
		if anyErr == nil {
			anyErr = b.err
		}
	}
	if anyErr != nil {
		r.resync()
		r.inconclusive(fmt.Sprintf("placement: unexpected infrastructure error without a failing fault: %v", anyErr))
		return fired
	}
	if !r.accounted() {
		r.inconclusive("placement: calls returned without error, but " + r.retryEvidence())
		return fired
	}
	r.c.Obs("placement_replays", 1)
	if !fired {
		// the enumeration of this call's boundaries is complete
		r.c.Obs("placement_calls_enumerated_to_end", 1)
		r.c.Obs("placement_store_commands_of_enumerated_calls", int64(len(cmds)))
	} else {
		r.c.Obs("placement_fired", 1)
		switch {
		case k == 0:
			r.c.Obs("placement_fired_before_cmd_0", 1)
		case k == 1:
			r.c.Obs("placement_fired_before_cmd_1", 1)
		default:
			r.c.Obs("placement_fired_before_cmd_2plus", 1)
		}
	}
	if opRel {
		r.c.Obs("release_calls_ok", 1)
		r.c.Obs("release_calls_ok_store_commands", int64(len(cmds)))
	}
	// simulate: the call takes effect at position pos of the block
	st := r.store()
	type simOut struct {
		m     mst
		ok    bool // all results as observed
		lost  []bool
		anyEx bool
	}
	sim := func(pos int) simOut {
		o := simOut{m: pre, ok: true, lost: append([]bool(nil), r.lostByExpiry...)}
		apply := func(in cin, got bool, check bool) {
			before := o.m
			var exp bool
			o.m, exp = mstep(o.m, in, r.secs)
			if check && exp != got {
				o.ok = false
			}
			if in.K == kFF && before.h >= 0 && o.m.h < 0 {
				o.lost[before.h] = true
				o.anyEx = true
			}
			if in.K == kAcq && exp {
				o.lost[in.I] = false
			}
		}
		for j := 0; j <= len(block); j++ {
			if j == pos {
				apply(call, ok, true)
			}
			if j < len(block) {
				apply(block[j], res[j].ok, block[j].K != kFF)
			}
		}
		return o
	}
	lo := 0
	if fired && k == 0 {
		lo = len(block) // nothing of the call had reached the store when the block ran
	}
	matched := -1
	var chosen simOut
	for pos := len(block); pos >= lo; pos-- {
		o := sim(pos)
		if o.ok && r.matches(st, o.m.h, o.m.rem) {
			matched, chosen = pos, o
			break
		}
	}
	if matched < 0 {
		// the holder that the placed operations leave behind (what a call that comes last finds)
		left := pre
		for _, op := range block {
			left, _ = mstep(left, op, r.secs)
		}
		hb := left.h
		label := kLabel(k, fired)
		showsHb := hb >= 0 && st.exists && (r.ids[hb] == "" || r.ids[hb] == st.val)
		detail := fmt.Sprintf("%s by instance %d returned %v with the store left at %+v (= %s); before the call: holder %d with %d ms left; no single point of the call (before / inside / after the placed operations) explains the results and the store. If the call comes last the placed operations leave holder %d", opname, a, ok, st, r.whoIs(st.val), pre.h, pre.rem, hb)
		switch {
		case opRel && hb >= 0 && hb != a && !showsHb:
			r.viol("C19/release/freed-someone-elses-lock/"+label, detail)
		case opRel && ok && hb != a:
			r.viol("C19/release/true-by-non-holder/"+label, detail)
		case opRel:
			r.viol("C19/release/not-atomic/"+label, detail)
		case ok && hb >= 0 && hb != a && !showsHb:
			r.viol("C19/acquire/took-someone-elses-lock/"+label, detail)
		case ok && hb >= 0 && hb != a:
			r.viol("C19/acquire/granted-while-held-by-other/"+label, detail)
		default:
			r.viol("C19/acquire/not-atomic/"+label, detail)
		}
		return fired
	}
	// accepted: carry the model on
	r.holder, r.rem = chosen.m.h, chosen.m.rem
	copy(r.lostByExpiry, chosen.lost)
	if chosen.anyEx {
		r.keyExpired = true
	}
	if fired {
		switch {
		case matched == len(block):
			r.c.Obs("placement_call_took_effect_after_block", 1)
		case matched == 0:
			r.c.Obs("placement_call_took_effect_before_block", 1)
		default:
			r.c.Obs("placement_call_took_effect_inside_block", 1)
		}
		taken := false
		for j, op := range block {
			if op.K != kFF {
				r.placedNontrivial = true
			}
			if op.K == kAcq && res[j].ok && op.I != a {
				taken = true
			}
			if op.K == kAcq && !res[j].ok {
				r.deniedByOther = true
			}
		}
		if taken && pre.h == a {
			if opRel {
				// the statement's late-release clause at a command boundary of Release
				r.c.Obs("placement_release_takeover_inside_call", 1)
				if !ok {
					r.lateRelease = true
				}
			} else {
				r.c.Obs("placement_acquire_takeover_inside_call", 1)
			}
		}
		if !opRel && !ok {
			r.deniedByOther = true
		}
	}
	return fired
}

// buildBlock: the operations of the other instances x, y to be placed inside
// the call, relative to the model state (H, R) the call starts from.
func buildBlock(g *kit.Rand, variant int, H int, R int64, x, y int, secs []int) []cin {
	e := kit.Choose(g, []int64{0, 0, 1, 1, 2, int64(g.Range(3, 2000))})
	e2 := int64(g.Range(0, 1))
	sm := int64(g.Range(1, 400))
	var b []cin
	past := func() { // past the current holder's lease end (when there is one)
		if H >= 0 {
			b = append(b, cin{K: kFF, D: R + e})
		} else if g.Chance(0.5) {
			b = append(b, cin{K: kFF, D: sm})
		}
	}
	switch variant {
	case 0: // the lease runs out, x takes the key
		past()
		b = append(b, cin{K: kAcq, I: x})
	case 1: // ... and releases it again
		past()
		b = append(b, cin{K: kAcq, I: x}, cin{K: kRel, I: x})
	case 2: // ... and re-acquires (refresh)
		past()
		b = append(b, cin{K: kAcq, I: x}, cin{K: kFF, D: sm}, cin{K: kAcq, I: x})
	case 3: // x takes it, x's lease runs out too, y takes it
		past()
		b = append(b, cin{K: kAcq, I: x}, cin{K: kFF, D: leaseMs(secs[x]) + e2}, cin{K: kAcq, I: y})
	case 4: // not yet: 1 ms of lease left, x is refused
		if H >= 0 && R > 1 {
			b = append(b, cin{K: kFF, D: R - 1})
		}
		b = append(b, cin{K: kAcq, I: x})
	case 5: // the lease runs out, nobody takes the key
		past()
		if len(b) == 0 {
			b = append(b, cin{K: kFF, D: sm})
		}
	case 6: // x takes and releases, y takes
		past()
		b = append(b, cin{K: kAcq, I: x}, cin{K: kRel, I: x}, cin{K: kAcq, I: y})
	case 7: // no clock: x just tries
		b = append(b, cin{K: kAcq, I: x})
	case 8: // the other side releases (foreign release, or the holder gives the key up)
		who := x
		if H >= 0 && H == y {
			who = y
		}
		b = append(b, cin{K: kRel, I: who})
		if g.Bool() {
			b = append(b, cin{K: kAcq, I: x})
		}
	default: // random block
		m := mst{H, R}
		for j := g.Range(1, 4); j > 0; j-- {
			var op cin
			switch g.Pick(4, 4, 2) {
			case 0:
				d := sm
				if m.h >= 0 {
					d = m.rem + int64(g.Range(-1, 1))
				}
				if d <= 0 {
					d = 1
				}
				op = cin{K: kFF, D: d}
			case 1:
				op = cin{K: kAcq, I: kit.Choose(g, []int{x, x, y})}
			default:
				op = cin{K: kRel, I: kit.Choose(g, []int{x, y})}
			}
			b = append(b, op)
			m, _ = mstep(m, op, secs)
		}
	}
	return b
}

// placementReplay runs the scenario of case c with the block placed before the
// k-th store command of the call under test. The scenario is a pure function
// of the case seed, so all replays of one case are identical up to the call.
func placementReplay(c *kit.Case, k int) (fired bool, stopped bool) {
	g := kit.NewRand(c.Seed)
	const n = 3
	r := newSeqRun(c, mainSrv, n)
	r.isPlacement = true
	p := g.Perm(n)
	a, x, y := p[0], p[1], p[2]
	variant := c.Index % 10
	opRel := (c.Index/10)%5 < 3
	noscript := (c.Index/50)%4 == 3
	step := func(f func()) {
		if !r.stop {
			f()
		}
	}
	for i := 0; i < n; i++ {
		if s := kit.Choose(g, secChoices); s != 0 || g.Bool() {
			i, s := i, s
			step(func() { r.setExpire(i, s) })
		}
	}
	// how far into the running lease the call is made
	into := func() {
		if r.holder < 0 {
			return
		}
		switch g.Pick(3, 3, 2, 2) {
		case 0: // fresh lease
		case 1:
			step(func() { r.ff(r.rem - 1) }) // 1 ms left
		case 2:
			step(func() { r.ff(r.rem - 2) })
		default:
			if r.rem > 2 {
				step(func() { r.ff(1 + g.Int63n(r.rem-2)) })
			}
		}
	}
	pre := "a-holds"
	if opRel {
		switch g.Pick(7, 2, 1) {
		case 0:
			step(func() { r.acquire(a, false) })
			into()
		case 1: // a's lease is over already and x has the key: a's release comes late anyway
			pre = "a-expired-x-holds"
			step(func() { r.acquire(a, false) })
			step(func() { r.ff(r.rem + int64(g.Range(0, 1))) })
			step(func() { r.acquire(x, false) })
			into()
			x, y = y, x // the third instance is the first intruder
		default:
			pre = "free"
			if g.Bool() {
				step(func() { r.acquire(a, false) })
				step(func() { r.release(a, false) })
			}
		}
	} else {
		switch g.Pick(4, 3, 3) {
		case 0: // the holder re-acquires
			step(func() { r.acquire(a, false) })
			into()
		case 1:
			pre = "free"
			if g.Bool() {
				step(func() { r.acquire(a, false) })
				step(func() { r.ff(r.rem + int64(g.Range(0, 1))) })
			}
		default: // y holds: a is an outsider, x the intruder
			pre = "y-holds"
			step(func() { r.acquire(y, false) })
			into()
		}
	}
	if r.stop {
		r.conclude()
		return false, true
	}
	block := buildBlock(g, variant, r.holder, r.rem, x, y, r.secs)
	if noscript {
		// EVALSHA is answered NOSCRIPT: a script call becomes two store commands
		r.setFault(fNoScript)
	}
	fired = r.placed(opRel, a, k, block)
	if noscript {
		r.heal(true)
	}
	if fired && !r.stop {
		c.Obs("placement_fired_"+map[bool]string{true: "release", false: "acquire"}[opRel]+"_"+pre, 1)
		if noscript {
			c.Obs("placement_fired_under_noscript_fallback", 1)
		}
	}
	// the history goes on with whole operations: the survivor really holds the key
	step(func() { r.acquire(kit.Choose(g, []int{x, y}), false) })
	step(func() { r.release(a, false) })
	if h := r.holder; h >= 0 && !r.stop {
		if g.Bool() {
			step(func() { r.ff(r.rem - 1) })
			step(func() { r.acquire(a, false) })
		}
		step(func() { r.release(h, false) })
	}
	step(func() { r.acquire(a, false) })
	stopped = r.stop
	r.conclude()
	return fired, stopped
}

func seqPlacement(c *kit.Case) {
	for k := 0; ; k++ {
		fired, stopped := placementReplay(c, k)
		c.Evals(1)
		if !fired || stopped {
			return
		}
		if k == maxPlacementK {
			// a call that keeps issuing commands (polling?): bounded, and said so
			c.Obs("placement_enumeration_capped", 1)
			return
		}
	}
}
